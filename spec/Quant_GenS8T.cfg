SPECIFICATION SampleSpec
CONSTANTS
  N = 127
  GenMax <- G8_Max
  GenShapes <- GS_Shapes
  SampleK = 400
  GenVals <- GS_Vals
INVARIANT EmitMat
CHECK_DEADLOCK FALSE
