SPECIFICATION Spec
CONSTANTS
  Cfgs <- GEN_Idx
INVARIANT Emit
CHECK_DEADLOCK FALSE
