---- MODULE FDLattice ----
(***************************************************************************)
(* Frequent directions on AXIS-ALIGNED inputs, exact integer arithmetic.    *)
(* Pure operators (no variables) used by OCO.tla.                           *)
(*                                                                          *)
(* If every input row is a multiple of a coordinate vector, a = c^2 at      *)
(* coordinate j, then B^T B stays diagonal: the sketch is a vector of        *)
(* non-negative masses, the singular values of B are the square roots of     *)
(* the K largest masses, and the FD shrink subtracts the smallest squared    *)
(* singular value from all of them.  Frequent directions is equivariant      *)
(* under orthogonal changes of basis, so the harness feeds the real code     *)
(* the same history rotated by a random orthogonal Q and compares with the   *)
(* Q-conjugated lattice state.                                               *)
(*                                                                          *)
(* Two formulations:                                                         *)
(*  - documentation-shaped (DocShrink): masses per coordinate,               *)
(*      m = l + a e_j ;  rho2 = K-th largest of m ;  l' = max(m - rho2, 0)   *)
(*  - implementation-shaped (RowStep): K sketch rows <<coordinate, mass>>,   *)
(*      sorted by mass, the LAST ROW IS OVERWRITTEN by the input, as         *)
(*      precondition/oco/algorithms.py:_fd_update_fn does (B.at[-1].set).    *)
(* OCO.tla checks that the row machine refines the documented one, which     *)
(* needs (and shows) that the overwritten row is always zero.                *)
(***************************************************************************)
EXTENDS Integers, Sequences, FiniteSets, SequencesExt, Functions, FiniteSetsExt

Zeros(D) == [i \in 1..D |-> 0]
AddMass(l, j, a) == [i \in DOMAIN l |-> l[i] + IF i = j THEN a ELSE 0]
\* coordinates ordered by mass, descending (ties by index: irrelevant for the masses)
OrdDesc(m, D) == SortSeq([i \in 1..D |-> i], LAMBDA x, y : m[x] > m[y] \/ (m[x] = m[y] /\ x < y))
\* K-th largest mass (K <= D)
KthLargest(m, D, K) == m[OrdDesc(m, D)[K]]
\* documentation-shaped shrink
DocShrink(m, D, K) == LET r == KthLargest(m, D, K) IN
                      [l |-> [i \in 1..D |-> IF m[i] > r THEN m[i] - r ELSE 0], rho2 |-> r]

\* ---- implementation-shaped: rows ------------------------------------------------------
\* a row is [c |-> coordinate (0 = null direction: singular value 0), m |-> squared singular value]
NullRow == [c |-> 0, m |-> 0]
InitRows(K) == [r \in 1..K |-> NullRow]
\* mass the rows put on coordinate i  (diagonal of B^T B)
RowMass(rows, i) == FoldFunction(LAMBDA x, y : x + y, 0,
                                 [r \in DOMAIN rows |-> IF rows[r].c = i THEN rows[r].m ELSE 0])
RowsToL(rows, D) == [i \in 1..D |-> RowMass(rows, i)]
\* one step of _fd_update_fn on the lattice:
\*   B = P * e ; B[-1] = input ; svd ; rho = s[-1] ; s = (s-rho)(s+rho) ; P = vt ; e = sqrt(s)
\* `at` is the index of the overwritten row (K in the source; a parameter so that the model can say what
\* goes wrong for any other choice)
RowStep(rows, D, K, j, a, at) ==
  LET B    == [rows EXCEPT ![at] = [c |-> j, m |-> a]]
      m    == RowsToL(B, D)
      ord  == OrdDesc(m, D)
      sv2  == [r \in 1..K |-> m[ord[r]]]               \* squared singular values, descending
      rho2 == sv2[K]
  IN [rows |-> [r \in 1..K |-> IF sv2[r] - rho2 > 0 THEN [c |-> ord[r], m |-> sv2[r] - rho2] ELSE NullRow],
      rho2 |-> rho2,
      lost |-> rows[at].m]                              \* mass destroyed by the overwrite
====
