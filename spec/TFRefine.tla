------------------------------ MODULE TFRefine ------------------------------
(* Lockstep consistency of the two Tearfree views: TFControl (provenance) and TFTerms          *)
(* (coefficients) run on the same configuration; TLC checks that the statistics' coefficient    *)
(* support equals their provenance, the roots agree, and the graft / precondition decision      *)
(* agrees (incl. masked parameters and grafting NONE, where skip rules are ignored).            *)
EXTENDS Integers, Sequences, FiniteSets, TLC, Dyadic
CONSTANTS TCfgs, T
VARIABLES cfg, count, lrcount, stat, root, gacc, trace, upd, sdef,
          ccfg, ccount, statsProv, rootsProv, used, kind, svdAt
TM == INSTANCE TFTerms WITH Cfgs <- TCfgs
CT == INSTANCE TFControl WITH Cfgs <- {}, cfg <- ccfg, count <- ccount
tvars == <<cfg, count, lrcount, stat, root, gacc, trace, upd, sdef>>
cvars == <<ccfg, ccount, statsProv, rootsProv, used, kind, svdAt>>
Ctl(c) == [so |-> "shampoo", SF |-> c.SF, PF |-> c.PF, Start |-> c.start,
           graft |-> c.graft # "NONE", skipped |-> TM!Masked(c), ekfac |-> FALSE]
Init == /\ TM!Init /\ ccfg = Ctl(cfg) /\ CT!CfgOK(ccfg) /\ ccount = 0
        /\ statsProv = <<>> /\ rootsProv = CT!Identity /\ used = CT!Identity /\ kind = "none" /\ svdAt = -1
Next == TM!Step /\ CT!Update
Spec == Init /\ [][Next]_<<tvars, cvars>>
Range(s) == {s[i] : i \in DOMAIN s}
Support(f) == {k \in DOMAIN f : f[k] # D0}
Shift(S) == {n + 1 : n \in S}
CountsAgree == count = ccount /\ lrcount = ccount
StatsAgree  == Support(stat) = Shift(Range(statsProv))
RootAgree   == /\ (root = TM!IdRoot(TM!Steps)) <=> (rootsProv = CT!Identity \/ rootsProv = <<>>)
               /\ (rootsProv # CT!Identity) => Support(root) = Shift(Range(rootsProv))
KindAgree   == count > 0 => (sdef[count].pre <=> (kind = "precond"))
=============================================================================
