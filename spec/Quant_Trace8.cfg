SPECIFICATION TraceSpec
CONSTANTS
  N = 127
INVARIANT EmitVerdict
INVARIANT EmitStall
INVARIANT TypeOK
INVARIANT NoWrap
INVARIANT HalfBucket
INVARIANT RoundTrip
INVARIANT ZeroExact
INVARIANT MaxHitsN
INVARIANT ZeroColumn
INVARIANT SignKept
INVARIANT Idempotent
CHECK_DEADLOCK FALSE
