SPECIFICATION Spec
CONSTANTS
  Cfgs <- MC_Cfgs
  T = 14
INVARIANT TypeOK
INVARIANT StatsClosedForm
INVARIANT RootsClosedForm
INVARIANT SkippedHasNoState
PROPERTY CountStep
PROPERTY StatsCadence
PROPERTY RootsCadence
PROPERTY UsesFresh
PROPERTY Warmup
PROPERTY EkfacEveryStep
PROPERTY EkfacOnlyThen
CHECK_DEADLOCK FALSE
