---- MODULE InvRoot_Gen ----
(* Case export (spec -> code).  TLC enumerates the FULL case lattice of C01 and exports the *)
(* slice  Hash(case) % GEN_MOD = GEN_SLICE  (both from the environment, so the harness can  *)
(* widen the slice with the tier and move it with VERIF_SEED).  For every case the module's *)
(* own Mask action is taken and the line carries what the spec derives for it: the rows     *)
(* that carry data / receive ridge, the branch the call must take, the constants of the     *)
(* ridge rule, the interval the unreported estimate must lie in, the value the call         *)
(* denotes.  The worker builds the matrix and the candidate ridges from THIS record only.   *)
EXTENDS InvRoot, Json, IOUtils
VARIABLE hist
gvars == <<vars, hist>>

GEN_MOD     == atoi(IOEnv.GEN_MOD)        \* f64 cases: Hash % GEN_MOD = GEN_SLICE % GEN_MOD
GEN_MOD32   == atoi(IOEnv.GEN_MOD32)      \* f32 cases likewise (0: none)
GEN_SLICE   == atoi(IOEnv.GEN_SLICE)

Sum(s) == LET RECURSIVE S(_)
              S(i) == IF i = 0 THEN 0 ELSE s[i] * (i + 1) + S(i - 1)
          IN S(Len(s))
MIdx(me) == CASE me = "newton" -> 0 [] me = "eigh" -> 1 [] me = "lobpcg" -> 2
\* a hash that separates (almost) all coordinates - affine with spread-out multipliers plus two
\* quadratic terms, range < 5e5 - scrambled by a multiplication modulo a prime: slices are fine
\* grained for every modulus, every coordinate value occurs in every slice of moderate size
Hash0(c) == c.n * 7 + (c.ps + 1) * 131 + (IF c.fill = "junk" THEN 3001 ELSE 0) + Sum(c.exps) * 17
            + Len(c.exps) * 1009 + (c.c + 9) * 523 + c.p * 10007 + c.eexp * 257
            + (IF c.rel THEN 50021 ELSE 0) + MIdx(c.method) * 70001 + c.k * 911
            + c.p * (c.n + Len(c.exps)) * 37 + (c.c + 9) * c.eexp * 101
Hash(c) == (Hash0(c) * 1103) % 1000003

Full == Lattice({1, 2, 3, 5, 8, 16}, {0, 2, 4, 6, 8}, {-9, -6, 0, 6}, 1..8, {6, 12}, BOOLEAN,
                Methods, {"f64"})
\* sizes 1..3 have few spectra and would hardly occur in a slice: they are sampled 8x denser
\* and the LOBPCG variant (a quarter of the lattice, figure honest by construction) 4x sparser
ModFor(c, mod) == IF c.n <= 3 THEN (IF mod \div 8 = 0 THEN 1 ELSE mod \div 8)
                  ELSE IF c.method = "lobpcg" THEN mod * 4 ELSE mod
InSlice(c, mod) == Hash(c) % ModFor(c, mod) = GEN_SLICE % ModFor(c, mod)
GEN_Cases == LET F == Full
             IN {c \in F : InSlice(c, GEN_MOD)}
                \cup (IF GEN_MOD32 = 0 THEN {}
                      ELSE {[c EXCEPT !.dt = "f32"] : c \in {x \in F : InSlice(x, GEN_MOD32)}})

SetToSeq(S) == [i \in 1..Cardinality(S) |-> CHOOSE x \in S : Cardinality({y \in S : y < x}) = i - 1]

Derived ==
  [m |-> Unpadded(case), rows |-> SetToSeq(matrows), identRows |-> SetToSeq(ident),
   allpad |-> AllPad(case),
   branch |-> IF case.method = "eigh" THEN "eigh" ELSE IF case.n = 1 THEN "size1" ELSE "loop",
   floorExp |-> FloorExp(case), maxTries |-> MaxTries, escalation |-> Escalation,
   \* where the estimate scaling the ridge can be read from / must lie
   lamSource |-> IF case.method = "eigh" THEN "hidden" ELSE IF ~case.rel THEN "one" ELSE "reported_f32",
   lamBelowFloor |-> LamMaxBelowFloor(case),
   retriesFixed |-> IF case.method = "eigh" \/ case.n = 1 THEN 0 ELSE -1,
   figure |-> CASE case.method = "eigh" -> "eigendecomposition_residual"
                [] case.method = "lobpcg" -> "unconditioned_residual"
                [] case.n = 1 -> "size1_residual"
                [] OTHER -> "tracked_error",
   figureEscalated |-> case.method # "lobpcg",
   clip |-> case.method = "eigh"]

GInit == Init /\ hist = <<>>
GNext == Mask /\ hist' = Derived'
GSpec == GInit /\ [][GNext]_gvars
Emit == pc # "call" => PrintT("@@GEN " \o ToJson([case |-> case, derived |-> hist]))
====
