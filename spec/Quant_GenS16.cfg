SPECIFICATION SampleSpec
CONSTANTS
  N = 32767
  GenMax <- G16_Max
  GenShapes <- GS_Shapes
  SampleK = 40
  GenVals <- GS_Vals
INVARIANT EmitMat
CHECK_DEADLOCK FALSE
