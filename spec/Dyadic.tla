------------------------------ MODULE Dyadic ------------------------------
(* Normalised dyadic rationals <<m, e>> = m * 2^-e (e >= 0, m odd unless e = 0).  *)
(* TLC integers are 32-bit and overflow is an error, so every scalar the term      *)
(* machines manipulate (decays, weights, learning rates) is dyadic; dyadics are    *)
(* also exactly representable in float32, so the implementation receives exactly   *)
(* the hyper-parameters the specification reasons about.                            *)
EXTENDS Integers
RECURSIVE DNorm(_, _)
DNorm(m, e) == IF m = 0 THEN <<0, 0>>
               ELSE IF e > 0 /\ m % 2 = 0 THEN DNorm(m \div 2, e - 1) ELSE <<m, e>>
DMul(a, b) == DNorm(a[1] * b[1], a[2] + b[2])
DAdd(a, b) == LET e == IF a[2] > b[2] THEN a[2] ELSE b[2]
              IN DNorm(a[1] * 2^(e - a[2]) + b[1] * 2^(e - b[2]), e)
DNeg(a) == <<-a[1], a[2]>>
DSub(a, b) == DAdd(a, DNeg(b))
D0 == <<0, 0>>
D1 == <<1, 0>>
DInt(n) == <<n, 0>>
DLeq(a, b) == DSub(b, a)[1] >= 0
RECURSIVE DPow(_, _)
DPow(b, k) == IF k = 0 THEN D1 ELSE DMul(b, DPow(b, k - 1))
=============================================================================
