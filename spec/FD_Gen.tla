---- MODULE FD_Gen ----
(* Behaviour export (spec -> code) for FD.tla.                                        *)
(* One line per complete behaviour: the configuration, and per step the gradient      *)
(* (squared entries of the axis-aligned factor), the expected abstract state after    *)
(* the step as exact rationals (integer numerators over `den` = bd^n), the removed     *)
(* eigenvalue r, and two flags telling the harness where float arithmetic cannot be    *)
(* expected to reproduce a DISCONTINUOUS observation:                                  *)
(*   tie   the k-th and (k+1)-th eigenvalue coincide and are positive (a direction is   *)
(*         kept or dropped depending on the last bit; the sketch matrix is unaffected)  *)
(*   slack fewer than k directions carry mass (an empty slot: `has_zeros`, zeroed       *)
(*         column vs. a column with a 1e-8 eigenvalue)                                  *)
EXTENDS FD, Json
VARIABLE hist
gvars == <<vars, hist>>

Obs(g) ==
  LET gs == [i \in Coords |-> g[i] * cfg.bd^(n + 1)]
      s  == FDStep(l, t, gs, n)
  IN [g |-> g, den |-> cfg.bd^(n + 1), l |-> l', t |-> t', c |-> c', ia |-> ia',
      r |-> s.r, told |-> t,
      tie |-> (cfg.k < cfg.d /\ s.r > 0 /\ s.kth = s.r),
      slack |-> (Cardinality({i \in Coords : s.m[i] > s.r}) < cfg.k),
      maxarg |-> Max({l'[i] : i \in Coords}) + t']

GInit == Init /\ hist = <<>>
GNext == n < T /\ \E g \in GradsOf(cfg.d) : Step(g) /\ hist' = Append(hist, Obs(g))
GSpec == GInit /\ [][GNext]_gvars
Emit == n = T => PrintT("@@GEN " \o ToJson([cfg |-> cfg, steps |-> hist]))

Single(d, Sq) == {[i \in 1..d |-> IF i = j THEN s ELSE 0] : j \in 1..d, s \in Sq}
Multi(d) == {[i \in 1..d |-> 1], [i \in 1..d |-> IF i <= 2 THEN 4 ELSE 0],
             [i \in 1..d |-> IF i = 1 THEN 9 ELSE IF i = d THEN 0 ELSE 1]}
Mk(ds, ks, bs, rs) == {[d |-> dd, k |-> kk, bn |-> b[1], bd |-> b[2], ridge |-> rr] :
                        dd \in ds, kk \in ks, b \in bs, rr \in rs}
Decays == {<<1, 1>>, <<1, 2>>, <<3, 4>>}

\* exhaustive to depth 3 (quick): every behaviour of the listed configurations
GEN_GradsOf(d) == Single(d, {0, 1, 4}) \cup {[i \in 1..d |-> 1], [i \in 1..d |-> IF i <= 2 THEN 4 ELSE 0]}
GEN_Cfgs == Mk({4}, {2}, {<<1, 2>>, <<1, 1>>}, {0}) \cup Mk({4}, {1}, {<<3, 4>>}, {0})
            \cup Mk({4}, {2}, {<<1, 2>>}, {1})
\* exhaustive to depth 3 (thorough)
GENT_GradsOf(d) == Single(d, {0, 1, 4, 9}) \cup Multi(d)
GENT_Cfgs == Mk({4}, {1, 2}, Decays, {0}) \cup Mk({3}, {1, 3}, Decays, {0}) \cup Mk({5}, {3}, {<<1, 2>>}, {0})
             \cup Mk({4}, {1, 2}, {<<1, 2>>, <<1, 1>>}, {1})
\* per-step ridge (DS, relative_matrix_epsilon=False), depth 4: the gradient set contains a
\* gradient that fills three slots with distinct masses, so that many behaviours never have an
\* exactly empty slot (only those are replayed, see harness/props/c09.py)
GENR_GradsOf(d) == Single(d, {0, 4}) \cup
                   {[i \in 1..d |-> IF i = 1 THEN 9 ELSE IF i = 2 THEN 4 ELSE IF i = 3 THEN 1 ELSE 0]}
GENR_Cfgs == Mk({4}, {2}, {<<1, 2>>, <<1, 1>>}, {1}) \cup Mk({4}, {1}, {<<3, 4>>}, {2})
\* sampled deep behaviours (tlc -simulate)
SIM_GradsOf(d) == Single(d, {0, 1, 4, 9}) \cup Multi(d)
SIM_Cfgs == Mk({4, 5}, {1, 2, 3}, Decays, {0}) \cup Mk({3}, {1, 3}, Decays, {0})
            \cup Mk({4, 5}, {2}, {<<1, 2>>, <<1, 1>>}, {1, 2})
====
