---- MODULE DSFDControl_Gen ----
EXTENDS DSFDControl, Json
VARIABLE hist
gvars == <<vars, hist>>
GEN_Cfgs == [S : 1..3, avg : BOOLEAN, R : {0, 3, 4, 6}]
GInit == Init /\ hist = <<>>
\* sets are exported as sorted sequences by ToJson
GNext == Update /\ hist' = Append(hist, [ca |-> count', changed |-> sketch' # sketch, sketch |-> sketch', factor |-> factor'])
GSpec == GInit /\ [][GNext]_gvars
Emit == count = T => PrintT("@@GEN " \o ToJson([cfg |-> cfg, steps |-> hist]))
====
