SPECIFICATION Spec
CONSTANTS
  Cfgs <- MC_Cfgs
INVARIANT TypeOK
INVARIANT Progress
INVARIANT Correct
INVARIANT NoPadUse
INVARIANT BIntegral
INVARIANT RowMap
INVARIANT GatherOrder
INVARIANT PadMinimal
INVARIANT ShardRows
INVARIANT ElemShapeKept
PROPERTY PcOrder
PROPERTY ComputeOnce
CHECK_DEADLOCK FALSE
