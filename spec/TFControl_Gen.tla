---- MODULE TFControl_Gen ----
EXTENDS TFControl, Json
GEN_Cfgs == {c \in [so : {"shampoo", "sketchy"}, SF : 1..3, PF : 1..3, Start : {0, 2, 3},
                   graft : BOOLEAN, skipped : BOOLEAN, ekfac : BOOLEAN] :
                   CfgOK(c) /\ (c.ekfac => (c.Start = 0 /\ ~c.skipped)) /\ (~c.graft => c.Start = 0) /\ (c.skipped => c.Start = 0 /\ c.SF = 1 /\ c.PF = 1)}
VARIABLE hist
gvars == <<vars, hist>>
Obs == [ca |-> count', sc |-> statsProv' # statsProv, rc |-> rootsProv' # rootsProv,
        kind |-> kind', stats |-> statsProv', roots |-> rootsProv', svd |-> svdAt' # svdAt]
GInit == Init /\ hist = <<>>
GNext == Update /\ hist' = Append(hist, Obs)
GSpec == GInit /\ [][GNext]_gvars
Emit == count = T => PrintT("@@GEN " \o ToJson([cfg |-> cfg, steps |-> hist]))
====
