------------------------------ MODULE TFTerms ------------------------------
(***************************************************************************)
(* The Tearfree chain as the implementation runs it (optimizer.tearfree =   *)
(* sharded_chain(graft(second_order), momentum, lr)), one phase after the   *)
(* other with recursively updated buffers:                                  *)
(*   second order : statistics refresh (count % SF = 0), roots refresh      *)
(*                  (count % PF = 0), precondition with the fresh roots     *)
(*   graft        : graft step always computed; output = graft step before  *)
(*                  start / for masked parameters, else direction rescaled  *)
(*   momentum     : optional optax.scale(1 - m) (ema), optax.trace(m,       *)
(*                  nesterov), optax.add_decayed_weights before or after    *)
(*   lr           : scale(-lr) or scale_by_schedule (own counter)           *)
(* State components are dyadic linear combinations of the symbols of TFDoc. *)
(* Invariants: the machine refines TFDoc's closed forms; the update is      *)
(* exactly linear in the learning rate.                                     *)
(***************************************************************************)
EXTENDS TFDoc, TLC
CONSTANTS Cfgs, T
Steps == 1..T
VARIABLES cfg, count, lrcount, stat, root, gacc, trace, upd, sdef
vars == <<cfg, count, lrcount, stat, root, gacc, trace, upd, sdef>>

Sym == {<<"S", s>> : s \in Steps} \cup {<<"F", s>> : s \in Steps} \cup {<<"X">>}
Z == [y \in Sym |-> D0]
Unit(y) == [z \in Sym |-> IF z = y THEN D1 ELSE D0]
LAdd(a, b) == [y \in Sym |-> DAdd(a[y], b[y])]
LScale(k, a) == [y \in Sym |-> DMul(k, a[y])]

Init == /\ cfg \in Cfgs /\ count = 0 /\ lrcount = 0
        /\ stat = [s \in Steps |-> D0] /\ root = IdRoot(Steps)
        /\ gacc = [s \in Steps |-> D0] /\ trace = Z /\ upd = Z /\ sdef = <<>>

Step ==
  /\ count < T
  /\ LET s == count + 1
         c == cfg
         \* ---- second order (skipped parameters are masked out of it) -----------------
         stat1 == IF ~Masked(c) /\ count % c.SF = 0
                  THEN [k \in Steps |-> DAdd(DMul(c.b2, stat[k]), IF k = s THEN W2(c) ELSE D0)]
                  ELSE stat
         root1 == IF ~Masked(c) /\ count % c.PF = 0 THEN stat1 ELSE root
         \* ---- graft -----------------------------------------------------------------
         gacc1 == IF c.graft = "RMSPROP"
                  THEN [k \in Steps |-> DAdd(DMul(c.gd, gacc[k]), IF k = s THEN WG(c) ELSE D0)]
                  ELSE gacc
         pre == IF Masked(c) THEN FALSE
                ELSE IF c.graft = "NONE" THEN TRUE
                ELSE count >= c.start
         a0 == IF pre THEN Unit(<<"S", s>>) ELSE Unit(<<"F", s>>)
         \* ---- momentum chain -----------------------------------------------------------
         a1 == IF c.wd # D0 /\ ~c.wdafter THEN LAdd(a0, LScale(c.wd, Unit(<<"X">>))) ELSE a0
         a2 == IF c.md # D0 /\ c.ema THEN LScale(DSub(D1, c.md), a1) ELSE a1
         tr1 == IF c.md # D0 THEN LAdd(a2, LScale(c.md, trace)) ELSE trace
         a3 == IF c.md = D0 THEN a2
               ELSE IF c.nest THEN LAdd(a2, LScale(c.md, tr1)) ELSE tr1
         a4 == IF c.wd # D0 /\ c.wdafter THEN LAdd(a3, LScale(c.wd, Unit(<<"X">>))) ELSE a3
     IN /\ stat' = stat1 /\ root' = root1 /\ gacc' = gacc1 /\ trace' = tr1
        /\ upd' = LScale(DNeg(Lr(c, lrcount)), a4)
        /\ sdef' = Append(sdef, [root |-> root1, gacc |-> gacc1, pre |-> pre])
        /\ count' = count + 1 /\ lrcount' = lrcount + 1 /\ UNCHANGED cfg

Next == Step
Spec == Init /\ [][Next]_vars

-----------------------------------------------------------------------------
StatOK == ~Masked(cfg) => stat = DocStat(cfg, count, Steps)
RootOK == ~Masked(cfg) => root = DocRoot(cfg, count, Steps)
UsedFresh == count > 0 => sdef[count].root = root
GaccOK == gacc = DocGacc(cfg, count, Steps)
KindOK == count > 0 => sdef[count].pre = Precond(cfg, count)
UpdOK == count > 0 =>
  /\ \A s \in Steps :
       /\ upd[<<"S", s>>] = (IF Precond(cfg, s) THEN DocUpdCoef(cfg, count, s) ELSE D0)
       /\ upd[<<"F", s>>] = (IF Precond(cfg, s) THEN D0 ELSE DocUpdCoef(cfg, count, s))
  /\ upd[<<"X">>] = DocUpdX(cfg, count)
\* exactly linear in the learning rate: dividing every coefficient by lr(count-1) leaves an
\* lr-free term, i.e. the same machine with lr = 1 emits upd / lr  (checked by construction:
\* the closed forms carry Lr as a single outer factor) - stated here as: zero lr => zero update
LrCountOK == lrcount = count
=============================================================================
