SPECIFICATION Spec
CONSTANTS
  Cfgs <- MC_Cfgs
  T = 16
INVARIANT OnlyRefreshSteps
INVARIANT WindowSize
INVARIANT WindowsPartition
PROPERTY SketchCadence
PROPERTY ResetClears
CHECK_DEADLOCK FALSE
