SPECIFICATION Spec
CONSTANTS
  Slices <- GEN_Slices
INVARIANT Emit
CHECK_DEADLOCK FALSE
