SPECIFICATION GSpec
CONSTANTS
  MaxN = 4
  Scores <- GEN_Scores
  Dims <- GEN_Dims
  Bases <- GEN_Bases
  ExactInputs = FALSE
INVARIANT Emit
INVARIANT NoAssert
CHECK_DEADLOCK FALSE
