---------------------------- MODULE InvRootNum ----------------------------
(* Decimal floating point for ONE-SIDED comparisons inside TLC.                   *)
(*                                                                                *)
(* TLC has 32-bit integers and no reals.  The acceptance relation of InvRoot      *)
(* ("measured residual <= reported figure + slack") spans 1e-30 .. 1e+12, so a     *)
(* fixed-point scale cannot hold it.  A non-negative real is therefore carried as  *)
(* a NORMALISED decimal  <<m, e>>  ==  m * 10^e  with  m = 0 /\ e = 0  or           *)
(* 10^8 <= m < 10^9  (nine significant digits, everything below 2^31).            *)
(* Multiplying by a power of ten (ridge epsilon 10^-6 / 10^-12, escalation 10^i,   *)
(* scale classes 10^c) is exact: it only moves the exponent.  Every other          *)
(* operation states its rounding direction in its name; the trace spec uses them   *)
(* so that all rounding goes AGAINST acceptance (left sides up, right sides down). *)
EXTENDS Integers, Sequences

P10(k) == CASE k = 0 -> 1 [] k = 1 -> 10 [] k = 2 -> 100 [] k = 3 -> 1000
            [] k = 4 -> 10000 [] k = 5 -> 100000 [] k = 6 -> 1000000
            [] k = 7 -> 10000000 [] k = 8 -> 100000000 [] k = 9 -> 1000000000

DZero == <<0, 0>>
DOne  == <<P10(8), -8>>
DPow10(k) == <<P10(8), k - 8>>                 \* 10^k, exact

IsDec(x) == /\ x \in Seq(Int) /\ Len(x) = 2
            /\ \/ x[1] = 0 /\ x[2] = 0
               \/ x[1] >= P10(8) /\ x[1] < P10(9) /\ x[2] > -400 /\ x[2] < 400

\* normalise m * 10^e (0 <= m < 2^31); digits beyond the ninth are dropped (down)
RECURSIVE DNormDown(_, _)
DNormDown(m, e) == IF m = 0 THEN DZero
                   ELSE IF m >= P10(9) THEN DNormDown(m \div 10, e + 1)
                   ELSE IF m < P10(8) THEN DNormDown(m * 10, e - 1)
                   ELSE <<m, e>>

DFromInt(k) == DNormDown(k, 0)
DShift(a, k) == IF a[1] = 0 THEN a ELSE <<a[1], a[2] + k>>       \* a * 10^k, exact

DLe(a, b) == IF a[1] = 0 THEN TRUE
             ELSE IF b[1] = 0 THEN FALSE
             ELSE IF a[2] # b[2] THEN a[2] < b[2]
             ELSE a[1] <= b[1]
DLt(a, b) == ~DLe(b, a)

\* a + b rounded down (at most one unit of the ninth digit below the true sum)
DAddDown(a, b) ==
  LET hi == IF DLe(b, a) THEN a ELSE b
      lo == IF DLe(b, a) THEN b ELSE a
      sh == hi[2] - lo[2]
  IN IF lo[1] = 0 \/ sh >= 9 THEN hi
     ELSE DNormDown(hi[1] + (lo[1] \div P10(sh)), hi[2])          \* < 2 * 10^9 < 2^31

\* a * b rounded down: both mantissas cut to four digits (relative loss < 2.1e-3)
DMulDown(a, b) == IF a[1] = 0 \/ b[1] = 0 THEN DZero
                  ELSE DNormDown((a[1] \div P10(5)) * (b[1] \div P10(5)), a[2] + b[2] + 10)

\* 1 / a rounded down, a # 0.  The divisor is the four-digit prefix of a plus TWO units,
\* i.e. at least (1 + 1e-4) * a: the result is a lower bound of 1 / a' for every
\* a' <= a * (1 + 1e-4), which absorbs a down-rounded sum and a 2^-23 widening of a.
DInvDown(a) == DNormDown(P10(9) \div ((a[1] \div P10(5)) + 2), -14 - a[2])

DMax(a, b) == IF DLe(a, b) THEN b ELSE a
=============================================================================
