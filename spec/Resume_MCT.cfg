SPECIFICATION Spec
CONSTANTS
  T = 8
  MaxCrashes = 3
  MaxSaves = 4
  Cads <- MC_Cads
  Impl = "state"
INVARIANT TypeOK
INVARIANT LiveIsRef
INVARIANT DiskIsRef
INVARIANT OutIsRef
INVARIANT Bounded
PROPERTY StepRefines
PROPERTY CrashStutter
PROPERTY SaveStutter
PROPERTY HiddenLife
CHECK_DEADLOCK FALSE
