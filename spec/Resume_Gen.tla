---- MODULE Resume_Gen ----
(* Crash-schedule export (C14, fault enumeration): TLC enumerates every interleaving of     *)
(* Step / Save / CrashRestore up to the bounds; each complete behaviour is printed as the      *)
(* sequence of actions with the step count expected after each of them.  The harness          *)
(* executes the schedule on the real optimizers (Save = to_bytes, CrashRestore = fresh         *)
(* optimizer object + from_bytes) and compares state and updates bytewise with the            *)
(* uninterrupted run of the same configuration.  A schedule without any crash is exported      *)
(* too (Save must not disturb the live state).  Schedules that end with a Save are dropped:    *)
(* nothing observes that checkpoint.                                                          *)
EXTENDS Resume, Json
VARIABLE sched
gvars == <<vars, sched>>
Obs(a) == [a |-> a, ca |-> live'.count]
GInit == Init /\ sched = <<>>
GNext == \/ Step /\ sched' = Append(sched, Obs("step"))
         \/ Save /\ sched' = Append(sched, Obs("save"))
         \/ CrashRestore /\ sched' = Append(sched, Obs("crash"))
         \/ Finish /\ sched' = sched
GSpec == GInit /\ [][GNext]_gvars
Emit == (pc = "done" /\ sched[Len(sched)].a # "save") =>
          PrintT("@@GEN " \o ToJson([T |-> T, crashes |-> crashes, saves |-> saves, sched |-> sched]))
One == {[S |-> 1, P |-> 1]}
====
