SPECIFICATION Spec
CONSTANTS
  Cfgs <- GEN_Run
INVARIANT Emit
CHECK_DEADLOCK FALSE
