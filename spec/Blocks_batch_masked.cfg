SPECIFICATION Spec
CONSTANTS
  Layouts <- MC_Layouts
  CutoffScope = "batch"
  PadScope = "masked"
INVARIANT BlockLocal
INVARIANT ParamLocal
CHECK_DEADLOCK FALSE
