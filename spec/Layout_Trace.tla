---------------------------- MODULE Layout_Trace ----------------------------
(* Trace validation (code -> spec) for Layout.tla (property C07).              *)
(* A trace is the life of ONE optimizer object on one parameter tree:           *)
(*   {case: {opt, cfg, tree},                                                   *)
(*    events: [{a: "Construct", out},                                            *)
(*             {a: "InitState", out, layout, decl, pspec},                        *)
(*             {a: "Update", out, same, upd}, ...]}                                *)
(*   out     "ok" | "explicit" (ValueError/NotImplementedError raised by a raise   *)
(*           statement of /repo/precondition) | "internal" (anything else)         *)
(*   layout  structural signature of the initial state (same vocabulary as         *)
(*           Layout!InitLayout)                                                    *)
(*   decl / pspec  sharded mode: init_fn agrees with shape_and_dtype_fn / with      *)
(*           pspec_fn (TRUE in the other modes)                                     *)
(*   same    the state after this update has the layout of the initial state        *)
(*   upd     the updates have the parameters' structure, shapes and dtype           *)
(* Every event is explained by the Layout action of the same name after a list of   *)
(* named clauses (Verdict) has been evaluated; the first failing clause is the       *)
(* verdict of the trace.  Explicit rejections the spec does not predict, and         *)
(* acceptances of what the spec rejects, are allowed by the property: they end the    *)
(* trace with an "allowed_" verdict that the harness only counts.                     *)
EXTENDS Layout, Json, IOUtils

Traces == JsonDeserialize(IOEnv.TRACE_FILE)
NoSlices == <<>>

VARIABLES tid, l, bad
tvars == <<vars, tid, l, bad>>
Ev == Traces[tid].events

(* Recorded layouts are compared with plain equality.  The harness only sends    *)
(* layouts that conform to the node schema of the layout vocabulary (every field  *)
(* has its fixed kind: record, sequence, integer, boolean, string), so TLC never   *)
(* has to compare values of different kinds; a non-conforming state is reported    *)
(* by the harness itself and recorded as [ty |-> "unschematic"].                   *)
Same(a, b) == a = b

Verdict(e) ==
  IF e.a = "Construct" THEN
       IF phase # "new" THEN "event_out_of_order"
       ELSE IF e.out = "internal" THEN "internal_error_in_constructor"
       ELSE IF e.out = "explicit" /\ Rejects(case) = "none" THEN "allowed_rejection_not_in_spec"
       ELSE IF e.out = "ok" /\ Rejects(case) # "none" THEN "allowed_accepted_although_spec_rejects"
       ELSE "ok"
  ELSE IF e.a = "InitState" THEN
       IF phase # "constructed" THEN "event_out_of_order"
       ELSE IF e.out = "internal" THEN "internal_error_in_init"
       ELSE IF e.out = "explicit" /\ RejectsTree(case) = "none" THEN "allowed_rejection_not_in_spec"
       ELSE IF e.out = "ok" /\ RejectsTree(case) # "none" THEN "allowed_accepted_although_spec_rejects"
       ELSE IF e.out = "ok" /\ ~Same(e.layout, InitLayout(case))
            THEN "initial_layout_differs_from_specified_layout"
       ELSE IF e.out = "ok" /\ ~e.decl THEN "sharded_declared_shapes_differ_from_init"
       ELSE IF e.out = "ok" /\ ~e.pspec THEN "sharded_partition_specs_differ_from_init"
       ELSE "ok"
  ELSE IF e.a = "Update" THEN
       IF phase \notin {"inited", "updated"} THEN "event_out_of_order"
       ELSE IF e.out = "internal" THEN "internal_error_in_update"
       ELSE IF e.out = "explicit" THEN "allowed_rejection_not_in_spec"
       ELSE IF ~e.same /\ ~KnownDtypeDrift(case) THEN "state_layout_changed_by_update"
       ELSE IF ~e.same THEN "allowed_known_dtype_drift"
       ELSE IF ~e.upd THEN "updates_do_not_have_the_parameters_layout"
       ELSE "ok"
  ELSE "unknown_event"

TraceInit == /\ tid \in 1..Len(Traces) /\ l = 1 /\ bad = "ok"
             /\ case = Traces[tid].case
             /\ phase = "new" /\ outcome = "pending" /\ reason = "none" /\ layout = NoLayout

TraceStep ==
  /\ l <= Len(Ev) /\ bad = "ok"
  /\ LET e == Ev[l]
         v == Verdict(e)
     IN IF v = "ok"
        THEN /\ CASE e.a = "Construct" -> Construct
                  [] e.a = "InitState" -> InitState
                  [] e.a = "Update"    -> Update
             /\ l' = l + 1 /\ bad' = "ok"
        ELSE /\ bad' = v /\ UNCHANGED <<vars, l>>
  /\ UNCHANGED tid

TraceSpec == TraceInit /\ [][TraceStep]_tvars

(* after an accepted rejection event the spec is in phase "rejected": nothing may follow *)
Finished == (l = Len(Ev) + 1) \/ bad # "ok"
Info == [tid |-> tid, l |-> l, verdict |-> bad,
         rejects |-> IF Rejects(case) # "none" THEN Rejects(case) ELSE RejectsTree(case),
         lobpcg_small |-> case.opt = "ds" /\ Accepted(case) /\ DSLobpcgTooSmall(case.cfg, case.tree),
         zero_stat |-> case.opt = "ds" /\ DSZeroStatUnskipped(case.cfg, case.tree),
         drift |-> KnownDtypeDrift(case)]
EmitVerdict == Finished => PrintT("@@V " \o ToJson(Info))
Stalled == l <= Len(Ev) /\ bad = "ok" /\ ~ENABLED TraceStep
EmitStall == Stalled => PrintT("@@V " \o ToJson([Info EXCEPT !.verdict = "stalled_event_not_enabled_in_spec"]))
=============================================================================
