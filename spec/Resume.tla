------------------------------ MODULE Resume ------------------------------
(***************************************************************************)
(* Checkpoint / restore of an optimizer (property C14).                    *)
(*                                                                         *)
(* A training job owns                                                     *)
(*   live    the optimizer state pytree (what optax threads through        *)
(*           update): a step counter and opaque tensors, represented - in  *)
(*           the style of DSControl - by their PROVENANCE: which gradient  *)
(*           indices the statistics have absorbed, which statistics the    *)
(*           stored root was computed from;                                *)
(*   hidden  whatever the optimizer OBJECT keeps on the Python side        *)
(*           (closure cells, attributes, module-level caches): here the    *)
(*           number of update calls this object has served.  A correct     *)
(*           implementation never reads it;                                *)
(*   disk    the last checkpoint: flax.serialization.to_bytes(live).       *)
(*                                                                         *)
(* Actions (one per call the harness makes on the real code):              *)
(*   Step          u, live := opt.update(grad[live.count], live, params)   *)
(*   Save          disk := to_bytes(live)                live untouched     *)
(*   CrashRestore  the process dies; a NEW optimizer object is built from  *)
(*                 the same hyper-parameters, template := new.init(params),*)
(*                 live := from_bytes(template, disk); everything that is  *)
(*                 not in the state pytree (hidden) starts afresh.         *)
(*                 Training resumes with the gradient of step live.count   *)
(*                 (the data pipeline is a function of the step).          *)
(*                                                                         *)
(* The wrapped optimizer is abstract but not trivial: statistics absorb    *)
(* the gradient every S-th step, the stored root is refreshed from the     *)
(* statistics every P-th step (stale in between), the emitted update is a  *)
(* function of (gradient index, statistics, stored root, step used for the *)
(* schedule).  IMPLEMENTATION VARIANTS: Impl = "state" reads the step from *)
(* live.count (correct); Impl = "hidden" reads it from the Python-side     *)
(* call counter (the bug class C14 is about) - TLC shows the latter        *)
(* violates the properties, so they are not vacuous.                       *)
(*                                                                         *)
(* Property: after ANY interleaving of Step / Save / CrashRestore the live *)
(* state equals Ref(live.count), the state of the uninterrupted run, and   *)
(* every emitted update equals the uninterrupted run's update for that     *)
(* gradient index; CrashRestore and Save are stuttering steps of the       *)
(* uninterrupted run (refinement mapping: the prefix of updates emitted up *)
(* to the high-water mark hi).                                             *)
(***************************************************************************)
EXTENDS Integers, Sequences, FiniteSets, TLC

CONSTANTS T,           \* horizon: training is finished when live.count = T
          MaxCrashes,  \* bound on CrashRestore actions per behaviour
          MaxSaves,    \* bound on Save actions per behaviour
          Cads,        \* set of cadence records [S |-> .., P |-> ..]
          Impl         \* "state" | "hidden"

VARIABLES cad,      \* cadence of this behaviour
          live,     \* [count, stats, root]: the state pytree
          hidden,   \* Python-side call counter of the current optimizer object
          disk,     \* checkpoint: a value of live
          out,      \* the update emitted by the last Step (NoOut after Save / CrashRestore)
          hi,       \* high-water mark of live.count (how far the job ever got)
          crashes, saves, pc

vars == <<cad, live, hidden, disk, out, hi, crashes, saves, pc>>

Max(a, b) == IF a > b THEN a ELSE b

Identity == <<-1>>                      \* root installed by init
NoOut == [g |-> -1, stats |-> <<>>, root |-> <<>>, phase |-> -1]   \* no update emitted by the last action
InitState == [count |-> 0, stats |-> <<>>, root |-> Identity]

(***************************************************************************)
(* The wrapped optimizer's step, as a function.  `phase` is the step index *)
(* the implementation uses for its schedules.                              *)
(***************************************************************************)
StatsAfter(st, g, phase) == IF phase % cad.S = 0 THEN Append(st.stats, g) ELSE st.stats
RootAfter(st, g, phase)  == IF phase % cad.P = 0 THEN StatsAfter(st, g, phase) ELSE st.root
StepState(st, g, phase) == [count |-> st.count + 1, stats |-> StatsAfter(st, g, phase),
                            root |-> RootAfter(st, g, phase)]
StepOut(st, g, phase)   == [g |-> g, stats |-> StatsAfter(st, g, phase), root |-> RootAfter(st, g, phase),
                            phase |-> phase]

\* the uninterrupted run: state after c steps, update emitted by step c
RECURSIVE Ref(_)
Ref(c) == IF c = 0 THEN InitState ELSE StepState(Ref(c - 1), c - 1, c - 1)
RefOut(c) == StepOut(Ref(c), c, c)

PhaseUsed == IF Impl = "state" THEN live.count ELSE hidden

-----------------------------------------------------------------------------
Step ==
  /\ pc = "run" /\ live.count < T
  /\ LET g == live.count                   \* gradient of the step being (re)done
     IN /\ out' = StepOut(live, g, PhaseUsed)
        /\ live' = StepState(live, g, PhaseUsed)
  /\ hidden' = hidden + 1
  /\ hi' = Max(hi, live'.count)
  /\ UNCHANGED <<cad, disk, crashes, saves, pc>>

\* redundant checkpoints (same state already on disk) add nothing
Save ==
  /\ pc = "run" /\ saves < MaxSaves /\ disk # live
  /\ disk' = live
  /\ saves' = saves + 1
  /\ out' = NoOut
  /\ UNCHANGED <<cad, live, hidden, hi, crashes, pc>>

\* before the first Save the only checkpoint is the initial state (a job that crashes
\* before its first checkpoint starts from init(params))
CrashRestore ==
  /\ pc = "run" /\ crashes < MaxCrashes
  /\ live' = disk
  /\ hidden' = 0
  /\ crashes' = crashes + 1
  /\ out' = NoOut
  /\ UNCHANGED <<cad, disk, hi, saves, pc>>

Finish ==
  /\ pc = "run" /\ live.count = T
  /\ pc' = "done"
  /\ UNCHANGED <<cad, live, hidden, disk, out, hi, crashes, saves>>

InitRest ==
  /\ live = InitState /\ hidden = 0 /\ disk = InitState /\ out = NoOut
  /\ hi = 0 /\ crashes = 0 /\ saves = 0 /\ pc = "run"

Init == cad \in Cads /\ InitRest
Next == Step \/ Save \/ CrashRestore \/ Finish
Spec == Init /\ [][Next]_vars

-----------------------------------------------------------------------------
TypeOK == /\ live.count \in 0..T /\ hi \in 0..T /\ crashes \in 0..MaxCrashes /\ saves \in 0..MaxSaves
          /\ hidden \in Nat /\ pc \in {"run", "done"}

\* C14: the live state is the uninterrupted run's state for the same step count
LiveIsRef == live = Ref(live.count)
\* ... and so is everything that can ever be restored
DiskIsRef == disk = Ref(disk.count)
\* every emitted update is bit-for-bit the uninterrupted run's update for that gradient
OutIsRef  == out # NoOut => out = RefOut(out.g)
\* the job never gets ahead of itself, a restore never invents progress
Bounded   == live.count <= hi /\ disk.count <= hi

\* refinement: Step either re-emits an update the uninterrupted run already emitted (stutter)
\* or extends it by exactly the next one; Save / CrashRestore / Finish are stuttering steps
StepRefines  == [][live'.count = live.count + 1 =>
                     /\ out' = RefOut(live.count)
                     /\ hi' \in {hi, hi + 1} /\ (hi' = hi + 1 <=> live.count = hi)]_vars
CrashStutter == [][crashes' # crashes => (hi' = hi /\ live' = Ref(live'.count) /\ live'.count <= hi)]_vars
SaveStutter  == [][saves' # saves => (live' = live /\ hi' = hi /\ hidden' = hidden)]_vars
\* nothing but a fresh object resets the Python side, nothing but Step advances it
HiddenLife   == [][hidden' # hidden => (hidden' = hidden + 1 /\ live'.count = live.count + 1)
                                       \/ (hidden' = 0 /\ crashes' = crashes + 1)]_vars
=============================================================================
