SPECIFICATION GSpec
CONSTANTS
  Cfgs <- GENR_Cfgs
  GradsOf <- GENR_GradsOf
  T = 4
INVARIANT Emit
CHECK_DEADLOCK FALSE
