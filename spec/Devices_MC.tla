---- MODULE Devices_MC ----
(* Exhaustive configurations for Devices.tla.                                      *)
(*  MC_Cfgs   N = 0..30 statistics x D = 1..8 devices x {pmap, shard} x {full,       *)
(*            compressed} x both unbatch variants, on parameter trees mixing         *)
(*            vectors, matrices, rank-3 tensors, a skipped scalar and a parameter    *)
(*            that is cut into blocks; every order of the D replica computations     *)
(*            is explored (the state graph contains every subset of finished         *)
(*            replicas).                                                             *)
(*  MC1_Cfgs  the corner where EVERY statistic is 1x1: the "squeeze" unbatch loses   *)
(*            the matrix axes (ElemShapeKept is expected to FAIL there - the harness *)
(*            reproduces it on the real code), the "exact" one does not.             *)
EXTENDS Devices

Alphabet  == << <<3>>, <<4, 3>>, <<>>, <<2, 3, 2>>, <<9, 2>>, <<5>>, <<3, 10>> >>
\* every dimension > compression_rank + 2, so that every statistic is compressed
AlphabetC == << <<5>>, <<6, 5>>, <<>>, <<5, 6, 5>>, <<13, 6>>, <<7>> >>
Ones      == << <<1>>, <<1, 1>>, <<>>, <<1, 1, 1>> >>

Count(sh) == Len(ParamSizes(sh, 8))
\* a tree with exactly n statistics: walk the alphabet cyclically from position i
RECURSIVE TreeFor(_, _, _, _)
TreeFor(n, i, alph, acc) ==
  IF n = 0 THEN (IF acc = <<>> THEN << <<>> >> ELSE acc)      \* N = 0: one skipped scalar parameter
  ELSE LET sh == alph[(i % Len(alph)) + 1]
       IN IF Count(sh) <= n THEN TreeFor(n - Count(sh), i + 1, alph, Append(acc, sh))
          ELSE TreeFor(n, i + 1, alph, acc)

CfgsFor(ns, ds, modes, cranks, unb, alph) ==
  {[tree |-> TreeFor(n, n, IF c = 0 THEN alph ELSE AlphabetC, <<>>), B |-> 8, D |-> d,
    mode |-> m, crank |-> c, unbatch |-> u] :
      n \in ns, d \in ds, m \in modes, c \in cranks, u \in unb}

MC_Cfgs  == CfgsFor(0..30, 1..8, {"pmap", "shard"}, {0, 2}, {"squeeze", "exact"}, Alphabet)
MC1_Sq   == CfgsFor(1..6, 1..4, {"pmap"}, {0}, {"squeeze"}, Ones)
MC1_Ex   == CfgsFor(1..6, 1..4, {"pmap", "shard"}, {0}, {"exact"}, Ones)
           \cup CfgsFor(1..6, 1..4, {"shard"}, {0}, {"squeeze"}, Ones)
====
