SPECIFICATION TraceSpec
CONSTANTS
  Cases = {}
INVARIANT EmitVerdict
INVARIANT EmitStall
INVARIANT TypeOK
INVARIANT RetriesBound
INVARIANT BigMeansExhausted
INVARIANT EarlyMeansNotBig
INVARIANT RidgeConsistent
INVARIANT BaseConsistent
INVARIANT PaddingNoRidge
INVARIANT IdentityMasked
INVARIANT RidgeOnlyIfOverridden
INVARIANT MaskAgrees
INVARIANT AcceptedFinite
INVARIANT AllPadZero
INVARIANT OnlyAllPadZero
INVARIANT Size1NoRetry
INVARIANT EighNoRetry
INVARIANT FigureSource
CHECK_DEADLOCK FALSE
