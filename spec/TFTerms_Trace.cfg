SPECIFICATION TraceSpec
CONSTANTS
  Cfgs = {}
  T = 6
INVARIANT EmitVerdict
INVARIANT UpdOK
INVARIANT KindOK
INVARIANT LrCountOK
CHECK_DEADLOCK FALSE
