SPECIFICATION Spec
CONSTANTS
  T = 6
  MaxCrashes = 2
  MaxSaves = 3
  Cads <- MC_Cads
  Impl = "state"
INVARIANT TypeOK
INVARIANT LiveIsRef
INVARIANT DiskIsRef
INVARIANT OutIsRef
INVARIANT Bounded
PROPERTY StepRefines
PROPERTY CrashStutter
PROPERTY SaveStutter
PROPERTY HiddenLife
CHECK_DEADLOCK FALSE
