SPECIFICATION GSpec
CONSTANTS
  MaxN = 4
  Scores <- GENT_Scores
  Dims <- GEN_Dims
  Bases <- GEN_Bases
  ExactInputs = FALSE
INVARIANT Emit
INVARIANT NoAssert
CHECK_DEADLOCK FALSE
