---------------------------- MODULE DSFDControl ----------------------------
(***************************************************************************)
(* Frequent-directions mode of Distributed Shampoo (frequent_directions =   *)
(* True, compression_rank > 0, reuse_preconditioner = True, S = P): which   *)
(* gradients does the sketch absorb, and when is it reset?                  *)
(*   _compute_stats      : avg_grad window (average_grad) and the Cholesky  *)
(*                         factor of the (averaged) gradient, every S steps *)
(*   pad_and_maybe_zero_preconditioners : the previous sketch is zeroed     *)
(*                         when count % reset_frequency = 0                 *)
(*   _fd_update_root     : sketch' = FD(previous sketch, factor)            *)
(* A window is the set of step indices whose gradients are summed in        *)
(* avg_grad; the sketch's provenance is the sequence of windows absorbed    *)
(* since the last reset.  This module extends the specification beyond the  *)
(* listed properties (growth plan, DESIGN section 9).                        *)
(***************************************************************************)
EXTENDS Integers, Sequences, FiniteSets, TLC

CONSTANTS Cfgs, T
VARIABLES cfg, count, window, factor, sketch
vars == <<cfg, count, window, factor, sketch>>

\* cfg: [S (= P), avg : BOOLEAN, R : reset frequency or 0 (never)]
Init == /\ cfg \in Cfgs /\ count = 0 /\ window = {} /\ factor = {} /\ sketch = <<>>

Refresh == count % cfg.S = 0
Reset == cfg.R # 0 /\ count % cfg.R = 0

\* new_avg_grad = where(S == 1 or step % S == 1, grad, avg_grad + grad)
WindowAfter == IF ~cfg.avg THEN {}
               ELSE IF cfg.S = 1 \/ count % cfg.S = 1 THEN {count} ELSE window \cup {count}
\* the gradient handed to the statistics: the running sum / S, or the plain gradient
Absorbed == IF cfg.avg THEN WindowAfter ELSE {count}

Update ==
  /\ count < T
  /\ window' = WindowAfter
  /\ factor' = IF Refresh THEN Absorbed ELSE factor
  /\ sketch' = IF Refresh
               THEN Append(IF Reset THEN <<>> ELSE sketch, Absorbed)
               ELSE sketch
  /\ count' = count + 1
  /\ UNCHANGED cfg

Spec == Init /\ [][Update]_vars

RECURSIVE SeqUnion(_)
SeqUnion(s) == IF s = <<>> THEN {} ELSE Head(s) \cup SeqUnion(Tail(s))

\* with gradient averaging no gradient is lost or counted twice: at any time the windows absorbed
\* since the last reset are pairwise disjoint and cover exactly the steps from the first step of the
\* window that was absorbed at the reset up to the last refresh step
LastRefresh(n) == ((n - 1) \div cfg.S) * cfg.S
LastResetAt(lr) == IF cfg.R = 0 THEN 0 ELSE (lr \div cfg.R) * cfg.R
WindowsPartition ==
  (cfg.avg /\ count > 0 /\ (cfg.R = 0 \/ cfg.R % cfg.S = 0)) =>
     LET lr == LastRefresh(count)
         r == LastResetAt(lr)
     IN /\ \A i, j \in DOMAIN sketch : i # j => sketch[i] \cap sketch[j] = {}
        /\ SeqUnion(sketch) = {n \in 0..lr : n > r - cfg.S}
\* without averaging only refresh-step gradients are absorbed
OnlyRefreshSteps == ~cfg.avg => \A i \in DOMAIN sketch : \E n \in 0..T : sketch[i] = {n} /\ n % cfg.S = 0
SketchCadence == [][sketch' # sketch => count % cfg.S = 0]_vars
WindowSize == \A i \in DOMAIN sketch : Cardinality(sketch[i]) <= cfg.S
ResetClears == [][(count % cfg.S = 0 /\ cfg.R # 0 /\ count % cfg.R = 0) => Len(sketch') = 1]_vars
=============================================================================
