---- MODULE Quant_MC ----
(* Exhaustive configurations of Quant.                                                *)
(*  Col*: one column <<v, s*m>> (rank-1 tensor of length 2) for every column maximum   *)
(*        m in MaxSet, sign s in MaxSigns and every other entry v in -m..m: the         *)
(*        lattice of C11.  Bounded by N*m < 2^31 - 2^20 (TLC integers are 32 bit).       *)
(*  Mat*: every small square / rectangular matrix, extract_diagonal on and off.         *)
EXTENDS Quant
CONSTANTS MaxSet, MaxSigns, MatShapes, MatVals
Small == 1..300
\* int8: N-1, N, N+1, (near) multiples of N (2N gives exact ties at every odd v), 2^15, 2^16
MC8_Near == {126, 127, 128, 253, 254, 255, 380, 381, 382, 508, 635, 1016, 2032}
MC8_Max  == Small \cup MC8_Near \cup {32767}
MC8T_Max == MC8_Max \cup {32766, 32768, 65534, 65535} \cup (301..400)
\* int16: 32767 = 7*31*151; a divisor gives integer ratios, twice a divisor exact ties,
\* N/3 and N/2 neighbours give near ties
MC16_Near == {217, 434, 1057, 2114, 4681, 9362}
MC16_Max  == Small \cup MC16_Near \cup {32767}
MC16T_Max == MC16_Max \cup {10922, 10923, 16383, 16384, 32766, 32768} \cup (301..400)
OneSign == {1}
BothSigns == {-1, 1}
ColInit == \E m \in MaxSet : \E v \in (-m)..m : \E s \in MaxSigns :
             InitWith(<<<<v>>, <<s * m>>>>, FALSE)
ColSpec == ColInit /\ [][Next]_vars

MC_Vals == {-3, -1, 0, 2, 5}
MC_Shapes == {<<2, 2>>, <<3, 2>>}
MCT_Vals == {-3, -1, 0, 1, 2, 3, 5}
MCT_Shapes == {<<2, 2>>, <<3, 2>>, <<2, 3>>}
MCT3_Vals == {-2, 0, 1, 3}
MCT3_Shapes == {<<3, 3>>}
MatInit == \E sh \in MatShapes : \E t \in [1..sh[1] -> [1..sh[2] -> MatVals]] :
             \E flag \in BOOLEAN : (flag => sh[1] = sh[2]) /\ InitWith(t, flag)
MatSpec == MatInit /\ [][Next]_vars
====
