SPECIFICATION GSpec
CONSTANTS
  T = 8
  MaxCrashes = 2
  MaxSaves = 2
  Cads <- One
  Impl = "state"
INVARIANT Emit
CHECK_DEADLOCK FALSE
