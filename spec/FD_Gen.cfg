SPECIFICATION GSpec
CONSTANTS
  Cfgs <- GEN_Cfgs
  GradsOf <- GEN_GradsOf
  T = 3
INVARIANT Emit
CHECK_DEADLOCK FALSE
