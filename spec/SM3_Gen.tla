---- MODULE SM3_Gen ----
(* Behaviour export for replay into the real precondition.sm3.sm3 (spec -> code).     *)
(* One line per complete behaviour of cfg.T updates:                                    *)
(*   {cfg:{shape,bn,bd,T}, steps:[{g, nu, ex, acc, den}]}                               *)
(* g / nu / ex are flattened in row-major (C) order, acc[a] is the accumulator of axis   *)
(* a AFTER the update; nu, ex, acc are numerators over den = bd^(updates so far).        *)
EXTENDS SM3, Json, Randomization
CONSTANT Sample   \* 0: every gradient in [Idx -> cfg.vals]; k > 0: a random k-subset (for -simulate)
VARIABLES hist, gcur
gvars == <<vars, hist, gcur>>
RECURSIVE Stride(_, _)
Stride(sh, a) == IF a = Len(sh) THEN 1 ELSE sh[a + 1] * Stride(sh, a + 1)
Size == cfg.shape[1] * Stride(cfg.shape, 1)
IxOf(k) == [a \in Axes |-> (((k - 1) \div Stride(cfg.shape, a)) % cfg.shape[a]) + 1]
FlatOf(f) == [k \in 1..Size |-> f[IxOf(k)]]
GInit == Init /\ hist = <<>> /\ gcur = <<>>
GradChoices == IF Sample = 0 THEN [Idx -> cfg.vals] ELSE RandomSubset(Sample, [Idx -> cfg.vals])
GGrad == \E grad \in GradChoices : Moving(grad) /\ gcur' = grad /\ hist' = hist
GSketch == /\ Sketch /\ gcur' = gcur
           /\ hist' = Append(hist, [g |-> FlatOf(gcur), nu |-> FlatOf(nu), ex |-> FlatOf(exact),
                                    acc |-> acc', den |-> Pow(BD, n + 1)])
GNext == GGrad \/ GSketch
GSpec == GInit /\ [][GNext]_gvars
Emit == (pc = "grad" /\ n = cfg.T) =>
  PrintT("@@GEN " \o ToJson([cfg |-> [shape |-> cfg.shape, bn |-> BN, bd |-> BD, T |-> cfg.T],
                              steps |-> hist]))
Betas == {<<1, 1>>, <<1, 2>>}
C(sh, vals, T) == {[shape |-> sh, bn |-> b[1], bd |-> b[2], vals |-> vals, T |-> T] : b \in Betas}
\* exhaustive: every behaviour of depth <= 2 (depth 1 for the 6- and 8-entry tensors)
GEN_Cfgs == C(<<2>>, {-1, 0, 1, 2}, 2) \cup C(<<3>>, {-1, 0, 2}, 2) \cup C(<<2, 2>>, {-1, 0, 2}, 2)
            \cup C(<<2, 3>>, {-1, 0, 2}, 1) \cup C(<<2, 2, 2>>, {-1, 2}, 1)
GENT_Cfgs == GEN_Cfgs \cup C(<<2, 2, 2>>, {-1, 0, 2}, 1) \cup C(<<3, 2>>, {-2, 0, 1}, 1) \cup C(<<2, 2>>, {-2, 0, 1, 3}, 2) \cup C(<<2, 2, 2>>, {0, 1, -3}, 1)
\* sampled with -simulate: depth 3, more values, more shapes, decay 3/4
B3 == Betas \cup {<<3, 4>>}
S(sh, vals, T) == {[shape |-> sh, bn |-> b[1], bd |-> b[2], vals |-> vals, T |-> T] : b \in B3}
GENS_Cfgs == S(<<3>>, (-3)..3, 3) \cup S(<<2, 2>>, (-3)..3, 3) \cup S(<<2, 3>>, (-2)..3, 3)
             \cup S(<<3, 2>>, (-2)..3, 3) \cup S(<<2, 2, 2>>, (-2)..2, 3) \cup S(<<2, 3, 2>>, {-2, 0, 1, 3}, 3)
             \cup S(<<2, 1, 2, 2>>, {-2, 0, 1, 3}, 3) \cup S(<<4, 3>>, {-2, 0, 1, 3}, 3)
====
