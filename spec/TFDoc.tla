------------------------------- MODULE TFDoc -------------------------------
(***************************************************************************)
(* The Tearfree optimizer as documented (tearfree/optimizer.py docstrings, *)
(* momentum.Options, grafting.Options, shampoo.Options):                   *)
(*    update_t = -lr(t) * momentum( weight_decay( graft( second_order(     *)
(*                                   merge_and_pad(g_t) ))))               *)
(* as closed forms in the configuration c and the number t of updates.     *)
(* Gradient s is fed when count = s - 1.  Symbols:                         *)
(*    S(s)  second-order direction of step s rescaled to the graft norm    *)
(*          (the bare direction when grafting is NONE)                     *)
(*    F(s)  the graft step of step s                                       *)
(*    X     the parameter (weight decay)                                   *)
(* second-order statistics (per block and axis), count % SF = 0 refresh:   *)
(*    C_t = sum_{s refreshed <= t} w(s,t) Gram_s,  w = 1 (decay 1) or      *)
(*          (1-b) b^{#refreshes in s+1..t};  no epsilon*I term             *)
(* roots: inverse (2*rank)-th roots of C as of the last step with          *)
(*    (s-1) mod PF = 0, used immediately (no staleness)                    *)
(* momentum (decay m > 0): v_t = m v_{t-1} + w a_t, a_t = U_t (+ wd X if   *)
(*    weight decay comes before momentum), w = 1-m for ema else 1;         *)
(*    Nesterov: w a_t + m v_t; weight decay after momentum adds wd X to    *)
(*    the result; learning rate last, evaluated at count.                  *)
(***************************************************************************)
EXTENDS Integers, Sequences, FiniteSets, Dyadic

Lr(c, n) == IF c.lrs = "const" THEN c.lr
            ELSE DMul(c.lr, <<16 - (IF n < 8 THEN n ELSE 8), 4>>)
Wm(c) == IF c.ema THEN DSub(D1, c.md) ELSE D1
W2(c) == IF c.b2 = D1 THEN D1 ELSE DSub(D1, c.b2)
WG(c) == IF c.gd = D1 THEN D1 ELSE DSub(D1, c.gd)

StatRefresh(c, s) == (s - 1) % c.SF = 0
Refreshes(c, lo, hi) == Cardinality({j \in lo..hi : StatRefresh(c, j)})
DocStat(c, t, Steps) ==
  [k \in Steps |-> IF k <= t /\ StatRefresh(c, k)
                   THEN DMul(W2(c), DPow(c.b2, Refreshes(c, k + 1, t))) ELSE D0]
IdRoot(Steps) == [k \in Steps |-> D0]
LastRootStep(c, t) == ((t - 1) \div c.PF) * c.PF + 1
DocRoot(c, t, Steps) == IF t = 0 THEN IdRoot(Steps) ELSE DocStat(c, LastRootStep(c, t), Steps)

\* RMSProp graft accumulator (updated on every step with its own decay gd)
DocGacc(c, s, Steps) ==
  [k \in Steps |-> IF k > s \/ c.graft # "RMSPROP" THEN D0
                   ELSE DMul(WG(c), DPow(c.gd, s - k))]

\* a parameter excluded from preconditioning by the skip rules is masked out of the second-order
\* transform - but the skip rules are ignored when grafting is NONE (nothing to fall back on)
Masked(c) == c.skipped /\ c.graft # "NONE"
\* which symbol is the post-graft update of step s
Precond(c, s) == ~Masked(c) /\ (c.graft = "NONE" \/ s - 1 >= c.start)

RECURSIVE Geo(_, _)
Geo(b, n) == IF n = 0 THEN D0 ELSE DAdd(DPow(b, n - 1), Geo(b, n - 1))

WdBefore(c) == IF c.wd # D0 /\ ~c.wdafter THEN c.wd ELSE D0
WdAfter(c)  == IF c.wd # D0 /\ c.wdafter THEN c.wd ELSE D0

\* coefficient of the symbol of step s in the update emitted by step t
DocUpdCoef(c, t, s) ==
  LET vel == IF s <= t THEN DMul(Wm(c), DPow(c.md, t - s)) ELSE D0
      out == IF c.md = D0 THEN (IF s = t THEN D1 ELSE D0)
             ELSE IF c.nest THEN DAdd(IF s = t THEN Wm(c) ELSE D0, DMul(c.md, vel))
             ELSE vel
  IN DNeg(DMul(Lr(c, t - 1), out))
DocUpdX(c, t) ==
  LET velx == DMul(DMul(Wm(c), WdBefore(c)), Geo(c.md, t))
      out == IF c.md = D0 THEN WdBefore(c)
             ELSE IF c.nest THEN DAdd(DMul(Wm(c), WdBefore(c)), DMul(c.md, velx))
             ELSE velx
  IN DNeg(DMul(Lr(c, t - 1), DAdd(out, WdAfter(c))))
=============================================================================
