SPECIFICATION TraceSpec
INVARIANT EmitVerdict
CHECK_DEADLOCK FALSE
