------------------------------ MODULE Devices ------------------------------
(***************************************************************************)
(* How Distributed Shampoo spreads the inverse-root computations of the    *)
(* N statistics matrices of one optimizer over D devices                   *)
(* (precondition/distributed_shampoo.py), and what it must hand back.      *)
(*                                                                         *)
(* data-parallel path (mode "pmap"; _compute_preconditioners ->            *)
(* _pmap_compute_preconditioners / _pmap_quantized_compute_preconditioners, *)
(* every replica runs the same program):                                   *)
(*                                                                         *)
(*   Collect    statistics, exponents, original shapes of all parameters   *)
(*              in parameter order (_compute_preconditioners)              *)
(*   Pad        to_pad = -N % D identity statistics, exponent 1,           *)
(*              padding-start 0 are appended to THREE PARALLEL LISTS       *)
(*   Batch      batch(x, D): b = int(n / D); rows x[idx:idx+b] for         *)
(*              idx in range(0, n, b) - applied to each list separately    *)
(*   Compute(r) replica r = lax.axis_index takes row r of each list and    *)
(*              computes the b inverse roots of its row (vmap).  One       *)
(*              process per replica: the D computations are independent,   *)
(*              TLC explores every order in which they may finish          *)
(*   AllGather  barrier; every replica receives the rows of all replicas,  *)
(*              ordered by replica index                                   *)
(*   Unbatch    unbatch(): split along the replica axis, squeeze, split    *)
(*              along the per-replica axis (special-cased when b = 1),     *)
(*              squeeze - a flat row-major list                            *)
(*   Assign     zip(flat, original_shapes, ...) truncates the list to the  *)
(*              N real statistics and slices each root to its shape        *)
(*   Regroup    consecutive slices of num_statistics_per_state[k] roots go *)
(*              back to parameter k                                        *)
(*                                                                         *)
(* sharded path (mode "shard"; sharded_init_fn / sharded_update_fn):       *)
(*                                                                         *)
(*   the statistics live in ONE global array with a leading dimension      *)
(*   Rows = N + (-N % D)  (D when there is no statistic at all), computed  *)
(*   independently in three places (init, declared shapes, update) that    *)
(*   must agree; parameter k owns rows index_start[k] .. +len(sizes[k]);   *)
(*   device d computes the contiguous shard of Rows/D rows                 *)
(*   (PartitionSpec over the leading axis); ShardCombine reassembles.      *)
(*                                                                         *)
(* Numbers never enter.  A statistic is its identity (1..N, 0 = a padding  *)
(* identity matrix); an inverse root is the tagged triple                  *)
(*    Root(id, e, ps) = "the inverse e-th root of statistic id computed    *)
(*                        with padding_start ps"                           *)
(* so that feeding a replica the exponent or padding of ANOTHER statistic  *)
(* (lists batched with different strides, rows taken from different        *)
(* replicas) is visible.  Array SHAPES are modelled where the code         *)
(* manipulates them (squeeze in unbatch).                                  *)
(*                                                                         *)
(* Property C13: the roots handed back to every parameter are              *)
(* Root(own id, own exponent, own size) whatever D is and in whatever      *)
(* order the replicas finish - hence equal to the single-device result.    *)
(***************************************************************************)
EXTENDS Integers, Sequences, FiniteSets, TLC

CONSTANTS Cfgs      \* set of configuration records, see CfgOK

VARIABLES cfg,      \* configuration of this behaviour
          col,      \* statistics collected from the parameter tree (constant during a behaviour)
          pc,       \* program counter of the (replicated) host program
          packS,    \* packed list of statistic ids (after Pad)
          packE,    \* parallel list of exponents
          packP,    \* parallel list of padding starts (= true size of the statistic)
          rowsS, rowsE, rowsP,   \* the three lists after Batch: sequences of rows
          done,     \* replica index (0-based) |-> row of roots it has computed
          gathered, \* result of the all-gather: Seq over replicas of rows of roots
          flat,     \* result of Unbatch: flat list of [root, shape]
          result,   \* result of Assign: one [root, shape] per real statistic
          perParam  \* result of Regroup / of the sharded row lookup: Seq over parameters

vars == <<cfg, col, pc, packS, packE, packP, rowsS, rowsE, rowsP, done, gathered,
          flat, result, perParam>>

Min(a, b) == IF a < b THEN a ELSE b
Max(a, b) == IF a > b THEN a ELSE b

(***************************************************************************)
(* Configuration.                                                          *)
(*   tree     parameter tree: sequence of parameter shapes (<<>> = scalar) *)
(*   B        block_size (a dimension larger than B is split into blocks)  *)
(*   D        number of devices (pmap replicas / num_devices_for_pjit)     *)
(*   mode     "pmap" | "shard"                                             *)
(*   crank    compression_rank (0 = full preconditioners)                  *)
(*   unbatch  which unbatch() is modelled:                                 *)
(*            "exact":   only the two batching axes are removed (the code  *)
(*                       since /repo commit "fix: unbatch only drops the   *)
(*                       two batching axes");                              *)
(*            "squeeze": jnp.squeeze without an axis, as the function was  *)
(*                       written before: every unit dimension disappears,  *)
(*                       so 1x1 statistics lose their matrix axes and      *)
(*                       Assign cannot slice them (ElemShapeKept fails     *)
(*                       when EVERY statistic is 1x1).  The harness probes *)
(*                       the real function to see which one it is.         *)
(***************************************************************************)
CfgOK(c) ==
  /\ c.D \in Nat \ {0} /\ c.B \in Nat \ {0} /\ c.crank \in Nat
  /\ c.mode \in {"pmap", "shard"} /\ c.unbatch \in {"squeeze", "exact"}
  /\ \A k \in DOMAIN c.tree : \A j \in DOMAIN c.tree[k] : c.tree[k][j] \in Nat \ {0}

(***************************************************************************)
(* Statistics of a parameter tree (BlockPartitioner + Preconditioner with  *)
(* PreconditionerType.ALL, no dimension merging): a parameter of rank 0 is *)
(* skipped (no statistic); otherwise every dimension d is cut into         *)
(* ceil(d/B) chunks, the blocks are enumerated like itertools.product      *)
(* (last axis fastest) and every block contributes one statistic per axis, *)
(* of the size of its chunk.  The exponent is 2 * rank for all of them.    *)
(***************************************************************************)
Chunks(d, B) == [i \in 1..((d + B - 1) \div B) |-> IF i * B <= d THEN B ELSE d - (i - 1) * B]

\* all block size tuples of a shape, itertools.product order
RECURSIVE Blocks(_, _)
Blocks(sh, B) ==
  IF sh = <<>> THEN << <<>> >>
  ELSE LET rest == Blocks(Tail(sh), B)
           ch   == Chunks(Head(sh), B)
           n    == Len(rest)
       IN [q \in 1..(Len(ch) * n) |-> <<ch[((q - 1) \div n) + 1]>> \o rest[((q - 1) % n) + 1]]

\* sizes of the statistics of one parameter, in state order
RECURSIVE Flatten(_)
Flatten(ss) == IF ss = <<>> THEN <<>> ELSE Head(ss) \o Flatten(Tail(ss))
ParamSizes(sh, B) == IF sh = <<>> THEN <<>> ELSE Flatten(Blocks(sh, B))
ParamExp(sh) == 2 * Len(sh)

\* What the code collects by walking the parameters in order (_compute_preconditioners:
\* statistics / exponents / original_shapes / num_statistics_per_state / max_size;
\* sharded_init_fn: the same plus index_start).  Evaluated once per configuration.
RECURSIVE SumSeq(_, _)
SumSeq(s, k) == IF k = 0 THEN 0 ELSE SumSeq(s, k - 1) + s[k]
RECURSIVE MaxSeq(_)
MaxSeq(s) == IF s = <<>> THEN 0 ELSE Max(Head(s), MaxSeq(Tail(s)))
Collect(c) ==
  LET per == [k \in 1..Len(c.tree) |-> ParamSizes(c.tree[k], c.B)]
      cnt == [k \in 1..Len(c.tree) |-> Len(per[k])]
  IN [sizes   |-> Flatten(per),
      exps    |-> Flatten([k \in 1..Len(c.tree) |-> [j \in 1..cnt[k] |-> ParamExp(c.tree[k])]]),
      counts  |-> cnt,                                             \* num_statistics_per_state
      starts  |-> [k \in 1..Len(c.tree) |-> SumSeq(cnt, k - 1)],   \* index_start (0-based)
      maxsize |-> MaxSeq(Flatten(per))]

NP == Len(cfg.tree)
N  == Len(col.sizes)
NumStats(k) == col.counts[k]
SumTo(k) == IF k = 0 THEN 0 ELSE col.starts[k] + col.counts[k]   \* statistics of parameters 1..k
SizeOf(i) == col.sizes[i]
ExpOf(i)  == col.exps[i]
MaxSize   == col.maxsize

\* _precond_dim: columns of a (packed) preconditioner for a statistic of size m
PrecondDim(m) == IF cfg.crank # 0 /\ cfg.crank + 2 < m THEN cfg.crank + 2 ELSE m

Root(id, e, ps) == [id |-> id, exp |-> e, ps |-> ps]
\* what the single-device optimizer computes for statistic i
Want(i) == Root(i, ExpOf(i), SizeOf(i))

(***************************************************************************)
(* Python helpers, transcribed.                                            *)
(***************************************************************************)
ToPad(n, d) == (-n) % d                      \* Python: -n % d, in 0..d-1

\* batch(x, D): b = int(n / D); [x[idx:idx+b] for idx in range(0, n, b)]
\* (range with step 0 raises: Batch is only used with b > 0)
BatchB(x) == Len(x) \div cfg.D
Batch(x) == LET n == Len(x)
                b == BatchB(x)
            IN [q \in 1..((n + b - 1) \div b) |-> SubSeq(x, (q - 1) * b + 1, Min(q * b, n))]

\* jnp.squeeze without an axis drops EVERY unit dimension
SqueezeAll(sh) == SelectSeq(sh, LAMBDA d : d # 1)
\* element shape that comes out of unbatch for elements of shape es
UnbatchShape(es) == IF cfg.unbatch = "squeeze" THEN SqueezeAll(es) ELSE es

\* p[:shape[0], :shape[1]] needs a rank-2 array
Sliceable(sh) == Len(sh) = 2

-----------------------------------------------------------------------------
(* data-parallel path *)

Pad ==
  /\ pc = "start" /\ cfg.mode = "pmap"
  /\ LET tp == ToPad(N, cfg.D)
     IN /\ packS' = [i \in 1..(N + tp) |-> IF i <= N THEN i ELSE 0]
        /\ packE' = [i \in 1..(N + tp) |-> IF i <= N THEN ExpOf(i) ELSE 1]
        /\ packP' = [i \in 1..(N + tp) |-> IF i <= N THEN SizeOf(i) ELSE 0]
  \* `if not packed_statistics: return states`
  /\ pc' = IF N = 0 THEN "end" ELSE "padded"
  /\ perParam' = IF N = 0 THEN [k \in 1..NP |-> <<>>] ELSE perParam
  /\ UNCHANGED <<cfg, col, rowsS, rowsE, rowsP, done, gathered, flat, result>>

BatchAll ==
  /\ pc = "padded"
  /\ BatchB(packS) > 0
  /\ rowsS' = Batch(packS) /\ rowsE' = Batch(packE) /\ rowsP' = Batch(packP)
  /\ pc' = "batched"
  /\ UNCHANGED <<cfg, col, packS, packE, packP, done, gathered, flat, result, perParam>>

\* replica r (0-based, lax.axis_index) computes its row: all_x[current_replica]
Compute(r) ==
  /\ pc = "batched" /\ r \in 0..(cfg.D - 1) /\ r \notin DOMAIN done
  /\ r + 1 \in DOMAIN rowsS
  /\ done' = done @@ (r :> [j \in DOMAIN rowsS[r + 1] |->
                               Root(rowsS[r + 1][j], rowsE[r + 1][j], rowsP[r + 1][j])])
  /\ UNCHANGED <<cfg, col, pc, packS, packE, packP, rowsS, rowsE, rowsP, gathered, flat, result, perParam>>

\* jax.lax.all_gather: a barrier; rows ordered by replica index
AllGather ==
  /\ pc = "batched" /\ DOMAIN done = 0..(cfg.D - 1)
  /\ gathered' = [q \in 1..cfg.D |-> done[q - 1]]
  /\ pc' = "gathered"
  /\ UNCHANGED <<cfg, col, packS, packE, packP, rowsS, rowsE, rowsP, done, flat, result, perParam>>

\* unbatch(): row-major flattening of the [D, b, M, PrecondDim(M)] array
Unbatch ==
  /\ pc = "gathered"
  /\ LET es == <<MaxSize, PrecondDim(MaxSize)>>
     IN flat' = [q \in 1..Len(Flatten(gathered)) |->
                    [root |-> Flatten(gathered)[q], shape |-> UnbatchShape(es)]]
  /\ pc' = "unbatched"
  /\ UNCHANGED <<cfg, col, packS, packE, packP, rowsS, rowsE, rowsP, done, gathered, result, perParam>>

\* zip(preconditioners_flat, original_shapes, ...): truncation to the shorter list;
\* p[:shape[0], :shape[1]] keeps rank 2 arrays only
Assign ==
  /\ pc = "unbatched"
  /\ result' = [i \in 1..Min(N, Len(flat)) |-> flat[i]]
  /\ pc' = "assigned"
  /\ UNCHANGED <<cfg, col, packS, packE, packP, rowsS, rowsE, rowsP, done, gathered, flat, perParam>>

\* new_preconditioners_flat[idx : idx + num_statistics]; idx += num_statistics
Regroup ==
  /\ pc = "assigned"
  /\ Len(result) = N           \* assert len(new_preconditioners_flat) == num_statistics
  /\ perParam' = [k \in 1..NP |-> SubSeq(result, SumTo(k - 1) + 1, SumTo(k))]
  /\ pc' = "end"
  /\ UNCHANGED <<cfg, col, packS, packE, packP, rowsS, rowsE, rowsP, done, gathered, flat, result>>

-----------------------------------------------------------------------------
(* sharded path *)

\* leading dimension of the global arrays, as computed in three places
RowsInit     == LET tp == IF MaxSize = 0 THEN cfg.D ELSE ToPad(N, cfg.D) IN N + tp        \* sharded_init_fn
RowsDeclared == LET n == N + ToPad(N, cfg.D) IN IF n = 0 THEN cfg.D ELSE n                 \* sharded_init_shape_and_dtype_fn
RowsUpdate   == LET tp == IF N = 0 THEN cfg.D ELSE ToPad(N, cfg.D) IN N + tp               \* sharded_update_fn
IndexStart(k) == col.starts[k]                                                            \* LocalShardedParameterStats.index_start

\* sharded_update_fn re-stacks the statistics of all parameters and pads them;
\* exponents come from the global state written by sharded_init_fn
ShardPad ==
  /\ pc = "start" /\ cfg.mode = "shard"
  /\ packS' = [i \in 1..RowsUpdate |-> IF i <= N THEN i ELSE 0]
  /\ packE' = [i \in 1..RowsInit |-> IF i <= N THEN ExpOf(i) ELSE 1]
  /\ packP' = [i \in 1..RowsUpdate |-> IF i <= N THEN SizeOf(i) ELSE 0]
  /\ pc' = "spadded"
  /\ UNCHANGED <<cfg, col, rowsS, rowsE, rowsP, done, gathered, flat, result, perParam>>

\* device d owns the d-th contiguous shard of the leading axis
ShardOf(d) == LET c == Len(packS) \div cfg.D IN (d * c + 1)..((d + 1) * c)
ShardCompute(d) ==
  /\ pc = "spadded" /\ d \in 0..(cfg.D - 1) /\ d \notin DOMAIN done
  /\ Len(packS) = Len(packE)               \* vmap over arrays of equal leading dimension
  /\ done' = done @@ (d :> [i \in ShardOf(d) |-> Root(packS[i], packE[i], packP[i])])
  /\ UNCHANGED <<cfg, col, pc, packS, packE, packP, rowsS, rowsE, rowsP, gathered, flat, result, perParam>>

\* with_sharding_constraint back to the statistics layout: row i from its owner
ShardCombine ==
  /\ pc = "spadded" /\ DOMAIN done = 0..(cfg.D - 1)
  /\ LET c == Len(packS) \div cfg.D
         es == <<MaxSize, PrecondDim(MaxSize)>>
     IN flat' = [i \in 1..Len(packS) |-> [root |-> done[(i - 1) \div c][i], shape |-> es]]
  /\ pc' = "scombined"
  /\ UNCHANGED <<cfg, col, packS, packE, packP, rowsS, rowsE, rowsP, done, gathered, result, perParam>>

\* _convert_to_parameter_stats (next update): rows index_start .. index_start + len(sizes)
ShardLookup ==
  /\ pc = "scombined"
  /\ result' = [i \in 1..N |-> flat[i]]
  /\ perParam' = [k \in 1..NP |-> [j \in 1..NumStats(k) |-> flat[IndexStart(k) + j]]]
  /\ pc' = "end"
  /\ UNCHANGED <<cfg, col, packS, packE, packP, rowsS, rowsE, rowsP, done, gathered, flat>>

-----------------------------------------------------------------------------
InitRest ==
  /\ pc = "start"
  /\ packS = <<>> /\ packE = <<>> /\ packP = <<>>
  /\ rowsS = <<>> /\ rowsE = <<>> /\ rowsP = <<>>
  /\ done = <<>> /\ gathered = <<>> /\ flat = <<>> /\ result = <<>> /\ perParam = <<>>

Init == cfg \in Cfgs /\ col = Collect(cfg) /\ InitRest

\* one process per replica / device: any not yet finished one may run next
ComputeAny      == \E r \in 0..(cfg.D - 1) : Compute(r)
ShardComputeAny == \E d \in 0..(cfg.D - 1) : ShardCompute(d)

Next == \/ Pad \/ BatchAll \/ ComputeAny \/ AllGather \/ Unbatch \/ Assign \/ Regroup
        \/ ShardPad \/ ShardComputeAny \/ ShardCombine \/ ShardLookup

Spec == Init /\ [][Next]_vars

-----------------------------------------------------------------------------
(* properties *)

PCs == {"start", "padded", "batched", "gathered", "unbatched", "assigned",
        "spadded", "scombined", "end"}
TypeOK == CfgOK(cfg) /\ pc \in PCs /\ DOMAIN done \subseteq 0..(cfg.D - 1)

\* the program never gets stuck half way (a disabled step = an exception in the code:
\* range() with step 0, stack of ragged rows, failed assert, vmap length mismatch)
Progress == pc # "end" => ENABLED Next

\* C13: every parameter gets the roots of its own statistics, computed with their own
\* exponent and padding start - whatever D is and in whatever order the replicas ran
Correct == pc = "end" =>
  /\ Len(perParam) = NP
  /\ \A k \in 1..NP :
       /\ Len(perParam[k]) = NumStats(k)
       /\ \A j \in 1..NumStats(k) : perParam[k][j].root = Want(SumTo(k - 1) + j)

\* a padding entry (id 0) is never handed to a parameter
NoPadUse == \A k \in DOMAIN perParam : \A j \in DOMAIN perParam[k] : perParam[k][j].root.id # 0

\* the padded length is a multiple of D and exactly D rows of b entries are formed
BIntegral == pc \in {"batched", "gathered"} =>
  /\ Len(packS) % cfg.D = 0
  /\ Len(rowsS) = cfg.D /\ Len(rowsE) = cfg.D /\ Len(rowsP) = cfg.D
  /\ \A q \in 1..cfg.D : Len(rowsS[q]) = Len(packS) \div cfg.D

\* replica r works on entries r*b+1 .. (r+1)*b of the packed lists, nothing else
RowMap == \A r \in DOMAIN done : cfg.mode = "pmap" =>
  LET b == Len(packS) \div cfg.D
  IN \A j \in 1..b : done[r][j] = Root(packS[r * b + j], packE[r * b + j], packP[r * b + j])

\* the all-gathered list is the packed list in its original order
GatherOrder == pc \in {"unbatched", "assigned"} =>
  /\ Len(flat) = Len(packS)
  /\ \A q \in 1..Len(flat) : flat[q].root = Root(packS[q], packE[q], packP[q])

\* padding is minimal: fewer than D padding entries (D exactly when there is nothing)
PadMinimal == pc # "start" =>
  /\ Len(packS) - N < cfg.D \/ (N = 0 /\ cfg.mode = "shard" /\ Len(packS) = cfg.D)
  /\ Len(packS) >= N

\* sharded mode: the three computations of the leading dimension agree, it is a
\* positive multiple of D, and no parameter's rows reach into the padding
ShardRows ==
  /\ RowsInit = RowsDeclared /\ RowsDeclared = RowsUpdate
  /\ RowsInit % cfg.D = 0 /\ RowsInit >= cfg.D
  /\ \A k \in 1..NP : IndexStart(k) + NumStats(k) <= N

\* every handed-back root still has the rank-2 shape of its statistic's preconditioner
\* (violated by the "squeeze" unbatch when every statistic is 1x1: see Devices_MC.tla)
ElemShapeKept == \A i \in DOMAIN result : Sliceable(result[i].shape)

\* action-level structure: the phases run in program order
PcOrder == [][\/ pc' = pc
              \/ <<pc, pc'>> \in {<<"start", "padded">>, <<"start", "end">>, <<"padded", "batched">>,
                                 <<"batched", "gathered">>, <<"gathered", "unbatched">>,
                                 <<"unbatched", "assigned">>, <<"assigned", "end">>,
                                 <<"start", "spadded">>, <<"spadded", "scombined">>,
                                 <<"scombined", "end">>}]_vars
\* a replica's row, once computed, is never recomputed or changed
ComputeOnce == [][\A r \in DOMAIN done : r \in DOMAIN done' /\ done'[r] = done[r]]_vars
=============================================================================
