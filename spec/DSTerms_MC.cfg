SPECIFICATION Spec
CONSTANTS
  Cfgs <- MC_Cfgs
  T = 5
INVARIANT StatOK
INVARIANT RootOK
INVARIANT UsedRootOK
INVARIANT GaccOK
INVARIANT MomOK
INVARIANT UpdOK
INVARIANT WarmupOK
INVARIANT GraftShapeOK
INVARIANT StaleOK
CHECK_DEADLOCK FALSE
