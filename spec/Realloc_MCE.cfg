SPECIFICATION Spec
CONSTANTS
  MaxN = 4
  Scores <- MC_Scores
  Dims <- MC_Dims
  Bases <- MC_Bases
  ExactInputs = TRUE
INVARIANT TypeOK
INVARIANT NoAssert
INVARIANT RankRange
INVARIANT RankBudget
INVARIANT ResNonNeg
INVARIANT Conserve
INVARIANT TotRemaining
INVARIANT LeftConserve
INVARIANT SortedOK
CHECK_DEADLOCK FALSE
