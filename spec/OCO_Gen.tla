---- MODULE OCO_Gen ----
(* Behaviour export for replay into precondition/oco/algorithms.py (spec -> code).          *)
(* One line per complete behaviour:                                                         *)
(*   {cfg, steps:[{in: the input of the step, term: the summand of the iterate (function tag *)
(*                 and exact rational argument), exp: expected implementation state}]}       *)
(* exp for the sketched methods: tc (state['t']), sv2 (the K squared entries of state['e'],  *)
(* descending, the last one 0), l (sketch mass per lattice coordinate: P^T diag(e^2) P =      *)
(* Q diag(l) Q^T), alpha2 (alpha = alpha2 / (2 dD)), esc, cov (exact second moment of the      *)
(* sketch inputs), lossless (the history has touched fewer than K coordinates: nothing has     *)
(* escaped and S-AdaGrad must coincide with full-matrix AdaGrad).                              *)
EXTENDS OCO, Json
VARIABLE hist
gvars == <<vars, hist>>
CovNext == IF cfg.alg \in Sketched
           THEN [i \in 1..D |-> Cov(n)[i] + (IF gs'[n + 1].j = i THEN gs'[n + 1].a ELSE 0)] ELSE <<>>
Obs == [tc |-> tc', h |-> h', alpha2 |-> alpha2', esc |-> esc',
        sv2 |-> [r \in DOMAIN rows' |-> rows'[r].m],
        l |-> IF cfg.alg \in Sketched THEN RowsToL(rows', D) ELSE <<>>,
        cov |-> CovNext,
        lossless |-> cfg.alg \in Sketched /\ Cardinality({i \in 1..D : CovNext[i] > 0}) <= K - 1]
GInit == Init /\ hist = <<>>
GNext == Step /\ hist' = Append(hist, [in |-> gs'[n + 1], term |-> w'[n + 1], exp |-> Obs])
GSpec == GInit /\ [][GNext]_gvars
Done == n = T \/ n = cfg.tmax
\* for tlc -simulate: a finished behaviour stutters, so that every sampled trace ends at the depth bound
\* (traces that end in a state without successor are not counted by the simulator)
GSpecS == GInit /\ [][GNext \/ (Done /\ UNCHANGED gvars)]_gvars
Emit == Done => PrintT("@@GEN " \o ToJson([cfg |-> cfg, steps |-> hist]))

Deltas == {<<0, 1>>, <<1, 2>>}
PosDeltas == {<<1, 2>>, <<3, 1>>}
Mk(algs, ds, ks, deltas, lr, tm) ==
  {[alg |-> a, d |-> d, k |-> k, dN |-> dl[1], dD |-> dl[2], lrN |-> lr[1], lrD |-> lr[2], tmax |-> tm] :
     a \in algs, d \in ds, k \in ks, dl \in deltas}
\* ADA_FD and FD_SON keep alpha = delta for ever: they are defined for delta > 0 only
\* (ADA_FD divides e by alpha + e with e = 0 in the free row; see harness/props/c16.py)
ZeroOk == {"S_ADA", "RFD_SON"}
\* exhaustive part: d = 3, every history of length 3 over masses {0,1,4}
GEN_Cfgs == Mk(ZeroOk, {3}, {2, 3}, Deltas, <<1, 4>>, 3)
            \cup Mk(Sketched \ ZeroOk, {3}, {2, 3}, PosDeltas, <<1, 2>>, 3)
            \cup Mk({"OGD"}, {2}, {0}, Deltas \cup {<<3, 1>>}, <<1, 4>>, 5)
            \cup Mk({"ADA"}, {2}, {0}, Deltas, <<1, 4>>, 3)
GEN_Masses == {0, 1, 4}
\* thorough exhaustive part: the same to depth 4
GENT_Cfgs == Mk(ZeroOk, {3}, {2, 3}, Deltas, <<1, 4>>, 4)
            \cup Mk(Sketched \ ZeroOk, {3}, {2, 3}, PosDeltas, <<1, 2>>, 4)
            \cup Mk({"OGD"}, {2}, {0}, Deltas \cup {<<3, 1>>}, <<1, 4>>, 5)
            \cup Mk({"ADA"}, {2}, {0}, Deltas, <<1, 4>>, 4)
GEN_GVals  == {-2, 0, 1}
\* sampled part (tlc -simulate): d = 4 and 5, sketch sizes 2..4, histories of length 5 (6)
GENS_Cfgs == Mk(ZeroOk, {4, 5}, {2, 3, 4}, Deltas \cup PosDeltas, <<1, 4>>, 6)
             \cup Mk(Sketched \ ZeroOk, {4, 5}, {2, 3, 4}, PosDeltas, <<3, 2>>, 6)
             \cup Mk({"ADA"}, {3}, {0}, Deltas \cup PosDeltas, <<1, 2>>, 6)
GENS_Masses == {0, 1, 2, 4, 9}
====
