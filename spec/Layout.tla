------------------------------- MODULE Layout -------------------------------
(* Property C07 - state contract of the optimizers in /repo/precondition:     *)
(*   for every parameter tree and every option record the constructor accepts,*)
(*   init and update either succeed or raise a *documented* rejection; on      *)
(*   success the update tree has the parameters' layout and the optimizer      *)
(*   state after any number of updates has the layout of the initial state;    *)
(*   in sharded mode init_fn, sharded_init_shape_and_dtype_fn and              *)
(*   sharded_init_partition_spec_fn describe one and the same tree.            *)
(*                                                                             *)
(* A *case* is [opt, cfg, tree]:                                               *)
(*   opt  in {"ds", "sm3", "tf", "tfso"}  distributed_shampoo / sm3 / tearfree *)
(*        / tearfree's second-order transform used on its own (shampoo.apply,  *)
(*        sketchy.apply: the only way to reach the unit-dim / indivisible      *)
(*        rejections, which tearfree()'s reshaper makes unreachable)           *)
(*   cfg  the option record (fields are listed with each Rejects operator)     *)
(*   tree [shapes |-> sequence of parameter shapes (ranks 0..4, unit dims      *)
(*         allowed), dtype |-> parameter dtype, x64 |-> jax_enable_x64]        *)
(*                                                                             *)
(* One action per public call: Construct (the constructor; evaluates the       *)
(* documented option rejections), InitState (init / init_fn; evaluates the     *)
(* documented per-tree rejections and produces the layout), Update (one        *)
(* update; recomputes the layout along the path the implementation takes:      *)
(* blocks -> gram matrices -> pad to the largest statistic -> root -> slice    *)
(* back; re-quantised momenta; metrics re-stacked or re-created; the           *)
(* fixed-point property says this path reproduces the initial layout).         *)
(* There is deliberately NO transition to an "internal error" outcome:         *)
(* outcome ranges over {pending, ok, explicit_reject}.                         *)
(*                                                                             *)
(* A layout is the JSON-shaped value the harness projects a real state tree    *)
(* to (harness/workers/layout_run.py: sig):                                    *)
(*   leaf            [s |-> shape, d |-> dtype]                                 *)
(*   QuantizedValue  [ty |-> "QV", q, dg, b |-> leaf or Nil, qd, ex, sh]         *)
(*   TrainingMetrics [ty |-> "TM", n, d, fd, nl]  (nl leaves of dtype d and      *)
(*                   shape [n]; 22 without / 44 with FDDiagnostics)             *)
(*   NamedTuple / dataclass  [ty |-> class name, field |-> ...]                 *)
(*   dict of parameters      [ty |-> "dict", v |-> sequence in key order]        *)
(*   tuple                   [ty |-> "tuple", v |-> sequence];  list: sequence   *)
EXTENDS LayoutShapes, TLC

CONSTANTS Slices           \* what to explore: a sequence of [opt, cfgs, trees]; the cases are
                           \* all [opt, cfg \in cfgs, tree \in trees] (cfgs may be a lazily
                           \* enumerated record set [f1 : S1, f2 : S2, ...])

VARIABLES case, phase, outcome, reason, layout
vars == <<case, phase, outcome, reason, layout>>

-----------------------------------------------------------------------------
(* Layout vocabulary                                                          *)
Leaf(s, d)  == [s |-> s, d |-> d]
Nil         == [ty |-> "nil"]                 \* an unused QuantizedValue slot ([])
Masked      == [ty |-> "MaskedNode"]
Empty       == [ty |-> "EmptyState"]
Opaque      == [ty |-> "opaque"]              \* state owned by optax (adafactor): not predicted
Dict(v)     == [ty |-> "dict", v |-> v]
Tuple(v)    == [ty |-> "tuple", v |-> v]
QV(q, dg, b, qd, ex, sh) ==
  [ty |-> "QV", q |-> q, dg |-> dg, b |-> b, qd |-> qd, ex |-> ex, sh |-> sh]
Count       == Leaf(<<>>, "int32")

DefaultFloat(tree) == IF tree.x64 THEN "float64" ELSE "float32"   \* jnp.zeros(shape) without dtype
Promote(a, b)      == IF a = "float64" \/ b = "float64" THEN "float64" ELSE "float32"

NParams(tree) == Len(tree.shapes)
PerParam(tree, F(_)) == [i \in 1..NParams(tree) |-> F(tree.shapes[i])]

SeqSum(s) == FoldLeft(LAMBDA acc, x : acc + x, 0, s)

-----------------------------------------------------------------------------
(* Distributed Shampoo                                                        *)
(* cfg: graft rank fd avg reuse reset ptype skip_rank_lt skip_dim_gt metrics   *)
(*      fd_metrics memred bs merge merge_bs S P mode D  (+ options without     *)
(*      influence on the layout, carried for the replay: lobpcg eigh Start     *)
(*      beta1_8 beta2_8 nesterov wd_8 dwd dlr mavg clip_8 rel_eps              *)
(*      exp_override sched)                                                    *)

(* distributed_shampoo(): the raise statements before any state is built, in  *)
(* source order (lines 2023-2049).                                             *)
DSRejects(c) ==
  IF c.reset /\ ~c.fd THEN "reset_requires_fd"
  ELSE IF c.fd /\ c.rank <= 0 THEN "fd_requires_positive_rank"
  ELSE IF c.avg /\ ~c.fd THEN "avg_requires_fd"
  ELSE IF c.fd /\ ~c.reuse THEN "fd_requires_reuse"
  ELSE IF c.fd /\ c.S # c.P THEN "fd_requires_equal_intervals"
  ELSE "none"

DSSkip(c, shape) ==            \* _skip_preconditioning
  Len(shape) < c.skip_rank_lt \/ \E i \in DOMAIN shape : shape[i] > c.skip_dim_gt
DSTShape(c, shape) ==          \* Preconditioner.__init__
  IF c.merge THEN MergeSmallDims(shape, c.merge_bs) ELSE shape
DSDims(c, shape) ==            \* first dims of the announced statistics, [] if skipped
  IF DSSkip(c, shape) THEN <<>> ELSE StatDims(DSTShape(c, shape), c.bs, c.ptype)
DSAllDims(c, tree) == Concat(PerParam(tree, LAMBDA sh : DSDims(c, sh)))
DSNStats(c, tree)  == Len(DSAllDims(c, tree))
DSMaxSize(c, tree) == SeqMax(DSAllDims(c, tree))      \* 0 when there is no statistic

(* sharded mode: rows and size of the global arrays (sharded_init_fn)          *)
ShToPad(c, tree) == IF DSMaxSize(c, tree) = 0 THEN c.D
                    ELSE (c.D - (DSNStats(c, tree) % c.D)) % c.D
ShRows(c, tree)  == DSNStats(c, tree) + ShToPad(c, tree)
ShMS(c, tree)    == IF DSMaxSize(c, tree) = 0 THEN c.bs ELSE DSMaxSize(c, tree)

(* "all layers are too small for compression_rank" (precond_dim): the only     *)
(* documented per-tree rejection of Distributed Shampoo.  It is reached by the  *)
(* first root computation (or by sharded init_fn).                              *)
DSTooSmall(c, tree) ==
  /\ c.rank # 0
  /\ IF c.mode = "shard" THEN ShMS(c, tree) <= Abs(c.rank) + 2
     ELSE DSNStats(c, tree) > 0 /\ DSMaxSize(c, tree) <= Abs(c.rank) + 2
DSRejectsTree(c, tree) ==
  IF DSTooSmall(c, tree) THEN "all_layers_too_small_for_compression_rank" ELSE "none"

DSDiagHas(c)      == c.graft \notin {"SGD", "SQRT_N", "NONE"}
DSMomInt8(c, sh)  == c.memred /\ Len(sh) > 1
DSQuantStats(c)   == c.memred /\ c.rank = 0 /\ ~c.fd /\ c.mode = "pmap"
DSFdMetrics(c)    == c.fd_metrics /\ c.fd /\ c.metrics    \* "ignored if not (metrics and FD)"

FloatQV(sh, dt) == QV(Leaf(sh, dt), Nil, Nil, "float32", FALSE, sh)
EmptyQV         == QV(Nil, Nil, Nil, "float32", FALSE, <<>>)
Int8QV(sh, dt)  == QV(Leaf(sh, "int8"), Nil, Leaf(Tail(sh), dt), "int8", FALSE, sh)
DSMomentum(c, sh, dt) == IF DSMomInt8(c, sh) THEN Int8QV(sh, dt) ELSE FloatQV(sh, dt)
DSMat(c, r, k) ==              \* a statistic / preconditioner matrix, int16 + diagonal if quantised
  IF DSQuantStats(c)
  THEN QV(Leaf(<<r, k>>, "int16"), Leaf(<<Min2(r, k)>>, "float32"), Leaf(<<k>>, "float32"),
          "int16", TRUE, <<r, k>>)
  ELSE Leaf(<<r, k>>, "float32")
DSTM(c, n) ==                  \* init_training_metrics(n, generate_training_metrics, generate_fd_metrics)
  IF c.metrics
  THEN [ty |-> "TM", n |-> n, d |-> "float32", fd |-> DSFdMetrics(c),
        nl |-> IF DSFdMetrics(c) THEN 44 ELSE 22]
  ELSE Masked
DSAvg(c, sh, dt) == IF c.fd /\ c.avg THEN Leaf(sh, dt) ELSE Masked

(* init_fn (plain and pmap; under pmap every leaf gets a leading device axis,  *)
(* which the harness strips)                                                   *)
DSParamInit(c, tree, sh) ==
  LET ds == DSDims(c, sh)
      dt == tree.dtype
  IN [ty |-> "ParameterStats",
      diagonal_statistics |-> IF DSDiagHas(c) THEN FloatQV(sh, dt) ELSE EmptyQV,
      statistics        |-> [i \in 1..Len(ds) |-> DSMat(c, ds[i], ds[i])],
      preconditioners   |-> [i \in 1..Len(ds) |-> DSMat(c, ds[i], PrecondDim(c.rank, ds[i]))],
      diagonal_momentum |-> DSMomentum(c, sh, dt),
      momentum          |-> DSMomentum(c, sh, dt),
      avg_grad          |-> DSAvg(c, sh, dt),
      training_metrics  |-> DSTM(c, Len(ds))]

DSInitPlain(c, tree) ==
  [ty |-> "ShampooState", count |-> Count,
   stats |-> Dict(PerParam(tree, LAMBDA sh : DSParamInit(c, tree, sh)))]

(* update_fn (plain / pmap): _compute_stats, _compute_preconditioners,         *)
(* _transform_grad, applied to the previous layout `lay`.                      *)
DSParamUpdate(c, tree, sh, old) ==
  LET ds  == DSDims(c, sh)
      dt  == tree.dtype
      ms  == DSMaxSize(c, tree)
      pdm == PrecondDim(c.rank, ms)           \* width of the padded roots [ms, pdm]
  IN [ty |-> "ParameterStats",
      \* _quantize_diagonal_statistics(new_diagonal_statistics)
      diagonal_statistics |-> IF DSDiagHas(c) THEN FloatQV(sh, dt) ELSE EmptyQV,
      \* gram (or FD) update of every block along every preconditioned axis: [d, d]
      statistics        |-> [i \in 1..Len(ds) |-> DSMat(c, ds[i], ds[i])],
      \* no statistic in the whole tree: states returned untouched;
      \* otherwise p[:shape[0], :shape[1]] of the padded root [ms, pdm]
      preconditioners   |-> IF DSNStats(c, tree) = 0 THEN old.preconditioners
                            ELSE [i \in 1..Len(ds) |-> DSMat(c, Min2(ds[i], ms), Min2(ds[i], pdm))],
      diagonal_momentum |-> DSMomentum(c, sh, dt),
      momentum          |-> DSMomentum(c, sh, dt),
      \* jnp.where(.., grad, avg_grad + grad) for preconditioned parameters, untouched otherwise
      avg_grad          |-> IF DSSkip(c, sh) THEN old.avg_grad ELSE DSAvg(c, sh, dt),
      \* re-stacked per statistic, or re-created for parameters without statistics
      training_metrics  |-> IF DSNStats(c, tree) = 0 THEN old.training_metrics
                            ELSE DSTM(c, Len(ds))]

DSUpdatePlain(c, tree, lay) ==
  [ty |-> "ShampooState", count |-> Count,
   stats |-> Dict([i \in 1..NParams(tree) |->
                     DSParamUpdate(c, tree, tree.shapes[i], lay.stats.v[i])])]

(* sharded mode ------------------------------------------------------------- *)
ShIndexStart(c, tree, i) == Len(Concat([j \in 1..(i - 1) |-> DSDims(c, tree.shapes[j])]))

ShLocal(c, tree, i, n) ==      \* n: length of the metric arrays
  LET sh == tree.shapes[i]
      dt == tree.dtype
  IN [ty |-> "LocalShardedParameterStats",
      diagonal_statistics |-> FloatQV(sh, dt),        \* always allocated in sharded mode
      diagonal_momentum   |-> DSMomentum(c, sh, dt),
      momentum            |-> DSMomentum(c, sh, dt),
      avg_grad            |-> DSAvg(c, sh, dt),
      training_metrics    |-> DSTM(c, n),
      index_start         |-> ShIndexStart(c, tree, i),
      sizes               |-> DSDims(c, sh)]

ShState(c, tree, rows, ms, pd, expdt, locals) ==
  [ty |-> "ShampooState", count |-> Count,
   stats |-> [ty |-> "ShardedShampooStats",
              global_stats |-> [ty |-> "GlobalShardedParameterStats",
                                statistics      |-> Leaf(<<rows, ms, ms>>, "float32"),
                                preconditioners |-> Leaf(<<rows, ms, pd>>, "float32"),
                                exponents       |-> Leaf(<<rows>>, expdt)],
              local_stats |-> Dict(locals)]]

(* sharded_init_fn *)
DSInitSharded(c, tree) ==
  ShState(c, tree, ShRows(c, tree), ShMS(c, tree), PrecondDim(c.rank, ShMS(c, tree)),
          "int32",                  \* exponents: jnp.array(exponents, jnp.int32), also under x64
          [i \in 1..NParams(tree) |-> ShLocal(c, tree, i, Len(DSDims(c, tree.shapes[i])))])

(* sharded_init_shape_and_dtype_fn: written independently in the source        *)
(* (num_statistics counted per parameter, padded, replaced by the device count  *)
(* when zero).                                                                  *)
DSDeclaredSharded(c, tree) ==
  LET n    == DSNStats(c, tree)
      np   == n + ((c.D - (n % c.D)) % c.D)
      rows == IF np = 0 THEN c.D ELSE np
      ms   == IF np = 0 THEN c.bs ELSE DSMaxSize(c, tree)
  IN ShState(c, tree, rows, ms, PrecondDim(c.rank, ms), "int32",
             [i \in 1..NParams(tree) |-> ShLocal(c, tree, i, Len(DSDims(c, tree.shapes[i])))])

(* sharded_init_partition_spec_fn: which leaves get a PartitionSpec ("L") and   *)
(* which slots are empty, for parameter specs as long as the parameter rank.     *)
SkelQV(q, dg, b) == [ty |-> "QV", q |-> q, dg |-> dg, b |-> b]
SkelTM(c) == IF c.metrics THEN [ty |-> "TM", nl |-> IF DSFdMetrics(c) THEN 44 ELSE 22,
                                 fd |-> DSFdMetrics(c)]
             ELSE Masked
ShSkelLocal(c, tree, i, bucket(_)) ==
  LET sh == tree.shapes[i]
  IN [ty |-> "LocalShardedParameterStats",
      diagonal_statistics |-> SkelQV("L", Nil, Nil),
      diagonal_momentum   |-> SkelQV("L", Nil, bucket(sh)),
      momentum            |-> SkelQV("L", Nil, bucket(sh)),
      avg_grad            |-> IF c.fd /\ c.avg THEN "L" ELSE Masked,
      training_metrics    |-> SkelTM(c),
      index_start         |-> ShIndexStart(c, tree, i),
      sizes               |-> DSDims(c, sh)]
ShSkel(c, tree, bucket(_)) ==
  [ty |-> "ShampooState", count |-> "L",
   stats |-> [ty |-> "ShardedShampooStats",
              global_stats |-> [ty |-> "GlobalShardedParameterStats",
                                statistics |-> "L", preconditioners |-> "L", exponents |-> "L"],
              local_stats |-> Dict([i \in 1..NParams(tree) |-> ShSkelLocal(c, tree, i, bucket)])]]
\* init_fn: a bucket-size array exists iff the momentum is int8
DSSkelInit(c, tree)  == ShSkel(c, tree, LAMBDA sh : IF DSMomInt8(c, sh) THEN "L" ELSE Nil)
\* pspec_fn: _remove_leading_sharding_annotation(spec of length rank) is a spec iff rank > 1
DSSkelPSpec(c, tree) == ShSkel(c, tree, LAMBDA sh : IF DSMomInt8(c, sh) /\ Len(sh) > 1 THEN "L" ELSE Nil)

(* sharded_update_fn *)
DSUpdateSharded(c, tree, lay) ==
  LET g     == lay.stats.global_stats
      ms    == g.statistics.s[2]                 \* max_size = global_stats.statistics.shape[1]
      n     == DSNStats(c, tree)
      topad == IF n = 0 THEN c.D ELSE (c.D - (n % c.D)) % c.D
      rows  == n + topad
      pd    == PrecondDim(c.rank, ms)
      \* jnp.where(predicate, old [R, ms, PD], new [rows, ms, pd]): shapes must agree
      prec  == IF g.preconditioners.s = <<rows, ms, pd>> THEN g.preconditioners
               ELSE Leaf(<<"broadcast_error">>, "float32")
  IN [ty |-> "ShampooState", count |-> Count,
      stats |-> [ty |-> "ShardedShampooStats",
                 global_stats |-> [ty |-> "GlobalShardedParameterStats",
                                   statistics      |-> Leaf(<<rows, ms, ms>>, "float32"),
                                   preconditioners |-> prec,
                                   exponents       |-> g.exponents],
                 \* metrics[index_start : index_start + len(sizes)] of the [rows] arrays
                 local_stats |-> Dict([i \in 1..NParams(tree) |->
                     ShLocal(c, tree, i,
                             Min2(Len(DSDims(c, tree.shapes[i])),
                                  rows - Min2(rows, ShIndexStart(c, tree, i))))])]]

DSInit(c, tree)        == IF c.mode = "shard" THEN DSInitSharded(c, tree) ELSE DSInitPlain(c, tree)
DSUpdate(c, tree, lay) == IF c.mode = "shard" THEN DSUpdateSharded(c, tree, lay)
                          ELSE DSUpdatePlain(c, tree, lay)

(* the update tree: blocks are merged back (sizes must add up) and reshaped to  *)
(* the original shape (element counts must agree)                               *)
DSUpdatesOK(c, tree) ==
  \A i \in 1..NParams(tree) :
    LET sh == tree.shapes[i]
        ts == DSTShape(c, sh)
    IN /\ SeqProd(ts) = SeqProd(sh)
       /\ \A k \in DOMAIN ts : SeqSum(SplitSizes(ts[k], c.bs)) = ts[k]
       /\ \A k \in DOMAIN ts : \A j \in DOMAIN SplitSizes(ts[k], c.bs) :
            SplitSizes(ts[k], c.bs)[j] >= 1

(* Open finding "ds|shard|zero_stat_unskipped_param": a parameter that is not      *)
(* skipped but announces no statistic (rank 0 with skip_preconditioning_rank_lt = 0)  *)
(* makes sharded init_fn take max() of an empty list.                                 *)
DSZeroStatUnskipped(c, tree) ==
  \E i \in 1..NParams(tree) : ~DSSkip(c, tree.shapes[i]) /\ DSDims(c, tree.shapes[i]) = <<>>
(* a parameter without statistics that carries metric arrays of length 0 (the         *)
(* harness runs such cases on one device under pmap: jaxlib cannot compile pmap        *)
(* programs over several CPU devices that compute on zero-size operands)               *)
DSZeroLenMetrics(c, tree) ==
  c.metrics /\ \E i \in 1..NParams(tree) : DSDims(c, tree.shapes[i]) = <<>>

(* Open finding "ds|lobpcg|small_matrix": the Newton root is traced on the      *)
(* matrices padded to the largest statistic; jax's lobpcg_standard insists on   *)
(* 5 * k < size and raises from inside jax.  Stated here so that the harness     *)
(* can tell this (known, open) environment rejection from anything new.          *)
DSLobpcgTooSmall(c, tree) ==
  /\ c.lobpcg > 0 /\ ~c.eigh
  /\ IF c.mode = "shard" THEN 5 * c.lobpcg >= ShMS(c, tree)
     ELSE DSNStats(c, tree) > 0 /\ 5 * c.lobpcg >= DSMaxSize(c, tree)

-----------------------------------------------------------------------------
(* SM3     cfg: beta1_8 beta2_8 wd_8 normalize sched                            *)
SM3Rejects(c) == "none"
(* QuantizedValue.quantize raises for arrays without dimensions                 *)
SM3RejectsTree(c, tree) ==
  IF \E i \in 1..NParams(tree) : Len(tree.shapes[i]) = 0 THEN "quantize_needs_rank_ge_1" ELSE "none"

SM3State(tree, accdt, momdt) ==
  [ty |-> "SM3State", count |-> Count,
   stats |-> Dict(PerParam(tree, LAMBDA sh :
     [ty |-> "ParameterStats",
      diagonal_statistics |-> [k \in 1..Len(sh) |-> Leaf(<<sh[k]>>, accdt)],
      diagonal_momentum   |-> Int8QV(sh, momdt)]))]
(* init_fn: one accumulator per axis (jnp.zeros([s]): default float), int8 momentum *)
SM3Init(c, tree) == SM3State(tree, DefaultFloat(tree), tree.dtype)
(* update_fn: accumulators = max over the other axes of beta2*min(acc)+w*g^2;    *)
(* momentum re-quantised from beta1*m + w*(g * rsqrt(acc))                        *)
SM3Update(c, tree, lay) ==
  LET acc == Promote(DefaultFloat(tree), tree.dtype)
  IN SM3State(tree, acc, Promote(acc, tree.dtype))

-----------------------------------------------------------------------------
(* Tearfree   cfg: so bs PF SF decay_8 sk_rank add_ggt ekfac lin_tail graft      *)
(*   graft_decay_8 Start skip_dim_gt skip_rank1 min_factor param_scale clip_8    *)
(*   graft_eps_neg merge_dims ema nesterov mom_8 wd_8 wd_after sched             *)
(* (x_8 = numerator of x over 8, so that invalid values such as 12/8 or -1/8     *)
(*  are expressible)                                                             *)
TFSecondOrderRejects(c) ==
  IF c.so = "shampoo"
  THEN IF c.bs <= 1 THEN "shampoo_block_size_le_1"
       ELSE IF c.PF <= 0 THEN "update_preconditioners_freq_not_positive"
       ELSE IF c.SF <= 0 THEN "update_statistics_freq_not_positive"
       ELSE IF c.decay_8 < 0 \/ c.decay_8 > 8 THEN "second_moment_decay_out_of_range"
       ELSE "none"
  ELSE IF c.SF <= 0 THEN "update_freq_not_positive"
       ELSE IF c.decay_8 < 0 \/ c.decay_8 > 8 THEN "second_moment_decay_out_of_range"
       ELSE IF c.sk_rank <= 0 THEN "sketchy_rank_not_positive"
       ELSE "none"

TFRejects(c) ==
  LET rbs == IF c.so = "shampoo" THEN c.bs ELSE 0       \* second_order._reshaper_options
      so  == TFSecondOrderRejects(c)
  IN \* reshaper.merge
     IF c.merge_dims < 2 THEN "merge_dims_lt_2"
     ELSE IF rbs < 2 /\ rbs # 0 THEN "reshaper_block_size_lt_2"
     \* shampoo._validate / sketchy._validate
     ELSE IF so # "none" THEN so
     \* grafting._validate
     ELSE IF c.graft \in {"RMSPROP", "ADAFACTOR"} /\ c.graft_eps_neg THEN "graft_epsilon_negative"
     ELSE IF c.graft = "RMSPROP" /\ ~(0 < c.graft_decay_8 /\ c.graft_decay_8 <= 8)
          THEN "graft_decay_not_in_(0,1]"
     ELSE IF c.graft = "ADAFACTOR" /\ ~(0 < c.graft_decay_8 /\ c.graft_decay_8 < 8)
          THEN "graft_decay_not_in_(0,1)"
     ELSE IF c.graft = "ADAFACTOR" /\ c.min_factor <= 0 THEN "min_dim_size_to_factor_not_positive"
     ELSE IF c.graft = "ADAFACTOR" /\ c.clip_8 < 8 THEN "clipping_threshold_lt_1"
     \* momentum._validate
     ELSE IF c.mom_8 < 0 \/ c.mom_8 > 8 THEN "momentum_decay_out_of_range"
     ELSE IF c.wd_8 < 0 THEN "weight_decay_negative"
     ELSE "none"

TFMasked(c, sh) ==            \* grafting._mask_skipped (no masking without a graft)
  /\ c.graft # "NONE"
  /\ \/ c.skip_rank1 /\ Len(sh) <= 1
     \/ \E i \in DOMAIN sh : sh[i] > c.skip_dim_gt

(* the shape the second-order transform sees *)
TFSOShape(opt, c, sh) ==
  IF opt = "tfso" THEN sh
  ELSE TFPadded(sh, c.merge_dims, IF c.so = "shampoo" THEN c.bs ELSE 0)
TFSOMasked(opt, c, sh) == opt = "tf" /\ TFMasked(c, sh)

(* shampoo._init / sketchy._init: the per-parameter raise statements, first      *)
(* offending parameter in tree order, rules in source order                      *)
TFShapeReject(c, ps) ==
  IF \E i \in DOMAIN ps : ps[i] = 1 THEN "unit_dimensions"
  ELSE IF c.so = "shampoo" /\ Len(TFLargeAxes(ps, c.bs)) > 2 THEN "more_than_2_large_dims"
  ELSE IF c.so = "shampoo" /\ \E i \in DOMAIN ps : ps[i] >= c.bs /\ ps[i] % c.bs # 0
       THEN "large_dims_indivisible_by_block_size"
  ELSE "none"

RECURSIVE FirstReject(_)
FirstReject(rs) == IF Len(rs) = 0 THEN "none"
                   ELSE IF Head(rs) # "none" THEN Head(rs) ELSE FirstReject(Tail(rs))

TFRejectsTree(opt, c, tree) ==
  FirstReject(PerParam(tree, LAMBDA sh :
    IF TFSOMasked(opt, c, sh) THEN "none" ELSE TFShapeReject(c, TFSOShape(opt, c, sh))))

(* second-order state ------------------------------------------------------- *)
TFAxesBlocks(n, dims, dt) ==
  [ty |-> "_AxesBlocks",
   stats |-> [k \in 1..Len(dims) |-> Leaf(<<n, dims[k], dims[k]>>, dt)],
   roots |-> [k \in 1..Len(dims) |-> Leaf(<<n, dims[k], dims[k]>>, dt)]]

TFAxisState(c, d, k, m, dt) ==
  [ty |-> "_AxisState",
   eigvecs |-> Leaf(<<d, k>>, dt), eigvals |-> Leaf(<<k>>, dt), inv_eigvals |-> Leaf(<<k>>, dt),
   tail |-> Leaf(<<>>, dt), inv_tail |-> Leaf(<<>>, dt),
   ema_ggt       |-> IF c.add_ggt THEN Leaf(<<d, d>>, dt) ELSE Masked,
   svd_result_u  |-> IF c.ekfac THEN Leaf(<<d, m>>, dt) ELSE Masked,
   svd_result_s  |-> IF c.ekfac THEN Leaf(<<m>>, dt) ELSE Masked,
   inv_prev_tail |-> IF c.ekfac THEN Leaf(<<>>, dt) ELSE Masked]

(* init: jnp.zeros / jnp.eye without dtype *)
TFSOParamInit(opt, c, tree, sh) ==
  LET ps == TFSOShape(opt, c, sh)
      dt == DefaultFloat(tree)
  IN IF TFSOMasked(opt, c, sh) THEN [ty |-> "_GraftMask"]
     ELSE IF c.so = "shampoo"
          THEN TFAxesBlocks(TFNumBlocks(ps, c.bs), TFBlockDims(ps, c.bs), dt)
          ELSE [ty |-> "_TensorState",
                axes |-> [i \in 1..Len(ps) |->
                            TFAxisState(c, ps[i], SkK(ps[i], c.sk_rank), SkM(ps, i, c.sk_rank), dt)]]

(* update: shampoo - blockify ([.., N, B, ..]), vmap'd tensordot over the blocks *)
(* axis -> [N, B_axis, B_axis], eigh roots of the same shape; sketchy - thin SVD  *)
(* of [decayed sketch | gradient] after QR: u is [d, min(d, k + others)], the     *)
(* first k columns are kept.                                                      *)
TFSOParamUpdate(opt, c, tree, sh) ==
  LET ps == TFSOShape(opt, c, sh)
      dt == Promote(DefaultFloat(tree), tree.dtype)
      la == TFLargeAxes(ps, c.bs)
      nb == IF Len(la) = 0 THEN 1 ELSE SeqProd([j \in 1..Len(la) |-> ps[la[j]] \div c.bs])
  IN IF TFSOMasked(opt, c, sh) THEN [ty |-> "_GraftMask"]
     ELSE IF c.so = "shampoo"
          THEN TFAxesBlocks(nb, [i \in 1..Len(ps) |-> IF ps[i] >= c.bs THEN c.bs ELSE ps[i]], dt)
          ELSE [ty |-> "_TensorState",
                axes |-> [i \in 1..Len(ps) |->
                   LET d == ps[i]
                       k == SkK(d, c.sk_rank)
                       u == Min2(d, k + SeqProd(ps) \div d)      \* columns of u
                   IN TFAxisState(c, d, Min2(k, u), u, dt)]]

TFSOState(opt, c, tree, P(_)) ==
  IF c.so = "shampoo"
  THEN [ty |-> "_ShampooState", count |-> Count, blocks |-> Dict(PerParam(tree, P))]
  ELSE [ty |-> "_SketchyState", count |-> Count, sketches |-> Dict(PerParam(tree, P))]

ParamsLike(tree, dt) == Dict(PerParam(tree, LAMBDA sh : Leaf(sh, dt)))

(* momentum.apply: [scale (ema)] trace [add_decayed_weights], weight decay first   *)
(* when not weight_decay_after_momentum                                             *)
TFMomentum(c, tree) ==
  LET mom == IF c.mom_8 # 0
             THEN (IF c.ema THEN <<Empty>> ELSE <<>>)
                  \o << [ty |-> "TraceState", trace |-> ParamsLike(tree, tree.dtype)] >>
             ELSE <<>>
      wd  == IF c.wd_8 > 0 THEN <<Empty>> ELSE <<>>
  IN Tuple(IF c.wd_after THEN mom \o wd ELSE wd \o mom)

TFLr(c) == IF c.sched = "none" THEN Empty ELSE [ty |-> "ScaleByScheduleState", count |-> Count]

TFNorm(c, tree) ==
  IF c.graft = "SGD" THEN Empty
  ELSE IF c.graft = "RMSPROP"
       THEN [ty |-> "RMSPropAccumulator", acc |-> ParamsLike(tree, tree.dtype)]
       ELSE Opaque

TFState(opt, c, tree, P(_)) ==
  LET so        == TFSOState(opt, c, tree, P)
      direction == Tuple(<<Masked, so, Masked>>)          \* merge, precondition, unmerge
  IN IF opt = "tfso" THEN so
     ELSE Tuple(<< IF c.graft = "NONE" THEN direction
                   ELSE [ty |-> "GraftingState", count |-> Count,
                         direction |-> direction, norm |-> TFNorm(c, tree)],
                   TFMomentum(c, tree),
                   TFLr(c) >>)

TFInit(opt, c, tree)   == TFState(opt, c, tree, LAMBDA sh : TFSOParamInit(opt, c, tree, sh))
TFUpdate(opt, c, tree) == TFState(opt, c, tree, LAMBDA sh : TFSOParamUpdate(opt, c, tree, sh))

(* unmerge: slice the padded update back to the merged shape, reshape to the        *)
(* original; deblockify: large axes are whole numbers of blocks                      *)
TFUpdatesOK(opt, c, tree) ==
  \A i \in 1..NParams(tree) :
    LET sh == tree.shapes[i]
        bs == IF c.so = "shampoo" THEN c.bs ELSE 0
        m  == IF opt = "tfso" THEN sh ELSE TFMerged(sh, c.merge_dims)
        ps == TFSOShape(opt, c, sh)
    IN TFSOMasked(opt, c, sh) \/
       /\ SeqProd(m) = SeqProd(sh)
       /\ Len(m) = Len(ps) /\ \A k \in DOMAIN m : m[k] <= ps[k]
       /\ bs > 0 => \A k \in DOMAIN ps : ps[k] >= bs => (ps[k] \div bs) * bs = ps[k]

-----------------------------------------------------------------------------
(* Dispatch                                                                    *)
Rejects(k) ==
  CASE k.opt = "ds"   -> DSRejects(k.cfg)
    [] k.opt = "sm3"  -> SM3Rejects(k.cfg)
    [] k.opt = "tf"   -> TFRejects(k.cfg)
    [] k.opt = "tfso" -> TFSecondOrderRejects(k.cfg)

RejectsTree(k) ==
  CASE k.opt = "ds"   -> DSRejectsTree(k.cfg, k.tree)
    [] k.opt = "sm3"  -> SM3RejectsTree(k.cfg, k.tree)
    [] k.opt \in {"tf", "tfso"} -> TFRejectsTree(k.opt, k.cfg, k.tree)

InitLayout(k) ==
  CASE k.opt = "ds"   -> DSInit(k.cfg, k.tree)
    [] k.opt = "sm3"  -> SM3Init(k.cfg, k.tree)
    [] k.opt \in {"tf", "tfso"} -> TFInit(k.opt, k.cfg, k.tree)

UpdateLayout(k, lay) ==
  CASE k.opt = "ds"   -> DSUpdate(k.cfg, k.tree, lay)
    [] k.opt = "sm3"  -> SM3Update(k.cfg, k.tree, lay)
    [] k.opt \in {"tf", "tfso"} -> TFUpdate(k.opt, k.cfg, k.tree)

UpdatesOK(k) ==
  CASE k.opt = "ds"   -> DSUpdatesOK(k.cfg, k.tree)
    [] k.opt = "sm3"  -> TRUE
    [] k.opt \in {"tf", "tfso"} -> TFUpdatesOK(k.opt, k.cfg, k.tree)

(* The open finding "x64_float32_params|dtype_drift": with jax_enable_x64 and       *)
(* float32 parameters sm3 and tearfree create float64 state that their own update    *)
(* cannot reproduce.  Cases in this class are outside the fixed-point claim.          *)
KnownDtypeDrift(k) == k.opt # "ds" /\ k.tree.x64 /\ k.tree.dtype = "float32"

Accepted(k) == Rejects(k) = "none" /\ RejectsTree(k) = "none"

-----------------------------------------------------------------------------
NoLayout == [ty |-> "none"]

Init == /\ \E i \in 1..Len(Slices) : \E c \in Slices[i].cfgs : \E t \in Slices[i].trees :
             case = [opt |-> Slices[i].opt, cfg |-> c, tree |-> t]
        /\ phase = "new" /\ outcome = "pending" /\ reason = "none" /\ layout = NoLayout

Construct ==
  /\ phase = "new"
  /\ LET r == Rejects(case)
     IN IF r = "none"
        THEN phase' = "constructed" /\ UNCHANGED <<outcome, reason>>
        ELSE phase' = "rejected" /\ outcome' = "explicit_reject" /\ reason' = r
  /\ UNCHANGED <<case, layout>>

InitState ==
  /\ phase = "constructed"
  /\ LET r == RejectsTree(case)
     IN IF r = "none"
        THEN phase' = "inited" /\ outcome' = "ok" /\ layout' = InitLayout(case) /\ UNCHANGED reason
        ELSE phase' = "rejected" /\ outcome' = "explicit_reject" /\ reason' = r /\ UNCHANGED layout
  /\ UNCHANGED case

Update ==
  /\ phase \in {"inited", "updated"}
  /\ phase' = "updated"
  /\ layout' = UpdateLayout(case, layout)
  /\ UNCHANGED <<case, outcome, reason>>

Next == Construct \/ InitState \/ Update
Spec == Init /\ [][Next]_vars

-----------------------------------------------------------------------------
(* Properties                                                                  *)
OutcomeOK == /\ outcome \in {"pending", "ok", "explicit_reject"}
             /\ phase \in {"new", "constructed", "inited", "updated", "rejected"}
             /\ (phase = "rejected") = (outcome = "explicit_reject")
             /\ (phase \in {"inited", "updated"}) = (outcome = "ok")
             /\ (reason # "none") = (phase = "rejected")

(* every accepted case reaches a state with a layout, and can be updated for ever *)
AcceptedRuns == /\ phase = "constructed" => ENABLED InitState
                /\ phase \in {"inited", "updated"} => ENABLED Update /\ layout # NoLayout

(* the state layout is a fixed point of Update *)
FixedStep == (phase \in {"inited", "updated"} /\ ~KnownDtypeDrift(case)) => (layout' = layout)
LayoutFixedPoint == [][FixedStep]_vars

(* updates have the parameters' layout *)
UpdatesHaveParamLayout == phase \in {"inited", "updated"} => UpdatesOK(case)

(* sharded mode: the three descriptions are one tree *)
IsSharded(k) == k.opt = "ds" /\ k.cfg.mode = "shard"
ShardedDeclaredAgrees ==
  phase = "inited" /\ IsSharded(case) => DSDeclaredSharded(case.cfg, case.tree) = layout
ShardedPSpecAgrees ==
  phase = "inited" /\ IsSharded(case)
     => DSSkelPSpec(case.cfg, case.tree) = DSSkelInit(case.cfg, case.tree)
(* per-parameter rows of the global arrays: disjoint, in order, inside the arrays *)
ShardedIndexing ==
  phase = "inited" /\ IsSharded(case) =>
    LET c == case.cfg
        t == case.tree
        loc == layout.stats.local_stats.v
        rows == layout.stats.global_stats.statistics.s[1]
    IN /\ rows % c.D = 0 /\ rows >= c.D
       /\ \A i \in 1..NParams(t) :
            /\ loc[i].index_start + Len(loc[i].sizes) <= rows
            /\ i > 1 => loc[i].index_start = loc[i - 1].index_start + Len(loc[i - 1].sizes)
            /\ \A j \in DOMAIN loc[i].sizes : loc[i].sizes[j] <= layout.stats.global_stats.statistics.s[2]

(* preconditioner widths follow _precond_dim and never exceed the statistic *)
PrecondShapes ==
  phase \in {"inited", "updated"} /\ case.opt = "ds" /\ case.cfg.mode # "shard" =>
    \A i \in 1..NParams(case.tree) :
      LET p == layout.stats.v[i]
      IN /\ Len(p.statistics) = Len(p.preconditioners)
         /\ p.training_metrics # Masked => p.training_metrics.n = Len(p.statistics)
=============================================================================
