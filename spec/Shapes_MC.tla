---- MODULE Shapes_MC ----
(* Exhaustive configurations of Shapes: every shape x block size x merge limit x   *)
(* preconditioner type within the bound, all tensors live (elementwise index maps). *)
EXTENDS Shapes

ShapesUpTo(R, Dims) == UNION {[1..n -> Dims] : n \in 0..R}
Limits == {1, 2, 3, 4, 6, 8, 4096}
PTypes == {"ALL", "INPUT", "OUTPUT"}
\* ds: limit 0 = best_effort_shape_interpretation off (no merging)
DSCases(S, B) == [sys : {"ds"}, shape : S, limit : Limits \cup {0}, bs : B, ptype : PTypes]
\* tf: block sizes 0 and 1 are rejected by _validate
TFCases(S, B) == [sys : {"tf"}, shape : S, limit : {0}, bs : B, ptype : {"ALL"}]
\* rs: merge limit 1 and block size 1 are rejected by merge(); block size 0 = no padding
RSCases(S, B) == [sys : {"rs"}, shape : S, limit : Limits, bs : B, ptype : {"ALL"}]

\* smoke (development)
MC0_Cases == DSCases(ShapesUpTo(3, 1..3), 1..3) \cup TFCases(ShapesUpTo(3, {1, 2, 4}), 0..3)
             \cup RSCases(ShapesUpTo(3, 1..3), 0..3)
\* quick
MC_Cases == DSCases(ShapesUpTo(4, 1..4), 1..5)
            \cup TFCases(ShapesUpTo(4, {1, 2, 3, 4, 6}), 0..5)
            \cup RSCases(ShapesUpTo(4, 1..4), 0..5)
\* thorough: rank 5 with dims <= 3, rank <= 4 with dims <= 4, rank <= 3 with dims <= 6 (block
\* sizes up to 7 there); Tearfree: rank 5 over {2,3,4,6}, rank <= 4 over {1,2,3,4,6,8,9}
MCT_S == ShapesUpTo(4, 1..4) \cup [1..5 -> 1..3] \cup ShapesUpTo(3, 1..6)
MCT_Cases == DSCases(MCT_S, 1..5)
             \cup DSCases(ShapesUpTo(3, 1..6), {6, 7})
             \cup TFCases([1..5 -> {2, 3, 4, 6}] \cup ShapesUpTo(4, {1, 2, 3, 4, 6, 8, 9}), 0..5)
             \cup RSCases(MCT_S, 0..5)
====
