SPECIFICATION GSpecS
CONSTANTS
  Cfgs <- GENS_Cfgs
  Masses <- GENS_Masses
  GVals <- GEN_GVals
  T = 5
INVARIANT Emit
CHECK_DEADLOCK FALSE
