---- MODULE OCO_Trace ----
(* Trace validation (code -> spec) for the sketched OCO methods on DENSE gradient histories.   *)
(* Off the axis-aligned lattice the sketch is not an exact state machine; what the            *)
(* specification promises there are OCO's invariants in matrix form.  The harness measures     *)
(* them in float64 on the states returned by the real update function and logs integers only:  *)
(*   {cfg:{alg,k,f2,fp,tolfp}, events:[{err, tc, finite, lastzero, rank, lo, hi, aerr,          *)
(*                                      lossless, escfp}]}                                     *)
(*   tc        state['t'] after the call                                                        *)
(*   lastzero  e[-1] == 0 exactly                               (OCO!LastRowZero)               *)
(*   rank      number of non-negligible entries of e             (OCO!RankBound)                *)
(*   lo        floor(fp * lambda_min(C - S) / tr C)              (OCO!Bracket, lower half)       *)
(*   hi        floor(fp * lambda_min(S + esc I - C) / tr C)      (OCO!Bracket, upper half)       *)
(*   aerr      ceil(fp * |alpha' - alpha - f2/2 rho^2| / tr C)   (OCO!AlphaLaw, incremental)     *)
(*   lossless  the history so far has rank < k;  escfp = ceil(fp * esc / tr C)  (OCO!Lossless)  *)
(*   fmfp      ceil(fp * max|w - w_fm| / max|w_fm|), w_fm the iterate of exact full-matrix       *)
(*             AdaGrad on the same history (S_ADA, delta > 0 = cfg.dpos, while lossless)         *)
(* with S = P^T diag(e^2) P, C the exact second moment of the sketch inputs, rho^2 the smallest  *)
(* squared singular value of the matrix the step factors (measured by the harness with numpy,    *)
(* independently of the implementation's own arithmetic) and esc its running sum.  Margins are   *)
(* rounded towards violation.  OCO's own variables n, tc, cfg follow the trace so that           *)
(* OCO!StepCount is evaluated by TLC on every state as well.                                     *)
EXTENDS OCO, Json, IOUtils
Traces == JsonDeserialize(IOEnv.TRACE_FILE)
VARIABLES tid, l, bad
tvars == <<vars, tid, l, bad>>
Ev == Traces[tid].events
TC == Traces[tid].cfg

Verdict(e) ==
  IF e.err # "none" THEN "code_raised"
  ELSE IF ~e.finite THEN "nonfinite_state"
  ELSE IF e.tc # tc + 1 THEN "step_count"
  ELSE IF ~e.lastzero THEN "last_row_not_zero"
  ELSE IF e.rank > TC.k - 1 THEN "rank_bound"
  ELSE IF e.lo < 0 - TC.tolfp THEN "bracket_lower"
  ELSE IF e.hi < 0 - TC.tolfp THEN "bracket_upper"
  ELSE IF TC.f2 # AlphaFactor2(TC.alg) THEN "alpha_factor_of_trace_disagrees_with_spec"
  ELSE IF e.aerr > TC.tolfp THEN "alpha_law"
  ELSE IF e.lossless /\ e.escfp > TC.tolfp THEN "lossless_but_escaped"
  ELSE IF e.lossless /\ TC.alg = "S_ADA" /\ TC.dpos /\ e.fmfp > TC.fmtolfp THEN "lossless_not_full_matrix_adagrad"
  ELSE "ok"

TraceInit == /\ tid \in 1..Len(Traces) /\ l = 1 /\ bad = "ok"
             /\ cfg = [alg |-> Traces[tid].cfg.alg, d |-> Traces[tid].cfg.k, k |-> Traces[tid].cfg.k,
                       dN |-> 0, dD |-> 1, lrN |-> 1, lrD |-> 1, tmax |-> 0]
             /\ n = 0 /\ gs = <<>> /\ tc = 0 /\ esc = 0 /\ w = <<>> /\ h = <<>> /\ hsq = {}
             /\ rows = <<>> /\ alpha2 = 0

TraceStep ==
  /\ l <= Len(Ev) /\ bad = "ok"
  /\ LET e == Ev[l]
         v == Verdict(e)
     IN IF v = "ok"
        THEN /\ tc' = e.tc /\ n' = n + 1 /\ l' = l + 1 /\ bad' = "ok"
             /\ UNCHANGED <<cfg, gs, h, hsq, rows, alpha2, esc, w>>
        ELSE /\ bad' = v /\ UNCHANGED <<vars, l>>
  /\ UNCHANGED tid

TraceSpec == TraceInit /\ [][TraceStep]_tvars
Finished == (l = Len(Ev) + 1) \/ bad # "ok"
EmitVerdict == Finished => PrintT("@@V " \o ToJson([tid |-> tid, l |-> l, verdict |-> bad]))
====
