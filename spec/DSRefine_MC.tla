---- MODULE DSRefine_MC ----
EXTENDS DSRefine
Half == <<1, 1>>
MC_TCfgs == [b1 : {D0}, b2 : {D1, Half}, nest : {FALSE}, mavg : {FALSE}, wd : {D0}, dwd : {FALSE},
             dlr : {TRUE}, lr : {<<1, 2>>}, lrs : {"const"}, graft : {"SGD"},
             start : {0, 2, 3}, S : {1, 2, 3}, P : {1, 2, 3}, shard : BOOLEAN, skip : {FALSE}]
====
