SPECIFICATION GSpec
CONSTANTS
  Cases <- GENT1_Cases
  MapMax = 512
INVARIANT Emit
CHECK_DEADLOCK TRUE
