---- MODULE SM3_MC ----
(* Exhaustive configurations of SM3.  The sign of a gradient entry does not reach the *)
(* accumulators (only g^2 does), so the larger shapes use non-negative values; the      *)
(* replay leg (SM3_Gen) feeds negative entries to the real code.                        *)
EXTENDS SM3
Betas == {<<1, 1>>, <<1, 2>>}
C(sh, vals, T) == {[shape |-> sh, bn |-> b[1], bd |-> b[2], vals |-> vals, T |-> T] : b \in Betas}
MC_Cfgs == C(<<2>>, {-1, 0, 1, 2}, 3) \cup C(<<3>>, {0, 1, 2}, 3)
           \cup C(<<2, 2>>, {0, 1, 2}, 2) \cup C(<<2, 2>>, {0, 1}, 3) \cup C(<<2, 3>>, {0, 2}, 2)
           \cup C(<<2, 3>>, {0, 1, 2}, 1) \cup C(<<2, 2, 2>>, {0, 2}, 1) \cup C(<<2, 2, 2>>, {0, 1}, 2)
MCV_Cfgs == C(<<3>>, {-1, 0, 2}, 2) \cup C(<<2, 2>>, {0, 1, 2}, 2)
MCT_Cfgs == MC_Cfgs \cup C(<<2, 2>>, {0, 1, 2}, 3) \cup C(<<2, 2>>, {-1, 0, 1, 2}, 2)
            \cup C(<<2, 3>>, {0, 1, 2}, 2) \cup C(<<3, 2>>, {0, 1, 3}, 2)
            \cup C(<<2, 2, 2>>, {0, 2}, 2) \cup C(<<2, 2, 2>>, {0, 1, 2}, 1)
            \cup {[shape |-> <<2, 2>>, bn |-> 3, bd |-> 4, vals |-> {0, 1, 2}, T |-> 3]}
            \cup C(<<2, 1, 2, 2>>, {0, 2}, 2)
====
