---- MODULE Realloc_Gen ----
(* Behaviour export for replay into the real create_redist_dict (spec -> code).     *)
(* One line per complete behaviour of one group:                                     *)
(*   {n, dim, base, score:[..] (group order), rank:[..] (final, group order),        *)
(*    main:[..] (ranks before the leftover pass), ties:[tag per main-loop iteration]} *)
(* Tags: "none"  the quotient was not a tie (no choice),                             *)
(*       "same"  tie at q >= dim: both floors give rank = dim (outlier or full share) *)
(*       "high"  tie, float landed on or above the integer (floor = q),              *)
(*       "lowU"  tie, floor = q-1, resource/total NOT exactly representable          *)
(*               (allowed by both float models),                                     *)
(*       "lowX"  tie, floor = q-1 although resource/total is exact in float32        *)
(*               (only the inexact-input model, ExactInputs = FALSE, allows it).     *)
(* The harness groups the lines by instance: the set of `rank` vectors is the set of  *)
(* allocations the specification allows for that instance; the real function's result  *)
(* must be a member, and members never produced by the real function are reported as   *)
(* unused_spec_branches.                                                               *)
EXTENDS Realloc, Json
VARIABLES ties, mainrank
gvars == <<vars, ties, mainrank>>

Tag == LET k == order[i]  s == score[k]  q == (s * res) \div tot IN
       IF ~IsTie(s, res, tot) THEN "none"
       ELSE IF q >= dim THEN "same"          \* floor q and q-1 both end in rank = dim, resource - (dim-1)
       ELSE IF rank'[k] = q + 1 THEN "high"
       ELSE IF UnitExact(res, tot) THEN "lowX" ELSE "lowU"

GInit == Init /\ ties = <<>> /\ mainrank = <<>>
GNext == /\ Next
         /\ ties' = IF pc = "main" /\ i <= n THEN Append(ties, Tag) ELSE ties
         /\ mainrank' = IF pc = "main" /\ i > n THEN rank ELSE mainrank
GSpec == GInit /\ [][GNext]_gvars
Emit == pc = "done" =>
          PrintT("@@GEN " \o ToJson([n |-> n, dim |-> dim, base |-> base, score |-> score,
                                     rank |-> rank, main |-> mainrank, ties |-> ties]))
GEN_Scores == 0..5
GEN_Dims   == 2..6
GEN_Bases  == 1..6
\* thorough: one more score value
GENT_Scores == 0..6
\* tie witnesses: small integers for which float32 s*(r/t) lands BELOW the exact integer quotient
\* (e.g. 11*(26/22) = 12.999999), i.e. the "lowU" branch of the exact-input model taken by the real code
GENW_Scores == {7, 11, 22, 23}
GENW_Dims   == {64}
GENW_Bases  == {4, 14, 16, 27, 29, 32}
====
