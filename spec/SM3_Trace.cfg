SPECIFICATION TraceSpec
CONSTANTS
  Cfgs = {}
INVARIANT EmitVerdict
INVARIANT EmitStall
INVARIANT TypeOK
INVARIANT Cover
INVARIANT StepBound
INVARIANT NuBelowAcc
INVARIANT Tight
INVARIANT Rank1Exact
PROPERTY Mono
PROPERTY MonoDecay
CHECK_DEADLOCK FALSE
