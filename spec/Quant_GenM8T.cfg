SPECIFICATION MatSpec
CONSTANTS
  N = 127
  GenMax <- G8_Max
  GenShapes <- GT_Shapes
  SampleK = 40
  GenVals <- G_Vals
INVARIANT EmitMat
CHECK_DEADLOCK FALSE
