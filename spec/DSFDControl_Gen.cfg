SPECIFICATION GSpec
CONSTANTS
  Cfgs <- GEN_Cfgs
  T = 9
INVARIANT Emit
CHECK_DEADLOCK FALSE
