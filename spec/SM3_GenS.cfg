SPECIFICATION GSpec
CONSTANTS
  Cfgs <- GENS_Cfgs
  Sample = 3
INVARIANT Emit
CHECK_DEADLOCK FALSE
