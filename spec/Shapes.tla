------------------------------- MODULE Shapes -------------------------------
(***************************************************************************)
(* Shape transformations that fit tensors to preconditioners (property C06) *)
(*                                                                         *)
(* A transcription, in pure TLA+ operators over sequences of naturals, of   *)
(*   precondition/distributed_shampoo.py                                    *)
(*       merge_small_dims                                                   *)
(*       BlockPartitioner.__init__/split_sizes/partition/merge_partitions   *)
(*       Preconditioner.should_precondition_dims/shapes_for_preconditioners *)
(*         /exponent_for_preconditioner/_preconds_for_grad                  *)
(*         /preconditioned_grad/_precondition_block (identity matrices)     *)
(*   precondition/tearfree/shampoo.py                                       *)
(*       _init.make_blocks (rejections) /_blocks_metadata                   *)
(*       /_blockify/_deblockify/_precondition_blocks (axis bookkeeping)     *)
(*   precondition/tearfree/reshaper.py                                      *)
(*       merge/unmerge option validation, _derive_shapes, _merge, _unmerge  *)
(*                                                                         *)
(* TENSORS.  A tensor is a record [shape, live, data]; `data` is the        *)
(* row-major flattening of the tensor and every entry is a LABEL: the       *)
(* row-major linear index (0-based) that the element had in the ORIGINAL    *)
(* parameter, or PAD for an element invented by padding.  The input of      *)
(* every pipeline is Arange(shape) (label k at linear position k), so the   *)
(* `data` of any later tensor IS the index map "output position -> linear   *)
(* index of the input element"; element ORDER is therefore part of the      *)
(* model and a permutation, a loss or a duplication is a different value.   *)
(* A tensor with live = FALSE is shape-only (data = <<>>): all operators    *)
(* propagate shapes without touching data; this is used for shapes that are *)
(* too large to enumerate elementwise (trace validation of big shapes).     *)
(*                                                                         *)
(* INDEXING.  Axes and positions inside sequences are 1-based here (TLA+),  *)
(* 0-based in the Python code; coordinates of elements, labels, offsets and *)
(* preconditioner slot numbers are 0-based in both.  The harness adds 1 to  *)
(* the code's axis numbers (large_axes, blocks_axis, _splits axis).         *)
(*                                                                         *)
(* STATE MACHINE.  One behaviour = one case `cfg` pushed through one of the *)
(* three pipelines, one action per code-level step, every intermediate      *)
(* result being kept in the record `r` (fields are added, never changed):   *)
(*   ds: DSMerge, DSPlan, DSAnnounce, DSPartition, DSPrecondition,          *)
(*       DSMergeBack                                                        *)
(*   tf: TFValidate, TFMeta, TFInit, TFBlockify, TFPrecondition,            *)
(*       TFDeblockify                                                       *)
(*   rs: RSValidate, RSDerive, RSMerge, RSUnmerge                           *)
(* All actions are deterministic functions of cfg (the code is): the only   *)
(* nondeterminism is the choice of the case in Init.  cfg changes once:     *)
(* DSMerge resets the merge limit it has consumed (see there).              *)
(***************************************************************************)
EXTENDS Integers, Sequences, FiniteSets, TLC

CONSTANTS Cases,  \* set of [sys, shape, limit, bs, ptype] records (see *_MC)
          MapMax  \* tensors of cases with at most MapMax elements are live (carry
                  \* their index maps), larger cases are shape-only

VARIABLES cfg,   \* the case: sys \in {"ds","tf","rs"}, shape, merge limit
                 \* (ds: 0 = best_effort_shape_interpretation off), block size,
                 \* preconditioner type
          pc,    \* pipeline phase
          r      \* results so far (record that grows with every step)
vars == <<cfg, pc, r>>

NONE == -1       \* Python None in a slot list
PAD  == -1       \* label of an element created by padding (holds 0.0 in the code)

Min(a, b) == IF a <= b THEN a ELSE b
Max(a, b) == IF a >= b THEN a ELSE b

-----------------------------------------------------------------------------
(* Sequences of naturals *)

Range(s) == {s[i] : i \in DOMAIN s}
RECURSIVE ProdFrom(_, _)
ProdFrom(s, i) == IF i > Len(s) THEN 1 ELSE s[i] * ProdFrom(s, i + 1)
Prod(s) == ProdFrom(s, 1)
\* (sums and concatenations over possibly hundreds of blocks recurse by halving: TLC
\* evaluates recursion on the Java stack, which overflows at a depth of a few hundred)
RECURSIVE SumRange(_, _, _)    \* s[lo] + .. + s[hi]
SumRange(s, lo, hi) ==
  IF lo > hi THEN 0 ELSE IF lo = hi THEN s[lo]
  ELSE LET mid == (lo + hi) \div 2 IN SumRange(s, lo, mid) + SumRange(s, mid + 1, hi)
SumTo(s, i) == SumRange(s, 1, i)                      \* sum of the first i entries
Sum(s) == SumTo(s, Len(s))
RECURSIVE FlattenRange(_, _, _)
FlattenRange(ss, lo, hi) ==
  IF lo > hi THEN <<>> ELSE IF lo = hi THEN ss[lo]
  ELSE LET mid == (lo + hi) \div 2 IN FlattenRange(ss, lo, mid) \o FlattenRange(ss, mid + 1, hi)
Flatten(ss) == FlattenRange(ss, 1, Len(ss))           \* concatenation of a sequence of sequences
InsertAt(s, pos, v) == SubSeq(s, 1, pos - 1) \o <<v>> \o SubSeq(s, pos, Len(s))
RemoveAt(s, pos) == SubSeq(s, 1, pos - 1) \o SubSeq(s, pos + 1, Len(s))
Iota(n) == [i \in 1..n |-> i]
AllOnes(s) == s # <<>> /\ \A i \in DOMAIN s : s[i] = 1
IsPermutationOf0(s, n) == Len(s) = n /\ Range(s) = 0..(n - 1)

-----------------------------------------------------------------------------
(* Tensor algebra: exactly the numpy/jax.numpy operations the code uses.     *)

Strides(s) == [i \in 1..Len(s) |-> ProdFrom(s, i + 1)]
Coords(q, s, st) == [i \in 1..Len(s) |-> (q \div st[i]) % s[i]]   \* unravel_index
RECURSIVE RavelH(_, _, _, _)
RavelH(idx, s, i, acc) == IF i > Len(s) THEN acc ELSE RavelH(idx, s, i + 1, acc * s[i] + idx[i])
Ravel(idx, s) == RavelH(idx, s, 1, 0)                             \* ravel_multi_index
At(t, idx) == t.data[Ravel(idx, t.shape) + 1]

\* The tensor of the given shape whose element at coordinates o is F(o).
Gather(shape, F(_), live) ==
  [shape |-> shape, live |-> live,
   data |-> IF live
            THEN LET st == Strides(shape)
                 IN [k \in 1..Prod(shape) |-> F(Coords(k - 1, shape, st))]
            ELSE <<>>]

Arange(shape, live) ==
  [shape |-> shape, live |-> live,
   data |-> IF live THEN [k \in 1..Prod(shape) |-> k - 1] ELSE <<>>]

\* jnp.reshape / expand_dims / squeeze: row-major order is untouched.
Reshape(t, s) == [shape |-> s, live |-> t.live, data |-> t.data]

\* jnp.transpose(t, perm): out.shape[j] = t.shape[perm[j]].
Transpose(t, perm) ==
  LET n == Len(perm)
      inv == [a \in 1..n |-> CHOOSE j \in 1..n : perm[j] = a]
  IN Gather([j \in 1..n |-> t.shape[perm[j]]],
            LAMBDA o : At(t, [a \in 1..n |-> o[inv[a]]]), t.live)

\* t[..., lo:hi, ...] on one axis.
SliceAxis(t, axis, lo, hi) ==
  Gather([t.shape EXCEPT ![axis] = hi - lo],
         LAMBDA o : At(t, [o EXCEPT ![axis] = o[axis] + lo]), t.live)

\* The contiguous sub-tensor of t at offset `off` with shape `sz`.
SubTensor(t, off, sz) ==
  Gather(sz, LAMBDA o : At(t, [a \in 1..Len(sz) |-> o[a] + off[a]]), t.live)

\* jnp.split(t, indices_or_sections=indices, axis=axis)
SplitAt(t, axis, indices) ==
  LET b == <<0>> \o indices \o <<t.shape[axis]>>
  IN [k \in 1..(Len(indices) + 1) |-> SliceAxis(t, axis, b[k], b[k + 1])]

\* jnp.concatenate(ts, axis=axis)
ConcatAxis(ts, axis) ==
  LET ext == [k \in 1..Len(ts) |-> ts[k].shape[axis]]
      pre == [k \in 0..Len(ts) |-> SumTo(ext, k)]            \* where piece k+1 starts
      Piece(p) == CHOOSE k \in 1..Len(ts) : pre[k - 1] <= p /\ p < pre[k]
  IN Gather([ts[1].shape EXCEPT ![axis] = pre[Len(ts)]],
            LAMBDA o : LET k == Piece(o[axis])
                       IN At(ts[k], [o EXCEPT ![axis] = o[axis] - pre[k - 1]]),
            ts[1].live)

\* jnp.pad(t, [(0, s[a] - t.shape[a])]) with zeros
PadTo(t, s) ==
  Gather(s, LAMBDA o : IF \A a \in 1..Len(s) : o[a] < t.shape[a] THEN At(t, o) ELSE PAD,
         t.live)

-----------------------------------------------------------------------------
(* distributed_shampoo.merge_small_dims (loop transcribed; the accumulator   *)
(* pair of the for-loop is (res, product)).                                  *)

RECURSIVE MergeLoop(_, _, _, _, _)
MergeLoop(s, i, maxd, res, product) ==
  IF i > Len(s)
  THEN IF product > 1 THEN Append(res, product) ELSE res
  ELSE IF product * s[i] <= maxd
       THEN MergeLoop(s, i + 1, maxd, res, product * s[i])
       ELSE MergeLoop(s, i + 1, maxd,
                      IF product > 1 THEN Append(res, product) ELSE res, s[i])
MergeSmallDims(s, maxd) == IF AllOnes(s) THEN <<1>> ELSE MergeLoop(s, 1, maxd, <<>>, 1)

-----------------------------------------------------------------------------
(* distributed_shampoo.BlockPartitioner                                      *)

\* __init__: self._split_sizes -- one vector of block extents per axis
SplitSizesOf(shape, bs) ==
  [i \in 1..Len(shape) |->
     IF 0 < bs /\ bs < shape[i]
     THEN LET nsplit == (shape[i] - 1) \div bs
          IN [k \in 1..(nsplit + 1) |-> IF k <= nsplit THEN bs ELSE shape[i] - nsplit * bs]
     ELSE <<shape[i]>>]

\* __init__: self._splits -- (axis, cut positions), only for axes that are cut
RECURSIVE SplitsFrom(_, _, _)
SplitsFrom(shape, bs, i) ==
  IF i > Len(shape) THEN <<>>
  ELSE (IF 0 < bs /\ bs < shape[i]
        THEN <<[axis |-> i, indices |-> [k \in 1..((shape[i] - 1) \div bs) |-> k * bs]]>>
        ELSE <<>>) \o SplitsFrom(shape, bs, i + 1)
SplitsOf(shape, bs) == SplitsFrom(shape, bs, 1)

\* partition: for (i, indices) in _splits: tensors = [piece for t in tensors for piece in split(t)]
SplitAll(ts, axis, indices) == Flatten([k \in 1..Len(ts) |-> SplitAt(ts[k], axis, indices)])
RECURSIVE PartitionLoop(_, _, _)
PartitionLoop(ts, splits, k) ==
  IF k > Len(splits) THEN ts
  ELSE PartitionLoop(SplitAll(ts, splits[k].axis, splits[k].indices), splits, k + 1)
Partition(t, splits) == PartitionLoop(<<t>>, splits, 1)

\* merge_partitions: for (i, indices) in reversed(_splits): concatenate runs of n
\* while ind < len(partitions): out.append(concatenate(partitions[ind:ind + n])); ind += n
GroupConcat(ps, n, axis) ==
  [g \in 1..((Len(ps) + n - 1) \div n) |->
     ConcatAxis(SubSeq(ps, (g - 1) * n + 1, Min(g * n, Len(ps))), axis)]
RECURSIVE UnsplitLoop(_, _, _)
UnsplitLoop(ps, splits, k) ==
  IF k = 0 THEN ps
  ELSE UnsplitLoop(GroupConcat(ps, Len(splits[k].indices) + 1, splits[k].axis), splits, k - 1)
MergePartitions(ps, splits) == UnsplitLoop(ps, splits, Len(splits))

(* Declarative description of the blocks, used by the properties only.       *)
(* Block number q (0-based) in the order itertools.product enumerates the    *)
(* per-axis split sizes (last axis fastest) is the contiguous sub-tensor at  *)
(* offset "sum of the preceding extents" with the extents as its shape.      *)
BlockCounts(ss) == [i \in 1..Len(ss) |-> Len(ss[i])]
BlockCoord(ss, q) == LET cn == BlockCounts(ss) IN Coords(q, cn, Strides(cn))
BlockShape(ss, q) == LET c == BlockCoord(ss, q) IN [i \in 1..Len(ss) |-> ss[i][c[i] + 1]]
BlockOffset(ss, q) == LET c == BlockCoord(ss, q) IN [i \in 1..Len(ss) |-> SumTo(ss[i], c[i])]
BlockDecl(g, ss, q) == SubTensor(g, BlockOffset(ss, q), BlockShape(ss, q))
\* ... and in closed form (no tensor needed): the label at flat position p of block q
SubLabelAt(gshape, bsz, off, st, p) ==     \* st = Strides(bsz), hoisted out of loops over p
  LET o == Coords(p, bsz, st) IN Ravel([a \in 1..Len(bsz) |-> o[a] + off[a]], gshape)
BlockLabelAt(gshape, ss, q, p) ==
  LET bsz == BlockShape(ss, q) IN SubLabelAt(gshape, bsz, BlockOffset(ss, q), Strides(bsz), p)

-----------------------------------------------------------------------------
(* distributed_shampoo.Preconditioner                                        *)

\* should_precondition_dims (PreconditionerType is ignored for rank <= 1)
ShouldPrecondition(rank, ptype) ==
  IF ptype = "ALL" \/ rank <= 1 THEN [i \in 1..rank |-> TRUE]
  ELSE IF ptype = "INPUT" THEN [i \in 1..rank |-> i < rank]
  ELSE [i \in 1..rank |-> i = rank]
NumTrue(b) == Cardinality({i \in DOMAIN b : b[i]})

\* shapes_for_preconditioners: the preconditioner of size d is the matrix [d, d];
\* the spec lists d.  for t in itertools.product(*split_sizes): extend(select(t))
PrecShapes(ss, ptype) ==
  LET rank == Len(ss)
      Sel(t) == IF ptype = "ALL" \/ rank <= 1 THEN t
                ELSE IF ptype = "INPUT" THEN SubSeq(t, 1, rank - 1)
                ELSE SubSeq(t, rank, rank)
  IN Flatten([q \in 1..Prod(BlockCounts(ss)) |-> Sel(BlockShape(ss, q - 1))])

\* (updated_statistics_from_grad emits the statistics in the same order: `index += 1` per
\* block and per preconditioned axis, i.e. statistic k belongs to the (block, axis) whose
\* slot number is k; the replay checks this with the Gram matrices of the spec's blocks.)
\* exponent_for_preconditioner
Exponent(rank, ptype) == 2 * NumTrue(ShouldPrecondition(rank, ptype))

\* _preconds_for_grad(preconditioners, rank, start, end): the list is modelled by
\* the slot numbers 0..N-1 of its entries, Python's None by NONE.
PrecondsForGrad(rank, ptype, start, end) ==
  LET sl == [k \in 1..(end - start) |-> start + k - 1]
  IN IF ptype = "INPUT" /\ rank > 1 THEN Append(sl, NONE)
     ELSE IF ptype = "OUTPUT" THEN [k \in 1..Max(rank - 1, 0) |-> NONE] \o sl
     ELSE sl

\* _precondition_block with identity matrices: one pass of the loop either
\* transposes with roll = (1, .., rank-1, 0) or contracts axis 0 with the identity
\* and appends the new axis last -- the same movement of elements.
RollLeft(t) ==
  LET n == Len(t.shape)
  IN IF n <= 1 THEN t ELSE Transpose(t, [j \in 1..n |-> IF j < n THEN j + 1 ELSE 1])
RECURSIVE RollTimes(_, _)
RollTimes(t, k) == IF k = 0 THEN t ELSE RollTimes(RollLeft(t), k - 1)
PreconditionBlock(g) == RollTimes(g, Len(g.shape))

-----------------------------------------------------------------------------
(* tearfree/shampoo.py                                                       *)

\* _validate + _init.make_blocks: the first failing check names the rejection
TFVerdict(shape, bs) ==
  IF bs <= 1 THEN "bad_block"
  ELSE IF \E i \in DOMAIN shape : shape[i] = 1 THEN "unit"
  ELSE IF Cardinality({i \in DOMAIN shape : shape[i] >= bs}) > 2 THEN "many_large"
  ELSE IF \E i \in DOMAIN shape : shape[i] >= bs /\ shape[i] % bs # 0 THEN "indivisible"
  ELSE "ok"

\* _blocks_metadata (axes 1-based; blocks_axis = min(large_axes, default = first))
RECURSIVE LargeFrom(_, _, _)
LargeFrom(shape, bs, i) ==
  IF i > Len(shape) THEN <<>>
  ELSE (IF shape[i] >= bs THEN <<i>> ELSE <<>>) \o LargeFrom(shape, bs, i + 1)
TFMetaOf(shape, bs) ==
  LET large == LargeFrom(shape, bs, 1)
      per == [k \in 1..Len(large) |-> shape[large[k]] \div bs]
  IN [block_sizes |-> [i \in 1..Len(shape) |-> Min(shape[i], bs)],
      num_blocks |-> Prod(per),
      large_block_size |-> bs,
      param_shape |-> shape,
      large_axes |-> large,
      blocks_per_large_axis |-> per,
      blocks_axis |-> IF large = <<>> THEN 1 ELSE large[1]]

\* _blockify
Blockify(x, m) ==
  LET s == m.param_shape
      bs == m.large_block_size
  IN IF m.large_axes = <<>>
     THEN Reshape(x, InsertAt(s, m.blocks_axis, 1))                \* expand_dims
     ELSE IF Len(m.large_axes) = 1
     THEN LET a == m.large_axes[1]
          IN Reshape(x, SubSeq(s, 1, a - 1) \o <<m.num_blocks, bs>> \o SubSeq(s, a + 1, Len(s)))
     ELSE LET L == m.large_axes[1]
              R == m.large_axes[2]
              before == SubSeq(s, 1, L - 1)
              middle == SubSeq(s, L + 1, R - 1)
              after == SubSeq(s, R + 1, Len(s))
              lb == m.blocks_per_large_axis[1]
              rb == m.blocks_per_large_axis[2]
              split_shape == before \o <<lb, bs>> \o middle \o <<rb, bs>> \o after
              l_ix == Len(before) + 1                      \* position of the l-blocks axis
              r_ix == Len(before) + 3 + Len(middle)        \* position of the r-blocks axis
              \* perm.pop(r_blocks_ix); perm.insert(l_blocks_ix + 1, r_blocks_ix)
              perm == InsertAt(RemoveAt(Iota(Len(split_shape)), r_ix), l_ix + 1, r_ix)
          IN Reshape(Transpose(Reshape(x, split_shape), perm),
                     before \o <<m.num_blocks, bs>> \o middle \o <<bs>> \o after)

\* _deblockify
Deblockify(b, m) ==
  IF Len(m.large_axes) <= 1
  THEN Reshape(b, m.param_shape)                                   \* squeeze / reshape
  ELSE LET ba == m.blocks_axis
           split_shape == SubSeq(b.shape, 1, ba - 1) \o m.blocks_per_large_axis
                          \o SubSeq(b.shape, ba + 1, Len(b.shape))
           \* r_blocks_val = perm.pop(blocks_axis + 1);
           \* perm.insert(large_axes[1] + 1, r_blocks_val)   (0-based in the code)
           perm == InsertAt(RemoveAt(Iota(Len(split_shape)), ba + 1), m.large_axes[2] + 1, ba + 1)
       IN Reshape(Transpose(Reshape(b, split_shape), perm), m.param_shape)

(* Declarative description of the blocked tensor, used by the properties     *)
(* only.  The blocked tensor has the blocks axis inserted at blocks_axis,    *)
(* every original axis a sits at BlockedPos(a) and has extent block_sizes[a]. *)
(* Block n = l * r_blocks + r (n = l with one large axis, 0 with none) is    *)
(* the contiguous sub-tensor at offset l*bs on the first and r*bs on the     *)
(* second large axis.                                                        *)
BlockedPos(m, a) == IF a < m.blocks_axis THEN a ELSE a + 1
BlockedShape(m) == InsertAt(m.block_sizes, m.blocks_axis, m.num_blocks)
BlockOrigin(m, n) ==
  [a \in 1..Len(m.param_shape) |->
     IF Len(m.large_axes) >= 1 /\ a = m.large_axes[1]
     THEN (IF Len(m.large_axes) = 2 THEN n \div m.blocks_per_large_axis[2] ELSE n)
          * m.large_block_size
     ELSE IF Len(m.large_axes) = 2 /\ a = m.large_axes[2]
     THEN (n % m.blocks_per_large_axis[2]) * m.large_block_size
     ELSE 0]
BlockifyDecl(x, m) ==
  Gather(BlockedShape(m),
         LAMBDA o : LET org == BlockOrigin(m, o[m.blocks_axis])
                    IN At(x, [a \in 1..Len(m.param_shape) |-> org[a] + o[BlockedPos(m, a)]]),
         x.live)
\* closed form: the label at flat position p of the blocked tensor
BlockedLabelWith(m, bsh, st, p) ==          \* bsh = BlockedShape(m), st = Strides(bsh)
  LET o == Coords(p, bsh, st)
      org == BlockOrigin(m, o[m.blocks_axis])
  IN Ravel([a \in 1..Len(m.param_shape) |-> org[a] + o[BlockedPos(m, a)]], m.param_shape)
BlockedLabelAt(m, p) == LET bsh == BlockedShape(m) IN BlockedLabelWith(m, bsh, Strides(bsh), p)

-----------------------------------------------------------------------------
(* tearfree/reshaper.py                                                      *)

RSVerdict(limit, bs) ==
  IF limit < 2 THEN "bad_merge_dims"
  ELSE IF bs < 2 /\ bs # 0 THEN "bad_block"
  ELSE "ok"

\* _derive_shapes
RSShapes(shape, limit, bs) ==
  LET merged == MergeSmallDims(shape, limit)
  IN IF merged = <<1>>
     THEN [original_shape |-> shape, merged_shape |-> <<>>, padded_shape |-> <<>>]
     ELSE [original_shape |-> shape, merged_shape |-> merged,
           padded_shape |->
             IF bs = 0 THEN merged
             ELSE [i \in 1..Len(merged) |->
                     IF merged[i] >= bs THEN ((merged[i] + bs - 1) \div bs) * bs
                     ELSE merged[i]]]

\* merge._merge
RSMergeOf(x, sh, bs) ==
  LET m == Reshape(x, sh.merged_shape)
  IN IF sh.padded_shape # <<>> /\ bs > 0 THEN PadTo(m, sh.padded_shape) ELSE m

\* closed form: the label at flat position p of the merged-and-padded tensor
MergedLabelWith(sh, st, p) ==                \* st = Strides(sh.padded_shape)
  LET o == Coords(p, sh.padded_shape, st)
  IN IF \A a \in 1..Len(sh.merged_shape) : o[a] < sh.merged_shape[a]
     THEN Ravel(o, sh.merged_shape) ELSE PAD
MergedLabelAt(sh, p) == MergedLabelWith(sh, Strides(sh.padded_shape), p)

\* unmerge._unmerge
RSUnmergeOf(u, sh, bs) ==
  Reshape(IF bs = 0 THEN u
          ELSE SubTensor(u, [a \in 1..Len(sh.merged_shape) |-> 0], sh.merged_shape),
          sh.original_shape)

-----------------------------------------------------------------------------
(* The three pipelines.  XxxR(c, s) is the record after the step, the action *)
(* Xxx installs it; *_Trace re-uses XxxR to judge logged observations.       *)

LiveCase(c) == Prod(c.shape) <= MapMax
Live == LiveCase(cfg)
X0(c) == Arange(c.shape, LiveCase(c))

\* ---- Distributed Shampoo: Preconditioner.__init__ ... preconditioned_grad ----
DSMergeR(c, s) ==
  s @@ [transformed |-> IF c.limit = 0 THEN c.shape ELSE MergeSmallDims(c.shape, c.limit)]
DSPlanR(c, s) ==
  s @@ [split_sizes |-> SplitSizesOf(s.transformed, c.bs), splits |-> SplitsOf(s.transformed, c.bs)]
DSAnnounceR(c, s) ==
  s @@ [should |-> ShouldPrecondition(Len(s.split_sizes), c.ptype),
        prec_shapes |-> PrecShapes(s.split_sizes, c.ptype),
        exponent |-> Exponent(Len(s.split_sizes), c.ptype)]
DSPartitionR(c, s) ==
  LET g == Reshape(s.x, s.transformed)
  IN s @@ [g |-> g, blocks |-> Partition(g, s.splits)]
DSPreconditionR(c, s) ==
  LET rank == Len(s.should)
      np == NumTrue(s.should)
  IN s @@ [slots |-> [i \in 1..Len(s.blocks) |-> PrecondsForGrad(rank, c.ptype, (i - 1) * np, i * np)],
           pblocks |-> [i \in 1..Len(s.blocks) |-> PreconditionBlock(s.blocks[i])]]
DSMergeBackR(c, s) ==
  LET parts == MergePartitions(s.pblocks, s.splits)
  IN s @@ [nparts |-> Len(parts), out |-> Reshape(parts[1], c.shape)]

\* The merge limit is a constructor argument that nothing reads after this step (the object keeps
\* _original_shape and _transformed_shape only): it is reset here, so that cases which differ
\* only in a limit that led to the same transformed shape continue as ONE state.
DSMerge == /\ pc = "start" /\ cfg.sys = "ds" /\ r' = DSMergeR(cfg, r) /\ pc' = "merged"
           /\ cfg' = [cfg EXCEPT !.limit = 0]
DSPlan == pc = "merged" /\ r' = DSPlanR(cfg, r) /\ pc' = "planned" /\ UNCHANGED cfg
DSAnnounce == pc = "planned" /\ r' = DSAnnounceR(cfg, r) /\ pc' = "announced" /\ UNCHANGED cfg
DSPartition == pc = "announced" /\ r' = DSPartitionR(cfg, r) /\ pc' = "partitioned" /\ UNCHANGED cfg
DSPrecondition == pc = "partitioned" /\ r' = DSPreconditionR(cfg, r) /\ pc' = "preconditioned" /\ UNCHANGED cfg
DSMergeBack == pc = "preconditioned" /\ r' = DSMergeBackR(cfg, r) /\ pc' = "done" /\ UNCHANGED cfg

\* ---- Tearfree Shampoo: _init.make_blocks, _update ------------------------------
TFValidateR(c, s) == s @@ [verdict |-> TFVerdict(c.shape, c.bs)]
TFMetaR(c, s) == s @@ [meta |-> TFMetaOf(c.shape, c.bs)]
TFInitR(c, s) ==     \* stats / roots: one [N, d, d] stack per axis
  s @@ [stat_shapes |-> [i \in 1..Len(c.shape) |->
                           <<s.meta.num_blocks, s.meta.block_sizes[i], s.meta.block_sizes[i]>>]]
TFBlockifyR(c, s) == s @@ [blocked |-> Blockify(s.x, s.meta)]
TFPreconditionR(c, s) ==   \* einsum with identity roots; root a contracts blocked axis root_pos[a]
  s @@ [root_pos |-> [a \in 1..Len(c.shape) |-> BlockedPos(s.meta, a)], pblocked |-> s.blocked]
TFDeblockifyR(c, s) == s @@ [out |-> Deblockify(s.pblocked, s.meta)]

TFValidate == /\ pc = "start" /\ cfg.sys = "tf" /\ r' = TFValidateR(cfg, r)
              /\ pc' = IF r'.verdict = "ok" THEN "validated" ELSE "rejected"
              /\ UNCHANGED cfg
TFMeta == pc = "validated" /\ r' = TFMetaR(cfg, r) /\ pc' = "meta" /\ UNCHANGED cfg
TFInit == pc = "meta" /\ r' = TFInitR(cfg, r) /\ pc' = "inited" /\ UNCHANGED cfg
TFBlockify == pc = "inited" /\ r' = TFBlockifyR(cfg, r) /\ pc' = "blockified" /\ UNCHANGED cfg
TFPrecondition == pc = "blockified" /\ r' = TFPreconditionR(cfg, r) /\ pc' = "tf_preconditioned" /\ UNCHANGED cfg
TFDeblockify == pc = "tf_preconditioned" /\ r' = TFDeblockifyR(cfg, r) /\ pc' = "done" /\ UNCHANGED cfg

\* ---- Tearfree reshaper: merge(options), merge.update, unmerge.update ------------
RSValidateR(c, s) == s @@ [verdict |-> RSVerdict(c.limit, c.bs)]
RSDeriveR(c, s) ==
  LET sh == RSShapes(c.shape, c.limit, c.bs)
  IN s @@ [shapes |-> sh,
           \* second_order.apply hands the merged parameters to shampoo with the same block size
           tf_verdict |-> IF c.bs = 0 THEN "ok" ELSE TFVerdict(sh.padded_shape, c.bs)]
RSMergeR(c, s) == s @@ [merged |-> RSMergeOf(s.x, s.shapes, c.bs)]
RSUnmergeR(c, s) == s @@ [out |-> RSUnmergeOf(s.merged, s.shapes, c.bs)]

RSValidate == /\ pc = "start" /\ cfg.sys = "rs" /\ r' = RSValidateR(cfg, r)
              /\ pc' = IF r'.verdict = "ok" THEN "rs_validated" ELSE "rejected"
              /\ UNCHANGED cfg
RSDerive == pc = "rs_validated" /\ r' = RSDeriveR(cfg, r) /\ pc' = "derived" /\ UNCHANGED cfg
RSMerge == pc = "derived" /\ r' = RSMergeR(cfg, r) /\ pc' = "rs_merged" /\ UNCHANGED cfg
RSUnmerge == pc = "rs_merged" /\ r' = RSUnmergeR(cfg, r) /\ pc' = "done" /\ UNCHANGED cfg

InitRest == pc = "start" /\ r = [x |-> X0(cfg)]
Init == cfg \in Cases /\ InitRest
Terminal == pc \in {"done", "rejected"}
\* A finished pipeline idles; with deadlock checking on, TLC thereby verifies that
\* every case that is not rejected runs through all the steps of its pipeline.
Idle == Terminal /\ UNCHANGED vars
Next == \/ DSMerge \/ DSPlan \/ DSAnnounce \/ DSPartition \/ DSPrecondition \/ DSMergeBack
        \/ TFValidate \/ TFMeta \/ TFInit \/ TFBlockify \/ TFPrecondition \/ TFDeblockify
        \/ RSValidate \/ RSDerive \/ RSMerge \/ RSUnmerge
        \/ Idle
Spec == Init /\ [][Next]_vars

-----------------------------------------------------------------------------
(* PROPERTIES.  Each is checked in the state in which the step it talks      *)
(* about has just been taken (fields of r never change afterwards).          *)

Elems == Prod(cfg.shape)

\* ---- merge_small_dims ---------------------------------------------------------
\* (stated in the state BEFORE DSMerge, where the limit is still known, about the result
\* Merged that the step is about to install)
MergeOn == pc = "start" /\ cfg.sys = "ds" /\ cfg.limit > 0
Merged == DSMergeR(cfg, r).transformed
MergeProduct == pc = "merged" => Prod(r.transformed) = Prod(cfg.shape)
\* merged dims respect the limit unless a single original dim already exceeds it
MergeRespectsLimit ==
  MergeOn => \A j \in DOMAIN Merged :
               \/ Merged[j] <= cfg.limit
               \/ \E i \in DOMAIN cfg.shape : cfg.shape[i] = Merged[j] /\ cfg.shape[i] > cfg.limit
MergeAllOnes ==
  MergeOn => IF AllOnes(cfg.shape) THEN Merged = <<1>>
             ELSE \A j \in DOMAIN Merged : Merged[j] > 1
\* nothing mergeable is left: two neighbours never fit under the limit together
MergeGreedy ==
  MergeOn => \A j \in 1..(Len(Merged) - 1) : Merged[j] * Merged[j + 1] > cfg.limit
MergeRankNotGrown == pc = "merged" => Len(r.transformed) <= Max(Len(cfg.shape), 1)

\* ---- BlockPartitioner metadata -----------------------------------------------
SplitSizesSound ==
  pc = "planned" =>
    /\ Len(r.split_sizes) = Len(r.transformed)
    /\ \A i \in DOMAIN r.split_sizes :
         LET z == r.split_sizes[i]
             d == r.transformed[i]
         IN /\ \A k \in DOMAIN z : z[k] > 0 /\ (cfg.bs > 0 => z[k] <= cfg.bs)   \* no empty block
            /\ Sum(z) = d
            /\ \A k \in 1..(Len(z) - 1) : z[k] = cfg.bs                         \* only the last is short
            /\ cfg.bs > 0 => Len(z) = (d + cfg.bs - 1) \div cfg.bs              \* ceil(d / bs) blocks
\* the cut positions used by partition are the partial sums of the announced sizes
SplitsAgree ==
  pc = "planned" =>
    /\ \A k \in DOMAIN r.splits :
         LET z == r.split_sizes[r.splits[k].axis]
         IN /\ Len(z) = Len(r.splits[k].indices) + 1
            /\ \A j \in DOMAIN r.splits[k].indices : r.splits[k].indices[j] = SumTo(z, j)
    /\ \A i \in DOMAIN r.split_sizes :
         Len(r.split_sizes[i]) > 1 <=> \E k \in DOMAIN r.splits : r.splits[k].axis = i
    /\ \A k \in 1..(Len(r.splits) - 1) : r.splits[k].axis < r.splits[k + 1].axis

\* ---- announced preconditioners ------------------------------------------------
NumBlocks == Prod(BlockCounts(r.split_sizes))
NumPrec == NumTrue(r.should)
AnnouncedCount ==
  pc = "announced" =>
    /\ Len(r.should) = Len(r.transformed)
    /\ Len(r.prec_shapes) = NumBlocks * NumPrec
    /\ r.exponent = 2 * NumPrec
    /\ Len(r.transformed) >= 1 => NumPrec >= 1
    /\ cfg.ptype = "ALL" \/ Len(r.transformed) <= 1 => NumPrec = Len(r.transformed)
    /\ cfg.ptype = "INPUT" /\ Len(r.transformed) > 1 => NumPrec = Len(r.transformed) - 1 /\ ~r.should[Len(r.should)]
    /\ cfg.ptype = "OUTPUT" /\ Len(r.transformed) > 1 => NumPrec = 1 /\ r.should[Len(r.should)]

\* ---- partition ------------------------------------------------------------------
\* order and contiguity: block q is the sub-tensor the announced sizes describe
BlocksAreDecl ==
  pc = "partitioned" =>
    /\ Len(r.blocks) = NumBlocks
    /\ \A q \in 1..NumBlocks : r.blocks[q] = BlockDecl(r.g, r.split_sizes, q - 1)
BlocksWithinBlockSize ==
  pc = "partitioned" /\ cfg.bs > 0 =>
    \A q \in DOMAIN r.blocks : \A a \in DOMAIN r.blocks[q].shape : r.blocks[q].shape[a] <= cfg.bs
\* every element appears in exactly one block
BlocksBijective ==
  pc = "partitioned" /\ Live =>
    IsPermutationOf0(Flatten([q \in DOMAIN r.blocks |-> r.blocks[q].data]), Elems)
\* preconditioner sizes are announced in the order of the blocks and of their axes
AnnouncedAligned ==
  pc = "partitioned" =>
    \A q \in DOMAIN r.blocks :
      SubSeq(r.prec_shapes, (q - 1) * NumPrec + 1, q * NumPrec)
        = SelectSeq([a \in DOMAIN r.should |-> IF r.should[a] THEN r.blocks[q].shape[a] ELSE 0],
                    LAMBDA d : d > 0)

\* ---- slot bookkeeping and identity preconditioning --------------------------------
SlotsSound ==
  pc = "preconditioned" =>
    /\ \A q \in DOMAIN r.slots :
         /\ Len(r.slots[q]) = Len(r.should)                       \* the assert in _preconds_for_grad
         /\ \A j \in DOMAIN r.should :
              IF r.should[j]
              THEN /\ r.slots[q][j] \in 0..(Len(r.prec_shapes) - 1)
                   /\ r.prec_shapes[r.slots[q][j] + 1] = r.blocks[q].shape[j]   \* sizes fit the axis
              ELSE r.slots[q][j] = NONE
    \* every announced preconditioner is used, by exactly one (block, axis)
    /\ LET used == Flatten([q \in DOMAIN r.slots |-> SelectSeq(r.slots[q], LAMBDA v : v # NONE)])
       IN used = [k \in 1..Len(r.prec_shapes) |-> k - 1]
IdentityPreconditioning == pc = "preconditioned" => r.pblocks = r.blocks

\* ---- merge_partitions and the way back ---------------------------------------------
DSRoundTrip == pc = "done" /\ cfg.sys = "ds" => r.nparts = 1 /\ r.out = r.x

\* ---- Tearfree Shampoo -----------------------------------------------------------
TFMetaSound ==
  pc = "meta" =>
    LET m == r.meta
    IN /\ \A i \in DOMAIN m.block_sizes : m.block_sizes[i] <= cfg.bs /\ m.block_sizes[i] > 0
       /\ Len(m.large_axes) <= 2
       /\ m.num_blocks * Prod(m.block_sizes) = Elems               \* blocks tile the parameter
       /\ m.blocks_axis \in 1..Max(Len(cfg.shape), 1)
       /\ \A k \in DOMAIN m.large_axes : m.blocks_axis <= m.large_axes[k]
TFStatsAligned ==   \* one [N, d, d] stack per axis, N and d being those of the blocked tensor
  pc = "blockified" =>
    /\ r.blocked.shape = BlockedShape(r.meta)
    /\ \A a \in DOMAIN cfg.shape :
         r.stat_shapes[a] = <<r.blocked.shape[r.meta.blocks_axis],
                              r.blocked.shape[BlockedPos(r.meta, a)],
                              r.blocked.shape[BlockedPos(r.meta, a)]>>
\* block (l, r) lands at l * r_blocks + r and is a contiguous sub-tensor
TFBlockifyIsDecl == pc = "blockified" => r.blocked = BlockifyDecl(r.x, r.meta)
TFBlockifyBijective == pc = "blockified" /\ Live => IsPermutationOf0(r.blocked.data, Elems)
TFRoundTrip == pc = "done" /\ cfg.sys = "tf" => r.out = r.x
TFRejectionsDocumented ==
  pc = "rejected" /\ cfg.sys = "tf" => r.verdict \in {"bad_block", "unit", "many_large", "indivisible"}

\* ---- reshaper --------------------------------------------------------------------
\* padded dims are the next multiple only for dims >= block size
RSPadRule ==
  pc = "derived" =>
    LET sh == r.shapes
    IN /\ Len(sh.padded_shape) = Len(sh.merged_shape)
       /\ Prod(sh.merged_shape) = Elems
       /\ \A i \in DOMAIN sh.merged_shape :
            IF cfg.bs > 0 /\ sh.merged_shape[i] >= cfg.bs
            THEN /\ sh.padded_shape[i] % cfg.bs = 0
                 /\ sh.padded_shape[i] >= sh.merged_shape[i]
                 /\ sh.padded_shape[i] - sh.merged_shape[i] < cfg.bs
            ELSE sh.padded_shape[i] = sh.merged_shape[i]
       /\ \A i \in DOMAIN sh.merged_shape : sh.merged_shape[i] > 1      \* no unit dims survive
\* what the reshaper produces is accepted by Tearfree Shampoo (same block size)
\* unless more than two dims are large
RSComposes == pc = "derived" => r.tf_verdict \in {"ok", "many_large"}
\* real entries keep their row-major order, pad positions hold PAD (zero)
RSMergedSound ==
  pc = "rs_merged" =>
    /\ r.merged.shape = r.shapes.padded_shape
    /\ Live =>
         /\ SelectSeq(r.merged.data, LAMBDA v : v # PAD) = r.x.data
         /\ LET st == Strides(r.merged.shape)
            IN \A k \in DOMAIN r.merged.data :
                 (r.merged.data[k] = PAD) <=>
                   \E a \in DOMAIN r.merged.shape :
                     Coords(k - 1, r.merged.shape, st)[a] >= r.shapes.merged_shape[a]
RSRoundTrip == pc = "done" /\ cfg.sys = "rs" => r.out = r.x
RSRejectionsDocumented ==
  pc = "rejected" /\ cfg.sys = "rs" => r.verdict \in {"bad_merge_dims", "bad_block"}

\* ---- the closed forms used to judge probes of large tensors agree with the index maps ------
ClosedForms ==
  /\ pc = "partitioned" /\ Live =>
       \A q \in DOMAIN r.blocks :
         LET bsz == BlockShape(r.split_sizes, q - 1)
             off == BlockOffset(r.split_sizes, q - 1)
             st == Strides(bsz)
         IN \A p \in DOMAIN r.blocks[q].data :
              r.blocks[q].data[p] = SubLabelAt(r.g.shape, bsz, off, st, p - 1)
  /\ pc = "blockified" /\ Live =>
       LET bsh == BlockedShape(r.meta)
           st == Strides(bsh)
       IN \A p \in DOMAIN r.blocked.data : r.blocked.data[p] = BlockedLabelWith(r.meta, bsh, st, p - 1)
  /\ pc = "rs_merged" /\ Live =>
       LET st == Strides(r.shapes.padded_shape)
       IN \A p \in DOMAIN r.merged.data : r.merged.data[p] = MergedLabelWith(r.shapes, st, p - 1)

\* ---- results are only ever added: a later step never revises an earlier one ---------------
ResultsOnlyGrow == [][\A k \in DOMAIN r : k \in DOMAIN r' /\ r'[k] = r[k]]_vars

\* ---- shape of the state ------------------------------------------------------------
TypeOK ==
  /\ cfg \in Cases
  /\ pc \in {"start", "merged", "planned", "announced", "partitioned", "preconditioned",
             "validated", "meta", "inited", "blockified", "tf_preconditioned",
             "rs_validated", "derived", "rs_merged", "done", "rejected"}
  /\ r.x.shape = cfg.shape /\ r.x.live = Live
  /\ Live => Len(r.x.data) = Elems
=============================================================================
