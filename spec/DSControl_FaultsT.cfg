SPECIFICATION FSpec
CONSTANTS
  Cfgs <- F_Cfgs
  T = 6
  MaxFaults = 2
  GradClasses <- F_Grad
  ErrClasses = {"below", "atabove", "nan", "inf"}
INVARIANT Emit
CHECK_DEADLOCK FALSE
