SPECIFICATION Spec
CONSTANTS
  Slices <- MCT_Slices
INVARIANT OutcomeOK
INVARIANT AcceptedRuns
INVARIANT UpdatesHaveParamLayout
INVARIANT ShardedDeclaredAgrees
INVARIANT ShardedPSpecAgrees
INVARIANT ShardedIndexing
INVARIANT PrecondShapes
PROPERTY LayoutFixedPoint
CHECK_DEADLOCK FALSE
