---- MODULE FD_MC ----
(* Exhaustive configurations for FD.tla (no history / observation variables).      *)
EXTENDS FD

Single(d, Sq) == {[i \in 1..d |-> IF i = j THEN s ELSE 0] : j \in 1..d, s \in Sq}
\* multi-coordinate (still axis-aligned) gradients: isotropic full-rank, a rank-2 one with a
\* tie, a scale-varying full-rank one
Multi(d) == {[i \in 1..d |-> 1], [i \in 1..d |-> IF i <= 2 THEN 4 ELSE 0],
             [i \in 1..d |-> IF i = 1 THEN 9 ELSE IF i = d THEN 0 ELSE 1]}

MC_GradsOf(d) == Single(d, {0, 1, 4, 9}) \cup Multi(d)

Decays == {<<1, 1>>, <<1, 2>>, <<3, 4>>}
Mk(ds, ks, bs, rs) == {[d |-> dd, k |-> kk, bn |-> b[1], bd |-> b[2], ridge |-> rr] :
                        dd \in ds, kk \in ks, b \in bs, rr \in rs}

\* quick: the prototype's d=4, k=2 with three decays; the DS-admissible d=4, k=1; TF's k = d;
\* one configuration with a per-step ridge
MC_Cfgs == Mk({4}, {2}, Decays, {0}) \cup Mk({4}, {1}, {<<1, 2>>}, {0})
           \cup Mk({3}, {1, 3}, {<<3, 4>>}, {0}) \cup Mk({4}, {2}, {<<1, 2>>}, {1})
\* thorough: two runs (the horizon is a constant of the run)
\*   FD_MCT  d <= 4, k <= 3, three decays, T = 5, plus per-step ridge
\*   FD_MCT5 d = 5, k in {2, 3}, T = 4
MCT_Cfgs == Mk({3, 4}, {1, 2, 3}, Decays, {0}) \cup Mk({4}, {1, 2}, {<<1, 2>>, <<1, 1>>}, {1})
MCT_GradsOf(d) == MC_GradsOf(d)
MCT5_Cfgs == Mk({5}, {2, 3}, {<<1, 2>>, <<3, 4>>}, {0}) \cup Mk({5}, {2}, {<<1, 2>>}, {1})
MCT5_GradsOf(d) == Single(d, {0, 1, 4}) \cup Multi(d)
====
