SPECIFICATION MatSpec
CONSTANTS
  N = 127
  GenMax <- G8_Max
  GenShapes <- GS_Shapes
  GenVals <- GS_Vals
INVARIANT EmitMat
CHECK_DEADLOCK FALSE
