---------------------------- MODULE LayoutShapes ----------------------------
(* Shape arithmetic used by Layout.tla (property C07).                        *)
(* Pure operators over sequences of naturals, transcribed from                *)
(*   precondition/distributed_shampoo.py  merge_small_dims, BlockPartitioner, *)
(*       Preconditioner.shapes_for_preconditioners, _precond_dim              *)
(*   precondition/tearfree/reshaper.py    _derive_shapes                      *)
(*   precondition/tearfree/shampoo.py     _blocks_metadata                    *)
(*   precondition/tearfree/sketchy.py     _init (per-axis sketch sizes)       *)
(* Only what the *layout* needs (sizes and order), no index maps: the          *)
(* elementwise content of these transformations is property C06 (Shapes.tla).  *)
EXTENDS Naturals, Integers, Sequences, SequencesExt

Abs(x) == IF x < 0 THEN -x ELSE x
Min2(a, b) == IF a <= b THEN a ELSE b
Max2(a, b) == IF a >= b THEN a ELSE b

(* folds are taken from SequencesExt (iterative Java overrides in TLC): block     *)
(* lists get long (block size 1) and TLC's recursion depth is limited.              *)
SeqProd(s) == FoldLeft(LAMBDA acc, x : acc * x, 1, s)
SeqMax(s)  == FoldLeft(LAMBDA acc, x : Max2(acc, x), 0, s)     \* 0 for the empty sequence
Concat(ss) == FoldLeft(LAMBDA acc, x : acc \o x, <<>>, ss)

(* merge_small_dims(shape_to_merge, max_dim)                                   *)
(*   all-ones (non-empty) -> [1];  otherwise greedy left-to-right products     *)
(*   that stay <= max_dim; factors equal to 1 disappear; [] -> [].             *)
RECURSIVE MergeLoop(_, _, _, _, _)
MergeLoop(shape, i, product, res, maxdim) ==
  IF i > Len(shape)
  THEN IF product > 1 THEN Append(res, product) ELSE res
  ELSE LET d == shape[i]
       IN IF product * d <= maxdim
          THEN MergeLoop(shape, i + 1, product * d, res, maxdim)
          ELSE MergeLoop(shape, i + 1, d,
                         IF product > 1 THEN Append(res, product) ELSE res, maxdim)

MergeSmallDims(shape, maxdim) ==
  IF Len(shape) > 0 /\ \A i \in DOMAIN shape : shape[i] = 1
  THEN <<1>>
  ELSE MergeLoop(shape, 1, 1, <<>>, maxdim)

(* BlockPartitioner.__init__: split sizes of one dimension.                    *)
(*   0 < block_size < d : (d-1) // block_size full blocks and a remainder      *)
(*   otherwise          : the dimension itself                                 *)
SplitSizes(d, bs) ==
  IF 0 < bs /\ bs < d
  THEN LET n == (d - 1) \div bs
       IN [i \in 1..(n + 1) |-> IF i <= n THEN bs ELSE d - n * bs]
  ELSE <<d>>

(* itertools.product over the split sizes: last axis fastest; one empty tuple  *)
(* for rank 0.                                                                 *)
RECURSIVE CartProd(_)
CartProd(seqs) ==
  IF Len(seqs) = 0 THEN << <<>> >>
  ELSE LET rest == CartProd(Tail(seqs))
           h == Head(seqs)
       IN Concat([i \in 1..Len(h) |-> [j \in 1..Len(rest) |-> <<h[i]>> \o rest[j]]])

Blocks(tshape, bs) == CartProd([i \in 1..Len(tshape) |-> SplitSizes(tshape[i], bs)])

(* _precond_dim(compression_rank, dim)                                         *)
PrecondDim(r, d) ==
  IF r = 0 THEN d
  ELSE IF Abs(r) + 2 >= d THEN d ELSE Abs(r) + 2

(* Preconditioner.shapes_for_preconditioners: the first dimension of every     *)
(* announced statistic, in announcement order (block-major, axis-minor).       *)
(* ptype is ignored when the (transformed) rank is <= 1.                        *)
StatDimsOfBlock(t, ptype) ==
  IF ptype = "ALL" \/ Len(t) <= 1 THEN t
  ELSE IF ptype = "INPUT" THEN SubSeq(t, 1, Len(t) - 1)
  ELSE SubSeq(t, Len(t), Len(t))

StatDims(tshape, bs, ptype) ==
  LET bl == Blocks(tshape, bs)
  IN Concat([i \in 1..Len(bl) |-> StatDimsOfBlock(bl[i], ptype)])

(* Tearfree reshaper._derive_shapes: merged and padded shape.                  *)
(*   merged == [1]  ->  rank 0;  dims >= block_size are padded to a multiple   *)
(*   of block_size; block_size = 0 disables padding (Sketchy).                 *)
TFMerged(shape, merge_dims) ==
  LET m == MergeSmallDims(shape, merge_dims) IN IF m = <<1>> THEN <<>> ELSE m

TFPadded(shape, merge_dims, bs) ==
  LET m == TFMerged(shape, merge_dims)
  IN IF bs = 0 THEN m
     ELSE [i \in 1..Len(m) |-> IF m[i] >= bs THEN ((m[i] + bs - 1) \div bs) * bs ELSE m[i]]

(* Tearfree shampoo._blocks_metadata on a (padded) shape.                       *)
TFLargeAxes(ps, bs) == SelectSeq([i \in 1..Len(ps) |-> i], LAMBDA i : ps[i] >= bs)
TFNumBlocks(ps, bs) == LET la == TFLargeAxes(ps, bs)
                       IN SeqProd([j \in 1..Len(la) |-> ps[la[j]] \div bs])
TFBlockDims(ps, bs) == [i \in 1..Len(ps) |-> Min2(ps[i], bs)]

(* Tearfree sketchy._init: per axis (d, k, m).                                  *)
SkK(d, rank) == Min2(d, rank)
SkM(ms, i, rank) == Min2(ms[i], SkK(ms[i], rank) + SeqProd(ms) \div ms[i])
=============================================================================
