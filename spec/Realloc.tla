---- MODULE Realloc ----
(***************************************************************************)
(* Sketchy memory reallocation: the per-group allocation loop of           *)
(* precondition/tearfree/reallocation.py:create_redist_dict (lines 211-249) *)
(*                                                                         *)
(* A *group* is the list of sketched axes that share one dimension `dim`.  *)
(* The uniform allocation gives every axis `base` (= sketchy_rank) sketch  *)
(* rows; the reallocation hands the same n*base rows out in proportion to  *)
(* the axes' scores, at least 1 and at most dim rows per axis.             *)
(*                                                                         *)
(* One action per code-level step (the label in brackets is the value of   *)
(* `pc` while the step is pending):                                        *)
(*   [start]   grp_info; assert group_resource >= group_size;              *)
(*             group_resource -= group_size; total_score = sum(..);        *)
(*             sorted_scores = sorted(.., reverse=True)      (stable)      *)
(*   [main]    for pair in sorted_scores:   Outlier | Share                *)
(*   [assert1] for key in realloc: assert realloc[key] <= dim              *)
(*   [assert2] assert allocated <= group_resource; leftover test           *)
(*   [left]    for (key,_) in sorted_scores: LeftStep ... break            *)
(*   [done]    alloc_fn                                                    *)
(* The three `assert`s of the source are explicit failure values of `pc`   *)
(* ("assert0_failed", "assert1_failed", "assert2_failed") that must be     *)
(* unreachable (invariant NoAssert).                                       *)
(*                                                                         *)
(* NUMBERS.  Scores are naturals (the implementation sees floats that are  *)
(* proportional to them).  The only arithmetic that is not integer         *)
(* arithmetic in the source is                                             *)
(*      rd(score * (group_resource / total_score)),  rd(x) = int(x//1)+1   *)
(* evaluated in float32 (score_fn returns jnp float32 scalars).  The model *)
(* computes floor(x) over exact rationals and makes the FLOAT TIE explicit: *)
(* when score*resource/total is mathematically a positive integer q the    *)
(* float product may land just below q, so floor(x) may be q-1 as well as  *)
(* q.  Rules (each justified by an observation on the real function, see   *)
(* harness/props/c17.py which reports allowed-but-never-observed outcomes  *)
(* as `unused_spec_branches`):                                             *)
(*   - a quotient that is exactly zero (score 0, resource 0, or total 0    *)
(*     where the source substitutes unit_rsc = 0.0) is computed exactly:   *)
(*     0*finite = 0 in floating point.  No tie at zero.                    *)
(*   - a non-integer quotient is at least 1/total away from an integer;    *)
(*     the float error (~1e-7 relative) cannot cross it.  No choice.       *)
(*   - ExactInputs = TRUE (scores are small integers, exactly              *)
(*     representable, every partial sum exact): the only rounding is in    *)
(*     resource/total; if that quotient is a dyadic rational it is exact   *)
(*     and so is the product.  A tie is possible only when the reduced     *)
(*     denominator of resource/total is not a power of two.                *)
(*   - ExactInputs = FALSE (scores are arbitrary floats proportional to    *)
(*     the naturals, e.g. 0.1*s): sum and products carry rounding errors;  *)
(*     a tie is possible at every positive integer quotient.               *)
(* is_outlier and the share use the same float expression, hence the same  *)
(* value: one choice of floor(x) per loop iteration serves both.           *)
(***************************************************************************)
EXTENDS Integers, Sequences, FiniteSets, TLC, SequencesExt, Functions, FiniteSetsExt

CONSTANTS MaxN,        \* largest group size explored
          Scores,      \* set of naturals the scores are drawn from
          Dims,        \* set of axis dimensions
          Bases,       \* set of base ranks (sketchy_rank)
          ExactInputs  \* BOOLEAN, see above

VARIABLES n,      \* group_size
          dim,    \* the group's dimension
          base,   \* sketchy_rank
          score,  \* [1..n -> Nat], in the order of group_dict[dim]
          order,  \* sorted_scores (keys only), a permutation of 1..n
          i,      \* loop index into `order` (main loop and leftover loop)
          res,    \* group_resource
          tot,    \* total_score
          rank,   \* realloc (0 = not assigned yet)
          extra,  \* leftover budget
          pc
vars == <<n, dim, base, score, order, i, res, tot, rank, extra, pc>>

SumF(f) == FoldFunction(LAMBDA a, b : a + b, 0, f)

RECURSIVE Gcd(_, _)
Gcd(a, b) == IF b = 0 THEN a ELSE Gcd(b, a % b)
RECURSIVE IsPow2(_)
IsPow2(x) == IF x = 1 THEN TRUE ELSE IF x % 2 = 1 THEN FALSE ELSE IsPow2(x \div 2)
\* float32(r/t) is exact iff the reduced denominator is a power of two (numerators here are < 2^24)
UnitExact(r, t) == IsPow2(t \div Gcd(r, t))

\* sorted(..., key=score, reverse=True) is stable: equal scores keep the group order
SortDesc(sc, m) == SortSeq([k \in 1..m |-> k],
                           LAMBDA a, b : sc[a] > sc[b] \/ (sc[a] = sc[b] /\ a < b))

(* The set of values floor(score * (resource/total)) can take in the float evaluation. *)
IsTie(s, r, t)  == t # 0 /\ s # 0 /\ r # 0 /\ (s * r) % t = 0
TieOpen(s, r, t) == IsTie(s, r, t) /\ ~(ExactInputs /\ UnitExact(r, t))
FloorSet(s, r, t) ==
  IF t = 0 \/ s = 0 \/ r = 0 THEN {0}                    \* unit_rsc = 0.0, or an exact zero product
  ELSE IF TieOpen(s, r, t) THEN {(s * r) \div t - 1, (s * r) \div t}
  ELSE {(s * r) \div t}

-----------------------------------------------------------------------------
Init == /\ n \in 1..MaxN /\ dim \in Dims /\ base \in Bases
        /\ score \in [1..n -> Scores]
        /\ order = <<>> /\ i = 0 /\ res = 0 /\ tot = 0
        /\ rank = [k \in 1..n |-> 0] /\ extra = 0 /\ pc = "start"

\* lines 212-221
Start == /\ pc = "start"
         /\ IF n * base >= n
            THEN /\ res' = n * base - n            \* every axis keeps one row: rd() adds it back
                 /\ tot' = SumF(score)
                 /\ order' = SortDesc(score, n)
                 /\ i' = 1 /\ pc' = "main"
            ELSE /\ pc' = "assert0_failed" /\ UNCHANGED <<res, tot, order, i>>
         /\ UNCHANGED <<n, dim, base, score, rank, extra>>

\* lines 222-226: is_outlier(score, total, resource, dim-1):  rd(x) - 1 > dim - 1
Outlier == /\ pc = "main" /\ i <= n
           /\ LET k == order[i] IN
              /\ \E f \in FloorSet(score[k], res, tot) : f > dim - 1
              /\ rank' = [rank EXCEPT ![k] = dim]
              /\ res' = res - (dim - 1)
              /\ tot' = tot - score[k]
           /\ i' = i + 1
           /\ UNCHANGED <<n, dim, base, score, order, extra, pc>>

\* lines 227-231: proportional share rd(x) = floor(x) + 1
Share == /\ pc = "main" /\ i <= n
         /\ LET k == order[i] IN
            \E f \in FloorSet(score[k], res, tot) :
              /\ ~(f > dim - 1)
              /\ rank' = [rank EXCEPT ![k] = f + 1]
              /\ res' = res - f
              /\ tot' = tot - score[k]
         /\ i' = i + 1
         /\ UNCHANGED <<n, dim, base, score, order, extra, pc>>

EndMain == /\ pc = "main" /\ i > n /\ pc' = "assert1"
           /\ UNCHANGED <<n, dim, base, score, order, i, res, tot, rank, extra>>

\* lines 233-234
Assert1 == /\ pc = "assert1"
           /\ pc' = IF \E k \in 1..n : rank[k] > dim THEN "assert1_failed" ELSE "assert2"
           /\ UNCHANGED <<n, dim, base, score, order, i, res, tot, rank, extra>>

\* lines 236-241: the budget is recomputed by grp_info (n*base)
Assert2 == /\ pc = "assert2"
           /\ LET allocated == SumF(rank)  budget == n * base IN
              IF allocated > budget THEN pc' = "assert2_failed" /\ UNCHANGED <<extra, i>>
              ELSE IF allocated < budget THEN pc' = "left" /\ extra' = budget - allocated /\ i' = 1
              ELSE pc' = "done" /\ UNCHANGED <<extra, i>>
           /\ UNCHANGED <<n, dim, base, score, order, res, tot, rank>>

\* lines 242-247: one pass over the sorted keys; every row handed out is charged to `extra`
LeftStep == /\ pc = "left" /\ i <= n
            /\ LET k == order[i]
                   grow == rank[k] < dim
                   e1 == IF grow THEN extra - 1 ELSE extra
               IN /\ rank' = IF grow THEN [rank EXCEPT ![k] = rank[k] + 1] ELSE rank
                  /\ extra' = e1
                  /\ IF e1 <= 0 THEN pc' = "done" /\ i' = i          \* break
                     ELSE pc' = "left" /\ i' = i + 1
            /\ UNCHANGED <<n, dim, base, score, order, res, tot>>

LeftEnd == /\ pc = "left" /\ i > n /\ pc' = "done"
           /\ UNCHANGED <<n, dim, base, score, order, i, res, tot, rank, extra>>

Next == Start \/ Outlier \/ Share \/ EndMain \/ Assert1 \/ Assert2 \/ LeftStep \/ LeftEnd
Spec == Init /\ [][Next]_vars

-----------------------------------------------------------------------------
(* Properties.  RangeAt / BudgetAt are also what Realloc_Trace evaluates on   *)
(* allocations recorded from the real function.                                *)
RangeAt(rk, m, d)  == \A k \in 1..m : 1 <= rk[k] /\ rk[k] <= d
BudgetAt(rk, m, b) == SumF(rk) <= m * b

TypeOK == /\ n \in 1..MaxN /\ dim \in Dims /\ base \in Bases
          /\ score \in [1..n -> Scores]
          /\ rank \in [1..n -> 0..dim]
          /\ pc \in {"start", "main", "assert1", "assert2", "left", "done",
                     "assert0_failed", "assert1_failed", "assert2_failed"}

NoAssert == pc \notin {"assert0_failed", "assert1_failed", "assert2_failed"}
RankRange == pc = "done" => RangeAt(rank, n, dim)
RankBudget == pc = "done" => BudgetAt(rank, n, base)

\* main loop: the resource never goes negative and is conserved:
\*   (rows handed out beyond the guaranteed one) + (rows still in the pool) = n*base - n
Assigned == {order[j] : j \in 1..(i - 1)}
ResNonNeg == pc = "main" => res >= 0
Conserve  == pc = "main" =>
               SumF([k \in 1..n |-> IF k \in Assigned THEN rank[k] - 1 ELSE 0]) + res = n * base - n
\* the running total is the sum of the scores not yet served
TotRemaining == pc = "main" =>
               tot = SumF([k \in 1..n |-> IF k \in Assigned THEN 0 ELSE score[k]])
\* leftover loop: what is handed out is charged
LeftConserve == pc = "left" => (SumF(rank) + extra = n * base /\ extra > 0)
\* the allocation is monotone in the score order before the leftover pass
SortedOK == pc # "start" => \A a, b \in 1..n : a < b => score[order[a]] >= score[order[b]]
====
