---- MODULE FD ----
(***************************************************************************)
(* Frequent directions (FD) with exponential decay, as implemented three    *)
(* times in /repo:                                                          *)
(*   DS   precondition/distributed_shampoo.py  _fd_update_root              *)
(*   TF   precondition/tearfree/sketchy.py     _update_axis                 *)
(*   OCO  precondition/oco/algorithms.py       _fd_update_fn                *)
(*                                                                         *)
(* All three do, per step, with decay b, rank k and gradient factor G:      *)
(*    M   = b * (V diag(l + ridge) V') + G G'            (d x d, PSD)       *)
(*    s^2 = eigenvalues of M, descending                 (via an SVD)       *)
(*    r   = s[k]^2        the (k+1)-th eigenvalue  ("cutoff^2", "rho")      *)
(*    l'  = s[:k]^2 - r   on the top-k directions, directions with l' <= 0  *)
(*                        are zeroed                                        *)
(*    t'  = b * t + r     the escaped mass ("tail", "alpha - delta")        *)
(*    inverse roots stored for the kept directions: (s[:k]^2 + b*t)^(-1/p)  *)
(*                        and for the complement:   (t')^(-1/p)             *)
(*                                                                         *)
(* EXACT LATTICE.  The step is nonlinear (an eigen-decomposition), so the   *)
(* model is restricted to AXIS-ALIGNED histories: every gradient factor has *)
(* G G' = diag(g) in one fixed orthonormal basis.  Then the covariance, the *)
(* sketch and the eigen-decomposition stay diagonal in that basis, the      *)
(* eigenvalues of M are its diagonal entries, and one FD step is exact      *)
(* rational arithmetic on d numbers.  FD is rotation-equivariant, so the    *)
(* harness feeds the implementations Q G for a random orthogonal Q and       *)
(* expects Q diag(l) Q'; the implementations still see dense matrices.      *)
(*                                                                         *)
(* NUMBERS.  decay b = bn/bd.  Every mass in the state reached after n      *)
(* steps is stored as an integer NUMERATOR OVER bd^n (TLC has 32-bit        *)
(* integers and no rationals).  Squared gradient entries g[i] and the       *)
(* per-step ridge are integers in units of 1.  Irrational functions are     *)
(* never evaluated: for the stored inverse roots the spec carries the exact *)
(* rational ARGUMENT (ia[i], t), the harness applies x -> (x+eps)^(-1/p).   *)
(***************************************************************************)
EXTENDS Integers, Sequences, FiniteSets, FiniteSetsExt, SequencesExt, Functions, TLC

CONSTANTS
  Cfgs,        \* set of records [d, k, bn, bd, ridge]:
               \*   d   dimension of the preconditioned axis
               \*   k   number of directions the sketch keeps (DS: compression_rank,
               \*       TF: min(d, rank), OCO: sketch_size - 1)
               \*   bn/bd  decay (DS beta2, TF second_moment_decay, OCO: 1)
               \*   ridge  what the configuration adds to every kept eigenvalue before
               \*       each step (DS: matrix_epsilon with relative_matrix_epsilon=False;
               \*       TF, OCO: 0)
  GradsOf(_),  \* d |-> set of admissible gradients, each a function 1..d -> Nat giving
               \*       the diagonal of G G' (squared entries); the zero function is the
               \*       zero gradient, a function with <= k non-zeros a low-rank gradient
  T            \* number of steps explored

VARIABLES
  cfg,   \* the configuration of this behaviour
  n,     \* steps taken; all numerators below are over cfg.bd^n
  l,     \* l[i]: sketch eigenvalue on coordinate i (0 = direction not kept)
  t,     \* escaped mass
  c,     \* HISTORY: exact discounted covariance diagonal, incl. the per-step ridge
  ia     \* ia[i]: argument of the inverse root stored for coordinate i, computed the
         \*        way the code computes it (top_eigs^2 + decay*old_tail); 0 if not kept
vars == <<cfg, n, l, t, c, ia>>

Coords == 1..cfg.d
Zero   == [i \in Coords |-> 0]

\* ---- one step, written as functions of explicit arguments so that the action -----
\* ---- properties below can re-evaluate them on (unprimed, primed) pairs ---------------

\* `fwd_eigvals_r + ridge_epsilon`: the ridge lands on kept directions only (the
\* eigenvector column of an empty slot is zero, so its weight is irrelevant).
Ridged(lv, nn) == [i \in Coords |-> IF lv[i] > 0 THEN lv[i] + cfg.ridge * cfg.bd^nn ELSE 0]

\* eigenvalues of  decay * sketch + G G'  (numerators over bd^(nn+1));
\* gs = the gradient's squared entries ALREADY scaled by bd^(nn+1)
Mass(lv, gs, nn) == [i \in Coords |-> cfg.bn * Ridged(lv, nn)[i] + gs[i]]

\* coordinates by descending mass (ties by index: the choice inside a tie never matters,
\* see KeepIsThreshold)
SortedDesc(m) == SortSeq(SetToSeq(Coords), LAMBDA a, b : m[a] > m[b] \/ (m[a] = m[b] /\ a < b))

\* One FD step from sketch lv, escaped mass tv (numerators over bd^nn) and gradient gs
\* (scaled by bd^(nn+1)); the result (over bd^(nn+1)) is a record so that the sort - the
\* model of the SVD - is evaluated once:
\*   m    eigenvalues of the decomposed matrix, by coordinate
\*   r    `cutoff**2` / `rho**2`: the (k+1)-th largest eigenvalue; TF uses 0 when k = d
\*   l    `(top_eigs - cutoff) * (top_eigs + cutoff)` on the top-k coordinates, then
\*        `eigvecs *= deflated_eigs > 0`
\*   t    `tail * decay + rho_t`
\*   ia   `top_eigs**2 + tail * decay`, the argument of the stored inverse root
FDStep(lv, tv, gs, nn) ==
  LET m   == Mass(lv, gs, nn)
      ord == SortedDesc(m)
      r   == IF cfg.k < cfg.d THEN m[ord[cfg.k + 1]] ELSE 0
      top == {ord[i] : i \in 1..cfg.k}
      ln  == [i \in Coords |-> IF i \in top /\ m[i] > r THEN m[i] - r ELSE 0]
  IN [m |-> m, r |-> r, l |-> ln, t |-> cfg.bn * tv + r,
      ia |-> [i \in Coords |-> IF ln[i] > 0 THEN m[i] + cfg.bn * tv ELSE 0],
      kth |-> IF cfg.k >= 1 THEN m[ord[cfg.k]] ELSE 0]

Init ==
  /\ cfg \in Cfgs
  /\ n = 0
  /\ l = Zero /\ t = 0 /\ c = Zero /\ ia = Zero

Step(g) ==
  LET gs == [i \in Coords |-> g[i] * cfg.bd^(n + 1)]
      s  == FDStep(l, t, gs, n)
  IN /\ n' = n + 1
     /\ l' = s.l
     /\ t' = s.t
     /\ ia' = s.ia
     /\ c' = [i \in Coords |->                                  \* exact covariance
               cfg.bn * (c[i] + (IF l[i] > 0 THEN cfg.ridge * cfg.bd^n ELSE 0)) + gs[i]]
     /\ UNCHANGED cfg

Next == n < T /\ \E g \in GradsOf(cfg.d) : Step(g)
Spec == Init /\ [][Next]_vars

\* ---- derived observations (what the implementations store) -----------------------------
NumKept   == Cardinality({i \in Coords : l[i] > 0})
MaxArg    == Max({l[i] : i \in Coords}) + t      \* TF: relative epsilon multiplies this
\* DS: `has_zeros` => the packed preconditioner denotes the identity
DSFlag    == NumKept < cfg.k \/ t = 0
Sum(f)    == FoldFunction(LAMBDA a, b : a + b, 0, f)

\* ---- properties ---------------------------------------------------------------------------
TypeOK ==
  /\ n \in 0..T
  /\ \A i \in Coords : l[i] \in Nat /\ c[i] \in Nat /\ ia[i] \in Nat
  /\ t \in Nat

\* PSD bracket  V diag(l) V' <= C <= V diag(l) V' + t I   (diagonal case)
Bracket == \A i \in Coords : l[i] <= c[i] /\ c[i] <= l[i] + t

NonNeg == t >= 0 /\ \A i \in Coords : l[i] >= 0

\* at most k directions are kept
RankBound == NumKept <= cfg.k

\* a history that touched at most k coordinates is tracked exactly
LowRankExact ==
  Cardinality({i \in Coords : c[i] > 0}) <= cfg.k => (t = 0 /\ l = c)

\* the classical FD guarantee: the escaped mass is at most the untracked trace / (k+1)
FDGuarantee == (cfg.k + 1) * t <= Sum(c) - Sum(l)

\* the argument the code inverts IS  l + t  on kept directions (and t on the complement,
\* which the code takes from the new tail directly)
InvDenotes == \A i \in Coords : ia[i] = (IF l[i] > 0 THEN l[i] + t ELSE 0)

\* The gradient of a step, recovered from the history (scaled by bd^(n+1)).
GradOf == [i \in Coords |->
            c'[i] - cfg.bn * (c[i] + (IF l[i] > 0 THEN cfg.ridge * cfg.bd^n ELSE 0))]

\* t_new = b t_old + r,  r the (k+1)-th eigenvalue of the matrix that was decomposed
TailLaw == [][t' = cfg.bn * t + FDStep(l, t, GradOf, n).r]_vars

\* a zero-gradient step discounts sketch (incl. its ridge) and escaped mass by the same b
ZeroStep == [][(\A i \in Coords : GradOf[i] = 0) =>
                 /\ t' = cfg.bn * t
                 /\ l' = [i \in Coords |-> cfg.bn * Ridged(l, n)[i]]]_vars

\* top-k-then-deflate-then-zero equals thresholding at r: which members of a tie the sort
\* puts first is irrelevant (so V diag(l) V' is well defined although V is not)
KeepIsThreshold ==
  [][LET s == FDStep(l, t, GradOf, n)
     IN \A i \in Coords : l'[i] = (IF s.m[i] > s.r THEN s.m[i] - s.r ELSE 0)]_vars

\* the escaped mass never decreases faster than the decay
TailMonotone == [][t' >= cfg.bn * t]_vars
====
