---- MODULE InvRoot_Trace ----
(* Trace validation (code -> spec) for InvRoot.                                          *)
(* A trace is ONE real call of matrix_inverse_pth_root(_eigh) on A = Q diag(a) Q^T built   *)
(* from a case exported by InvRoot_Gen:                                                    *)
(*   {cfg: <case record>, events: [..]}                                                    *)
(* The public API shows only the end of the call (X and TrainingMetrics), so the worker     *)
(* lays the observations out along the code path the metrics imply; every event is then     *)
(* explained by the module's own action, after the named clauses of Verdict:                *)
(*   Mask | Deflate | Size1 | ExitLoop | Redeflate | Decompose                              *)
(*   Estimate  lk: one|num|nan|hidden, lam: metrics.max_eigen_value as decimal, rounded UP  *)
(*   Attempt   cls: class of the attempt's error against 0.05.  total_retries many events;  *)
(*             only the last attempt's error is visible (Newton route), the others are      *)
(*             "unobserved" and resolved by ClsOf to the only class the loop guard admits   *)
(*   Report    fc / fig: inverse_pth_root_errors as class against the threshold 0.1 and as  *)
(*             decimal rounded DOWN; c05: its class against 0.05; retries: total_retries    *)
(*   Return    finite, asym (max|X - X^T| / max|X| as decimal, rounded up; judged            *)
(*             against the rounding slack of the ridge actually inside X), padnz            *)
(*             (non-zero entries of X in padding rows/columns), xzero, figzero              *)
(*   Gate      accepted (fig < 0.1 in float32), pi (premise PI below holds), meas: for      *)
(*             every ridge base and escalation exponent the residual                          *)
(*             max|X^p (A + dI) - I| MEASURED in float64 on the                               *)
(*             unpadded block, minimised over the interval of d the reports stand for,       *)
(*             decimal rounded UP ([-1,0] = not finite).                                     *)
(* TLC - not the harness - picks the entry meas[base][kref + 1] that belongs to the ridge     *)
(* this module derives from (relative/absolute, estimate vs floor, attempts made), derives    *)
(* the slack from the case's spectrum and that ridge, decides whether the case lies in the    *)
(* numerical domain (cond <= 1e13) and evaluates Honest.  All invariants                       *)
(* of InvRoot are evaluated on every state of every accepted prefix.                          *)
(*                                                                                           *)
(* Premise PI (eigh does not report its estimate): on the lattice spectra (eigenvalue ratios   *)
(* 1 or <= 1/10) the power iteration, which stops at increments <= 1e-6, returns lambda_hat    *)
(* in [lambda_max (1 - 1e-4), lambda_max] when lambda_max >= 1; for lambda_max <= 1e-6 the      *)
(* floor 1e-6 is what scales the ridge.  The worker checks the premise per case with the       *)
(* library's own power_iteration (Gate.pi); where it fails (start vector almost orthogonal to  *)
(* the top eigenvector) the numerical clause is not evaluated for that eigh case.              *)
EXTENDS InvRoot, Json, IOUtils
Traces == JsonDeserialize(IOEnv.TRACE_FILE)
VARIABLES tid, l, bad
tvars == <<vars, tid, l, bad>>
Ev  == Traces[tid].events
Cfg == Traces[tid].cfg

\* "symmetric": max|X - X^T| / max|X| within the same rounding slack SlackC n p u cond(A + dI) the
\* numerical clause grants (u = 2^-53; 2^-24 >= 5.96e-8 under f32)
U32Lo == <<596000000, -16>>
SlackFor(c, d, lamUp) == IF c.dt = "f64" THEN Slack(c, d, lamUp)
                         ELSE DMulDown(DMulDown(DFromInt(SlackC * c.n * c.p), U32Lo), CondLo(c, d, lamUp))
\* lambda_hat <= lambda_max: the report is float32 (2^-23); under f32 the input itself is
\* rounded to float32, which moves lambda_max by up to n * 2^-24 <= 1e-6 relative: allow 1e-4
LamBound(c) == IF c.dt = "f64" THEN F32Up(LamMax(c))
               ELSE DAddDown(F32Up(LamMax(c)), DShift(LamMax(c), -4))

PcOf(a) == CASE a = "Mask" -> "call" [] a = "Deflate" -> "deflate" [] a = "Estimate" -> "estimate"
             [] a = "Size1" -> "size1" [] a = "Attempt" -> "loop" [] a = "ExitLoop" -> "loop"
             [] a = "Redeflate" -> "redeflate" [] a = "Decompose" -> "decompose"
             [] a = "Report" -> "report" [] a = "Return" -> "override" [] a = "Gate" -> "gate"
             [] OTHER -> "?"

EstEv == Ev[CHOOSE i \in 1..Len(Ev) : Ev[i].a = "Estimate"]
RepEv == Ev[CHOOSE i \in 1..Len(Ev) : Ev[i].a = "Report"]
\* the estimate as a number, rounded up; eigh hides it: upper end of the PI interval
LamUp == IF EstEv.lk = "num" THEN EstEv.lam ELSE LamMax(case)

LkOf(e) == IF ~case.rel THEN "one"
           ELSE IF e.lk = "hidden" THEN (IF matrows = {} THEN "nan" ELSE "pos")
           ELSE IF e.lk = "num" THEN (IF matrows = {} THEN "zero" ELSE "pos") ELSE e.lk
BfOf(e) == IF e.lk = "num" THEN DLt(e.lam, Floor(case))
           ELSE IF e.lk = "hidden" /\ case.rel /\ matrows # {} THEN LamMaxBelowFloor(case)
           ELSE FALSE

\* an unobserved attempt was "big" if another attempt followed it (the loop guard admits nothing
\* else); an unobserved LAST attempt (LOBPCG variant: the tracked error is overwritten by the
\* unconditioned residual) is resolved to "small", which constrains nothing downstream
ClsOf(e) == IF e.cls # "unobserved" THEN e.cls
            ELSE IF matrows = {} THEN "nan"         \* all-padding: overwritten by the override
            ELSE IF l < Len(Ev) /\ Ev[l + 1].a = "Attempt" THEN "big" ELSE "small"

\* all-padding: the figure before the override is not observable; any admissible class will do
FcOf(e) == IF ~AllPad(case) THEN e.fc
           ELSE IF figsrc = "tracked_error" /\ last = "small" THEN "below"
           ELSE IF figsrc = "tracked_error" /\ last = "big" THEN "atabove"
           ELSE "nan"

Verdict(e) ==
  IF PcOf(e.a) # pc THEN "event_out_of_order"
  ELSE IF e.a = "Mask" THEN
    (IF ~CaseOK(case) THEN "case_not_in_lattice" ELSE "ok")
  ELSE IF e.a = "Estimate" THEN
    (IF (case.method = "eigh") # (e.lk = "hidden") THEN "estimate_visibility_mismatch"
     ELSE IF e.lk = "hidden" THEN "ok"
     ELSE IF ~case.rel THEN
       (IF e.lk = "num" /\ e.lam = DOne THEN "ok" ELSE "absolute_ridge_reports_estimate_not_one")
     ELSE IF matrows = {} THEN
       (IF e.lk = "nan" \/ (e.lk = "num" /\ e.lam = DZero) THEN "ok" ELSE "all_padding_estimate_not_nan_or_zero")
     ELSE IF e.lk # "num" THEN "lambda_hat_not_finite"
     ELSE IF ~IsDec(e.lam) THEN "malformed_number"
     ELSE IF e.lam = DZero THEN "lambda_hat_zero_on_nonzero_matrix"
     ELSE IF ~DLe(e.lam, LamBound(case)) THEN "lambda_hat_above_lambda_max"
     ELSE "ok")
  ELSE IF e.a = "Attempt" THEN
    (IF tries >= MaxTries THEN "more_attempts_than_num_tries"
     ELSE IF tries > 0 /\ last # "big" THEN "retry_after_error_at_or_below_retry_threshold"
     ELSE IF matrows = {} /\ ClsOf(e) # "nan" THEN "all_padding_attempt_not_nan"
     ELSE "ok")
  ELSE IF e.a = "ExitLoop" THEN
    (IF tries = 0 THEN "loop_exited_without_attempt"
     ELSE IF last = "big" /\ tries < MaxTries THEN "loop_exited_with_error_above_retry_threshold"
     ELSE "ok")
  ELSE IF e.a = "Report" THEN
    (IF e.retries # tries THEN "reported_retries_differ_from_attempts"
     ELSE IF AllPad(case) THEN "ok"
     ELSE IF e.fc = "below" /\ ~IsDec(e.fig) THEN "malformed_number"
     ELSE IF figsrc = "tracked_error" /\ e.c05 # last THEN "reported_error_is_not_last_tracked_error"
     ELSE IF figsrc = "tracked_error" /\ last = "small" /\ e.fc # "below" THEN "figure_class_contradicts_retry_class"
     ELSE IF figsrc = "tracked_error" /\ last = "nan" /\ e.fc # "nan" THEN "figure_class_contradicts_retry_class"
     ELSE IF figsrc = "tracked_error" /\ last = "big" /\ e.fc = "nan" THEN "figure_class_contradicts_retry_class"
     ELSE "ok")
  ELSE IF e.a = "Return" THEN
    (IF ~e.finite THEN "root_not_finite"
     ELSE IF e.padnz # 0 THEN "padding_rows_not_zero"
     ELSE IF AllPad(case) /\ ~(e.xzero /\ e.figzero) THEN "all_padding_result_or_error_not_zero"
     ELSE IF ~AllPad(case) /\ e.xzero THEN "result_is_zero_matrix"
     ELSE IF ~AllPad(case) /\ ~DLe(e.asym, SlackFor(case, RidgeUsed, LamUp))
          THEN "root_not_symmetric"
     ELSE "ok")
  ELSE IF e.a = "Gate" THEN
    (IF e.accepted # (figcls \in {"below", "zero"}) THEN "gate_disagrees_with_figure_class"
     ELSE IF case.dt = "f64" /\ figcls = "below" /\ (case.method = "eigh" /\ base = "rel_lam" => e.pi)
             /\ NumDomain(case, RidgeRef, LamUp) THEN
       LET col == e.meas[base]
           M == IF kref + 1 <= Len(col) THEN col[kref + 1] ELSE <<-1, 0>>
       IN IF M[1] = -1 THEN "accepted_root_residual_not_finite"
          ELSE IF ~IsDec(M) THEN "malformed_number"
          ELSE IF ~Honest(case, RidgeRef, LamUp, RepEv.fig, M) THEN "reported_error_below_true_residual"
          ELSE "ok"
     ELSE "ok")
  ELSE "ok"

Act(e) == CASE e.a = "Mask" -> Mask
            [] e.a = "Deflate" -> Deflate
            [] e.a = "Estimate" -> Estimate(LkOf(e), BfOf(e))
            [] e.a = "Size1" -> Size1
            [] e.a = "Attempt" -> Attempt(ClsOf(e))
            [] e.a = "ExitLoop" -> ExitLoop
            [] e.a = "Redeflate" -> Redeflate
            [] e.a = "Decompose" -> Decompose
            [] e.a = "Report" -> Report(FcOf(e))
            [] e.a = "Return" -> Override
            [] e.a = "Gate" -> Gate

TraceInit == /\ tid \in 1..Len(Traces) /\ l = 1 /\ bad = "ok"
             /\ case = Traces[tid].cfg /\ InitRest

TraceStep ==
  /\ l <= Len(Ev) /\ bad = "ok"
  /\ LET e == Ev[l]
         v == Verdict(e)
     IN IF v = "ok"
        THEN /\ Act(e)
             /\ l' = l + 1 /\ bad' = "ok"
        ELSE /\ bad' = v /\ UNCHANGED <<vars, l>>
  /\ UNCHANGED tid

TraceSpec == TraceInit /\ [][TraceStep]_tvars

\* a trace is complete only if the call reached the gate
Finished == (l = Len(Ev) + 1) \/ bad # "ok"
EmitVerdict == Finished =>
  PrintT("@@V " \o ToJson([tid |-> tid, l |-> l,
                           verdict |-> IF bad = "ok" /\ pc # "done" THEN "trace_ends_before_gate" ELSE bad]))
Stalled == l <= Len(Ev) /\ bad = "ok" /\ ~ENABLED TraceStep
EmitStall == Stalled => PrintT("@@V " \o ToJson([tid |-> tid, l |-> l, verdict |-> "stalled_env_contract"]))
====
