SPECIFICATION GSpec
CONSTANTS
  Cfgs <- GENT_Cfgs
  Sample = 0
INVARIANT Emit
CHECK_DEADLOCK FALSE
