---- MODULE TFRefine_MC ----
EXTENDS TFRefine
Half == <<1, 1>>
MC_TCfgs == [graft : {"NONE", "SGD", "RMSPROP"}, start : {0, 2, 3}, skipped : BOOLEAN,
             ema : {FALSE}, nest : {FALSE}, md : {D0}, wd : {D0}, wdafter : {TRUE},
             lr : {<<1, 2>>}, lrs : {"const"}, SF : {1, 2, 3}, PF : {1, 2, 3}, b2 : {D1, Half}, gd : {D1}]
====
