SPECIFICATION Spec
CONSTANTS
  Cfgs <- MC_Cfgs
  Masses <- MC_Masses
  GVals <- MC_GVals
  T = 5
INVARIANT TypeOK
INVARIANT OgdClosedForm
INVARIANT AdaClosedForm
INVARIANT AdaGuardHarmless
INVARIANT LastRowZero
INVARIANT RowsCanonical
INVARIANT RankBound
INVARIANT RefinesDocFD
INVARIANT Bracket
INVARIANT StepCount
INVARIANT AlphaLaw
INVARIANT Lossless
INVARIANT SAdaIsFullMatrixAdaGrad
INVARIANT ArgLaw
PROPERTY NothingOverwritten
CHECK_DEADLOCK FALSE
