---------------------------- MODULE TFControl ----------------------------
(***************************************************************************)
(* Control skeleton of the Tearfree optimizer (precondition/tearfree):     *)
(* grafting._graft_with wrapping second_order (shampoo._update or          *)
(* sketchy._update), for one parameter.                                    *)
(*                                                                         *)
(* One public update = one step.  Inside it the code runs                  *)
(*   second order: stats refresh (count % SF = 0) -> roots refresh         *)
(*                 (count % PF = 0, from the statistics just updated)      *)
(*                 -> precondition with the roots just stored              *)
(*   graft:        choose graft step (count < Start or parameter skipped)  *)
(*                 or preconditioned direction rescaled to the graft norm  *)
(* Sketchy keeps sketch and inverse roots in one state, so SF = PF = freq. *)
(* There is no acceptance gate in Tearfree.                                *)
(***************************************************************************)
EXTENDS Integers, Sequences, FiniteSets, TLC

CONSTANTS Cfgs, T
VARIABLES cfg, count, statsProv, rootsProv, used, kind, svdAt
vars == <<cfg, count, statsProv, rootsProv, used, kind, svdAt>>

Identity == <<-1>>

CfgOK(c) == /\ c.so \in {"shampoo", "sketchy"}
            /\ c.SF \in Nat \ {0} /\ c.PF \in Nat \ {0} /\ c.Start \in Nat
            /\ c.graft \in BOOLEAN /\ c.skipped \in BOOLEAN
            /\ (c.so = "sketchy" => c.SF = c.PF)
            /\ (c.skipped => c.graft)     \* skip rules are ignored without grafting
            /\ c.ekfac \in BOOLEAN /\ (c.ekfac => c.so = "sketchy")

Init == /\ cfg \in Cfgs /\ CfgOK(cfg) /\ count = 0
        /\ statsProv = <<>> /\ rootsProv = Identity /\ used = Identity /\ kind = "none"
        /\ svdAt = -1

\* a skipped parameter is masked out of the second-order transform: no statistics at all
StatsAfter == IF ~cfg.skipped /\ count % cfg.SF = 0 THEN Append(statsProv, count) ELSE statsProv
RootsAfter == IF ~cfg.skipped /\ count % cfg.PF = 0 THEN StatsAfter ELSE rootsProv

Update ==
  /\ count < T
  /\ statsProv' = StatsAfter
  /\ rootsProv' = RootsAfter
  /\ used' = RootsAfter
  /\ kind' = IF cfg.skipped THEN "graft"
             ELSE IF ~cfg.graft THEN "precond"
             ELSE IF count >= cfg.Start THEN "precond" ELSE "graft"
  \* Sketchy with ekfac_svd: the sketch keeps its cadence, but the SVD factors used for
  \* preconditioning (svd_result_u / svd_result_s / inv_prev_tail) are recomputed on EVERY step
  \* from the current sketch and the current gradient
  /\ svdAt' = IF cfg.ekfac /\ ~cfg.skipped THEN count ELSE svdAt
  /\ count' = count + 1
  /\ UNCHANGED cfg

Next == Update
Spec == Init /\ [][Next]_vars

TypeOK == CfgOK(cfg) /\ count \in 0..T /\ kind \in {"none", "graft", "precond"}
CountStep    == [][count' = count + 1]_vars
StatsCadence == [][statsProv' # statsProv => count % cfg.SF = 0]_vars
RootsCadence == [][rootsProv' # rootsProv => (count % cfg.PF = 0 /\ rootsProv' = statsProv')]_vars
UsesFresh    == [][used' = rootsProv']_vars
Warmup       == [][kind' = "graft" <=> (cfg.skipped \/ (cfg.graft /\ count < cfg.Start))]_vars
Multiples(n, s) == [i \in 1..((n + s - 1) \div s) |-> (i - 1) * s]
StatsClosedForm == ~cfg.skipped => statsProv = Multiples(count, cfg.SF)
RootsClosedForm == (~cfg.skipped /\ count > 0) =>
                     rootsProv = Multiples(((count - 1) \div cfg.PF) * cfg.PF + 1, cfg.SF)
EkfacEveryStep == [][(cfg.ekfac /\ ~cfg.skipped) => svdAt' = count]_vars
EkfacOnlyThen  == [][svdAt' # svdAt => cfg.ekfac]_vars
SkippedHasNoState == cfg.skipped => (statsProv = <<>> /\ rootsProv = Identity)
=============================================================================
