---- MODULE SM3 ----
(***************************************************************************)
(* SM3 second-moment accumulators (precondition/sm3.py) over integer       *)
(* gradients, with the exact per-coordinate second moment as a history     *)
(* variable.                                                               *)
(*                                                                         *)
(* One parameter tensor of shape cfg.shape (rank 1..4).  The optimizer     *)
(* keeps ONE accumulator vector per axis (ParameterStats.diagonal_         *)
(* statistics[a], length shape[a]) instead of one number per coordinate.   *)
(* update_fn does, per call,                                               *)
(*   Moving(g)  _moving_averages:  nu[ix] = b2 * min_a acc[a][ix[a]]       *)
(*                                          + w * g[ix]^2                   *)
(*              (rank 1: b2 * acc[1][ix] + w g^2 - explicit branch),        *)
(*              w = 1 - b2 if b2 # 1 else 1;  nu is the statistic the step  *)
(*              is preconditioned with: update = -lr g / sqrt(nu + eps)     *)
(*   Sketch     _sketch_diagonal_statistics:                                *)
(*              acc'[a][j] = max { nu[ix] : ix[a] = j }   (rank 1: = nu)    *)
(*                                                                         *)
(* NUMBERS.  b2 = BN/BD is dyadic and gradients are small integers, so      *)
(* every quantity is an integer over BD^n after n completed updates; the   *)
(* spec stores those numerators (32-bit safe for the horizons used) and    *)
(* float32 represents the same values exactly - the harness compares the   *)
(* real accumulators with `=`.                                              *)
(*                                                                         *)
(* NOT MODELLED: normalize_grads (rescales g before it is squared - the     *)
(* float traces apply it to the reference as well), the momentum buffer    *)
(* (beta1; stored int8-quantised, see Quant.tla), weight decay and the     *)
(* learning rate: they act on the preconditioned gradient g/sqrt(nu+eps)   *)
(* AFTER nu has been formed and never reach the accumulators - which is    *)
(* itself checked: grid traces with beta1 / weight decay must reproduce the *)
(* accumulators of this model.  sqrt is never evaluated by TLC; the spec    *)
(* exports the exact rational nu and the harness applies the function.      *)
(*                                                                         *)
(* exact[ix] is the true (decayed) second moment of coordinate ix:         *)
(*   exact' = b2 * exact + w * g^2      (diagonal AdaGrad / RMSProp)        *)
(* It is a history variable: it does not influence the other variables.    *)
(***************************************************************************)
EXTENDS Integers, Sequences, FiniteSets, FiniteSetsExt, TLC

CONSTANT Cfgs    \* set of [shape : Seq(Nat), bn, bd : Nat, vals : SUBSET Int, T : Nat]

VARIABLES
  cfg,     \* the configuration of this run
  n,       \* completed updates (SM3State.count)
  pc,      \* "grad": between public calls; "sketch": inside update_fn after _moving_averages
  acc,     \* acc[a][j]: accumulator of axis a, numerators over BD^n
  nu,      \* new_diagonal_statistics of the current/last update, numerators over BD^(n+1) / BD^n
  exact    \* history: exact second moment per coordinate, same denominator as nu
vars == <<cfg, n, pc, acc, nu, exact>>

Rank == Len(cfg.shape)
Axes == 1..Rank
\* all coordinates of a tensor of shape sh (tuples <<i1, .., ik>>); computed once per run
\* and kept in cfg.idx (TLC re-evaluates state-dependent definitions at every use)
IdxOf(sh) == LET md == FoldSet(LAMBDA a, m : IF sh[a] > m THEN sh[a] ELSE m, 0, 1..Len(sh))
             IN {ix \in [1..Len(sh) -> 1..md] : \A a \in 1..Len(sh) : ix[a] <= sh[a]}
Idx == cfg.idx
BN == cfg.bn
BD == cfg.bd
W == IF BN = BD THEN BD ELSE BD - BN          \* weight numerator over BD
RECURSIVE Pow(_, _)
Pow(b, k) == IF k = 0 THEN 1 ELSE b * Pow(b, k - 1)
MinOf(S) == FoldSet(LAMBDA a, b : IF a < b THEN a ELSE b, CHOOSE a \in S : TRUE, S)
MaxOf(S) == FoldSet(LAMBDA a, b : IF a > b THEN a ELSE b, CHOOSE a \in S : TRUE, S)

(* min over the (broadcast) accumulators at coordinate ix *)
MinAcc(ix) == MinOf({acc[a][ix[a]] : a \in Axes})

Init ==
  /\ \E c \in Cfgs : cfg = [shape |-> c.shape, bn |-> c.bn, bd |-> c.bd, vals |-> c.vals,
                             T |-> c.T, idx |-> IdxOf(c.shape)]
  /\ n = 0 /\ pc = "grad"
  /\ acc = [a \in 1..Len(cfg.shape) |-> [j \in 1..cfg.shape[a] |-> 0]]
  /\ nu = [ix \in Idx |-> 0]
  /\ exact = nu

(* _moving_averages (sm3.py:88-94); numerators move from BD^n to BD^(n+1) *)
Moving(grad) ==
  /\ pc = "grad" /\ n < cfg.T
  /\ nu' = [ix \in Idx |->
             BN * (IF Rank < 2 THEN acc[1][ix[1]] ELSE MinAcc(ix))
             + W * grad[ix] * grad[ix] * Pow(BD, n)]
  /\ exact' = [ix \in Idx |-> BN * exact[ix] + W * grad[ix] * grad[ix] * Pow(BD, n)]
  /\ pc' = "sketch"
  /\ UNCHANGED <<cfg, n, acc>>

(* _sketch_diagonal_statistics (sm3.py:100-108) and count + 1 *)
NewAcc == [a \in Axes |-> [j \in 1..cfg.shape[a] |->
            IF Rank = 1 THEN nu[<<j>>]
            ELSE MaxOf({nu[ix] : ix \in {jx \in Idx : jx[a] = j}})]]
Sketch ==
  /\ pc = "sketch"
  /\ acc' = NewAcc
  /\ n' = n + 1
  /\ pc' = "grad"
  /\ UNCHANGED <<cfg, nu, exact>>

Grad == \E grad \in [Idx -> cfg.vals] : Moving(grad)
Next == Grad \/ Sketch
Spec == Init /\ [][Next]_vars

(***************************************************************************)
(* Properties (C12)                                                        *)
(***************************************************************************)
Quiet == pc = "grad"

TypeOK ==
  /\ pc \in {"grad", "sketch"} /\ n \in 0..cfg.T
  /\ \A a \in Axes : \A j \in 1..cfg.shape[a] : acc[a][j] >= 0

(* the accumulators cover the exact second moment of every coordinate *)
Cover == Quiet => \A ix \in Idx : MinAcc(ix) >= exact[ix]

(* the statistic the step is divided by covers it too: the step is never  *)
(* larger than diagonal AdaGrad/RMSProp's, |g|/sqrt(nu) <= |g|/sqrt(exact) *)
StepBound == \A ix \in Idx : nu[ix] >= exact[ix]

(* and it never exceeds what the new accumulators store for that coordinate *)
NuBelowAcc == (Quiet /\ n > 0) => \A ix \in Idx : nu[ix] <= MinAcc(ix)

(* every accumulator entry is attained by some coordinate of its slice     *)
(* (the accumulators come from one common nu) - this is what makes them     *)
(* monotone                                                                 *)
Tight == (Quiet /\ n > 0) => \A a \in Axes : \A j \in 1..cfg.shape[a] :
           \E ix \in Idx : ix[a] = j /\ nu[ix] = acc[a][j] /\ MinAcc(ix) = acc[a][j]

(* rank 1: SM3 is diagonal AdaGrad / RMSProp exactly *)
Rank1Exact == (Quiet /\ Rank = 1) => \A ix \in Idx : acc[1][ix[1]] = exact[ix]

(* accumulators never decrease when the decay is 1 (pairs of quiet states) *)
Mono == [][(BN = BD /\ pc = "sketch") =>
             \A a \in Axes : \A j \in 1..cfg.shape[a] : acc'[a][j] >= BD * acc[a][j]]_vars
(* with decay: they never fall below the decayed previous value *)
MonoDecay == [][(pc = "sketch") =>
             \A a \in Axes : \A j \in 1..cfg.shape[a] : acc'[a][j] >= BN * acc[a][j]]_vars
CountStep == [][(pc = "sketch") => n' = n + 1]_vars
====
