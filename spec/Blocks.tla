------------------------------- MODULE Blocks -------------------------------
(***************************************************************************)
(* Information flow of a blocked second-order update (Distributed Shampoo  *)
(* Preconditioner + _transform_grad; Tearfree shampoo._update), at the     *)
(* level of DEPENDENCY SETS.  A parameter tree has parameters p, each      *)
(* partitioned into blocks b; the only data symbols are G(p,b): "the       *)
(* gradient history of block b of parameter p".  Every intermediate        *)
(* quantity carries the set of symbols it depends on; one action per       *)
(* code-level phase:                                                       *)
(*   Stats    per block and axis  : Gram of that block's gradient          *)
(*   Roots    per block and axis  : inverse root of that block's statistic *)
(*            (batched over blocks: vmap / einsum over the blocks axis, a  *)
(*             common padded size, a cut-off relative to ...)              *)
(*   Apply    per block           : roots of the block applied to its grad *)
(*   Graft    per parameter       : one scalar |graft| / |preconditioned|  *)
(*   Emit     per block           : direction x that scalar                *)
(* `CutoffScope` selects what the eigenvalue cut-off of the root routine   *)
(* is relative to: "block" (each block's own maximum - what the code does  *)
(* now) or "batch" (the maximum over all blocks of the batch - what        *)
(* Tearfree did before the repair).  `PadScope` likewise for the padding   *)
(* to a common size: "masked" (padding rows are masked, no flow) or        *)
(* "leaky".  TLC shows the property holds for block/masked and is violated *)
(* for the other settings, so the invariants are not vacuous.              *)
(***************************************************************************)
EXTENDS Integers, FiniteSets, Sequences, TLC

CONSTANTS Layouts,       \* set of sequences: Layouts[i][p] = number of blocks of parameter p
          CutoffScope,   \* "block" | "batch"
          PadScope       \* "masked" | "leaky"

VARIABLES layout, pc, statsDep, rootsDep, dirDep, scalarDep, updDirDep, updDep
vars == <<layout, pc, statsDep, rootsDep, dirDep, scalarDep, updDirDep, updDep>>

Params == DOMAIN layout
BlocksOf(p) == 1..layout[p]
Sym(p, b) == <<p, b>>
AllSyms == {Sym(p, b) : p \in Params, b \in 1..10} \cap {s \in (Params \X (1..10)) : s[2] <= layout[s[1]]}
SymsOfParam(p) == {Sym(p, b) : b \in BlocksOf(p)}
Empty == [p \in Params |-> [b \in BlocksOf(p) |-> {}]]

Init == /\ layout \in Layouts /\ pc = "stats"
        /\ statsDep = Empty /\ rootsDep = Empty /\ dirDep = Empty /\ updDirDep = Empty /\ updDep = Empty
        /\ scalarDep = [p \in Params |-> {}]

Stats == /\ pc = "stats"
         /\ statsDep' = [p \in Params |-> [b \in BlocksOf(p) |-> {Sym(p, b)}]]
         /\ pc' = "roots" /\ UNCHANGED <<layout, rootsDep, dirDep, scalarDep, updDirDep, updDep>>

\* the batch a root computation runs in: all blocks of one parameter (Tearfree: einsum over the
\* blocks axis) or all statistics of all parameters (Distributed Shampoo: one vmap over the
\* padded stack) - the widest possible scope is modelled
Batch(p) == UNION {SymsOfParam(q) : q \in Params}

Roots == /\ pc = "roots"
         /\ rootsDep' = [p \in Params |-> [b \in BlocksOf(p) |->
                statsDep[p][b]
                \cup (IF CutoffScope = "batch" THEN Batch(p) ELSE {})
                \cup (IF PadScope = "leaky" THEN Batch(p) ELSE {})]]
         /\ pc' = "apply" /\ UNCHANGED <<layout, statsDep, dirDep, scalarDep, updDirDep, updDep>>

Apply == /\ pc = "apply"
         /\ dirDep' = [p \in Params |-> [b \in BlocksOf(p) |-> rootsDep[p][b] \cup {Sym(p, b)}]]
         /\ pc' = "graft" /\ UNCHANGED <<layout, statsDep, rootsDep, scalarDep, updDirDep, updDep>>

\* the layer-wise graft scalar is computed from norms over the whole parameter
Graft == /\ pc = "graft"
         /\ scalarDep' = [p \in Params |-> SymsOfParam(p) \cup UNION {dirDep[p][b] : b \in BlocksOf(p)}]
         /\ pc' = "emit" /\ UNCHANGED <<layout, statsDep, rootsDep, dirDep, updDirDep, updDep>>

Emit == /\ pc = "emit"
        /\ updDirDep' = dirDep
        /\ updDep' = [p \in Params |-> [b \in BlocksOf(p) |-> dirDep[p][b] \cup scalarDep[p]]]
        /\ pc' = "done" /\ UNCHANGED <<layout, statsDep, rootsDep, dirDep, scalarDep>>

Next == Stats \/ Roots \/ Apply \/ Graft \/ Emit
Spec == Init /\ [][Next]_vars

\* C08: the DIRECTION of a block's update depends on that block's own history only ...
BlockLocal == pc = "done" => \A p \in Params : \A b \in BlocksOf(p) : updDirDep[p][b] \subseteq {Sym(p, b)}
\* ... its magnitude additionally on the parameter-level graft scalar, and nothing of any
\* other parameter ever reaches a parameter's update
ParamLocal == pc = "done" => \A p \in Params : \A b \in BlocksOf(p) : updDep[p][b] \subseteq SymsOfParam(p)
=============================================================================
