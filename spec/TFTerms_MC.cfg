SPECIFICATION Spec
CONSTANTS
  Cfgs <- MC_Cfgs
  T = 5
INVARIANT StatOK
INVARIANT RootOK
INVARIANT UsedFresh
INVARIANT GaccOK
INVARIANT KindOK
INVARIANT UpdOK
INVARIANT LrCountOK
CHECK_DEADLOCK FALSE
