SPECIFICATION GSpec
CONSTANTS
  Cases <- GENT3_Cases
  MapMax = 512
INVARIANT Emit
CHECK_DEADLOCK TRUE
