---- MODULE DSTerms_MC ----
EXTENDS DSTerms
Half == <<1, 1>>
B  == {D0, Half}
MC_Cfgs == [b1 : B, b2 : {D1, Half, <<3, 2>>}, nest : BOOLEAN, mavg : BOOLEAN,
            wd : {D0, <<1, 3>>}, dwd : BOOLEAN, dlr : BOOLEAN, lr : {<<1, 2>>}, lrs : {"const", "lin8"},
            graft : {"NONE", "SGD", "RMSPROP", "ADAGRAD_NORMALIZED"},
            start : {0, 2}, S : {1, 2}, P : {1, 2}, shard : BOOLEAN, skip : {FALSE}]
MCT_Cfgs == [b1 : {D0, Half, <<3, 2>>}, b2 : {D1, Half, <<3, 2>>}, nest : BOOLEAN, mavg : BOOLEAN,
            wd : {D0, <<1, 3>>}, dwd : BOOLEAN, dlr : BOOLEAN, lr : {<<1, 2>>}, lrs : {"const", "lin8"},
            graft : {"NONE", "SGD", "ADAGRAD", "RMSPROP", "RMSPROP_NORMALIZED", "SQRT_N", "ADAGRAD_NORMALIZED"},
            start : {0, 2, 100}, S : {1, 2, 3}, P : {1, 2, 3}, shard : BOOLEAN, skip : BOOLEAN]
====
