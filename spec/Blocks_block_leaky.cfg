SPECIFICATION Spec
CONSTANTS
  Layouts <- MC_Layouts
  CutoffScope = "block"
  PadScope = "leaky"
INVARIANT BlockLocal
INVARIANT ParamLocal
CHECK_DEADLOCK FALSE
