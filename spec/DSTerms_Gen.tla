---- MODULE DSTerms_Gen ----
(* Behaviour export of the DSTerms term machine for numeric replay (spec -> code).   *)
(* Each behaviour = one configuration and, per step, the emitted update as a list    *)
(* of [symbol kind, step, numerator, exponent] terms plus the definition of that      *)
(* step's symbols; the harness interprets symbols in float64 and compares with the    *)
(* real optimizer's update, statistics and roots.                                     *)
EXTENDS DSTerms, Json
VARIABLE hist
gvars == <<vars, hist>>
Half == <<1, 1>>
GEN_Cfgs == [b1 : {D0, Half}, b2 : {D1, Half, <<3, 2>>}, nest : BOOLEAN, mavg : BOOLEAN,
            wd : {D0, <<1, 3>>}, dwd : BOOLEAN, dlr : BOOLEAN, lr : {<<1, 2>>}, lrs : {"const", "lin8"},
            graft : {"NONE", "SGD", "ADAGRAD", "RMSPROP", "RMSPROP_NORMALIZED", "SQRT_N", "ADAGRAD_NORMALIZED"},
            start : {0, 2}, S : {1, 2}, P : {1, 2, 3}, shard : BOOLEAN, skip : BOOLEAN,
            clip : BOOLEAN]   \* clip_by_scaled_gradient_norm on/off: part of the DEFINITION of the RMSProp graft
                              \* symbol F(s) (interpreted by the harness), not of the coefficient algebra
\* C05: momentum and weight decay off, so the public update is the pre-momentum update
C05_Cfgs == [b1 : {D0}, b2 : {D1, <<3, 2>>}, nest : {FALSE}, mavg : {FALSE},
            wd : {D0}, dwd : {FALSE}, dlr : BOOLEAN, lr : {<<1, 0>>, <<1, 2>>}, lrs : {"const", "lin8"},
            graft : {"SGD", "ADAGRAD", "RMSPROP", "RMSPROP_NORMALIZED", "SQRT_N", "ADAGRAD_NORMALIZED"},
            start : {0, 2, 100}, S : {1, 2}, P : {1, 2}, shard : BOOLEAN, skip : BOOLEAN, clip : BOOLEAN]
\* coefficient vector over 0..T as a sequence (index k+1 holds the coefficient of symbol k)
AsSeq(f) == [k \in 1..(T + 1) |-> f[k - 1]]
RootJ(r) == AsSeq(r)
UpdJ(u) == [S |-> [s \in Steps |-> u[<<"S", s>>]], F |-> [s \in Steps |-> u[<<"F", s>>]], X |-> u[<<"X">>]]
Obs == [upd |-> UpdJ(upd'), stat |-> AsSeq(stat'), root |-> RootJ(root'),
        used |-> RootJ(sdef'[count'].root), gacc |-> sdef'[count'].gacc,
        run |-> sdef'[count'].run, lr |-> Lr(cfg, count)]
GInit == Init /\ hist = <<>>
GNext == Step /\ hist' = Append(hist, Obs)
GSpec == GInit /\ [][GNext]_gvars
Emit == count = T => PrintT("@@GEN " \o ToJson([cfg |-> cfg, steps |-> hist]))
====
