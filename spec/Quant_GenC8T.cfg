SPECIFICATION ColSpec
CONSTANTS
  N = 127
  GenMax <- G8T_Max
  GenShapes <- G_Shapes
  SampleK = 40
  GenVals <- G_Vals
INVARIANT EmitCol
CHECK_DEADLOCK FALSE
