---- MODULE DSTerms_Trace ----
(* Trace validation (code -> spec) for the DSTerms term machine by COEFFICIENT PROBING.          *)
(* In the warm-up regime (start step never reached) or for a parameter excluded from              *)
(* preconditioning, with the SGD graft, the real optimizer is exactly linear in the gradients      *)
(* and the parameter: update_t = sum_s c(t,s) g_s + cx(t) X.  The harness measures c(t,s) and      *)
(* cx(t) on the real code (unit-impulse gradients / unit parameter; the values are dyadic and      *)
(* exact in float32) and logs them as normalised dyadics [m, e].  This module replays the          *)
(* machine's own Step action and compares, after every step t, the machine's coefficients of       *)
(* F(s) and X in the emitted update with the measured ones - exactly.                              *)
(*   trace = {cfg: <DSTerms configuration record>, T: n,                                           *)
(*            coef: [t][s] -> [m,e] (t, s in 1..n), cx: [t] -> [m,e]}                               *)
EXTENDS DSTerms, Json, IOUtils
Traces == JsonDeserialize(IOEnv.TRACE_FILE)
VARIABLES tid, bad
tvars == <<vars, tid, bad>>
Tr == Traces[tid]

AsD(x) == <<x[1], x[2]>>
Verdict(u, t) ==
  IF \E s \in 1..Tr.T : u[<<"S", s>>] # D0 THEN "machine_emitted_a_preconditioned_symbol"
  ELSE IF \E s \in 1..Tr.T : u[<<"F", s>>] # AsD(Tr.coef[t][s]) THEN "gradient_coefficient_differs_from_machine"
  ELSE IF u[<<"X">>] # AsD(Tr.cx[t]) THEN "parameter_coefficient_differs_from_machine"
  ELSE "ok"

TraceInit == /\ tid \in 1..Len(Traces) /\ bad = "ok"
             /\ cfg = Traces[tid].cfg /\ count = 0
             /\ stat = [s \in Steps \cup {0} |-> IF s = 0 THEN D1 ELSE D0]
             /\ root = IdRoot(Steps) /\ gacc = [s \in Steps |-> D0]
             /\ mom = Z /\ dmom = Z /\ upd = Z /\ sdef = <<>>

TraceStep ==
  /\ bad = "ok" /\ count < Tr.T
  /\ Step
  /\ bad' = Verdict(upd', count + 1)
  /\ UNCHANGED tid

TraceSpec == TraceInit /\ [][TraceStep]_tvars
Finished == count = Tr.T \/ bad # "ok"
EmitVerdict == Finished => PrintT("@@V " \o ToJson([tid |-> tid, l |-> count + 1, verdict |-> bad]))
====
