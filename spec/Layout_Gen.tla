----------------------------- MODULE Layout_Gen -----------------------------
(* Behaviour export for the replay leg of C07 (spec -> code).                  *)
(*                                                                             *)
(* The cases are chosen by a deterministic *pairwise covering construction*:    *)
(* the orthogonal array OA(Q^2, Q+1, Q, 2) for a prime Q,                        *)
(*     row (x, y) in 0..Q-1 x 0..Q-1,  column j < Q : (x + j*y) mod Q,           *)
(*                                      column Q     : y,                        *)
(* in which every two columns show every pair of symbols exactly once.  Axis a   *)
(* of the option space (a sequence of values, at most Q of them) is read from    *)
(* column (a + seed) mod (Q+1) and symbol v selects value ((v + seed*a) mod n)+1, *)
(* so every pair of values of every two axes occurs in some row, and a different  *)
(* VERIF_SEED gives a different array.  Dependent options (frequent directions    *)
(* needs rank > 0, reuse, equal intervals ...) are folded into one axis whose      *)
(* values are the accepted combinations, so that the rows of the array run; every   *)
(* documented option rejection is exported separately: each invalid value (X_..)    *)
(* is injected into three rows of the array.                                        *)
(*                                                                                 *)
(* One line per case:  @@GEN {opt, cfg, tree, rejects, layout, lobpcg_small, drift} *)
(* printed when the case has been rejected or initialised; cfg also carries the     *)
(* fields that only matter for the replay (T updates, eager/jit, row id).           *)
EXTENDS Layout, Json, IOUtils

Seed == atoi(IOEnv.GEN_SEED)
X64  == IOEnv.GEN_X64 = "1"          \* the x64 leg: a fifth of the rows, x64 trees
Tier == IOEnv.GEN_TIER               \* "quick" | "thorough"

OAVal(q, x, y, col) == IF col = q THEN y ELSE (x + col * y) % q
\* value of axis number a (1-based) with domain dom in row (x, y)
Pick(q, x, y, a, dom) ==
  LET v == OAVal(q, x, y, (a + Seed) % (q + 1))
  IN dom[((v + Seed * a) % Len(dom)) + 1]
Rows(q) == IF X64 THEN {r \in (0..q-1) \X (0..q-1) : (r[1] + 3 * r[2] + Seed) % 5 = 0}
           ELSE (0..q-1) \X (0..q-1)

Neg(n) == 0 - n

(* parameter-tree templates: ranks 0..4, unit dimensions, several parameters      *)
ShapeSeq ==
  << << <<4, 3>>, <<5>> >>,
     << <<>>, <<1>>, <<1, 1>> >>,
     << <<2, 3, 2>>, <<8>> >>,
     << <<2, 1, 3, 2>> >>,
     << <<8, 6>>, <<3>>, <<>> >>,
     << <<1, 4>>, <<4, 1>> >>,
     << <<3, 3>> >>,
     << <<2, 2, 2, 2>> >>,
     << <<5, 1, 1>>, <<2, 2>> >>,
     << <<7>>, <<1, 3, 1, 2>> >>,
     << <<4, 4>>, <<2, 2, 2>> >>,
     << <<>> >>,
     << <<6, 8>>, <<2>> >> >>

TreeOf(shapes, k) ==       \* k: a row-dependent number used to vary the dtype in the x64 leg
  IF ~X64 THEN [shapes |-> shapes, dtype |-> "float32", x64 |-> FALSE]
  ELSE [shapes |-> shapes, dtype |-> IF k % 2 = 0 THEN "float64" ELSE "float32", x64 |-> TRUE]

(* ---- Distributed Shampoo: 18 axes, Q = 17 ---------------------------------------- *)
QDS == 17
DSGraft  == <<"SGD", "ADAGRAD", "RMSPROP", "RMSPROP_NORMALIZED", "SQRT_N", "ADAGRAD_NORMALIZED", "NONE">>
DSComp   == <<0, 1, 0, Neg(1), 0, 2, 0, Neg(2), 0>>
DSFdm    == <<"none", "reuse", "fd", "fd_avg", "none", "fd_reset", "reuse", "fd_avg_reset", "none">>
DSBad    == <<"X_fd_noreuse", "X_avg_nofd", "X_reset_nofd", "X_fd_nonpos", "X_fd_sp">>
DSPType  == <<"ALL", "INPUT", "OUTPUT">>
DSSrl    == <<1, 2, 1, 3, 0>>
DSSdg    == <<4096, 4096, 3, 4096, 2>>
DSMet    == << <<TRUE, TRUE>>, <<TRUE, FALSE>>, <<FALSE, TRUE>>, <<FALSE, FALSE>>, <<TRUE, TRUE>> >>
DSMemred == <<FALSE, TRUE>>
DSBs     == <<8, 4, 8, 3, 8, 2, 8, 1>>
DSMerge  == << <<TRUE, 4096>>, <<TRUE, 4>>, <<FALSE, 4096>>, <<TRUE, 2>> >>
DSEigh   == <<FALSE, TRUE>>
DSSp     == << <<1, 1>>, <<2, 2>>, <<1, 2>>, <<2, 1>>, <<1, 1>> >>
DSMode   == << <<"plain", 1>>, <<"pmap", 1>>, <<"shard", 2>>, <<"pmap", 2>>, <<"shard", 1>>,
              <<"plain", 1>>, <<"shard", 3>>, <<"pmap", 3>> >>
DSStart  == << <<1, 8>>, <<0, 8>>, <<2, 8>>, <<1, 4>>, <<0, 4>>, <<5, 8>> >>      \* Start, beta2*8
\* options without influence on the layout, varied jointly
DSMisc1  == << [nesterov |-> TRUE,  mavg |-> FALSE, dlr |-> TRUE,  dwd |-> FALSE, wd_8 |-> 0, beta1_8 |-> 4],
              [nesterov |-> FALSE, mavg |-> TRUE,  dlr |-> TRUE,  dwd |-> FALSE, wd_8 |-> 1, beta1_8 |-> 4],
              [nesterov |-> TRUE,  mavg |-> FALSE, dlr |-> FALSE, dwd |-> TRUE,  wd_8 |-> 1, beta1_8 |-> 7],
              [nesterov |-> FALSE, mavg |-> FALSE, dlr |-> FALSE, dwd |-> FALSE, wd_8 |-> 0, beta1_8 |-> 0],
              [nesterov |-> TRUE,  mavg |-> TRUE,  dlr |-> TRUE,  dwd |-> TRUE,  wd_8 |-> 1, beta1_8 |-> 0] >>
DSMisc2  == << [lobpcg |-> 0, clip_8 |-> 0, rel_eps |-> TRUE,  exp_override |-> 0, sched |-> "none"],
              [lobpcg |-> 0, clip_8 |-> 8, rel_eps |-> FALSE, exp_override |-> 0, sched |-> "none"],
              [lobpcg |-> 0, clip_8 |-> 0, rel_eps |-> TRUE,  exp_override |-> 2, sched |-> "lin16"],
              [lobpcg |-> 1, clip_8 |-> 0, rel_eps |-> TRUE,  exp_override |-> 0, sched |-> "none"],
              [lobpcg |-> 0, clip_8 |-> 0, rel_eps |-> FALSE, exp_override |-> 0, sched |-> "lin16"],
              [lobpcg |-> 0, clip_8 |-> 8, rel_eps |-> TRUE,  exp_override |-> 4, sched |-> "none"],
              [lobpcg |-> 0, clip_8 |-> 0, rel_eps |-> TRUE,  exp_override |-> 0, sched |-> "none"],
              [lobpcg |-> 0, clip_8 |-> 0, rel_eps |-> FALSE, exp_override |-> 0, sched |-> "none"] >>
\* T updates run eagerly, through the jitted update, or as one jitted lax.scan (state = carry)
RunSeq   == << <<2, "scan">>, <<3, "jit">>, <<1, "eager">>, <<3, "scan">>, <<2, "jit">>, <<2, "eager">> >>

IsFd(f) == f \in {"fd", "fd_avg", "fd_reset", "fd_avg_reset", "X_fd_noreuse", "X_fd_nonpos", "X_fd_sp"}

DSCaseOf(x, y, bad) ==       \* bad: "none" or the invalid combination to inject
  LET Ax(a, dom) == Pick(QDS, x, y, a, dom)
      comp == Ax(2, DSComp)
      f    == IF bad = "none" THEN Ax(3, DSFdm) ELSE bad
      met  == Ax(7, DSMet)
      mg   == Ax(10, DSMerge)
      sp   == Ax(12, DSSp)
      md   == Ax(13, DSMode)
      st   == Ax(15, DSStart)
      m1   == Ax(16, DSMisc1)
      m2   == Ax(17, DSMisc2)
      run  == Ax(18, RunSeq)
      rank == IF f = "X_fd_nonpos" THEN Neg(Abs(comp))
              ELSE IF IsFd(f) THEN (IF comp = 0 THEN 1 ELSE Abs(comp))
              ELSE comp
      S    == IF f = "X_fd_sp" THEN 1 ELSE sp[1]
      Pc   == IF f = "X_fd_sp" THEN 2 ELSE IF IsFd(f) THEN sp[1] ELSE sp[2]
  IN [opt |-> "ds",
      cfg |-> [graft |-> Ax(1, DSGraft), rank |-> rank, fd |-> IsFd(f),
               avg |-> f \in {"fd_avg", "fd_avg_reset", "X_avg_nofd"},
               reuse |-> f \in {"reuse", "fd", "fd_avg", "fd_reset", "fd_avg_reset", "X_fd_nonpos", "X_fd_sp"},
               reset |-> f \in {"fd_reset", "fd_avg_reset", "X_reset_nofd"},
               ptype |-> Ax(4, DSPType), skip_rank_lt |-> Ax(5, DSSrl), skip_dim_gt |-> Ax(6, DSSdg),
               metrics |-> met[1], fd_metrics |-> met[2], memred |-> Ax(8, DSMemred), bs |-> Ax(9, DSBs),
               merge |-> mg[1], merge_bs |-> mg[2], eigh |-> Ax(11, DSEigh), S |-> S, P |-> Pc,
               mode |-> md[1], D |-> md[2], Start |-> st[1], beta2_8 |-> st[2],
               nesterov |-> m1.nesterov, mavg |-> m1.mavg, dlr |-> m1.dlr, dwd |-> m1.dwd,
               wd_8 |-> m1.wd_8, beta1_8 |-> m1.beta1_8,
               lobpcg |-> m2.lobpcg, clip_8 |-> m2.clip_8, rel_eps |-> m2.rel_eps,
               exp_override |-> m2.exp_override, sched |-> m2.sched,
               T |-> run[1], exec |-> run[2], row |-> <<x, y, bad>>],
      \* x64 leg: Distributed Shampoo is specified for float32 parameters only (its statistics
      \* are float32 by construction); it is stable for them under x64 too
      tree |-> TreeOf(Ax(14, ShapeSeq), 1)]

(* ---- Tearfree: 14 axes, Q = 13 ------------------------------------------------------- *)
QTF == 13
TFSo    == << <<"shampoo", FALSE, FALSE, FALSE>>, <<"sketchy", FALSE, FALSE, FALSE>>,
             <<"sketchy", TRUE, FALSE, FALSE>>, <<"shampoo", FALSE, FALSE, FALSE>>,
             <<"sketchy", FALSE, TRUE, FALSE>>, <<"sketchy", TRUE, TRUE, FALSE>>,
             <<"sketchy", FALSE, FALSE, TRUE>> >>                \* so, add_ggt, ekfac, lin_tail
TFBs    == <<4, 2, 3, 8, 1024, 4>>
TFMd    == <<1024, 4, 2, 8, 1024>>
\* graft, decay*8, eps negative, min_dim_size_to_factor, clipping*8, multiply_by_parameter_scale
TFGraft == << <<"RMSPROP", 6, FALSE, 128, 8, FALSE>>, <<"NONE", 0, FALSE, 128, 8, FALSE>>,
             <<"SGD", 0, FALSE, 128, 8, FALSE>>, <<"RMSPROP", 8, FALSE, 128, 8, FALSE>>,
             <<"ADAFACTOR", 6, FALSE, 128, 8, FALSE>>, <<"ADAFACTOR", 6, FALSE, 2, 16, TRUE>>,
             <<"SGD", 0, FALSE, 128, 8, FALSE>>, <<"NONE", 0, FALSE, 128, 8, FALSE>> >>
TFSr1   == <<TRUE, FALSE>>
TFSdg   == <<4096, 3, 2, 4096>>
TFSkr   == <<2, 1, 8, 3>>
TFMom   == << <<4, FALSE, TRUE>>, <<4, TRUE, FALSE>>, <<0, FALSE, TRUE>>, <<7, TRUE, TRUE>>,
             <<8, FALSE, FALSE>> >>                               \* decay*8, ema, nesterov
TFWd    == << <<0, TRUE>>, <<1, TRUE>>, <<1, FALSE>>, <<0, FALSE>> >>
TFFreq  == << <<1, 1>>, <<2, 2>>, <<1, 2>>, <<2, 1>>, <<1, 1>> >>   \* PF, SF
TFDecay == <<8, 4, 8, 0>>
TFStart == << <<0, "none">>, <<1, "none">>, <<2, "lin16">>, <<5, "none">> >>
TFBad   == <<"X_merge_dims", "X_bs1", "X_bs0", "X_decay", "X_sk_rank", "X_mom", "X_wd", "X_pf", "X_sf",
             "X_rms_decay", "X_ada_decay", "X_rms_eps", "X_ada_clip", "X_ada_min_factor">>

TFCaseOf(x, y, bad) ==
  LET Ax(a, dom) == Pick(QTF, x, y, a, dom)
      so0 == Ax(1, TFSo)
      so  == IF bad \in {"X_bs1", "X_bs0", "X_pf"} THEN <<"shampoo", FALSE, FALSE, FALSE>>
             ELSE IF bad = "X_sk_rank" THEN <<"sketchy", FALSE, FALSE, FALSE>> ELSE so0
      g0  == Ax(4, TFGraft)
      g   == CASE bad = "X_rms_decay"      -> <<"RMSPROP", 0, FALSE, 128, 8, FALSE>>
               [] bad = "X_ada_decay"      -> <<"ADAFACTOR", 8, FALSE, 128, 8, FALSE>>
               [] bad = "X_rms_eps"        -> <<"RMSPROP", 6, TRUE, 128, 8, FALSE>>
               [] bad = "X_ada_clip"       -> <<"ADAFACTOR", 6, FALSE, 128, 4, FALSE>>
               [] bad = "X_ada_min_factor" -> <<"ADAFACTOR", 6, FALSE, 0, 8, FALSE>>
               [] OTHER -> g0
      mo  == IF bad = "X_mom" THEN <<12, FALSE, TRUE>> ELSE Ax(8, TFMom)
      wd  == IF bad = "X_wd" THEN <<Neg(1), TRUE>> ELSE Ax(9, TFWd)
      fr0 == Ax(10, TFFreq)
      fr  == IF bad = "X_pf" THEN <<0, fr0[2]>> ELSE IF bad = "X_sf" THEN <<fr0[1], 0>> ELSE fr0
      st  == Ax(12, TFStart)
      run == Ax(14, RunSeq)
  IN [opt |-> "tf",
      cfg |-> [so |-> so[1], add_ggt |-> so[2], ekfac |-> so[3], lin_tail |-> so[4],
               bs |-> IF bad = "X_bs1" THEN 1 ELSE IF bad = "X_bs0" THEN 0 ELSE Ax(2, TFBs),
               merge_dims |-> IF bad = "X_merge_dims" THEN 1 ELSE Ax(3, TFMd),
               graft |-> g[1], graft_decay_8 |-> g[2], graft_eps_neg |-> g[3], min_factor |-> g[4],
               clip_8 |-> g[5], param_scale |-> g[6],
               skip_rank1 |-> Ax(5, TFSr1), skip_dim_gt |-> Ax(6, TFSdg),
               sk_rank |-> IF bad = "X_sk_rank" THEN 0 ELSE Ax(7, TFSkr),
               mom_8 |-> mo[1], ema |-> mo[2], nesterov |-> mo[3], wd_8 |-> wd[1], wd_after |-> wd[2],
               PF |-> fr[1], SF |-> fr[2],
               decay_8 |-> IF bad = "X_decay" THEN 12 ELSE Ax(11, TFDecay),
               Start |-> st[1], sched |-> st[2],
               T |-> run[1], exec |-> run[2], row |-> <<x, y, bad>>],
      \* x64 leg: float64 parameters (stable) except one row in four (open finding)
      tree |-> TreeOf(Ax(13, ShapeSeq), IF (x + y) % 4 = 0 THEN 1 ELSE 0)]

(* ---- SM3 and the second-order transforms on their own: trees x rotating options ---------- *)
SM3Seq == << [beta1_8 |-> 4, beta2_8 |-> 8, wd_8 |-> 0, normalize |-> FALSE, sched |-> "none"],
             [beta1_8 |-> 0, beta2_8 |-> 4, wd_8 |-> 1, normalize |-> TRUE,  sched |-> "none"],
             [beta1_8 |-> 7, beta2_8 |-> 8, wd_8 |-> 1, normalize |-> FALSE, sched |-> "lin16"],
             [beta1_8 |-> 8, beta2_8 |-> 4, wd_8 |-> 0, normalize |-> TRUE,  sched |-> "lin16"],
             [beta1_8 |-> 4, beta2_8 |-> 4, wd_8 |-> 0, normalize |-> TRUE,  sched |-> "none"] >>

SM3CaseOf(i, k) ==
  LET c   == SM3Seq[((i + 2 * k + Seed) % Len(SM3Seq)) + 1]
      run == RunSeq[((i + k + Seed) % Len(RunSeq)) + 1]
  IN [opt |-> "sm3",
      cfg |-> [beta1_8 |-> c.beta1_8, beta2_8 |-> c.beta2_8, wd_8 |-> c.wd_8, normalize |-> c.normalize,
               sched |-> c.sched, T |-> run[1], exec |-> run[2], row |-> <<i, k>>],
      tree |-> TreeOf(ShapeSeq[i], IF (i + k) % 3 = 0 THEN 1 ELSE 0)]

TFSOSeq == << <<"shampoo", 4, 2, FALSE, FALSE, 1, 1, 8>>, <<"shampoo", 2, 2, FALSE, FALSE, 2, 1, 4>>,
              <<"sketchy", 4, 2, FALSE, FALSE, 1, 1, 8>>, <<"sketchy", 4, 1, TRUE, TRUE, 1, 2, 4>>,
              <<"shampoo", 3, 2, FALSE, FALSE, 1, 2, 8>>, <<"sketchy", 4, 8, TRUE, FALSE, 1, 1, 0>>,
              <<"shampoo", 1, 2, FALSE, FALSE, 1, 1, 8>>, <<"sketchy", 4, 0, FALSE, FALSE, 1, 1, 8>>,
              <<"shampoo", 4, 2, FALSE, FALSE, 0, 1, 8>>, <<"sketchy", 4, 3, FALSE, TRUE, 1, 0, 8>>,
              <<"shampoo", 8, 2, FALSE, FALSE, 1, 1, 12>> >>   \* so bs sk_rank ggt ekfac PF SF decay*8

TFSOCaseOf(i, k) ==
  LET c   == TFSOSeq[((i + 3 * k + Seed) % Len(TFSOSeq)) + 1]
      run == RunSeq[((i + k + Seed) % Len(RunSeq)) + 1]
  IN [opt |-> "tfso",
      cfg |-> [so |-> c[1], bs |-> c[2], sk_rank |-> c[3], add_ggt |-> c[4], ekfac |-> c[5],
               lin_tail |-> FALSE, PF |-> c[6], SF |-> c[7], decay_8 |-> c[8],
               graft |-> "NONE", graft_decay_8 |-> 0, graft_eps_neg |-> FALSE, min_factor |-> 128,
               clip_8 |-> 8, param_scale |-> FALSE, skip_rank1 |-> FALSE, skip_dim_gt |-> 4096,
               merge_dims |-> 1024, mom_8 |-> 0, ema |-> FALSE, nesterov |-> FALSE, wd_8 |-> 0,
               wd_after |-> TRUE, Start |-> 0, sched |-> "none",
               T |-> run[1], exec |-> run[2], row |-> <<i, k>>],
      tree |-> TreeOf(ShapeSeq[i], 0)]

SmallRows == IF X64 THEN {r \in (1..Len(ShapeSeq)) \X {0} : TRUE}
             ELSE (1..Len(ShapeSeq)) \X (IF Tier = "quick" THEN 0..1 ELSE 0..10)

\* the rows into which invalid values are injected
BadRows(q, i) == {<<(5 * i + Seed) % q, (3 * i + 1) % q>>, <<(7 * i + 2) % q, (i + Seed) % q>>,
                  <<(i * i + 3) % q, (11 * i + 5 + Seed) % q>>}

GenCases ==
  {DSCaseOf(r[1], r[2], "none") : r \in Rows(QDS)} \cup {TFCaseOf(r[1], r[2], "none") : r \in Rows(QTF)}
  \cup {SM3CaseOf(r[1], r[2]) : r \in SmallRows} \cup {TFSOCaseOf(r[1], r[2]) : r \in SmallRows}
  \cup (IF X64 THEN {}
        ELSE UNION {{DSCaseOf(r[1], r[2], DSBad[i]) : r \in BadRows(QDS, i)} : i \in 1..Len(DSBad)}
             \cup UNION {{TFCaseOf(r[1], r[2], TFBad[i]) : r \in BadRows(QTF, i)} : i \in 1..Len(TFBad)})

GEN_Slices ==
  LET cs == SetToSeq(GenCases)
  IN [i \in 1..Len(cs) |-> [opt |-> cs[i].opt, cfgs |-> {cs[i].cfg}, trees |-> {cs[i].tree}]]

Emit ==
  phase \in {"rejected", "inited"} =>
    PrintT("@@GEN " \o ToJson(
      [opt |-> case.opt, cfg |-> case.cfg, tree |-> case.tree,
       rejects |-> reason, layout |-> layout,
       lobpcg_small |-> case.opt = "ds" /\ reason = "none" /\ DSLobpcgTooSmall(case.cfg, case.tree),
       zero_stat |-> case.opt = "ds" /\ DSZeroStatUnskipped(case.cfg, case.tree),
       zero_len_metrics |-> case.opt = "ds" /\ DSZeroLenMetrics(case.cfg, case.tree),
       drift |-> KnownDtypeDrift(case)]))
=============================================================================
