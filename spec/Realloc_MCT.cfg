SPECIFICATION Spec
CONSTANTS
  MaxN = 4
  Scores <- MCT_Scores
  Dims <- MCT_Dims
  Bases <- MCT_Bases
  ExactInputs = FALSE
INVARIANT TypeOK
INVARIANT NoAssert
INVARIANT RankRange
INVARIANT RankBudget
INVARIANT ResNonNeg
INVARIANT Conserve
INVARIANT TotRemaining
INVARIANT LeftConserve
INVARIANT SortedOK
CHECK_DEADLOCK FALSE
