---- MODULE TFTerms_Gen ----
EXTENDS TFTerms, Json
VARIABLE hist
gvars == <<vars, hist>>
Half == <<1, 1>>
GEN_Cfgs == [graft : {"NONE", "SGD", "RMSPROP", "ADAFACTOR"}, start : {0, 2}, skipped : BOOLEAN,
            ema : BOOLEAN, nest : BOOLEAN, md : {D0, Half}, wd : {D0, <<1, 3>>}, wdafter : BOOLEAN,
            lr : {<<1, 2>>}, lrs : {"const", "lin8"}, SF : {1, 2}, PF : {1, 2, 3},
            b2 : {D1, Half}, gd : {D1, <<3, 2>>}]
UpdJ(u) == [S |-> [s \in Steps |-> u[<<"S", s>>]], F |-> [s \in Steps |-> u[<<"F", s>>]], X |-> u[<<"X">>]]
Obs == [upd |-> UpdJ(upd'), stat |-> stat', root |-> root', gacc |-> sdef'[count'].gacc,
        pre |-> sdef'[count'].pre, lr |-> Lr(cfg, lrcount)]
GInit == Init /\ hist = <<>>
GNext == Step /\ hist' = Append(hist, Obs)
GSpec == GInit /\ [][GNext]_gvars
Emit == count = T => PrintT("@@GEN " \o ToJson([cfg |-> cfg, steps |-> hist]))
====
