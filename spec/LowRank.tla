---- MODULE LowRank ----
(***************************************************************************)
(* The low-rank ("compressed") preconditioner representation of            *)
(* precondition/distributed_shampoo.py, three small machines in one module: *)
(*                                                                         *)
(*  part = "pack"   _fd_low_rank_pack / _fd_low_rank_unpack (and the        *)
(*                  _low_rank_* wrappers): the d x (r+2) packed matrix as a *)
(*                  set of CELLS with named fields; one action per          *)
(*                  `.at[...].set(...)` statement, in source order, then    *)
(*                  Unpack.                                                 *)
(*  part = "root"   _low_rank_root: which eigen-directions of the           *)
(*                  statistics are retained and which are averaged into     *)
(*                  `const`; one action per array transformation            *)
(*                  (eigh, mask padding, roll / flip, split, average).      *)
(*  part = "apply"  Preconditioner._precondition_block: which tensor axis   *)
(*                  meets which preconditioner, for gradient rank 1..3 and  *)
(*                  the three preconditioner types; one action per loop     *)
(*                  iteration.                                              *)
(*                                                                         *)
(* Values are opaque: packed entries are distinct TOKENS, eigen-directions  *)
(* are identified by their position in the ascending spectrum (direction i  *)
(* carries the i-th smallest eigenvalue of the masked, regularised          *)
(* statistics), inverse roots are never evaluated.  What TLC proves is the  *)
(* index bookkeeping; the harness (harness/props/c10.py) replays every      *)
(* exported case on the real functions with distinct-valued arrays and      *)
(* prescribed spectra.                                                      *)
(*                                                                         *)
(* Cells are 0-based <<row, column>> like the Python source; r = |rank|.    *)
(***************************************************************************)
EXTENDS Integers, Sequences, FiniteSets, TLC

CONSTANTS
  PackCfgs,    \* records [d, r]           with r >= 1 and r + 2 < d
  RootCfgs,    \* records [d, rank, ps]    rank # 0 signed, ps = padding_start,
               \*                          |rank| + 2 < ps <= d (`_should_compress`)
  ApplyCfgs    \* records [shape, ptype, r] shape = sequence of 1..3 dims,
               \*                          ptype in {"ALL", "INPUT", "OUTPUT"}, r = |rank|

Abs(x) == IF x < 0 THEN -x ELSE x

\* ---- _precond_dim / _should_compress -----------------------------------------------
PrecondDim(rank, dim) == IF rank = 0 \/ Abs(rank) + 2 >= dim THEN dim ELSE Abs(rank) + 2
ShouldCompress(rank, dim) == rank # 0 /\ Abs(rank) + 2 < dim

\* ---- the slot map ----------------------------------------------------------------------
\* column r is "-2", column r+1 is "-1"
Rows(d) == 0..(d - 1)
CellsOf(f, d, r) ==
  CASE f = "eigvecs"  -> {<<i, j>> : i \in Rows(d), j \in 0..(r - 1)}     \* [:, :r]
    [] f = "inv"      -> {<<i, r>> : i \in 0..(r - 1)}                      \* [:r, -2]
    [] f = "const"    -> {<<0, r + 1>>}                                     \* [0, -1]
    [] f = "tail"     -> {<<1, r + 1>>}                                     \* [1, -1]
    [] f = "eigvals"  -> {<<d - r + i, r + 1>> : i \in 0..(r - 1)}          \* [-r:, -1]
    [] f = "has_zeros"-> {<<d - 1, r>>}                                     \* [-1, -2]
Fields == {"eigvecs", "inv", "const", "tail", "eigvals", "has_zeros"}
\* the fields in the order in which _fd_low_rank_pack writes them
WriteOrder == <<"eigvecs", "inv", "const", "tail", "eigvals", "has_zeros">>
AllCells(d, r) == {<<i, j>> : i \in Rows(d), j \in 0..(r + 1)}
\* index of a cell inside its field (row-major), so that tokens are distinct
Token(f, cell, d, r) ==
  CASE f = "eigvecs" -> <<f, cell[1], cell[2]>>
    [] f = "inv"     -> <<f, cell[1]>>
    [] f = "eigvals" -> <<f, cell[1] - (d - r)>>
    [] OTHER         -> <<f, 0>>

VARIABLES part, cfg, pc, mat, got, order, zeroed, keep, avg, divisor, axes, j, met, ok
vars == <<part, cfg, pc, mat, got, order, zeroed, keep, avg, divisor, axes, j, met, ok>>

Idle == /\ mat = <<>> /\ got = <<>> /\ order = <<>> /\ zeroed = {} /\ keep = {} /\ avg = {}
        /\ divisor = 0 /\ axes = <<>> /\ j = 0 /\ met = {} /\ ok = TRUE

\* =========================================================================================
\* part "pack"
\* =========================================================================================
PackInit == /\ part = "pack" /\ cfg \in PackCfgs /\ pc = 0 /\ Idle

\* `precond = jnp.zeros((d, rank + 2))`, then one `.at[cells].set(field)` per step
PackStep ==
  /\ part = "pack" /\ pc < Len(WriteOrder) + 1
  /\ IF pc = 0
     THEN mat' = [c \in AllCells(cfg.d, cfg.r) |-> <<"zero", 0>>]
     ELSE LET f == WriteOrder[pc]
          IN mat' = [c \in AllCells(cfg.d, cfg.r) |->
                      IF c \in CellsOf(f, cfg.d, cfg.r) THEN Token(f, c, cfg.d, cfg.r) ELSE mat[c]]
  /\ pc' = pc + 1
  /\ UNCHANGED <<part, cfg, got, order, zeroed, keep, avg, divisor, axes, j, met, ok>>

\* _fd_low_rank_unpack: read every field from its slice
Unpack ==
  /\ part = "pack" /\ pc = Len(WriteOrder) + 1
  /\ got' = [f \in Fields |-> [c \in CellsOf(f, cfg.d, cfg.r) |-> mat[c]]]
  /\ pc' = pc + 1
  /\ UNCHANGED <<part, cfg, mat, order, zeroed, keep, avg, divisor, axes, j, met, ok>>

PackDone == part = "pack" /\ pc = Len(WriteOrder) + 2

\* -- properties of the slot map (checked for every configuration, not only at the end)
SlotsInBounds ==
  part = "pack" => \A f \in Fields : CellsOf(f, cfg.d, cfg.r) \subseteq AllCells(cfg.d, cfg.r)
SlotsDisjoint ==
  part = "pack" => \A f, g \in Fields :
                     f # g => CellsOf(f, cfg.d, cfg.r) \cap CellsOf(g, cfg.d, cfg.r) = {}
SlotSizes ==
  part = "pack" => /\ Cardinality(CellsOf("eigvecs", cfg.d, cfg.r)) = cfg.d * cfg.r
                   /\ Cardinality(CellsOf("inv", cfg.d, cfg.r)) = cfg.r
                   /\ Cardinality(CellsOf("eigvals", cfg.d, cfg.r)) = cfg.r
\* unpack(pack(fields)) = fields
RoundTrip ==
  PackDone => \A f \in Fields : \A c \in CellsOf(f, cfg.d, cfg.r) :
                got[f][c] = Token(f, c, cfg.d, cfg.r)
\* _precond_dim and _should_compress agree, and a compressed slot is exactly d x (r+2)
DimAgree ==
  part = "pack" => \A rank \in {cfg.r, -cfg.r, 0} : \A dim \in 1..(cfg.d + 3) :
                     /\ ShouldCompress(rank, dim) <=> PrecondDim(rank, dim) < dim
                     /\ ShouldCompress(rank, dim) => PrecondDim(rank, dim) = cfg.r + 2
                     /\ PrecondDim(rank, dim) <= dim

\* -- the storage cycle of a Distributed Shampoo run in replicated / pmap mode ------------
\* The root routines run on statistics padded to max_size = d rows and return a d x (r+2)
\* packed matrix; the optimizer stores `p[:dReal, :]` for a statistic of true size dReal and
\* pads it back with zero rows before the next call (pad_and_maybe_zero_preconditioners).
\* A field survives the cycle iff its cells in the d-row layout are its cells in the
\* dReal-row layout.  Fields anchored at the top survive; the two fields anchored at the
\* BOTTOM (used only by frequent directions) do not: known finding
\* C09 ds|fd|mixed_sizes|sketch_lost_by_truncation.  (eigvecs: rows >= dReal are zero by
\* construction, so only the first dReal rows matter.)
Survives(f, d, dReal, r) ==
  IF f = "eigvecs" THEN CellsOf(f, dReal, r) \subseteq CellsOf(f, d, r)
  ELSE CellsOf(f, d, r) = CellsOf(f, dReal, r)
CycleLoss ==
  part = "pack" => \A dReal \in (cfg.r + 3)..cfg.d :
     {f \in Fields : ~Survives(f, cfg.d, dReal, cfg.r)}
       = (IF dReal < cfg.d THEN {"eigvals", "has_zeros"} ELSE {})

\* =========================================================================================
\* part "root"   (_low_rank_root)
\* =========================================================================================
\* Direction ids = positions in the ascending output of eigh on the masked, regularised
\* statistics: ids 1..(d - ps) are the padding dimensions (eigenvalue exactly 0 before the
\* mask re-zeroes them), id d - ps + i is the i-th smallest eigenvalue of the real block.
R == Abs(cfg.rank)
RootInit == /\ part = "root" /\ cfg \in RootCfgs /\ pc = 0 /\ Idle

RootStep ==
  /\ part = "root" /\ pc < 5
  /\ CASE pc = 0 ->      \* e, u = jnp.linalg.eigh(regularized_input)  (ascending)
            /\ order' = [i \in 1..cfg.d |-> i]
            /\ UNCHANGED <<zeroed, keep, avg, divisor>>
       [] pc = 1 ->      \* e *= jnp.flip(ix): the first d - ps entries are padding
            /\ zeroed' = {order[i] : i \in 1..(cfg.d - cfg.ps)}
            /\ UNCHANGED <<order, keep, avg, divisor>>
       [] pc = 2 ->      \* negative rank: roll by -(d - ps); positive rank: flip
            /\ order' = IF cfg.rank < 0
                        THEN [i \in 1..cfg.d |-> order[((i - 1 + (cfg.d - cfg.ps)) % cfg.d) + 1]]
                        ELSE [i \in 1..cfg.d |-> order[cfg.d + 1 - i]]
            /\ UNCHANGED <<zeroed, keep, avg, divisor>>
       [] pc = 3 ->      \* keep_e, to_avg_e = inv_e[:split_ix], inv_e[split_ix:]
            /\ keep' = {order[i] : i \in 1..R}
            /\ avg' = {order[i] : i \in (R + 1)..cfg.d}
            /\ UNCHANGED <<order, zeroed, divisor>>
       [] pc = 4 ->      \* const = sum(to_avg_e) / where(n > 0, n, 1), n = real_dim - |rank|
            /\ divisor' = IF cfg.ps - R > 0 THEN cfg.ps - R ELSE 1
            /\ UNCHANGED <<order, zeroed, keep, avg>>
  /\ pc' = pc + 1
  /\ UNCHANGED <<part, cfg, mat, got, axes, j, met, ok>>

RootDone == part = "root" /\ pc = 5
Unpadded == (cfg.d - cfg.ps + 1)..cfg.d
\* positive rank retains the |rank| LARGEST eigenvalues' directions, negative rank the |rank|
\* SMALLEST eigenvalues of the real (unpadded) block
Selection ==
  RootDone => keep = (IF cfg.rank > 0 THEN (cfg.d - R + 1)..cfg.d
                      ELSE (cfg.d - cfg.ps + 1)..(cfg.d - cfg.ps + R))
\* the retained set and the set that effectively enters the mean partition the real dims
\* (padding entries are in `avg` but contribute exactly 0 to the sum)
Partition ==
  RootDone => /\ keep \subseteq Unpadded
              /\ keep \cap (avg \ zeroed) = {}
              /\ keep \cup (avg \ zeroed) = Unpadded
              /\ zeroed \cap Unpadded = {}
\* the mean is taken over exactly the real, non-retained directions
Divisor == RootDone => divisor = Cardinality(avg \ zeroed)

\* =========================================================================================
\* part "apply"   (Preconditioner._precondition_block)
\* =========================================================================================
Rank == Len(cfg.shape)
\* should_precondition_dims()
Should == [a \in 1..Rank |->
            IF cfg.ptype = "ALL" \/ Rank <= 1 THEN TRUE
            ELSE IF cfg.ptype = "INPUT" THEN a < Rank ELSE a = Rank]
PrecDims == {a \in 1..Rank : Should[a]}
\* the flat list of this block's preconditioners: one per preconditioned axis, in axis order
\* (updated_statistics_from_grad: `for axis in preconditioned_dims`); entry = the axis whose
\* statistics it was computed from
Flat == LET F[a \in 0..Rank] == IF a = 0 THEN <<>> ELSE IF Should[a] THEN Append(F[a - 1], a) ELSE F[a - 1]
        IN F[Rank]
\* _preconds_for_grad: pad with None (0) so that the list is indexed by the loop variable
ForGrad == IF cfg.ptype = "INPUT" /\ Rank > 1 THEN Flat \o <<0>>
           ELSE IF cfg.ptype = "OUTPUT" THEN [a \in 1..(Rank - 1) |-> 0] \o Flat
           ELSE Flat
ApplyInit == /\ part = "apply" /\ cfg \in ApplyCfgs /\ pc = 0 /\ mat = <<>> /\ got = <<>>
             /\ order = <<>> /\ zeroed = {} /\ keep = {} /\ avg = {} /\ divisor = 0
             /\ axes = [a \in 1..Len(cfg.shape) |-> a]    \* labels of the original axes
             /\ j = 1 /\ met = {} /\ ok = (Len(ForGrad) = Rank)

\* one iteration of `for j, should_precondition in enumerate(should_precondition_dim)`
ApplyStep ==
  /\ part = "apply" /\ j <= Rank
  /\ LET first == Head(axes)                      \* the axis at position 0 of g
         rolled == Tail(axes) \o <<first>>        \* jnp.transpose(g, axes=roll)
     IN IF ~Should[j]
        THEN /\ axes' = rolled /\ UNCHANGED <<met, ok>>
        ELSE LET p == ForGrad[j]                   \* statistics axis of preconditioners[j]
                 dim == IF p = 0 THEN 0 ELSE cfg.shape[p]   \* its number of rows (None: no rows)
                 compress == PrecondDim(cfg.r, dim) # dim
             IN \* tensordot(g, eigvecs or P, axes=[[0],[0]]) contracts position 0; the result
                \* axis is appended LAST (either directly, or through lowrank_basis ->
                \* tensordot(..., axes=[[rank-1],[1]])), i.e. the layout of `rolled`
                /\ axes' = rolled
                /\ met' = met \cup {[axis |-> first, prec |-> p, kind |-> IF compress THEN "lowrank" ELSE "full"]}
                /\ ok' = (ok /\ p # 0 /\ cfg.shape[first] = dim)
  /\ j' = j + 1
  /\ UNCHANGED <<part, cfg, pc, mat, got, order, zeroed, keep, avg, divisor>>

ApplyDone == part = "apply" /\ j = Rank + 1
\* loop invariant of the source: "the dimension to be preconditioned is first; we keep all
\* axes in the same cyclic order they were originally"
LoopInv ==
  part = "apply" /\ j <= Rank =>
    axes = [a \in 1..Rank |-> ((j - 1 + a - 1) % Rank) + 1]
\* every preconditioned axis meets the preconditioner computed from ITS statistics, once;
\* the other axes meet none; shapes agree; the axes end in their original order
AxisMeets ==
  ApplyDone => /\ ok
               /\ axes = [a \in 1..Rank |-> a]
               /\ {m.axis : m \in met} = PrecDims
               /\ \A m \in met : m.prec = m.axis
               /\ Cardinality(met) = Cardinality(PrecDims)
\* compressed application is used exactly where the stored slot is compressed
CompressedWhere ==
  ApplyDone => \A m \in met : (m.kind = "lowrank") <=> ShouldCompress(cfg.r, cfg.shape[m.axis])

Init == PackInit \/ RootInit \/ ApplyInit
Next == PackStep \/ Unpack \/ RootStep \/ ApplyStep
Spec == Init /\ [][Next]_vars
====
