SPECIFICATION GSpec
CONSTANTS
  Cfgs <- SIM_Cfgs
  GradsOf <- SIM_GradsOf
  T = 6
INVARIANT Emit
CHECK_DEADLOCK FALSE
