------------------------------- MODULE DSDoc -------------------------------
(***************************************************************************)
(* Distributed Shampoo as its documentation defines it: non-recursive      *)
(* closed forms, as functions of the configuration c and the number t of   *)
(* updates applied so far.  Gradient s (s = 1, 2, ...) is the one fed when *)
(* count = s - 1.  All quantities are linear combinations, with exact      *)
(* dyadic coefficients, of opaque symbols; the numeric interpretation of a *)
(* symbol is the harness's business, TLC proves the algebra for all        *)
(* gradient values at once.                                                *)
(*                                                                         *)
(*   statistics (per block and axis):                                      *)
(*      L_t = b2^n(t) * eps*I + sum_{s refreshed <= t} w2 * b2^m(s,t) Gram_s *)
(*      n(t) = #statistics refreshes among steps 1..t, m(s,t) among s+1..t,  *)
(*      w2 = 1 - b2 (b2 < 1) or 1 (b2 = 1); a step s refreshes iff          *)
(*      (s-1) mod S = 0                                                     *)
(*   preconditioners: inverse p-th roots (p = 2 * #preconditioned axes, or  *)
(*      the override) of the statistics as of the last step s with          *)
(*      (s-1) mod P = 0; in sharded mode the update of step s uses the       *)
(*      roots stored BEFORE step s                                           *)
(*   pre-momentum update U_s: Apply(roots, G_s) rescaled to the norm of the  *)
(*      graft step (not rescaled for graft NONE; the graft step itself for   *)
(*      a parameter excluded from preconditioning)                           *)
(*   momentum M_t = b1 M_{t-1} + w (U_t + wd X)  (coupled weight decay),     *)
(*      w = 1 - b1 for moving average else 1; Nesterov: w (U_t + wd X) + b1 M_t *)
(*   decoupled weight decay is added after momentum, learning rate last      *)
(*      (decoupled) or folded into U (coupled), evaluated at count.          *)
(***************************************************************************)
EXTENDS Integers, Sequences, FiniteSets, Dyadic

W2(c) == IF c.b2 = D1 THEN D1 ELSE DSub(D1, c.b2)
W(c)  == IF c.mavg THEN DSub(D1, c.b1) ELSE D1

\* learning rate at count n (dyadic); "lin8": lr0 * (1 - min(n,8)/16)
Lr(c, n) == IF c.lrs = "const" THEN c.lr
            ELSE DMul(c.lr, <<16 - (IF n < 8 THEN n ELSE 8), 4>>)
\* multiplier folded into the pre-momentum update / applied at the end
PM(c, n) == IF c.dlr THEN D1 ELSE Lr(c, n)
MM(c, n) == IF c.dlr THEN Lr(c, n) ELSE D1

StatRefresh(c, s) == (s - 1) % c.S = 0
Refreshes(c, lo, hi) == Cardinality({j \in lo..hi : StatRefresh(c, j)})

\* coefficient vector of the statistics after t updates: index 0 = eps*I, k = Gram of step k
DocStat(c, t, Steps) ==
  [k \in Steps \cup {0} |->
     IF k = 0 THEN DPow(c.b2, Refreshes(c, 1, t))
     ELSE IF k <= t /\ StatRefresh(c, k) THEN DMul(W2(c), DPow(c.b2, Refreshes(c, k + 1, t)))
     ELSE D0]

\* last step <= t at which the roots were recomputed (t >= 1)
LastRootStep(c, t) == ((t - 1) \div c.P) * c.P + 1
\* the identity installed by init is represented by the all-zero coefficient vector
\* (a real statistics vector always has a positive eps*I coefficient)
IdRoot(Steps) == [k \in Steps \cup {0} |-> D0]
DocRoot(c, t, Steps) == IF t = 0 THEN IdRoot(Steps) ELSE DocStat(c, LastRootStep(c, t), Steps)
\* roots applied to the gradient of step s
DocUsedRoot(c, s, Steps) == IF c.shard THEN DocRoot(c, s - 1, Steps) ELSE DocRoot(c, s, Steps)

\* grafting accumulator after step s: coefficients of Sq(g_k) (normalised squares for the
\* *_NORMALIZED variants); updated on EVERY step, independently of the statistics interval
DocGacc(c, s, Steps) ==
  [k \in Steps |->
     IF k > s THEN D0
     ELSE IF c.graft \in {"ADAGRAD", "ADAGRAD_NORMALIZED"} THEN D1
     ELSE IF c.graft \in {"RMSPROP", "RMSPROP_NORMALIZED"} THEN DMul(W2(c), DPow(c.b2, s - k))
     ELSE D0]

\* coefficient with which the symbol of step s enters its own "update with weight decay"
CoefS(c, s) == PM(c, s - 1)      \* Scale(..)/Apply(..)/graft symbol, times the coupled rate
CoefF(c, s) == PM(c, s - 1)

RECURSIVE Geo(_, _)
Geo(b, n) == IF n = 0 THEN D0 ELSE DAdd(DPow(b, n - 1), Geo(b, n - 1))

\* momentum buffers after t updates
DocMomS(c, t, s) == IF s <= t THEN DMul(DMul(W(c), DPow(c.b1, t - s)), CoefS(c, s)) ELSE D0
DocMomF(c, t, s) == IF s <= t THEN DMul(DMul(W(c), DPow(c.b1, t - s)), CoefF(c, s)) ELSE D0
DocMomX(c, t) == IF c.wd # D0 /\ ~c.dwd THEN DMul(DMul(W(c), c.wd), Geo(c.b1, t)) ELSE D0

\* the update emitted by step t (count = t - 1 when it is computed), as coefficients:
\*   kind = "S" (preconditioned) from start on, "F" (graft) before
DocRun(c, t) == t - 1 >= c.start
\* coefficient of the symbol of step s (of the active kind) in the emitted update of step t
DocUpdCoef(c, t, s) ==
  LET mom == IF DocRun(c, t) THEN DocMomS(c, t, s) ELSE DocMomF(c, t, s)
      cur == IF s = t THEN DMul(W(c), IF DocRun(c, t) THEN CoefS(c, t) ELSE CoefF(c, t)) ELSE D0
      nes == IF c.nest THEN DAdd(cur, DMul(c.b1, mom)) ELSE mom
  IN DNeg(DMul(MM(c, t - 1), nes))
DocUpdX(c, t) ==
  LET coupled == IF c.wd # D0 /\ ~c.dwd THEN c.wd ELSE D0
      mom == DocMomX(c, t)
      nes == IF c.nest THEN DAdd(DMul(W(c), coupled), DMul(c.b1, mom)) ELSE mom
      dec == IF c.wd # D0 /\ c.dwd THEN DMul(IF c.dlr THEN D1 ELSE Lr(c, t - 1), c.wd) ELSE D0
  IN DNeg(DMul(MM(c, t - 1), DAdd(nes, dec)))
=============================================================================
