---- MODULE DSControl_Trace ----
(* Trace validation (code -> spec) for DSControl.                                 *)
(* A trace is the life of ONE statistics matrix inside one optimizer run:          *)
(*   {cfg:{S,P,Start,sched,End,mode,thr}, events:[{cb,ca,g,sc,pc,mc,err,finp,finu}]} *)
(*   cb/ca  count before/after the update                                          *)
(*   g      gradient class fed at this step                                        *)
(*   sc/pc/mc  bytewise change bits of the statistic / stored root / metrics row    *)
(*   err    class of training_metrics.inverse_pth_root_errors after the update      *)
(*          relative to the configured threshold ("unknown" if metrics are off)     *)
(*   finp   stored root finite;  finu  emitted update finite                        *)
(* Every event is explained by DSControl!Update with the logged environment        *)
(* choices, after a named list of clauses (Verdict) has been evaluated; the first   *)
(* failing clause is the verdict of the trace.  All of DSControl's invariants are   *)
(* additionally evaluated by TLC on every state of every accepted prefix.           *)
EXTENDS DSControl, Json, IOUtils
Traces == JsonDeserialize(IOEnv.TRACE_FILE)
BigT == 1000000
VARIABLES tid, l, bad
tvars == <<vars, tid, l, bad>>
Ev == Traces[tid].events

ErrOf(e) == IF e.err = "unknown" THEN (IF e.pc THEN "below" ELSE "atabove") ELSE e.err

Verdict(e) ==
  IF e.cb # count THEN "count_before_mismatch"
  ELSE IF e.ca # count + 1 THEN "count_not_incremented_by_one"
  ELSE IF e.sc /\ ~RefreshS(cfg, count) THEN "statistics_changed_off_cadence"
  ELSE IF e.pc /\ ~RefreshP(cfg, count) THEN "preconditioner_changed_off_cadence"
  ELSE IF e.mc /\ ~RefreshP(cfg, count) THEN "metrics_changed_off_cadence"
  ELSE IF e.pc /\ ~Accept(ErrOf(e)) THEN "preconditioner_replaced_without_accepted_error"
  ELSE IF e.pc /\ cfg.thr = "zero" THEN "preconditioner_replaced_with_zero_threshold"
  ELSE IF ~e.finp THEN "stored_preconditioner_not_finite"
  ELSE IF moderate /\ e.g \in ModerateClasses /\ ~e.finu THEN "moderate_history_update_not_finite"
  ELSE IF cfg.thr = "zero" /\ ErrOf(e) = "below" THEN "error_below_zero_threshold"
  ELSE "ok"

TraceInit == /\ tid \in 1..Len(Traces) /\ l = 1 /\ bad = "ok"
             /\ cfg = Traces[tid].cfg /\ InitRest

TraceStep ==
  /\ l <= Len(Ev) /\ bad = "ok"
  /\ LET e == Ev[l]
         v == Verdict(e)
     IN IF v = "ok"
        THEN /\ Update(e.g, ErrOf(e), e.finp, e.finu)
             /\ l' = l + 1 /\ bad' = "ok"
        ELSE /\ bad' = v /\ UNCHANGED <<vars, l>>
  /\ UNCHANGED tid

TraceSpec == TraceInit /\ [][TraceStep]_tvars

Finished == (l = Len(Ev) + 1) \/ bad # "ok"
EmitVerdict == Finished => PrintT("@@V " \o ToJson([tid |-> tid, l |-> l, verdict |-> bad]))
\* If the logged environment choices violate a kernel contract the Update action is
\* disabled and the trace stalls with bad = "ok" before its end: report that too.
Stalled == l <= Len(Ev) /\ bad = "ok" /\ ~ENABLED TraceStep
EmitStall == Stalled => PrintT("@@V " \o ToJson([tid |-> tid, l |-> l, verdict |-> "stalled_env_contract"]))
====
