---- MODULE Devices_Gen ----
(* Behaviour export for replay into the real code (spec -> code).                  *)
(* The final state of a behaviour of Devices.tla does not depend on the order in    *)
(* which the replicas ran (that is the property), so one line per configuration is  *)
(* printed when pc = "end": the collected statistics table, the three padded lists, *)
(* the rows every replica must receive, the flat order unbatch must produce, and     *)
(* the roots every parameter must end up with.                                      *)
(*   GEN_Idx    all (N, D), N = 1..30, D = 1..8: index maps for the real             *)
(*              batch/unbatch and the sharded leading dimension                      *)
(*   GEN_Run    parameter trees for real multi-device optimizer runs (quick):        *)
(*              N covers every residue modulo every D <= 4 and both N <= D (b = 1)   *)
(*              and N > D                                                            *)
(*   GEN_RunT   the same for D <= 8 (thorough)                                       *)
EXTENDS Devices_MC, Json

Ids(row) == [j \in DOMAIN row |-> row[j].root.id]
Emit == pc = "end" =>
  PrintT("@@GEN " \o ToJson(
    [cfg |-> cfg, N |-> N, sizes |-> col.sizes, exps |-> col.exps, counts |-> col.counts,
     starts |-> col.starts, maxsize |-> col.maxsize, pad |-> Len(packS) - N,
     packS |-> packS, packE |-> packE, packP |-> packP,
     rowsS |-> rowsS, rowsE |-> rowsE, rowsP |-> rowsP,
     flat |-> Ids(flat),
     per |-> [k \in DOMAIN perParam |-> [j \in DOMAIN perParam[k] |-> perParam[k][j].root]]]))

GEN_Idx  == CfgsFor(1..30, 1..8, {"pmap"}, {0}, {"exact"}, Alphabet)
            \cup CfgsFor(0..30, 1..8, {"shard"}, {0}, {"exact"}, Alphabet)
RunN     == {1, 3, 6, 8, 11}
RunNT    == (1..17) \cup {20, 23, 27, 30}
GEN_Run  == CfgsFor(RunN, 1..4, {"pmap"}, {0, 2}, {"exact"}, Alphabet)
            \cup CfgsFor(RunN \cup {0}, 1..4, {"shard"}, {0}, {"exact"}, Alphabet)
GEN_RunT == CfgsFor(RunNT, {1, 2, 3, 4, 5, 8}, {"pmap"}, {0, 2}, {"exact"}, Alphabet)
            \cup CfgsFor(RunNT \cup {0}, {1, 2, 3, 4, 5, 8}, {"shard"}, {0, 2}, {"exact"}, Alphabet)
====
