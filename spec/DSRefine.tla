------------------------------ MODULE DSRefine ------------------------------
(***************************************************************************)
(* The two views of Distributed Shampoo kept by this specification - the   *)
(* control skeleton DSControl (provenance: WHICH steps were absorbed /     *)
(* reflected) and the term machine DSTerms (coefficients: WITH WHAT WEIGHT)*)
(* - are run in lockstep on the same configuration with a benign           *)
(* environment (every root accepted), and TLC checks that they tell the    *)
(* same story:                                                             *)
(*   support(statistics coefficients) = provenance of the statistics       *)
(*   stored root is the identity in both or in neither, and the root's     *)
(*   coefficient support = provenance of the stored root                   *)
(*   the root used for the update (fresh / one step stale when sharded)    *)
(*   agrees, and so does the warm-up decision.                             *)
(* This makes DSControl + DSTerms one specification rather than two.       *)
(***************************************************************************)
EXTENDS Integers, Sequences, FiniteSets, TLC, Dyadic

CONSTANTS TCfgs, T

VARIABLES \* DSTerms
          cfg, count, stat, root, gacc, mom, dmom, upd, sdef,
          \* DSControl
          ccfg, ccount, statsProv, stored, metricsAt, err, used, kind, finStored, finUpd, moderate

TM == INSTANCE DSTerms WITH Cfgs <- TCfgs
CT == INSTANCE DSControl WITH Cfgs <- {}, GradClasses <- {"ok"}, ErrClasses <- {"below", "atabove"},
                              cfg <- ccfg, count <- ccount

tvars == <<cfg, count, stat, root, gacc, mom, dmom, upd, sdef>>
cvars == <<ccfg, ccount, statsProv, stored, metricsAt, err, used, kind, finStored, finUpd, moderate>>

\* the control configuration induced by a term configuration
Ctl(c) == [S |-> c.S, P |-> c.P, Start |-> c.start, sched |-> "none", End |-> 0,
           mode |-> IF c.shard THEN "shard" ELSE "rep", thr |-> "pos"]

Init == TM!Init /\ ccfg = Ctl(cfg) /\ CT!InitRest
Next == TM!Step /\ CT!Update("ok", "below", TRUE, TRUE)
Spec == Init /\ [][Next]_<<tvars, cvars>>

Range(s) == {s[i] : i \in DOMAIN s}
Support(f) == {k \in (DOMAIN f) \ {0} : f[k] # D0}
\* gradient s (1-based in DSTerms) is the one fed at count s-1 (0-based step index in DSControl)
Shift(S) == {n + 1 : n \in S}

CountsAgree == count = ccount
StatsAgree  == Support(stat) = Shift(Range(statsProv))
RootAgree   == /\ (root = TM!IdRoot(TM!Steps)) <=> (stored = CT!Identity)
               /\ (stored # CT!Identity) => Support(root) = Shift(Range(stored))
UsedAgree   == count > 0 =>
                 LET u == sdef[count].root IN
                 /\ (u = TM!IdRoot(TM!Steps)) <=> (used = CT!Identity)
                 /\ (used # CT!Identity) => Support(u) = Shift(Range(used))
WarmupAgree == count > 0 => (sdef[count].run <=> (kind = "precond"))
=============================================================================
