SPECIFICATION TraceSpec
CONSTANTS
  T <- Big
  MaxCrashes <- Big
  MaxSaves <- Big
  Cads <- One
  Impl = "state"
INVARIANT EmitVerdict
INVARIANT EmitStall
INVARIANT LiveIsRef
INVARIANT DiskIsRef
INVARIANT OutIsRef
INVARIANT Bounded
PROPERTY StepRefines
PROPERTY CrashStutter
PROPERTY SaveStutter
PROPERTY HiddenLife
CHECK_DEADLOCK FALSE
