SPECIFICATION MatSpec
CONSTANTS
  N = 32767
  MaxSet <- Small
  MaxSigns <- OneSign
  MatShapes <- MCT_Shapes
  MatVals <- MCT_Vals
INVARIANT TypeOK
INVARIANT NoWrap
INVARIANT HalfBucket
INVARIANT RoundTrip
INVARIANT ZeroExact
INVARIANT MaxHitsN
INVARIANT ZeroColumn
INVARIANT SignKept
INVARIANT RuleAllowed
INVARIANT Idempotent
INVARIANT Homogeneous
CHECK_DEADLOCK FALSE
