SPECIFICATION GSpec
CONSTANTS
  Cfgs <- GEN_Cfgs
  T = 5
INVARIANT Emit
CHECK_DEADLOCK FALSE
