---------------------------- MODULE DSControl ----------------------------
(***************************************************************************)
(* Control skeleton of Distributed Shampoo (precondition/distributed_       *)
(* shampoo.py: update_fn / sharded_update_fn), one automaton per           *)
(* statistics matrix.                                                      *)
(*                                                                         *)
(* One public call `update(grads, state, params)` is one step `Update`.    *)
(* It is composed of the code-level phases, in the order the code runs     *)
(* them:                                                                   *)
(*   replicated / pmap / pmap-quantized:                                   *)
(*       StatsPhase -> RootPhase -> GatePhase -> TransformPhase -> Inc      *)
(*   sharded (sharded_update_fn):                                          *)
(*       StatsPhase -> TransformPhase(old roots) -> RootPhase -> GatePhase  *)
(*                                                                         *)
(* Numbers never enter: a statistics matrix is represented by its          *)
(* PROVENANCE (the sequence of step indices whose gradients it absorbed),  *)
(* a stored root by the provenance of the statistics it was computed from  *)
(* (<<-1>> = the identity installed by init).  The numeric kernels are      *)
(* the environment: per step they choose a gradient class and, on a        *)
(* refresh step, the error class reported for the candidate root.          *)
(*                                                                         *)
(* Properties: C04 (cadence / warm-up / counter), C03 (acceptance gate).   *)
(***************************************************************************)
EXTENDS Integers, Sequences, FiniteSets, TLC

CONSTANTS Cfgs,          \* set of configuration records (see CfgOK)
          T,             \* horizon (number of updates explored)
          GradClasses,   \* alphabet of gradient classes fed by the environment
          ErrClasses     \* error classes a refresh may report

VARIABLES cfg,        \* the configuration of this behaviour
          count,      \* ShampooState.count
          statsProv,  \* provenance of the statistics matrix
          stored,     \* provenance of the stored preconditioner
          metricsAt,  \* step at which training_metrics were last written (-1 never)
          err,        \* error class seen by the gate in the last update
          used,       \* provenance of the preconditioner applied to the last update
          kind,       \* "graft" | "precond" | "none": what the last update was
          finStored,  \* stored preconditioner is finite
          finUpd,     \* last emitted update is finite
          moderate    \* every gradient so far was of moderate class

vars == <<cfg, count, statsProv, stored, metricsAt, err, used, kind,
          finStored, finUpd, moderate>>

Identity == <<-1>>

Max(a, b) == IF a > b THEN a ELSE b
Min(a, b) == IF a < b THEN a ELSE b

\* finite gradients of moderate magnitude: zero, or 1e-12 .. 1e12
ModerateClasses == {"ok", "zero", "big", "small"}

CfgOK(c) ==
  /\ c.S \in Nat \ {0} /\ c.P \in Nat \ {0} /\ c.Start \in Nat
  /\ c.sched \in {"none", "lin16", "half4"} /\ c.End \in Nat
  /\ c.mode \in {"rep", "pmapq", "shard"}
  /\ c.thr \in {"zero", "pos"}

(***************************************************************************)
(* preconditioning_compute_steps_schedule, in exact integer arithmetic for *)
(* the dyadic learning-rate schedules the harness uses:                    *)
(*   lin16:  lr(c) = lr0 * (1 - min(c,16)/16)                              *)
(*   half4:  lr(c) = lr0 * 2^-(c div 4)                                     *)
(* interval = max(10 * floor((P + (1 - lr(c)/lr(0)) * End) / 10), 1)       *)
(* The schedule is used only when decay is requested, End # 0 and the      *)
(* learning rate is callable; End = 0 therefore means "not scheduled".     *)
(***************************************************************************)
Scheduled(c) == c.sched # "none" /\ c.End # 0

Interval(c, n) ==
  IF ~Scheduled(c) THEN c.P
  ELSE IF c.sched = "lin16"
       THEN Max(10 * ((16 * c.P + Min(n, 16) * c.End) \div 160), 1)
       ELSE LET k == Min(n \div 4, 20)
                p2 == 2 ^ k
            IN Max(10 * ((p2 * c.P + (p2 - 1) * c.End) \div (10 * p2)), 1)

RefreshS(c, n) == n % c.S = 0
RefreshP(c, n) == n % Interval(c, n) = 0

(***************************************************************************)
(* Phases.  Each is a function of the pre-state and the environment's      *)
(* choices (g: gradient class, e: error class, cf: candidate finite,       *)
(* uf: update finite).                                                     *)
(***************************************************************************)
StatsAfter(g) == IF RefreshS(cfg, count) THEN Append(statsProv, count) ELSE statsProv

\* what the gate sees: the candidate's class on a refresh step, otherwise the
\* sentinel error := inverse_failure_threshold, i.e. class "atabove"
GateErr(e) == IF RefreshP(cfg, count) THEN e ELSE "atabove"

Accept(e) == RefreshP(cfg, count) /\ GateErr(e) = "below"

StoredAfter(g, e) == IF Accept(e) THEN StatsAfter(g) ELSE stored

\* environment constraints (kernel contracts, discharged on the real code by
\* trace validation, never assumed silently):
\*  - an error strictly below a zero threshold does not exist (errors are >= 0)
\*  - AcceptedCandidatesAreFinite: error finite and below threshold => root finite
\*  - ModerateUpdatesAreFinite: moderate history => finite update
EnvOK(g, e, cf, uf) ==
  /\ (cfg.thr = "zero" => e # "below")
  /\ (e = "below" => cf)
  /\ ((moderate /\ g \in ModerateClasses) => uf)

Update(g, e, cf, uf) ==
  /\ count < T
  /\ EnvOK(g, e, cf, uf)
  /\ statsProv' = StatsAfter(g)
  /\ err' = GateErr(e)
  /\ stored' = StoredAfter(g, e)
  /\ finStored' = IF Accept(e) THEN cf ELSE finStored
  /\ metricsAt' = IF RefreshP(cfg, count) THEN count ELSE metricsAt
  /\ used' = IF cfg.mode = "shard" THEN stored ELSE stored'
  /\ kind' = IF count >= cfg.Start THEN "precond" ELSE "graft"
  /\ moderate' = (moderate /\ g \in ModerateClasses)
  /\ finUpd' = uf
  /\ count' = count + 1
  /\ UNCHANGED cfg

InitRest ==
  /\ count = 0
  /\ statsProv = <<>>
  /\ stored = Identity
  /\ metricsAt = -1
  /\ err = "atabove"
  /\ used = Identity
  /\ kind = "none"
  /\ finStored = TRUE
  /\ finUpd = TRUE
  /\ moderate = TRUE

Init == cfg \in Cfgs /\ InitRest

Next == \E g \in GradClasses, e \in ErrClasses, cf \in BOOLEAN, uf \in BOOLEAN :
           Update(g, e, cf, uf)

Spec == Init /\ [][Next]_vars

-----------------------------------------------------------------------------
(* C04 *)
TypeOK == /\ CfgOK(cfg) /\ count \in 0..T
          /\ kind \in {"none", "graft", "precond"}
          /\ err \in ErrClasses \cup {"atabove"}

CountStep     == [][count' = count + 1]_vars
StatsCadence  == [][statsProv' # statsProv => count % cfg.S = 0]_vars
StatsAbsorb   == [][count % cfg.S = 0 => statsProv' = Append(statsProv, count)]_vars
RootCadence   == [][stored' # stored =>
                      /\ count % Interval(cfg, count) = 0
                      /\ stored' = statsProv']_vars       \* reflects the statistics current at that step
MetricsFollow == [][metricsAt' # metricsAt => count % Interval(cfg, count) = 0]_vars
IntervalPos   == \A n \in 0..T : Interval(cfg, n) >= 1
Warmup        == [][kind' = IF count >= cfg.Start THEN "precond" ELSE "graft"]_vars
Stale         == [][used' = IF cfg.mode = "shard" THEN stored ELSE stored']_vars
\* statistics provenance is exactly the multiples of S seen so far
StatsClosedForm == statsProv = [i \in 1..((count + cfg.S - 1) \div cfg.S) |-> (i - 1) * cfg.S]
\* stored root is identity or was taken from a prefix of the statistics history
StoredIsPrefix == stored = Identity \/
                  (Len(stored) <= Len(statsProv) /\ stored = SubSeq(statsProv, 1, Len(stored)))

(* C03 *)
GateSafe      == [][stored' # stored => err' = "below"]_vars
GateSelect    == [][stored' = stored \/ stored' = statsProv']_vars   \* select, never a blend
SentinelKeeps == [][count % Interval(cfg, count) # 0 => (stored' = stored /\ err' = "atabove")]_vars
ThrZeroFrozen == [][cfg.thr = "zero" => stored' = stored]_vars
StoredFinite  == finStored
ModerateFinite == moderate => finUpd
=============================================================================
