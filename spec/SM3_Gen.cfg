SPECIFICATION GSpec
CONSTANTS
  Cfgs <- GEN_Cfgs
  Sample = 0
INVARIANT Emit
CHECK_DEADLOCK FALSE
