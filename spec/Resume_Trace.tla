---- MODULE Resume_Trace ----
(* Trace validation (code -> spec) for Resume.                                              *)
(* A trace is one executed crash schedule on one real optimizer:                            *)
(*   {events: [{a, cb, ca, sref, uref, tref}]}                                              *)
(*   a      "step" | "save" | "crash"                                                       *)
(*   cb/ca  the state's step counter before / after the action                              *)
(*   sref   the serialised live state after the action equals, BYTEWISE, the serialised     *)
(*          state of the uninterrupted run at count ca            (spec: LiveIsRef)          *)
(*   uref   (step) the update equals bytewise the uninterrupted run's update for gradient    *)
(*          index cb                                              (spec: OutIsRef)           *)
(*   tref   (crash) the treedef of the restored state, static fields included, equals the    *)
(*          live one's                                                                      *)
(* Every event must be explained by the module's own action; the count after a crash must   *)
(* be the count of the spec's own `disk`.  First failing named clause = verdict.            *)
EXTENDS Resume, Json, IOUtils
Traces == JsonDeserialize(IOEnv.TRACE_FILE)
Big == 1000000
One == {[S |-> 1, P |-> 1]}
VARIABLES tid, l, bad
tvars == <<vars, tid, l, bad>>
Ev == Traces[tid].events

Verdict(e) ==
  IF e.cb # live.count THEN "count_before_mismatch"
  ELSE IF e.a = "step" THEN
         (IF e.ca # e.cb + 1 THEN "count_not_incremented_by_one"
          ELSE IF ~e.uref THEN "update_differs_from_uninterrupted"
          ELSE IF ~e.sref THEN "state_differs_from_uninterrupted"
          ELSE "ok")
  ELSE IF e.a = "save" THEN
         (IF e.ca # e.cb THEN "save_changed_count"
          ELSE IF ~e.sref THEN "save_changed_live_state"
          ELSE "ok")
  ELSE IF e.a = "crash" THEN
         (IF e.ca # disk.count THEN "restored_count_is_not_checkpoint_count"
          ELSE IF ~e.tref THEN "treedef_differs_after_restore"
          ELSE IF ~e.sref THEN "restored_state_differs_from_uninterrupted"
          ELSE "ok")
  ELSE "unknown_action"

Act(e) == IF e.a = "step" THEN Step ELSE IF e.a = "save" THEN Save ELSE CrashRestore

TraceInit == /\ tid \in 1..Len(Traces) /\ l = 1 /\ bad = "ok"
             /\ cad = [S |-> 1, P |-> 1] /\ InitRest

TraceStep ==
  /\ l <= Len(Ev) /\ bad = "ok"
  /\ LET e == Ev[l]
         v == Verdict(e)
     IN IF v = "ok"
        THEN Act(e) /\ l' = l + 1 /\ bad' = "ok"
        ELSE bad' = v /\ UNCHANGED <<vars, l>>
  /\ UNCHANGED tid

TraceSpec == TraceInit /\ [][TraceStep]_tvars
Finished == (l = Len(Ev) + 1) \/ bad # "ok"
EmitVerdict == Finished => PrintT("@@V " \o ToJson([tid |-> tid, l |-> l, verdict |-> bad]))
Stalled == l <= Len(Ev) /\ bad = "ok" /\ ~ENABLED TraceStep
EmitStall == Stalled => PrintT("@@V " \o ToJson([tid |-> tid, l |-> l, verdict |-> "stalled_action_not_enabled"]))
====
