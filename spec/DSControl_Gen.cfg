SPECIFICATION GSpec
CONSTANTS
  Cfgs <- GEN_Cfgs
  T = 10
  GradClasses = {"ok"}
  ErrClasses = {"below", "atabove", "nan", "inf"}
INVARIANT Emit
CHECK_DEADLOCK FALSE
