SPECIFICATION GSpec
CONSTANTS
  Cfgs <- GENT_Cfgs
  GradsOf <- GENT_GradsOf
  T = 3
INVARIANT Emit
CHECK_DEADLOCK FALSE
