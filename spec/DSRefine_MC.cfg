SPECIFICATION Spec
CONSTANTS
  TCfgs <- MC_TCfgs
  T = 7
INVARIANT CountsAgree
INVARIANT StatsAgree
INVARIANT RootAgree
INVARIANT UsedAgree
INVARIANT WarmupAgree
CHECK_DEADLOCK FALSE
