---- MODULE Quant_Trace ----
(* Trace validation (code -> spec) for Quant.                                          *)
(* A trace is the life of ONE tensor through                                            *)
(*     qv = QuantizedValue.from_float_value(t, dtype, extract_diagonal)                 *)
(*     f  = qv.to_float()                                                               *)
(*     qv2 = QuantizedValue.from_float_value(f, dtype, extract_diagonal)                *)
(* recorded by harness/workers/quant_trace.py on tensors  t[r][c] = x[r][c] * 2^e[c]    *)
(* (x: grid integers, |x| <= 32768; rank 1..3 flattened to Rows x Cols as in Quant).    *)
(*   {x: [[..]], ed: bool, events: [                                                    *)
(*     {a:"extract", diag:[..]}      qv.diagonal as grid integers ([] if not extracted) *)
(*     {a:"scale",   mx:[..]}        qv.bucket_size*N/2^e rounded to the grid integer    *)
(*     {a:"round",   q:[[..]]}       qv.quantized                                       *)
(*     {a:"tofloat", off:n, diagoff:n, zerooff:n}  number of entries of f that are not   *)
(*                                    within 2 ulp(max) of q*mx/N*2^e (+diag) / diagonal *)
(*                                    entries not bit-equal to t / zeros not reproduced   *)
(*     {a:"requant", q2:[[..]]}      qv2.quantized ]}                                   *)
(* Every event is explained by the corresponding action of Quant with the logged value   *)
(* bound to the action's (only) nondeterministic choice, after the named clauses of      *)
(* Verdict; all invariants of Quant are evaluated by TLC on every state of the prefix.   *)
EXTENDS Quant, Json, IOUtils
Traces == JsonDeserialize(IOEnv.TRACE_FILE)
VARIABLES tid, l, bad
tvars == <<vars, tid, l, bad>>
Ev == Traces[tid].events

ExpDiag == IF ed THEN [r \in Rows |-> x[r][r]] ELSE <<>>
ExpMax(c) == FoldSet(LAMBDA r, acc : IF Abs(off[r][c]) > acc THEN Abs(off[r][c]) ELSE acc, 0, Rows)
SameSeq(a, b) == Len(a) = Len(b) /\ \A i \in 1..Len(a) : a[i] = b[i]
ShapeOK(p) == Len(p) = Len(x) /\ \A r \in Rows : Len(p[r]) = Len(x[1])

Verdict(e) ==
  IF e.a = "extract" THEN
    IF pc # "extract" THEN "event_out_of_order"
    ELSE IF ~SameSeq(e.diag, ExpDiag) THEN "diagonal_not_stored_exactly"
    ELSE "ok"
  ELSE IF e.a = "scale" THEN
    IF pc # "scale" THEN "event_out_of_order"
    ELSE IF Len(e.mx) # Len(x[1]) THEN "bucket_shape"
    ELSE IF \E c \in Cols : e.mx[c] # ExpMax(c) THEN "bucket_is_not_column_maxabs_over_N"
    ELSE "ok"
  ELSE IF e.a = "round" THEN
    IF pc # "round" THEN "event_out_of_order"
    ELSE IF ~ShapeOK(e.q) THEN "payload_shape"
    ELSE IF \E r \in Rows, c \in Cols : e.q[r][c] < -N \/ e.q[r][c] > N THEN "payload_wraps"
    ELSE IF \E r \in Rows, c \in Cols : e.q[r][c] \notin AllowedAt(r, c) THEN "payload_not_allowed"
    \* the property itself, in integers:  |q m/N - x| 2N <= m + slack  (all products < 2^31)
    ELSE IF \E r \in Rows, c \in Cols : ~WithinHalfBucket(off[r][c], mx[c], e.q[r][c]) THEN "half_bucket_exceeded"
    ELSE "ok"
  ELSE IF e.a = "tofloat" THEN
    IF pc # "tofloat" THEN "event_out_of_order"
    ELSE IF e.diagoff > 0 THEN "diagonal_not_reproduced_exactly"
    ELSE IF e.zerooff > 0 THEN "zero_not_reproduced_exactly"
    ELSE IF e.off > 0 THEN "dequantised_value_is_not_payload_times_bucket"
    ELSE "ok"
  ELSE IF e.a = "requant" THEN
    IF pc # "requant" THEN "event_out_of_order"
    ELSE IF ~ShapeOK(e.q2) THEN "payload_shape"
    ELSE IF \E r \in Rows, c \in Cols : e.q2[r][c] # q[r][c] THEN "requantisation_drifts"
    ELSE "ok"
  ELSE "unknown_event"

TraceInit == /\ tid \in 1..Len(Traces) /\ l = 1 /\ bad = "ok"
             /\ InitWith(Traces[tid].x, Traces[tid].ed)

Act(e) == CASE e.a = "extract" -> ExtractDiagonal
            [] e.a = "scale"   -> Scale
            [] e.a = "round"   -> RoundTo(e.q)
            [] e.a = "tofloat" -> ToFloat
            [] e.a = "requant" -> RequantizeTo(e.q2)

TraceStep ==
  /\ l <= Len(Ev) /\ bad = "ok"
  /\ LET e == Ev[l]
         v == Verdict(e)
     IN IF v = "ok"
        THEN Act(e) /\ l' = l + 1 /\ bad' = "ok"
        ELSE bad' = v /\ UNCHANGED <<vars, l>>
  /\ UNCHANGED tid

TraceSpec == TraceInit /\ [][TraceStep]_tvars
Finished == (l = Len(Ev) + 1) \/ bad # "ok"
EmitVerdict == Finished => PrintT("@@V " \o ToJson([tid |-> tid, l |-> l, verdict |-> bad]))
Stalled == l <= Len(Ev) /\ bad = "ok" /\ ~ENABLED TraceStep
EmitStall == Stalled => PrintT("@@V " \o ToJson([tid |-> tid, l |-> l, verdict |-> "stalled"]))
====
