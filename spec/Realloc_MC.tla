---- MODULE Realloc_MC ----
(* Exhaustive configurations for Realloc.  The float model is the permissive one  *)
(* (ExactInputs = FALSE: a tie at every positive integer quotient), which contains *)
(* every behaviour of the exact-input model, so the budget is shown to hold         *)
(* whatever way float ties break.                                                   *)
EXTENDS Realloc
MC_Scores == 0..5
MC_Dims   == 2..6
MC_Bases  == 1..6
\* thorough: one more score value, larger dims and bases (base may exceed dim)
MCT_Scores == 0..6
MCT_Dims   == 1..8
MCT_Bases  == 1..9
====
