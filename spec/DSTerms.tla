------------------------------ MODULE DSTerms ------------------------------
(***************************************************************************)
(* Distributed Shampoo's per-parameter update as a TERM MACHINE shaped like *)
(* the implementation (distributed_shampoo.py: _compute_stats,              *)
(* _compute_preconditioners / sharded refresh, _transform_grad): buffers    *)
(* are updated recursively, one phase after the other, exactly as the code  *)
(* does.  State components are linear combinations with dyadic coefficients *)
(* of opaque symbols:                                                       *)
(*    statistics  : coefficients over {eps*I} + Gram(k)                     *)
(*    roots       : all-zero (identity) or the coefficient vector of the statistics they   *)
(*                  were computed from (provenance)                         *)
(*    graft acc.  : coefficients over Sq(k) (or normalised squares)         *)
(*    momenta, emitted update : coefficients over                           *)
(*                  S(s) = pre-momentum Shampoo update of step s            *)
(*                  F(s) = graft step of step s (learning-rate free)        *)
(*                  X    = the parameter (weight decay)                     *)
(* sdef[s] records how S(s)/F(s) are built (which roots, which accumulator, *)
(* rescaled or not, skipped or not) - the harness interprets them.          *)
(* The invariants state that this machine REFINES the documented closed     *)
(* forms of module DSDoc (C02), and the structural facts behind C05.        *)
(***************************************************************************)
EXTENDS DSDoc, TLC

CONSTANTS Cfgs, T
Steps == 1..T

VARIABLES cfg, count, stat, root, gacc, mom, dmom, upd, sdef
vars == <<cfg, count, stat, root, gacc, mom, dmom, upd, sdef>>

Sym == {<<"S", s>> : s \in Steps} \cup {<<"F", s>> : s \in Steps} \cup {<<"X">>}
Z == [y \in Sym |-> D0]
Unit(y) == [z \in Sym |-> IF z = y THEN D1 ELSE D0]
LAdd(a, b) == [y \in Sym |-> DAdd(a[y], b[y])]
LScale(k, a) == [y \in Sym |-> DMul(k, a[y])]

Init == /\ cfg \in Cfgs /\ count = 0
        /\ stat = [s \in Steps \cup {0} |-> IF s = 0 THEN D1 ELSE D0]   \* eps * I
        /\ root = IdRoot(Steps) /\ gacc = [s \in Steps |-> D0]
        /\ mom = Z /\ dmom = Z /\ upd = Z /\ sdef = <<>>

Step ==
  /\ count < T
  /\ LET s == count + 1
         c == cfg
         \* ---- _compute_stats --------------------------------------------------
         stat1 == IF count % c.S = 0
                  THEN [k \in Steps \cup {0} |-> DAdd(DMul(c.b2, stat[k]), IF k = s THEN W2(c) ELSE D0)]
                  ELSE stat
         \* ---- preconditioner refresh (accepted roots; the gate is DSControl's subject)
         root1 == IF count % c.P = 0 THEN stat1 ELSE root
         usedroot == IF c.shard THEN root ELSE root1
         \* ---- _transform_grad ------------------------------------------------------
         gacc1 == IF c.graft \in {"ADAGRAD", "ADAGRAD_NORMALIZED"}
                  THEN [k \in Steps |-> DAdd(gacc[k], IF k = s THEN D1 ELSE D0)]
                  ELSE IF c.graft \in {"RMSPROP", "RMSPROP_NORMALIZED"}
                  THEN [k \in Steps |-> DAdd(DMul(c.b2, gacc[k]), IF k = s THEN W2(c) ELSE D0)]
                  ELSE gacc
         pm  == PM(c, count)                          \* coupled rate folded into the graft step
         Fs  == LScale(pm, Unit(<<"F", s>>))
         \* Shampoo update: Scale(Apply(roots, G), |pm F|) = pm * S(s); NONE: Apply * pm;
         \* skipped parameter: the graft step itself
         Ss  == IF c.skip THEN Fs ELSE LScale(pm, Unit(<<"S", s>>))
         wdx == IF c.wd # D0 /\ ~c.dwd THEN LScale(c.wd, Unit(<<"X">>)) ELSE Z
         Swd == LAdd(Ss, wdx)
         Fwd == LAdd(Fs, wdx)
         mom1  == LAdd(LScale(c.b1, mom), LScale(W(c), Swd))
         dmom1 == LAdd(LScale(c.b1, dmom), LScale(W(c), Fwd))
         run == count >= c.start
         mu  == IF run THEN mom1 ELSE dmom1
         wu  == IF run THEN Swd ELSE Fwd
         nes == IF c.nest THEN LAdd(LScale(W(c), wu), LScale(c.b1, mu)) ELSE mu
         dw  == IF c.wd # D0 /\ c.dwd
                THEN LAdd(nes, LScale(DMul(IF c.dlr THEN D1 ELSE Lr(c, count), c.wd), Unit(<<"X">>)))
                ELSE nes
     IN /\ stat' = stat1 /\ root' = root1 /\ gacc' = gacc1
        /\ mom' = mom1 /\ dmom' = dmom1
        /\ upd' = LScale(DNeg(MM(c, count)), dw)
        /\ sdef' = Append(sdef, [root |-> usedroot, normed |-> c.graft # "NONE",
                                 gacc |-> gacc1, skip |-> c.skip, run |-> run])
        /\ count' = count + 1 /\ UNCHANGED cfg

Next == Step
Spec == Init /\ [][Next]_vars

-----------------------------------------------------------------------------
(* Refinement of the documented closed forms (C02) *)
StatOK == stat = DocStat(cfg, count, Steps)
RootOK == root = DocRoot(cfg, count, Steps)
UsedRootOK == count > 0 => sdef[count].root = DocUsedRoot(cfg, count, Steps)
GaccOK == gacc = DocGacc(cfg, count, Steps)
MomOK ==
  /\ \A s \in Steps : mom[<<"S", s>>] = (IF cfg.skip THEN D0 ELSE DocMomS(cfg, count, s))
  /\ \A s \in Steps : mom[<<"F", s>>] = (IF cfg.skip THEN DocMomF(cfg, count, s) ELSE D0)
  /\ \A s \in Steps : dmom[<<"F", s>>] = DocMomF(cfg, count, s) /\ dmom[<<"S", s>>] = D0
  /\ mom[<<"X">>] = DocMomX(cfg, count) /\ dmom[<<"X">>] = DocMomX(cfg, count)
UpdOK == count > 0 =>
  /\ \A s \in Steps :
       LET kindS == DocRun(cfg, count) /\ ~cfg.skip
       IN /\ upd[<<"S", s>>] = (IF kindS THEN DocUpdCoef(cfg, count, s) ELSE D0)
          /\ upd[<<"F", s>>] = (IF kindS THEN D0 ELSE DocUpdCoef(cfg, count, s))
  /\ upd[<<"X">>] = DocUpdX(cfg, count)

(* C05: before start / for skipped parameters only graft symbols, afterwards only Shampoo
   symbols; with momentum, weight decay off the update is one symbol with coefficient
   -(lr at count) *)
WarmupOK == count > 0 =>
   IF count - 1 < cfg.start \/ cfg.skip THEN \A s \in Steps : upd[<<"S", s>>] = D0
   ELSE \A s \in Steps : upd[<<"F", s>>] = D0
GraftShapeOK == (count > 0 /\ cfg.b1 = D0 /\ cfg.wd = D0) =>
   LET s == count
       y == IF count - 1 >= cfg.start /\ ~cfg.skip THEN <<"S", s>> ELSE <<"F", s>>
   IN upd = LScale(DNeg(Lr(cfg, count - 1)), Unit(y))
\* sharded staleness: the roots used at step s are those stored before it
StaleOK == (count > 0 /\ cfg.shard) =>
   sdef[count].root = DocRoot(cfg, count - 1, Steps)
=============================================================================
