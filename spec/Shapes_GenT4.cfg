SPECIFICATION GSpec
CONSTANTS
  Cases <- GENT4_Cases
  MapMax = 512
INVARIANT Emit
CHECK_DEADLOCK TRUE
