SPECIFICATION GSpec
CONSTANTS
  Cases <- GEN_Cases
INVARIANT Emit
INVARIANT PaddingNoRidge
INVARIANT IdentityMasked
INVARIANT MaskAgrees
CHECK_DEADLOCK FALSE
