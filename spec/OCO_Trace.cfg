SPECIFICATION TraceSpec
CONSTANTS
  Cfgs = {}
  Masses = {}
  GVals = {}
  T = 0
INVARIANT EmitVerdict
INVARIANT StepCount
CHECK_DEADLOCK FALSE
