---- MODULE TFControl_MC ----
EXTENDS TFControl
MC_Cfgs == {c \in [so : {"shampoo", "sketchy"}, SF : 1..4, PF : 1..4, Start : 0..5,
                   graft : BOOLEAN, skipped : BOOLEAN, ekfac : BOOLEAN] : CfgOK(c)}
====
