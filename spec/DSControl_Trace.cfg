SPECIFICATION TraceSpec
CONSTANTS
  Cfgs = {}
  T <- BigT
  GradClasses = {"ok", "zero", "nan", "inf", "huge", "tiny", "big", "small"}
  ErrClasses = {"below", "atabove", "nan", "inf"}
INVARIANT EmitVerdict
INVARIANT EmitStall
INVARIANT StoredFinite
INVARIANT ModerateFinite
INVARIANT StoredIsPrefix
PROPERTY CountStep
PROPERTY StatsCadence
PROPERTY RootCadence
PROPERTY MetricsFollow
PROPERTY GateSafe
PROPERTY GateSelect
PROPERTY SentinelKeeps
PROPERTY ThrZeroFrozen
CHECK_DEADLOCK FALSE
