SPECIFICATION Spec
CONSTANTS
  PackCfgs <- MC_PackCfgs
  RootCfgs <- MC_RootCfgs
  ApplyCfgs <- MC_ApplyCfgs
INVARIANT Emit
CHECK_DEADLOCK FALSE
