---- MODULE LowRank_Gen ----
(* Case export (spec -> code) for LowRank.tla: one line per finished machine.          *)
(*   pack   the cell set of every named field for (d, r)                              *)
(*   root   retained / averaged / padding direction ids and the divisor for           *)
(*          (d, rank, padding_start); ids are positions in the ascending spectrum      *)
(*   apply  which original axis met which preconditioner, of which kind, for           *)
(*          (shape, preconditioner type, r)                                            *)
(* No history variable is needed: the final state holds the whole expectation.        *)
EXTENDS LowRank_MC, Json
Out ==
  IF part = "pack"
  THEN [part |-> part, d |-> cfg.d, r |-> cfg.r,
        cells |-> [f \in Fields |-> CellsOf(f, cfg.d, cfg.r)]]
  ELSE IF part = "root"
  THEN [part |-> part, d |-> cfg.d, rank |-> cfg.rank, ps |-> cfg.ps, keep |-> keep,
        avg |-> avg \ zeroed, padding |-> zeroed, divisor |-> divisor]
  ELSE [part |-> part, shape |-> cfg.shape, ptype |-> cfg.ptype, r |-> cfg.r, met |-> met,
        should |-> Should, forgrad |-> ForGrad, final_axes |-> axes]
Emit == (PackDone \/ RootDone \/ ApplyDone) => PrintT("@@GEN " \o ToJson(Out))
\* quick subsets
Q_PackCfgs == {c \in MC_PackCfgs : c.d \in {4, 5, 6, 8, 12}}
Q_RootCfgs == {c \in MC_RootCfgs : c.d \in {5, 6, 8, 12} /\ Abs(c.rank) \in {1, 2, 3, 9}}
Q_Shapes == {<<a>> : a \in Dims} \cup {<<a, b>> : a \in Dims, b \in {3, 6}}
            \cup {<<a, b, c>> : a \in {3, 6}, b \in {4, 6}, c \in {3, 7}}
Q_ApplyCfgs == {[shape |-> s, ptype |-> t, r |-> rr] : s \in Q_Shapes, t \in {"ALL", "INPUT", "OUTPUT"}, rr \in {1, 2}}
====
