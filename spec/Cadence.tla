------------------------------ MODULE Cadence ------------------------------
(***************************************************************************)
(* Integer-only abstraction of DSControl's cadence (benign environment:    *)
(* every refresh accepted) for an UNBOUNDED step counter, written for      *)
(* Apalache: the provenance sequences of DSControl are replaced by the     *)
(* index of the last absorbed / last reflected step.  IndInv is inductive: *)
(*   Init => IndInv   and   IndInv /\ Next => IndInv'                      *)
(* so the closed forms hold for every count, not only up to the TLC bound. *)
(***************************************************************************)
EXTENDS Integers

CONSTANTS
  \* @type: Int;
  S,
  \* @type: Int;
  P,
  \* @type: Int;
  Start

VARIABLES
  \* @type: Int;
  count,
  \* @type: Int;
  lastStats,     \* step index of the last gradient absorbed into the statistics (-1: none)
  \* @type: Int;
  lastRoot,      \* step index of the last root refresh (-1: identity)
  \* @type: Int;
  rootStats,     \* value of lastStats the stored root was computed from
  \* @type: Bool;
  precond        \* the last update used the preconditioner (vs. the graft step)

ConstInit == S \in 1..6 /\ P \in 1..6 /\ Start \in 0..8

Init == count = 0 /\ lastStats = -1 /\ lastRoot = -1 /\ rootStats = -1 /\ precond = FALSE

Next ==
  LET ls == IF count % S = 0 THEN count ELSE lastStats IN
  /\ lastStats' = ls
  /\ lastRoot' = IF count % P = 0 THEN count ELSE lastRoot
  /\ rootStats' = IF count % P = 0 THEN ls ELSE rootStats
  /\ precond' = (count >= Start)
  /\ count' = count + 1

\* closed forms, for every count
LastMultiple(n, k) == ((n - 1) \div k) * k
IndInv ==
  /\ count >= 0
  /\ (count = 0 => (lastStats = -1 /\ lastRoot = -1 /\ rootStats = -1))
  /\ (count > 0 => lastStats = LastMultiple(count, S))
  /\ (count > 0 => lastRoot = LastMultiple(count, P))
  /\ (count > 0 => rootStats = LastMultiple(lastRoot + 1, S))
  /\ (count > 0 => (precond <=> (count - 1 >= Start)))

\* initial predicate for the inductive step: any state satisfying IndInv
IndInit == /\ count \in Nat /\ lastStats \in Int /\ lastRoot \in Int /\ rootStats \in Int
           /\ precond \in BOOLEAN /\ IndInv

\* a deliberately wrong closed form (off by one): must NOT be inductive (non-vacuity of the tool run)
WrongInv == count > 0 => lastStats = LastMultiple(count + 1, S)

\* the root always reflects the statistics current at its refresh step, never newer ones
RootNotAhead == rootStats <= lastStats /\ rootStats <= lastRoot
=============================================================================
