SPECIFICATION TraceSpec
CONSTANTS
  Cases <- NoCases
  MapMax = 512
INVARIANT EmitVerdict
INVARIANT TraceTypeOK
INVARIANT MergeProduct
INVARIANT MergeRespectsLimit
INVARIANT MergeAllOnes
INVARIANT MergeGreedy
INVARIANT MergeRankNotGrown
INVARIANT SplitSizesSound
INVARIANT SplitsAgree
INVARIANT AnnouncedCount
INVARIANT BlocksAreDecl
INVARIANT BlocksWithinBlockSize
INVARIANT BlocksBijective
INVARIANT AnnouncedAligned
INVARIANT SlotsSound
INVARIANT IdentityPreconditioning
INVARIANT DSRoundTrip
INVARIANT TFMetaSound
INVARIANT TFStatsAligned
INVARIANT TFBlockifyIsDecl
INVARIANT TFBlockifyBijective
INVARIANT TFRoundTrip
INVARIANT TFRejectionsDocumented
INVARIANT RSPadRule
INVARIANT RSComposes
INVARIANT RSMergedSound
INVARIANT RSRoundTrip
INVARIANT RSRejectionsDocumented
INVARIANT ClosedForms
CHECK_DEADLOCK FALSE
