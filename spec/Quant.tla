---- MODULE Quant ----
(***************************************************************************)
(* Integer-lattice model of precondition/quantization_utils.py             *)
(*   QuantizedValue.quantize (lines 50-95), QuantizedValue.to_float        *)
(*   (lines 97-114) and the re-quantisation of a dequantised value that    *)
(*   every optimizer step performs on carried state (distributed_shampoo   *)
(*   _maybe_quantize_* / _maybe_dequantize_*, sm3 _quantize_momentum).     *)
(*                                                                         *)
(* NUMBERS.  The float32 tensor is  x[r][c] * 2^e  with integer mantissas  *)
(* x[r][c] and one exponent e per column.  Multiplication by 2^e is exact  *)
(* in binary floating point and commutes with every operation of the       *)
(* quantiser (max, divide, round, multiply) unless something under/overflows, *)
(* so the payload does not depend on e and the model is exponent free.     *)
(* That side condition is an assumption about the ENVIRONMENT of the       *)
(* model, not a theorem of it: the harness sweeps e over the whole float32 *)
(* range and reports the exponents for which the code leaves the model     *)
(* (bucket underflow).                                                     *)
(*                                                                         *)
(* Observed on the pinned tree (XLA CPU flushes subnormals to zero), each   *)
(* reported by the check under its own known-finding key:                  *)
(*   max*2^e < N*2^-126       bucket flushed, whole column dequantises to 0 *)
(*   bucket normal, |x| < 2^-126   the entry is read as 0 (payload 0, not 1) *)
(*   max*2^e = FLT_MAX, eager      N*fl(max/N) overflows, to_float gives inf *)
(*                                                                         *)
(* SHAPE.  quantize() takes max|.| over axis 0, i.e. one scale per index   *)
(* of the remaining axes.  The tensor is therefore a matrix Rows x Cols    *)
(* where Cols enumerates the flattened trailing axes (rank 1: one column). *)
(* The shape is part of the input: Rows == DOMAIN x, Cols == DOMAIN x[1].  *)
(*                                                                         *)
(* ROUNDING.  The code computes  round_half_even( x / fl(max/N) )  in      *)
(* float32.  fl(max/N) = (max/N)(1+d1), the quotient adds (1+d2), |di| <=  *)
(* 2^-24, so the rounded argument is  r(1+d), r = N x/max, |d| < 2^-22.    *)
(* The model allows every integer q with |q - r| <= 1/2 + |r| 2^-21 (twice *)
(* the rigorous bound; measured: all 3.2e6 lattice payloads are inside,    *)
(* 0.04% differ from exact round-half-even).  Exactly one integer is       *)
(* allowed unless r is within |r| 2^-21 of a half-integer ("near tie"),    *)
(* then two are.  The comparison is evaluated exactly in 32-bit integers    *)
(* (GE below): rounding the window up to an integer would allow N+1 for    *)
(* x = max, an over-permissive model caught by its own invariant NoWrap.   *)
(***************************************************************************)
EXTENDS Integers, Sequences, FiniteSets, FiniteSetsExt, TLC

CONSTANT N              \* number of buckets: 127 (int8), 32767 (int16)

VARIABLES
  x,      \* input tensor  [Rows -> [Cols -> Int]]  (mantissas)
  ed,     \* extract_diagonal flag (requires a square matrix)
  pc,     \* program counter: which code-level step comes next
  diag,   \* QuantizedValue.diagonal  (<<>> if ~ed)
  off,    \* fvalue after "fvalue - jnp.diag(diagonal_fvalue)"
  mx,     \* max_abs per column; bucket_size[c] = mx[c]/N (exact rational)
  q,      \* QuantizedValue.quantized (the integer payload)
  dq,     \* to_float(): dq[r][c] = <<a, b>> denotes the rational a/N + b
  q2      \* payload of from_float_value(to_float(.)) - re-quantisation
vars == <<x, ed, pc, diag, off, mx, q, dq, q2>>

Rows == DOMAIN x
Cols == DOMAIN x[1]
Abs(a) == IF a < 0 THEN -a ELSE a
Sgn(a) == IF a < 0 THEN -1 ELSE 1
\* maximum / minimum of a non-empty set of integers >= 0 resp. of an Allowed set (a linear
\* fold: CHOOSE m : \A y : y <= m is quadratic in TLC and columns have up to 2^17 entries)
SetMax(S) == FoldSet(LAMBDA a, b : IF a > b THEN a ELSE b, CHOOSE a \in S : TRUE, S)
SetMin(S) == FoldSet(LAMBDA a, b : IF a < b THEN a ELSE b, CHOOSE a \in S : TRUE, S)

(* num >= a * 2^20 for 0 <= num < 2^31 and any integer a, without overflow *)
GE(num, a) == a <= 0 \/ (a < 2048 /\ num >= a * 1048576)

(* exact round-half-even of N v / m - the documented rounding rule ("we use *)
(* rounding to remove bias"; jnp.round rounds halves to even)               *)
RoundHalfEven(v, m) ==
  IF m = 0 THEN 0 ELSE
  LET num == N * Abs(v)
      lo  == num \div m
      fr2 == 2 * (num - lo * m)
  IN Sgn(v) * (IF fr2 < m THEN lo ELSE IF fr2 > m THEN lo + 1
               ELSE IF lo % 2 = 0 THEN lo ELSE lo + 1)

(***************************************************************************)
(* Allowed(v, m): the payloads the float32 computation may produce for an  *)
(* entry v of a column whose max-abs is m.  With r = N|v|/m = lo + fr:     *)
(*   lo   allowed iff fr     <= 1/2 + r 2^-21 iff 2 fr m - m <= N|v| 2^-20 *)
(*   lo+1 allowed iff 1 - fr <= 1/2 + r 2^-21 iff m - 2 fr m <= N|v| 2^-20 *)
(* no other integer is within 1/2 + r 2^-21 < 1 of r.  m = 0 is the        *)
(* "bs_nonzero" branch: ratio = 0/1.                                       *)
(* EXACT BUCKET.  If N divides m the bucket m/N * 2^e is a float, the IEEE *)
(* division max/N returns it exactly and v/(m/N) is a correctly rounded    *)
(* quotient of two small integers: an exact tie (a half-integer with few   *)
(* bits) stays a tie, a non-tie is at least 1/(2m/N) away from one, so the *)
(* payload is exactly RoundHalfEven - no window.  (Measured: 0 deviations  *)
(* for m in {N, 2N, .., 516N}, eager and jit.)  This is what pins the      *)
(* tie-breaking rule itself: half-up / half-away variants differ on the    *)
(* 254 ties of the int8 column with maximum 254.                           *)
(***************************************************************************)
Allowed(v, m) ==
  IF m = 0 THEN {0} ELSE
  IF m % N = 0 THEN {RoundHalfEven(v, m)} ELSE
  LET num == N * Abs(v)
      lo  == num \div m
      fr2 == 2 * (num - lo * m)
      dn  == GE(num, fr2 - m)
      up  == GE(num, m - fr2)
  IN {Sgn(v) * lo : z \in IF dn THEN {1} ELSE {}} \cup
     {Sgn(v) * (lo + 1) : z \in IF up THEN {1} ELSE {}}

(* |p m/N - v| <= (m/N)(1/2 + |N v/m| 2^-21), exactly:                     *)
(*   2|p m - N v| - m <= N|v| 2^-20                                        *)
WithinHalfBucket(v, m, p) == GE(N * Abs(v), 2 * Abs(p * m - N * v) - m)

(***************************************************************************)
(* Initial states: the caller (MC / Gen / Trace module) supplies the input *)
(***************************************************************************)
Square(t) == DOMAIN t = DOMAIN t[1]
InitWith(t, flag) ==
  /\ x = t /\ ed = flag /\ (flag => Square(t))
  /\ pc = "extract"
  /\ diag = <<>> /\ off = <<>> /\ mx = <<>> /\ q = <<>> /\ dq = <<>> /\ q2 = <<>>

(* lines 72-77: diagonal_fvalue = diag(fvalue); fvalue -= diag(diagonal_fvalue) *)
ExtractDiagonal ==
  /\ pc = "extract"
  /\ diag' = IF ed THEN [r \in Rows |-> x[r][r]] ELSE <<>>
  /\ off' = [r \in Rows |-> [c \in Cols |-> IF ed /\ r = c THEN x[r][c] - x[r][r] ELSE x[r][c]]]
  /\ pc' = "scale"
  /\ UNCHANGED <<x, ed, mx, q, dq, q2>>

(* lines 86-87: max_abs = max(|fvalue|, axis=0); bucket_size = max_abs / N *)
Scale ==
  /\ pc = "scale"
  /\ mx' = [c \in Cols |-> FoldSet(LAMBDA r, acc : IF Abs(off[r][c]) > acc THEN Abs(off[r][c]) ELSE acc, 0, Rows)]
  /\ pc' = "round"
  /\ UNCHANGED <<x, ed, diag, off, q, dq, q2>>

(* lines 88-95: ratio = fvalue / bs_nonzero; quantized = round(ratio).astype(int).  *)
(* RoundTo(p): the arithmetic produced payload p (used with the logged payload by *)
(* Quant_Trace); Round: any resolution of the near ties.                          *)
AllowedAt(r, c) == Allowed(off[r][c], mx[c])
NearTies == {rc \in Rows \X Cols : Cardinality(AllowedAt(rc[1], rc[2])) = 2}
PayloadFor(S) == [r \in Rows |-> [c \in Cols |->
                   IF <<r, c>> \in S THEN SetMax(AllowedAt(r, c)) ELSE SetMin(AllowedAt(r, c))]]
RoundTo(p) ==
  /\ pc = "round"
  /\ \A r \in Rows, c \in Cols : p[r][c] \in AllowedAt(r, c)
  /\ q' = p
  /\ pc' = "tofloat"
  /\ UNCHANGED <<x, ed, diag, off, mx, dq, q2>>
Round == pc = "round" /\ \E S \in SUBSET NearTies : RoundTo(PayloadFor(S))

(* to_float: val = quantized * bucket_size ; val += diag(diagonal) *)
ToFloat ==
  /\ pc = "tofloat"
  /\ dq' = [r \in Rows |-> [c \in Cols |->
              <<q[r][c] * mx[c], IF ed /\ r = c THEN diag[r] ELSE 0>>]]
  /\ pc' = "requant"
  /\ UNCHANGED <<x, ed, diag, off, mx, q, q2>>

(***************************************************************************)
(* from_float_value(to_float(.)) with the same flags.  The diagonal is     *)
(* removed again (exactly), the off-diagonal part is q[r][c] mx[c] / N.    *)
(* Allowed is homogeneous of degree 0 (Allowed(k v, k m) = Allowed(v, m),  *)
(* invariant Homogeneous below), so the column factor mx[c]/N cancels and  *)
(* the new payload is Allowed(q[r][c], max_r |q[r][c]|): no product with   *)
(* mx is formed (it would not fit in 32 bits for int16).                   *)
(***************************************************************************)
QMax(c) == FoldSet(LAMBDA r, acc : IF Abs(q[r][c]) > acc THEN Abs(q[r][c]) ELSE acc, 0, Rows)
ReAllowedAt(r, c) == Allowed(q[r][c], QMax(c))
ReNearTies == {rc \in Rows \X Cols : Cardinality(ReAllowedAt(rc[1], rc[2])) = 2}
RePayloadFor(S) == [r \in Rows |-> [c \in Cols |->
                     IF <<r, c>> \in S THEN SetMax(ReAllowedAt(r, c)) ELSE SetMin(ReAllowedAt(r, c))]]
RequantizeTo(p) ==
  /\ pc = "requant"
  /\ \A r \in Rows, c \in Cols : p[r][c] \in ReAllowedAt(r, c)
  /\ q2' = p
  /\ pc' = "done"
  /\ UNCHANGED <<x, ed, diag, off, mx, q, dq>>
Requantize == pc = "requant" /\ \E S \in SUBSET ReNearTies : RequantizeTo(RePayloadFor(S))

Next == ExtractDiagonal \/ Scale \/ Round \/ ToFloat \/ Requantize

(***************************************************************************)
(* Properties (C11)                                                        *)
(***************************************************************************)
After(phases) == pc \in phases
HasQ  == After({"tofloat", "requant", "done"})
HasDQ == After({"requant", "done"})

TypeOK ==
  /\ pc \in {"extract", "scale", "round", "tofloat", "requant", "done"}
  /\ ed \in BOOLEAN
  /\ HasQ => q \in [Rows -> [Cols -> Int]]

(* stored integers never take the unused most negative code, nor exceed N *)
NoWrap == HasQ => \A r \in Rows, c \in Cols : -N <= q[r][c] /\ q[r][c] <= N

(* every payload the arithmetic may produce is within half a bucket (+window) *)
HalfBucket == HasQ => \A r \in Rows, c \in Cols : WithinHalfBucket(off[r][c], mx[c], q[r][c])

(* ... and therefore so is the dequantised value, entry by entry *)
RoundTrip == HasDQ => \A r \in Rows, c \in Cols :
  IF ed /\ r = c
    THEN dq[r][c] = <<0, x[r][c]>>                               \* DiagExact
    ELSE /\ dq[r][c][2] = 0
         /\ GE(N * Abs(x[r][c]), 2 * Abs(dq[r][c][1] - N * x[r][c]) - mx[c])

ZeroExact == HasDQ => \A r \in Rows, c \in Cols : x[r][c] = 0 => dq[r][c] = <<0, 0>>

(* the column maximum is reproduced exactly (it is mapped to +-N) *)
MaxHitsN == HasDQ => \A r \in Rows, c \in Cols :
  (mx[c] > 0 /\ Abs(off[r][c]) = mx[c]) => (q[r][c] = Sgn(off[r][c]) * N /\ dq[r][c][1] = N * off[r][c])

ZeroColumn == HasQ => \A c \in Cols : mx[c] = 0 => \A r \in Rows : q[r][c] = 0

SignKept == HasQ => \A r \in Rows, c \in Cols : q[r][c] * Sgn(off[r][c]) >= 0

(* the exact rounding rule is always among the allowed payloads, and unless *)
(* the ratio is a near tie it is the only one                              *)
RuleAllowed == After({"round"}) => \A r \in Rows, c \in Cols :
  RoundHalfEven(off[r][c], mx[c]) \in Allowed(off[r][c], mx[c])

(* state that is carried but not updated does not drift *)
Idempotent == (pc = "done") => q2 = q

(* scaling a column by an integer does not change its payloads *)
Homogeneous == After({"round"}) => \A r \in Rows, c \in Cols, k \in 2..3 :
  Allowed(k * off[r][c], k * mx[c]) = Allowed(off[r][c], mx[c])
====
