SPECIFICATION GSpec
CONSTANTS
  Cases <- GENT5_Cases
  MapMax = 512
INVARIANT Emit
CHECK_DEADLOCK TRUE
