SPECIFICATION ColSpec
CONSTANTS
  N = 32767
  MaxSet <- MC16T_Max
  MaxSigns <- BothSigns
  MatShapes <- MC_Shapes
  MatVals <- MC_Vals
INVARIANT TypeOK
INVARIANT NoWrap
INVARIANT HalfBucket
INVARIANT RoundTrip
INVARIANT ZeroExact
INVARIANT MaxHitsN
INVARIANT ZeroColumn
INVARIANT SignKept
INVARIANT RuleAllowed
INVARIANT Idempotent

CHECK_DEADLOCK FALSE
