---- MODULE Shapes_Trace ----
(* Trace validation (code -> spec) for Shapes.                                         *)
(* A trace is ONE parameter pushed through one of the three real pipelines, one event   *)
(* per code-level step, integers / booleans / short strings only:                       *)
(*   {cfg:{sys,shape,limit,bs,ptype}, events:[{a:<action>, ...observations...}]}        *)
(*   ds  DSMerge{transformed} DSPlan{split_sizes,splits} DSAnnounce{should,prec_shapes, *)
(*       square,exponent} DSPartition{block_shapes,probes[[q,p,label]]}                 *)
(*       DSPrecondition{slots} DSMergeBack{out_shape,unchanged} End                     *)
(*   tf  TFValidate{accepted} [TFMeta{block_sizes,num_blocks,large_axes,                *)
(*       blocks_per_large_axis,blocks_axis} TFInit{stat_shapes}                          *)
(*       TFBlockify{shape,probes[[p,label]]} TFPrecondition{shape,unchanged}             *)
(*       TFDeblockify{shape,unchanged}] End                                              *)
(*   rs  RSValidate{accepted} [RSDerive{merged,padded,tf_accepts}                        *)
(*       RSMerge{shape,probes[[p,label]]} RSUnmerge{shape,unchanged}] End                *)
(* `probes` are elements read from the real tensor: flat position p (of block q) holds  *)
(* the element whose linear index in the parameter was `label` (-1: a padding zero).    *)
(* Every event is explained by the module's own action of that name: Verdict(e) names   *)
(* the first logged field that differs from what the action produces ("ok" otherwise),  *)
(* then the action is taken; all invariants of Shapes are evaluated by TLC on every     *)
(* state (tensors of cases with more than MapMax elements are shape-only, probes are    *)
(* then judged by the closed forms that the exhaustive runs tie to the index maps).     *)
EXTENDS Shapes, Json, IOUtils
Traces == JsonDeserialize(IOEnv.TRACE_FILE)
NoCases == {}
VARIABLES tid, l, bad
tvars == <<vars, tid, l, bad>>
Ev == Traces[tid].events

ShapesOf(ts) == [k \in DOMAIN ts |-> ts[k].shape]
Same(a, b) == Len(a) = Len(b) /\ \A k \in DOMAIN a : a[k] = b[k]
SameSplits(a, b) ==
  Len(a) = Len(b) /\ \A k \in DOMAIN a : a[k].axis = b[k].axis /\ Same(a[k].indices, b[k].indices)

Verdict(e) ==
  IF e.a = "DSMerge" THEN
    IF ~(pc = "start" /\ cfg.sys = "ds") THEN "step_out_of_order"
    ELSE IF ~Same(e.transformed, DSMergeR(cfg, r).transformed) THEN "merged_shape"
    ELSE "ok"
  ELSE IF e.a = "DSPlan" THEN
    IF pc # "merged" THEN "step_out_of_order"
    ELSE LET n == DSPlanR(cfg, r)
         IN IF ~(Len(e.split_sizes) = Len(n.split_sizes)
                 /\ \A i \in DOMAIN n.split_sizes : Same(e.split_sizes[i], n.split_sizes[i]))
            THEN "split_sizes"
            ELSE IF ~SameSplits(e.splits, n.splits) THEN "split_indices"
            ELSE "ok"
  ELSE IF e.a = "DSAnnounce" THEN
    IF pc # "planned" THEN "step_out_of_order"
    ELSE LET n == DSAnnounceR(cfg, r)
         IN IF ~Same(e.should, n.should) THEN "should_precondition_dims"
            ELSE IF ~e.square THEN "preconditioner_not_square"
            ELSE IF ~Same(e.prec_shapes, n.prec_shapes) THEN "shapes_for_preconditioners"
            ELSE IF e.exponent # n.exponent THEN "exponent_for_preconditioner"
            ELSE "ok"
  ELSE IF e.a = "DSPartition" THEN
    IF pc # "announced" THEN "step_out_of_order"
    ELSE LET n == DSPartitionR(cfg, r)
         IN IF Len(e.block_shapes) # Len(n.blocks) THEN "number_of_blocks"
            ELSE IF \E q \in DOMAIN n.blocks : ~Same(e.block_shapes[q], n.blocks[q].shape) THEN "block_shape"
            ELSE IF \E k \in DOMAIN e.probes :
                      \/ e.probes[k][1] \notin 0..(Len(n.blocks) - 1)
                      \/ e.probes[k][3] # BlockLabelAt(n.g.shape, r.split_sizes, e.probes[k][1], e.probes[k][2])
                 THEN "block_element"
            ELSE "ok"
  ELSE IF e.a = "DSPrecondition" THEN
    IF pc # "partitioned" THEN "step_out_of_order"
    ELSE LET n == DSPreconditionR(cfg, r)
         IN IF ~(Len(e.slots) = Len(n.slots) /\ \A q \in DOMAIN n.slots : Same(e.slots[q], n.slots[q]))
            THEN "preconds_for_grad_slots"
            ELSE "ok"
  ELSE IF e.a = "DSMergeBack" THEN
    IF pc # "preconditioned" THEN "step_out_of_order"
    ELSE LET n == DSMergeBackR(cfg, r)
         IN IF ~Same(e.out_shape, n.out.shape) THEN "preconditioned_grad_shape"
            ELSE IF ~e.unchanged THEN "identity_preconditioning_changes_gradient"
            ELSE "ok"
  ELSE IF e.a = "TFValidate" THEN
    IF ~(pc = "start" /\ cfg.sys = "tf") THEN "step_out_of_order"
    ELSE IF e.accepted # (TFValidateR(cfg, r).verdict = "ok") THEN "shampoo_accepts"
    ELSE "ok"
  ELSE IF e.a = "TFMeta" THEN
    IF pc # "validated" THEN "step_out_of_order"
    ELSE LET m == TFMetaR(cfg, r).meta
         IN IF ~Same(e.block_sizes, m.block_sizes) THEN "meta_block_sizes"
            ELSE IF e.num_blocks # m.num_blocks THEN "meta_num_blocks"
            ELSE IF ~Same(e.large_axes, m.large_axes) THEN "meta_large_axes"
            ELSE IF ~Same(e.blocks_per_large_axis, m.blocks_per_large_axis) THEN "meta_blocks_per_large_axis"
            ELSE IF e.blocks_axis # m.blocks_axis THEN "meta_blocks_axis"
            ELSE "ok"
  ELSE IF e.a = "TFInit" THEN
    IF pc # "meta" THEN "step_out_of_order"
    ELSE LET n == TFInitR(cfg, r)
         IN IF ~(Len(e.stat_shapes) = Len(n.stat_shapes)
                 /\ \A i \in DOMAIN n.stat_shapes : Same(e.stat_shapes[i], n.stat_shapes[i]))
            THEN "stats_shapes"
            ELSE "ok"
  ELSE IF e.a = "TFBlockify" THEN
    IF pc # "inited" THEN "step_out_of_order"
    ELSE LET n == TFBlockifyR(cfg, r)
         IN IF ~Same(e.shape, n.blocked.shape) THEN "blockify_shape"
            ELSE IF \E k \in DOMAIN e.probes : e.probes[k][2] # BlockedLabelAt(r.meta, e.probes[k][1])
                 THEN "blockify_element"
            ELSE "ok"
  ELSE IF e.a = "TFPrecondition" THEN
    IF pc # "blockified" THEN "step_out_of_order"
    ELSE IF ~Same(e.shape, r.blocked.shape) THEN "precondition_blocks_shape"
    ELSE IF ~e.unchanged THEN "identity_preconditioning_changes_gradient"
    ELSE "ok"
  ELSE IF e.a = "TFDeblockify" THEN
    IF pc # "tf_preconditioned" THEN "step_out_of_order"
    ELSE IF ~Same(e.shape, TFDeblockifyR(cfg, r).out.shape) THEN "deblockify_shape"
    ELSE IF ~e.unchanged THEN "deblockify_of_blockify"
    ELSE "ok"
  ELSE IF e.a = "RSValidate" THEN
    IF ~(pc = "start" /\ cfg.sys = "rs") THEN "step_out_of_order"
    ELSE IF e.accepted # (RSValidateR(cfg, r).verdict = "ok") THEN "reshaper_accepts"
    ELSE "ok"
  ELSE IF e.a = "RSDerive" THEN
    IF pc # "rs_validated" THEN "step_out_of_order"
    ELSE LET n == RSDeriveR(cfg, r)
         IN IF ~Same(e.merged, n.shapes.merged_shape) THEN "merged_shape"
            ELSE IF ~Same(e.padded, n.shapes.padded_shape) THEN "padded_shape"
            ELSE IF e.tf_accepts # (n.tf_verdict = "ok") THEN "shampoo_accepts_reshaper_output"
            ELSE "ok"
  ELSE IF e.a = "RSMerge" THEN
    IF pc # "derived" THEN "step_out_of_order"
    ELSE LET n == RSMergeR(cfg, r)
         IN IF ~Same(e.shape, n.merged.shape) THEN "merge_shape"
            ELSE IF \E k \in DOMAIN e.probes : e.probes[k][2] # MergedLabelAt(r.shapes, e.probes[k][1])
                 THEN "merge_element"
            ELSE "ok"
  ELSE IF e.a = "RSUnmerge" THEN
    IF pc # "rs_merged" THEN "step_out_of_order"
    ELSE IF ~Same(e.shape, RSUnmergeR(cfg, r).out.shape) THEN "unmerge_shape"
    ELSE IF ~e.unchanged THEN "unmerge_of_merge"
    ELSE "ok"
  ELSE IF e.a = "End" THEN
    IF ~Terminal THEN "pipeline_not_finished" ELSE "ok"
  ELSE "unknown_event"

Take(a) ==
  \/ (a = "DSMerge" /\ DSMerge) \/ (a = "DSPlan" /\ DSPlan) \/ (a = "DSAnnounce" /\ DSAnnounce)
  \/ (a = "DSPartition" /\ DSPartition) \/ (a = "DSPrecondition" /\ DSPrecondition)
  \/ (a = "DSMergeBack" /\ DSMergeBack)
  \/ (a = "TFValidate" /\ TFValidate) \/ (a = "TFMeta" /\ TFMeta) \/ (a = "TFInit" /\ TFInit)
  \/ (a = "TFBlockify" /\ TFBlockify) \/ (a = "TFPrecondition" /\ TFPrecondition)
  \/ (a = "TFDeblockify" /\ TFDeblockify)
  \/ (a = "RSValidate" /\ RSValidate) \/ (a = "RSDerive" /\ RSDerive) \/ (a = "RSMerge" /\ RSMerge)
  \/ (a = "RSUnmerge" /\ RSUnmerge)
  \/ (a = "End" /\ Idle)

TraceInit == /\ tid \in 1..Len(Traces) /\ l = 1 /\ bad = "ok"
             /\ cfg = Traces[tid].cfg /\ InitRest

TraceStep ==
  /\ l <= Len(Ev) /\ bad = "ok"
  /\ LET e == Ev[l]
         v == Verdict(e)
     IN IF v = "ok"
        THEN Take(e.a) /\ l' = l + 1 /\ bad' = "ok"
        ELSE bad' = v /\ UNCHANGED <<vars, l>>
  /\ UNCHANGED tid

TraceSpec == TraceInit /\ [][TraceStep]_tvars

Finished == (l = Len(Ev) + 1) \/ bad # "ok"
EmitVerdict == Finished => PrintT("@@V " \o ToJson([tid |-> tid, l |-> l, verdict |-> bad]))
TraceTypeOK == pc \in {"start", "merged", "planned", "announced", "partitioned", "preconditioned",
                       "validated", "meta", "inited", "blockified", "tf_preconditioned",
                       "rs_validated", "derived", "rs_merged", "done", "rejected"}
====
