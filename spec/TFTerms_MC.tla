---- MODULE TFTerms_MC ----
EXTENDS TFTerms
Half == <<1, 1>>
MC_Cfgs == [graft : {"NONE", "SGD", "RMSPROP"}, start : {0, 2}, skipped : BOOLEAN,
            ema : BOOLEAN, nest : BOOLEAN, md : {D0, Half}, wd : {D0, <<1, 3>>}, wdafter : BOOLEAN,
            lr : {<<1, 2>>}, lrs : {"const", "lin8"}, SF : {1, 2}, PF : {1, 2, 3},
            b2 : {D1, Half}, gd : {D1, <<3, 2>>}]
====
