---- MODULE Realloc_Trace ----
(* Trace validation (code -> spec) for Realloc.                                        *)
(* A trace is ONE call of the real create_redist_dict on float-valued scores:           *)
(*   {cfg:{base}, events:[ {err:"none", dim, n, ranks:[..]}  one per group of equal dim *)
(*                       | {err:"AssertionError"|..., dim:0, n:0, ranks:[]} ]}          *)
(* Only integers travel: the float scores (scale-disparate, tied, zero) stay in the      *)
(* harness, so what is validated is exactly what the rational model promises for every   *)
(* terminating behaviour - and what float32 absorption could break: each assigned rank   *)
(* in 1..dim, the group within its budget n*base, and none of the source's asserts hit.  *)
(* Pipeline traces additionally carry, per group, used = the ranks the Sketchy optimizer built  *)
(* from the allocation really holds (ranks are already <= dim here, so used = ranks).           *)
(* An accepted event puts the Realloc variables into the terminal state it describes, so *)
(* the module's own invariants RankRange / RankBudget are evaluated by TLC on it as well. *)
EXTENDS Realloc, Json, IOUtils
Traces == JsonDeserialize(IOEnv.TRACE_FILE)
VARIABLES tid, l, bad
tvars == <<vars, tid, l, bad>>
Ev == Traces[tid].events

Verdict(e) ==
  IF e.err = "AssertionError" THEN "code_assertion_failed"
  ELSE IF e.err # "none" THEN "code_raised"
  ELSE IF e.n < 1 \/ Len(e.ranks) # e.n THEN "group_size_mismatch"
  ELSE IF \E k \in 1..e.n : e.ranks[k] < 1 THEN "rank_below_one"
  ELSE IF ~RangeAt(e.ranks, e.n, e.dim) THEN "rank_above_dim"
  ELSE IF ~BudgetAt(e.ranks, e.n, Traces[tid].cfg.base) THEN "group_over_budget"
  \* pipeline traces (cfg.pipeline): the allocation was handed to sketchy.Options(memory_alloc = ...) and
  \* `used` is the rank every axis of the freshly initialised Sketchy state really has
  ELSE IF Traces[tid].cfg.pipeline /\ Len(e.used) # e.n THEN "group_size_mismatch"
  ELSE IF Traces[tid].cfg.pipeline /\ (\E k \in 1..e.n : e.used[k] # e.ranks[k])
       THEN "allocation_not_honoured_by_sketchy"
  ELSE IF Traces[tid].cfg.pipeline /\ ~BudgetAt(e.used, e.n, Traces[tid].cfg.base)
       THEN "sketch_memory_above_uniform_allocation"
  ELSE "ok"

TraceInit == /\ tid \in 1..Len(Traces) /\ l = 1 /\ bad = "ok"
             /\ n = 1 /\ dim = 1 /\ base = Traces[tid].cfg.base /\ score = <<0>> /\ order = <<1>>
             /\ i = 0 /\ res = 0 /\ tot = 0 /\ rank = <<1>> /\ extra = 0 /\ pc = "start"

TraceStep ==
  /\ l <= Len(Ev) /\ bad = "ok"
  /\ LET e == Ev[l]
         v == Verdict(e)
     IN IF v = "ok"
        THEN /\ n' = e.n /\ dim' = e.dim /\ rank' = e.ranks /\ pc' = "done"
             /\ score' = [k \in 1..e.n |-> 0] /\ order' = [k \in 1..e.n |-> k]
             /\ l' = l + 1 /\ bad' = "ok"
             /\ UNCHANGED <<base, i, res, tot, extra>>
        ELSE /\ bad' = v /\ UNCHANGED <<vars, l>>
  /\ UNCHANGED tid

TraceSpec == TraceInit /\ [][TraceStep]_tvars
Finished == (l = Len(Ev) + 1) \/ bad # "ok"
EmitVerdict == Finished => PrintT("@@V " \o ToJson([tid |-> tid, l |-> l, verdict |-> bad]))
====
