---- MODULE Blocks_Gen ----
(* Replay cases for C08: a blocked target parameter (2..4 blocks; 4 = two blocked axes 2x2;   *)
(* 3 = ragged where the implementation supports it), a gradient scale class per block          *)
(* (s = 1e-6 .. 1e-3, 1, b = 1e3 .. 1e6) and a companion parameter kind.  For each case the     *)
(* model Blocks says: direction of block b depends on block b only; nothing depends on the      *)
(* companion.  The harness checks exactly these two statements on the real optimizers.          *)
EXTENDS Integers, Sequences, TLC, Json
VARIABLE c
Cases == [blocks : {2, 3, 4}, scales : {"111", "1s1", "sb1", "bs1", "b11", "s11", "bbs"},
          companion : {"none", "vector", "matrix", "huge"}]
Init == c \in Cases
Next == UNCHANGED c
Spec == Init /\ [][Next]_c
Emit == PrintT("@@GEN " \o ToJson(c))
====
