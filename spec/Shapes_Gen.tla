---- MODULE Shapes_Gen ----
(* Behaviour export for replay into the real functions (spec -> code).                *)
(* A behaviour of Shapes is a deterministic function of its case, and the record r     *)
(* of the final state holds the result of EVERY step, so one line per terminal state   *)
(* is the complete behaviour.  Exported per case: the expected shapes, block lists,    *)
(* slot lists, rejection verdicts and - for cases with at most MapMax elements - the    *)
(* index maps (tensor `data`: output position -> linear index of the input element,    *)
(* -1 = PAD).  Larger cases are exported shape-only.                                    *)
(* (Case sets are lazy record sets: TLC evaluates every constant definition of a        *)
(* module at start-up, an eagerly enumerated 400k-element set costs minutes.)           *)
EXTENDS Shapes, Json
VARIABLE case0          \* history: the case as chosen in Init (DSMerge resets cfg.limit)
GInit == Init /\ case0 = cfg
GNext == Next /\ UNCHANGED case0
GSpec == GInit /\ [][GNext]_<<vars, case0>>

GShapes(R, Dims) == UNION {[1..n -> Dims] : n \in 0..R}
Limits == {1, 2, 3, 4, 6, 8, 4096}
PTypes == {"ALL", "INPUT", "OUTPUT"}
Mk(sys, S, L, B, P) == [sys : {sys}, shape : S, limit : L, bs : B, ptype : P]

\* what the worker can observe of each pipeline (x, g, pblocks are inputs / internals)
Drop(f, keys) == [k \in (DOMAIN f) \ keys |-> f[k]]
Proj == IF cfg.sys = "ds" THEN Drop(r, {"x", "g", "pblocks"})
        ELSE IF cfg.sys = "tf" THEN Drop(r, {"x", "pblocked"})
        ELSE Drop(r, {"x"})
Emit == Terminal => PrintT("@@GEN " \o ToJson([cfg |-> case0, live |-> Live, pc |-> pc, r |-> Proj]))

\* smoke
GEN0_Cases == Mk("ds", GShapes(2, 1..3), {0, 2, 4096}, {1, 2}, PTypes)
              \cup Mk("tf", GShapes(3, {1, 2, 4}), {0}, 0..2, {"ALL"})
              \cup Mk("rs", GShapes(2, 1..3), {1, 2, 4}, {0, 1, 2}, {"ALL"})
\* quick: rank <= 3 with dims <= 4, rank 4 over {2,3} and over {1,4}; Tearfree rank <= 4 with
\* dims up to 6 (higher ranks and larger dims reach the code through the trace leg)
GEN_S == GShapes(3, 1..4) \cup [1..4 -> {2, 3}] \cup [1..4 -> {1, 4}]
GEN_Cases == Mk("ds", GEN_S, Limits \cup {0}, 1..5, PTypes)
             \cup Mk("tf", GShapes(4, {1, 2, 3, 4, 6}), {0}, 0..5, {"ALL"})
             \cup Mk("rs", GEN_S, Limits, 0..5, {"ALL"})
\* thorough: the cases of Shapes_MCT, exported in five batches (one TLC run each) so that
\* neither TLC's output nor the harness' memory holds all index maps at once
GENT1_Cases == Mk("ds", GShapes(4, 1..4), Limits \cup {0}, 1..5, PTypes)
GENT2_Cases == Mk("ds", [1..5 -> 1..3], Limits \cup {0}, 1..5, PTypes)
GENT3_Cases == Mk("ds", GShapes(3, 1..6) \ GShapes(3, 1..4), Limits \cup {0}, 1..5, PTypes)
               \cup Mk("ds", GShapes(3, 1..6), Limits \cup {0}, {6, 7}, PTypes)
GENT4_Cases == Mk("tf", [1..5 -> {2, 3, 4, 6}] \cup GShapes(4, {1, 2, 3, 4, 6, 8, 9}), {0}, 0..5, {"ALL"})
GENT5_Cases == Mk("rs", GShapes(4, 1..4) \cup [1..5 -> 1..3] \cup GShapes(3, 1..6), Limits, 0..5, {"ALL"})
====
