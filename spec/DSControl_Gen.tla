---- MODULE DSControl_Gen ----
(* Behaviour export for replay into the real optimizer (spec -> code).            *)
(* The environment is pinned to the benign case (every gradient "ok", every root  *)
(* accepted) so that a behaviour is a function of the configuration; what the     *)
(* code must then reproduce is the *schedule*: which steps change statistics,     *)
(* roots and metrics, which statistics a root reflects, which root an update uses. *)
EXTENDS DSControl, Json
VARIABLE hist
gvars == <<vars, hist>>
Obs == [ca |-> count', sc |-> statsProv' # statsProv, pc |-> stored' # stored,
        mc |-> metricsAt' # metricsAt, kind |-> kind',
        stats |-> statsProv', stored |-> stored', used |-> used',
        interval |-> Interval(cfg, count)]
GInit == Init /\ hist = <<>>
GNext == Update("ok", "below", TRUE, TRUE) /\ hist' = Append(hist, Obs)
GSpec == GInit /\ [][GNext]_gvars
Emit == count = T => PrintT("@@GEN " \o ToJson([cfg |-> cfg, steps |-> hist]))
GEN_Cfgs == [S : 1..3, P : 1..3, Start : {0, 2, 3}, sched : {"none"},
             End : {0}, mode : {"rep", "shard"}, thr : {"pos"}]
GEN_Sched == [S : {1, 2}, P : {1, 3}, Start : {1}, sched : {"lin16", "half4"},
             End : {20, 40}, mode : {"rep", "pmapq", "shard"}, thr : {"pos"}]
GENT_Cfgs == [S : 1..4, P : 1..4, Start : 0..5, sched : {"none"},
             End : {0}, mode : {"rep", "pmapq", "shard"}, thr : {"pos"}]
              \cup [S : 1..3, P : 1..3, Start : {0, 3}, sched : {"lin16", "half4"},
             End : {10, 20, 40}, mode : {"rep", "pmapq", "shard"}, thr : {"pos"}]
====
