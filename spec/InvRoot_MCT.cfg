SPECIFICATION Spec
CONSTANTS
  Cases <- MCT_Cases
INVARIANT TypeOK
INVARIANT RetriesBound
INVARIANT BigMeansExhausted
INVARIANT EarlyMeansNotBig
INVARIANT RidgeConsistent
INVARIANT BaseConsistent
INVARIANT PaddingNoRidge
INVARIANT IdentityMasked
INVARIANT RidgeOnlyIfOverridden
INVARIANT MaskAgrees
INVARIANT AcceptedFinite
INVARIANT AllPadZero
INVARIANT OnlyAllPadZero
INVARIANT Size1NoRetry
INVARIANT EighNoRetry
INVARIANT FigureSource
INVARIANT Progress
CHECK_DEADLOCK FALSE
