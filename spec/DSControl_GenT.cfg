SPECIFICATION GSpec
CONSTANTS
  Cfgs <- GENT_Cfgs
  T = 24
  GradClasses = {"ok"}
  ErrClasses = {"below", "atabove", "nan", "inf"}
INVARIANT Emit
CHECK_DEADLOCK FALSE
