------------------------------ MODULE InvRoot ------------------------------
(***************************************************************************)
(* Case structure and bookkeeping of the inverse p-th root routines of     *)
(* precondition/distributed_shampoo.py:                                     *)
(*                                                                         *)
(*   matrix_inverse_pth_root        coupled Newton iteration   ("newton")  *)
(*   matrix_inverse_pth_root_eigh   eigendecomposition         ("eigh")    *)
(*   matrix_inverse_pth_root with lobpcg_topk_precondition > 0 ("lobpcg")  *)
(*                                                                         *)
(* What is modelled is everything AROUND the numerical iteration: which    *)
(* rows take part (padding mask on matrix and identity), where the ridge   *)
(* goes and how large it is (relative / absolute, floor, 10x escalation per *)
(* failed attempt), the 1x1 branch, the retry loop and its exit rule, the   *)
(* top-k deflation bracket of the LOBPCG variant, which quantity is         *)
(* reported as the error figure, the all-padding override and the           *)
(* acceptance gate.  The iteration itself is an environment choice: an      *)
(* attempt ends with an error class "small" (<= 0.05), "big" (> 0.05) or    *)
(* "nan".  One action per code-level step; a behaviour is one call.         *)
(*                                                                         *)
(* Inputs are SPECTRA, not matrices: the unpadded block of the input is     *)
(* Q diag(a) Q^T with a_i = 10^(c - exps[i]) for i <= Len(exps) and 0        *)
(* afterwards; the routine must return Root(p, a_i + d) on the same          *)
(* eigenbasis, d being the ridge this module derives.  Numbers are decimal   *)
(* floats of InvRootNum (exact for all powers of ten the rules multiply by). *)
(*                                                                         *)
(* Property C01.  Structural part: invariants below.  Numerical part:        *)
(* Honest(..) - the relation between the reported figure and the residual    *)
(* measured against the ridge derived HERE; it is evaluated by TLC on        *)
(* numbers recorded from real calls (InvRoot_Trace).                         *)
(***************************************************************************)
EXTENDS Integers, Sequences, FiniteSets, TLC, InvRootNum

CONSTANTS Cases          \* set of case records explored (see CaseOK)

VARIABLES case,      \* the case of this behaviour
          pc,        \* control point inside the call
          matrows,   \* row/column indices on which the (masked) matrix may be non-zero
          ident,     \* indices on which `identity` is one
          ridged,    \* indices whose diagonal entry received the ridge
          lamk,      \* kind of the largest-eigenvalue estimate: unset|one|pos|zero|nan
          base,      \* what the ridge epsilon is multiplied by: unset|abs|rel_lam|rel_floor|nan
          tries,     \* completed attempts of the Newton retry loop (= metrics.total_retries)
          last,      \* error class of the last attempt: none|small|big|nan
          kused,     \* escalation exponent of the ridge of the last attempt: d * 10^kused
          kref,      \* escalation exponent of the ridge the REPORTED figure refers to
          figsrc,    \* which quantity is reported as inverse_pth_root_errors
          figcls,    \* its class against the acceptance threshold: below|atabove|nan|inf|zero
          xzero,     \* returned matrix overwritten by zeros (all-padding override)
          accepted   \* the optimizer's gate would store this root

vars == <<case, pc, matrows, ident, ridged, lamk, base, tries, last, kused, kref,
          figsrc, figcls, xzero, accepted>>

(***************************************************************************)
(* Constants of the code                                                    *)
(***************************************************************************)
MaxTries == 6             \* num_tries
Escalation == 10          \* damped_matrix = matrix + ridge * 10**i * identity
\* retry_loop_error_threshold = 0.05 separates "small" from "big";
\* the acceptance threshold of the optimizer is 0.1 (inverse_failure_threshold default).
\* floor of the relative ridge: _EPSILON = 1e-25 (Newton, LOBPCG), error_tolerance = 1e-6 (eigh)
FloorExp(c) == IF c.method = "eigh" THEN 6 ELSE 25

Methods == {"newton", "eigh", "lobpcg"}
ErrCls  == {"small", "big", "nan"}
FigCls  == {"below", "atabove", "nan", "inf"}

(***************************************************************************)
(* The case lattice                                                         *)
(*   method, n (matrix size), ps (padding_start; -1 = argument is None),    *)
(*   fill (content of the padding rows handed in: "zero" | "junk"),          *)
(*   exps (decimal exponents of the non-zero eigenvalues, first one 0),      *)
(*   c (scale exponent), p, eexp (ridge_epsilon = 10^-eexp), rel,            *)
(*   k (lobpcg_topk_precondition), dt ("f64": x64 enabled | "f32")           *)
(***************************************************************************)
Unpadded(c) == IF c.ps = -1 THEN c.n ELSE c.ps        \* rows that carry data
AllPad(c)   == c.ps = 0
Rank(c)     == Len(c.exps)
MaxOf(s)    == IF s = <<>> THEN 0 ELSE CHOOSE x \in {s[i] : i \in DOMAIN s} :
                                          \A y \in {s[i] : i \in DOMAIN s} : y <= x

\* spectrum patterns: geometric fill, one dominant direction, one weak direction
Exps(pat, r, s) ==
  [i \in 1..r |-> CASE pat = "geo"  -> IF r = 1 THEN 0 ELSE (s * (i - 1)) \div (r - 1)
                    [] pat = "step" -> IF i = 1 THEN 0 ELSE s
                    [] pat = "plat" -> IF i = r /\ r > 1 THEN s ELSE 0]
Ranks(m) == {r \in {1, 2, (m + 1) \div 2, m} : r >= 1 /\ r <= m}
Spectra(m, Spreads) ==
  IF m = 0 THEN {<<>>}
  ELSE {Exps(pat, r, s) : pat \in {"geo", "step", "plat"}, r \in Ranks(m), s \in Spreads}

PsOptions(n) == {-1, n} \cup {ps \in {n - 1, n - 3, 0} : ps >= 0}
Fills(n, ps) == IF ps >= 0 /\ ps < n THEN {"zero", "junk"} ELSE {"zero"}

CaseOK(c) ==
  /\ c.method \in Methods /\ c.n \in Nat \ {0}
  /\ c.ps \in -1..c.n /\ c.fill \in Fills(c.n, c.ps)
  /\ Rank(c) <= Unpadded(c) /\ (Unpadded(c) > 0 => Rank(c) >= 1 /\ c.exps[1] = 0)
  /\ \A i \in DOMAIN c.exps : c.exps[i] \in Nat
  /\ c.p \in Nat \ {0} /\ c.eexp \in Nat /\ c.rel \in BOOLEAN /\ c.dt \in {"f64", "f32"}
  /\ IF c.method = "lobpcg"             \* jax.experimental lobpcg_standard needs n > 5k;
     THEN c.k >= 1 /\ c.n > 5 * c.k     \* the first k unit vectors are the search directions
          /\ Unpadded(c) >= c.k
     ELSE c.k = 0

Lattice(Ns, Spreads, Scales, Ps, Eexps, Rels, Meths, Dts) ==
  UNION {UNION {{c \in [method : Meths, n : {n}, ps : {ps}, fill : Fills(n, ps),
                        exps : Spectra(IF ps = -1 THEN n ELSE ps, Spreads), c : Scales,
                        p : Ps, eexp : Eexps, rel : Rels, k : {0, 2, 3}, dt : Dts]
                  : CaseOK(c)}
                : ps \in PsOptions(n)} : n \in Ns}

(***************************************************************************)
(* Numbers the rules are stated in                                          *)
(***************************************************************************)
LamMax(c) == DPow10(c.c)                                    \* largest eigenvalue, 10^c
AMin(c)   == IF Rank(c) < Unpadded(c) THEN DZero            \* smallest eigenvalue of the block
             ELSE DPow10(c.c - MaxOf(c.exps))
Floor(c)  == DPow10(-FloorExp(c))
\* the whole spectrum lies at or below the floor: max(lambda_hat, floor) = floor whatever
\* the power iteration returned (lambda_hat <= lambda_max is a Rayleigh quotient)
LamMaxBelowFloor(c) == c.c <= -FloorExp(c)

\* The ridge as a symbolic value: epsilon * Base * Escalation^k
RidgeSym(b, k) == [base |-> b, k |-> k]
\* and as a number, given the estimate (rounded up) where the base needs it
RidgeUp(c, d, lamUp) ==
  LET b == CASE d.base = "abs" -> DOne
             [] d.base = "rel_floor" -> Floor(c)
             [] d.base = "rel_lam" -> lamUp
             [] OTHER -> DZero
  IN DShift(b, d.k - c.eexp)                 \* * 10^-eexp * 10^k : exact

\* lower bound of cond(A + dI) on the unpadded block: max(1, lambda_max / (lambda_min + d)); without
\* the max the bound falls below 1 when the ridge dominates the matrix (scale 1e-9, absolute ridge
\* 1e-6) and the slack below the rounding of the identity itself - no condition number is < 1
CondLo(c, d, lamUp) == DMax(DOne, DMulDown(LamMax(c), DInvDown(DAddDown(AMin(c), RidgeUp(c, d, lamUp)))))

\* rounding slack  SlackC * n * p * u * cond(A + dI),  u = 2^-53 >= 1.11022302e-16.
\* SlackC: over 47 000 lattice cases the measured excess of the residual over the figure stays
\* below 14 * n * p * u * cond for cond <= 1e13 (worst: Newton, n = 2, p = 8); 1000 leaves > 70x.
SlackC == 1000
ULo == <<111022302, -24>>
Slack(c, d, lamUp) == DMulDown(DMulDown(DFromInt(SlackC * c.n * c.p), ULo), CondLo(c, d, lamUp))
\* The numerical clause is stated for cond(A + dI) <= 1e13 (the property quantifies over spreads
\* up to 1e8 after the ridge; the lattice reaches 1e12 with epsilon = 1e-12 on rank-deficient
\* input).  Beyond that u * cond approaches 1 and float64 carries no information about X^p (A+dI).
\* CondLo is a lower bound, so borderline cases are judged rather than skipped.
NumDomain(c, d, lamUp) == DLe(CondLo(c, d, lamUp), DPow10(13))

\* a float32 report r stands for some real in r * (1 -+ 2^-23);  2^-23 >= 1.192e-7
TwoM23Lo == <<119200000, -15>>
F32Up(x) == DAddDown(x, DMulDown(x, TwoM23Lo))

(***************************************************************************)
(* C01, numerical clause.  figDown: reported figure rounded down; measUp:    *)
(* max | X^p (A + dI) - I | on the unpadded block, measured in float64 for    *)
(* the ridge d of this module (for SOME real in the interval the reports      *)
(* stand for), rounded up.                                                    *)
(***************************************************************************)
Honest(c, d, lamUp, figDown, measUp) ==
  DLe(measUp, DAddDown(F32Up(figDown), Slack(c, d, lamUp)))

(***************************************************************************)
(* Actions                                                                  *)
(***************************************************************************)
InitRest ==
  /\ pc = "call" /\ matrows = {} /\ ident = {} /\ ridged = {}
  /\ lamk = "unset" /\ base = "unset" /\ tries = 0 /\ last = "none"
  /\ kused = 0 /\ kref = 0 /\ figsrc = "none" /\ figcls = "none"
  /\ xzero = FALSE /\ accepted = FALSE
Init == case \in Cases /\ InitRest

\* `matrix *= ix[None,:]; matrix *= ix[:,None]; identity *= ix`  (nothing if padding_start is None)
Mask ==
  /\ pc = "call"
  /\ matrows' = 1..Unpadded(case)
  /\ ident' = 1..Unpadded(case)
  /\ pc' = IF case.method = "lobpcg" THEN "deflate" ELSE "estimate"
  /\ UNCHANGED <<case, ridged, lamk, base, tries, last, kused, kref, figsrc, figcls, xzero, accepted>>

\* lobpcg_standard on the masked matrix, top-k directions subtracted down to the k-th eigenvalue
Deflate ==
  /\ pc = "deflate"
  /\ pc' = "estimate"
  /\ UNCHANGED <<case, matrows, ident, ridged, lamk, base, tries, last, kused, kref, figsrc, figcls,
                 xzero, accepted>>

\* max_ev: 1.0 (absolute), max LOBPCG Ritz value, or power_iteration.  On an all-padding input the
\* masked start vector is 0 and the estimate is 0/0 = NaN today; 0 would be as good (the result
\* is overridden), so both are admitted.  bf: the estimate is below the floor.
Estimate(lk, bf) ==
  /\ pc = "estimate"
  /\ IF ~case.rel THEN lk = "one" /\ ~bf
     ELSE IF matrows = {} THEN lk \in {"nan", "zero"} /\ bf = (lk = "zero")
     ELSE /\ lk = "pos"
          /\ LamMaxBelowFloor(case) => bf
          \* eigh: the power iteration runs to 1e-6, so lambda_hat >= lambda_max * (1 - 1e-4)
          \* whenever lambda_max is above the floor 1e-6 (assumption PI, see InvRoot_Trace)
          /\ case.method = "eigh" /\ bf => LamMaxBelowFloor(case)
  /\ lamk' = lk
  /\ base' = IF lk = "one" THEN "abs" ELSE IF lk = "nan" THEN "nan"
             ELSE IF bf THEN "rel_floor" ELSE "rel_lam"
  /\ pc' = IF case.method = "eigh" THEN "decompose"
           ELSE IF case.n = 1 THEN "size1" ELSE "loop"
  /\ UNCHANGED <<case, matrows, ident, ridged, tries, last, kused, kref, figsrc, figcls, xzero, accepted>>

\* matrix_size == 1: closed form, no retry loop, the true residual is reported.
\* `damped_matrix = matrix + ridge_epsilon`: the ridge is added WITHOUT the masked identity
Size1 ==
  /\ pc = "size1"
  /\ tries' = 0 /\ kused' = 0 /\ kref' = 0 /\ last' = "none"
  /\ ridged' = 1..case.n
  /\ figsrc' = "size1_residual"
  /\ pc' = "report"
  /\ UNCHANGED <<case, matrows, ident, lamk, base, figcls, xzero, accepted>>

\* one pass of _outer_body_fn: attempt i = tries (0-based) damps with ridge * 10**i
Attempt(cls) ==
  /\ pc = "loop"
  /\ tries < MaxTries /\ (tries = 0 \/ last = "big")         \* _outer_iter_condition_fn
  /\ matrows = {} => cls = "nan"                              \* z = (1+p) / (2 * 0)
  /\ tries' = tries + 1 /\ kused' = tries /\ last' = cls
  /\ ridged' = ident                                          \* + ridge * 10**i * identity
  /\ UNCHANGED <<case, pc, matrows, ident, lamk, base, kref, figsrc, figcls, xzero, accepted>>

ExitLoop ==
  /\ pc = "loop" /\ tries >= 1
  /\ ~(last = "big" /\ tries < MaxTries)
  /\ IF case.method = "lobpcg"
     THEN pc' = "redeflate" /\ UNCHANGED <<figsrc, kref>>
     ELSE pc' = "report" /\ figsrc' = "tracked_error" /\ kref' = kused
  /\ UNCHANGED <<case, matrows, ident, ridged, lamk, base, tries, last, kused, figcls, xzero, accepted>>

\* LOBPCG variant: the removed directions are put back with _pth_root_difference; the figure
\* is recomputed against original_matrix + ridge * identity  (NO escalation factor)
Redeflate ==
  /\ pc = "redeflate"
  /\ figsrc' = "unconditioned_residual" /\ kref' = 0
  /\ pc' = "report"
  /\ UNCHANGED <<case, matrows, ident, ridged, lamk, base, tries, last, kused, figcls, xzero, accepted>>

\* eigh of matrix + ridge * identity, eigenvalues of padding zeroed, the rest clipped at ridge
Decompose ==
  /\ pc = "decompose"
  /\ tries' = 0 /\ kused' = 0 /\ kref' = 0 /\ last' = "none"
  /\ ridged' = ident                                          \* matrix + ridge * identity
  /\ figsrc' = "eigendecomposition_residual"
  /\ pc' = "report"
  /\ UNCHANGED <<case, matrows, ident, lamk, base, figcls, xzero, accepted>>

\* inverse_pth_root_errors (float32).  The tracked error of the Newton route is the very
\* number the retry loop compared with 0.05 < threshold.
Report(fc) ==
  /\ pc = "report" /\ fc \in FigCls
  /\ figsrc = "tracked_error" =>
       /\ last = "small" => fc = "below"
       /\ last = "nan" => fc = "nan"
       /\ last = "big" => fc \in {"below", "atabove", "inf"}
  /\ figcls' = fc
  /\ pc' = "override"
  /\ UNCHANGED <<case, matrows, ident, ridged, lamk, base, tries, last, kused, kref, figsrc, xzero, accepted>>

\* `jnp.where(padding_start == 0, 0.0, ..)` on result and error (only if padding_start is given)
Override ==
  /\ pc = "override"
  /\ IF AllPad(case) THEN xzero' = TRUE /\ figcls' = "zero"
     ELSE UNCHANGED <<xzero, figcls>>
  /\ pc' = "gate"
  /\ UNCHANGED <<case, matrows, ident, ridged, lamk, base, tries, last, kused, kref, figsrc, accepted>>

\* the caller's gate: error < threshold (threshold > 0)
Gate ==
  /\ pc = "gate"
  /\ accepted' = (figcls \in {"below", "zero"})
  /\ pc' = "done"
  /\ UNCHANGED <<case, matrows, ident, ridged, lamk, base, tries, last, kused, kref, figsrc, figcls, xzero>>

Next == \/ Mask \/ Deflate \/ Size1 \/ ExitLoop \/ Redeflate \/ Decompose \/ Override \/ Gate
        \/ \E lk \in {"one", "pos", "zero", "nan"}, bf \in BOOLEAN : Estimate(lk, bf)
        \/ \E cls \in ErrCls : Attempt(cls)
        \/ \E fc \in FigCls : Report(fc)

Spec == Init /\ [][Next]_vars

(***************************************************************************)
(* The value the call denotes                                               *)
(***************************************************************************)
\* ridge actually inside the returned matrix / ridge the reported figure refers to
RidgeUsed == RidgeSym(base, kused)
RidgeRef  == RidgeSym(base, kref)
\* X = Q diag( Root(p, a_i + d) ) Q^T on ident, exactly zero elsewhere
Denotes == [root |-> case.p, exps |-> case.exps, scale |-> case.c, on |-> ridged,
            ridge |-> RidgeUsed, clip |-> case.method = "eigh", zero |-> xzero]

(***************************************************************************)
(* Properties                                                               *)
(***************************************************************************)
AfterLoop == {"redeflate", "report", "override", "gate", "done"}

TypeOK ==
  /\ CaseOK(case)
  /\ pc \in {"call", "deflate", "estimate", "size1", "loop", "decompose", "redeflate",
             "report", "override", "gate", "done"}
  /\ matrows \subseteq 1..case.n /\ ident \subseteq 1..case.n /\ ridged \subseteq 1..case.n
  /\ lamk \in {"unset", "one", "pos", "zero", "nan"}
  /\ base \in {"unset", "abs", "rel_lam", "rel_floor", "nan"}
  /\ tries \in 0..MaxTries /\ last \in ErrCls \cup {"none"}
  /\ kused \in 0..(MaxTries - 1) /\ kref \in 0..(MaxTries - 1)
  /\ figcls \in FigCls \cup {"none", "zero"}
  /\ xzero \in BOOLEAN /\ accepted \in BOOLEAN

RetriesBound     == tries <= MaxTries
BigMeansExhausted == pc \in AfterLoop /\ last = "big" => tries = MaxTries
EarlyMeansNotBig  == pc \in AfterLoop /\ tries \in 1..(MaxTries - 1) => last # "big"
\* the ridge inside the result is d * 10^(total_retries - 1); 1x1 and eigh never escalate;
\* the LOBPCG figure refers to the un-escalated ridge
RidgeConsistent  == pc \in AfterLoop =>
                      /\ kused = IF tries = 0 THEN 0 ELSE tries - 1
                      /\ kref = IF case.method = "lobpcg" THEN 0 ELSE kused
\* relative epsilon is never applied to NaN or dropped silently; absolute never uses the estimate
BaseConsistent   == pc \notin {"call", "deflate", "estimate"} =>
                      /\ case.rel = (base \in {"rel_lam", "rel_floor", "nan"})
                      /\ base = "nan" => case.rel /\ AllPad(case)
                      /\ LamMaxBelowFloor(case) /\ case.rel /\ ~AllPad(case) => base = "rel_floor"
IdentityMasked   == case.ps # -1 => ident \cap ((case.ps + 1)..case.n) = {}
\* padding never receives ridge - except in the 1x1 branch on an all-padding input, where the
\* ridge is added without the identity and the result is overridden by zeros anyway
PaddingNoRidge   == case.ps # -1 /\ ~AllPad(case) => ridged \cap ((case.ps + 1)..case.n) = {}
RidgeOnlyIfOverridden == pc = "done" /\ case.ps # -1 /\ ridged \cap ((case.ps + 1)..case.n) # {} => xzero
MaskAgrees       == pc # "call" => matrows = ident
AcceptedFinite   == accepted => figcls \in {"below", "zero"}
AllPadZero       == pc \in {"gate", "done"} /\ AllPad(case) => xzero /\ figcls = "zero"
OnlyAllPadZero   == xzero => AllPad(case)
Size1NoRetry     == pc \in AfterLoop /\ case.n = 1 => tries = 0
EighNoRetry      == case.method = "eigh" => tries = 0
FigureSource     == pc \in {"report", "override", "gate", "done"} =>
                      figsrc = CASE case.method = "eigh" -> "eigendecomposition_residual"
                                 [] case.method = "lobpcg" /\ case.n > 1 -> "unconditioned_residual"
                                 [] case.n = 1 -> "size1_residual"
                                 [] OTHER -> "tracked_error"
\* no behaviour gets stuck before the gate
Progress         == pc # "done" => ENABLED Next
=============================================================================
