---- MODULE TFTerms_Trace ----
(* Trace validation (code -> spec) for the TFTerms chain machine by coefficient probing, as in   *)
(* DSTerms_Trace: with the SGD graft and a start step that is never reached (or a masked          *)
(* parameter) the Tearfree update is exactly linear in gradients and parameter; the harness        *)
(* measures the coefficients on the real optimizer (dyadic, exact in float32) and this module      *)
(* compares them with the machine's after every Step.                                              *)
EXTENDS TFTerms, Json, IOUtils
Traces == JsonDeserialize(IOEnv.TRACE_FILE)
VARIABLES tid, bad
tvars == <<vars, tid, bad>>
Tr == Traces[tid]
AsD(x) == <<x[1], x[2]>>
Verdict(u, t) ==
  IF \E s \in 1..Tr.T : u[<<"S", s>>] # D0 THEN "machine_emitted_a_preconditioned_symbol"
  ELSE IF \E s \in 1..Tr.T : u[<<"F", s>>] # AsD(Tr.coef[t][s]) THEN "gradient_coefficient_differs_from_machine"
  ELSE IF u[<<"X">>] # AsD(Tr.cx[t]) THEN "parameter_coefficient_differs_from_machine"
  ELSE "ok"
TraceInit == /\ tid \in 1..Len(Traces) /\ bad = "ok"
             /\ cfg = Traces[tid].cfg /\ count = 0 /\ lrcount = 0
             /\ stat = [s \in Steps |-> D0] /\ root = IdRoot(Steps)
             /\ gacc = [s \in Steps |-> D0] /\ trace = Z /\ upd = Z /\ sdef = <<>>
TraceStep == /\ bad = "ok" /\ count < Tr.T /\ Step /\ bad' = Verdict(upd', count + 1) /\ UNCHANGED tid
TraceSpec == TraceInit /\ [][TraceStep]_tvars
Finished == count = Tr.T \/ bad # "ok"
EmitVerdict == Finished => PrintT("@@V " \o ToJson([tid |-> tid, l |-> count + 1, verdict |-> bad]))
====
