---- MODULE Blocks_MC ----
EXTENDS Blocks
\* parameter trees: 1..3 parameters with 1..4 blocks each
MC_Layouts == UNION {[1..n -> 1..4] : n \in 1..3}
====
