SPECIFICATION Spec
CONSTANTS
  Cfgs <- MCV_Cfgs
INVARIANT TypeOK
INVARIANT Cover
INVARIANT StepBound
INVARIANT NuBelowAcc
INVARIANT Tight
INVARIANT Rank1Exact
PROPERTY Mono
PROPERTY MonoDecay
PROPERTY CountStep
CHECK_DEADLOCK FALSE
