---- MODULE Quant_Gen ----
(* Export for replay into QuantizedValue.from_float_value / to_float (spec -> code).  *)
(* The deterministic prefix of the quantiser (ExtractDiagonal, Scale) is executed by  *)
(* the spec's own actions; at pc = "round" the SET of payloads the Round action may   *)
(* choose from is exported (entrywise minimum and maximum of Allowed - the set is     *)
(* {lo} or {lo, lo+1}), so that the real payload is judged by exact membership.       *)
(*  col: the full lattice column -m..m (a rank-1 tensor of length 2m+1) for every m   *)
(*       in GenMax: [kind, N, m, lo (indexed by v+m+1), amb (the near-tie entries v)] *)
(*  mat: small matrices with / without extract_diagonal:                              *)
(*       [kind, N, ed, x, diag, off, mx, lo, hi]                                      *)
EXTENDS Quant, Json, Randomization
CONSTANTS GenMax, GenShapes, GenVals, SampleK

Lattice(m) == [i \in 1..(2 * m + 1) |-> <<i - m - 1>>]
ColInit == \E m \in GenMax : InitWith(Lattice(m), FALSE)
GNext == ExtractDiagonal \/ Scale
ColSpec == ColInit /\ [][GNext]_vars
EmitCol == pc = "round" =>
  PrintT("@@GEN " \o ToJson(
    [kind |-> "col", N |-> N, m |-> mx[1],
     lo |-> [i \in Rows |-> SetMin(AllowedAt(i, 1))],
     amb |-> {x[i][1] : i \in {j \in Rows : Cardinality(AllowedAt(j, 1)) = 2}}]))

MatInit == \E sh \in GenShapes : \E t \in [1..sh[1] -> [1..sh[2] -> GenVals]] :
             \E flag \in BOOLEAN : (flag => sh[1] = sh[2]) /\ InitWith(t, flag)
MatSpec == MatInit /\ [][GNext]_vars
EmitMat == pc = "round" =>
  PrintT("@@GEN " \o ToJson(
    [kind |-> "mat", N |-> N, ed |-> ed, x |-> x, diag |-> diag, off |-> off, mx |-> mx,
     lo |-> [r \in Rows |-> [c \in Cols |-> SetMin(AllowedAt(r, c))]],
     hi |-> [r \in Rows |-> [c \in Cols |-> SetMax(AllowedAt(r, c))]]]))

\* a random sample (TLC -seed) of SampleK larger matrices per shape and flag
SampleInit == \E sh \in GenShapes : \E flag \in BOOLEAN :
                \E fl \in RandomSubset(SampleK, [1..(sh[1] * sh[2]) -> GenVals]) :
                  /\ flag => sh[1] = sh[2]
                  /\ InitWith([i \in 1..sh[1] |-> [j \in 1..sh[2] |-> fl[(i - 1) * sh[2] + j]]], flag)
SampleSpec == SampleInit /\ [][GNext]_vars

\* quick / thorough lattices (the thorough ones are those of Quant_MC)
G8_Max  == (1..300) \cup {126, 127, 128, 253, 254, 255, 380, 381, 382, 508, 635, 1016, 2032, 32767, 65535}
G16_Max == (1..300) \cup {217, 434, 1057, 2114, 4681, 9362, 10922, 10923, 16383, 16384, 32767, 32768}
G8T_Max  == G8_Max \cup {32766, 32768, 65534} \cup (301..700)
G16T_Max == G16_Max \cup {32766} \cup (301..700)
G_Shapes == {<<2, 2>>}
G_Vals == {-3, -1, 0, 2, 5}
GT_Shapes == {<<2, 2>>, <<3, 2>>}
GS_Shapes == {<<3, 3>>, <<2, 3>>, <<4, 4>>, <<5, 2>>}
GS_Vals == (-40)..40
====
