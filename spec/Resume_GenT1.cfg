SPECIFICATION GSpec
CONSTANTS
  T = 8
  MaxCrashes = 1
  MaxSaves = 1
  Cads <- One
  Impl = "state"
INVARIANT Emit
CHECK_DEADLOCK FALSE
