SPECIFICATION GSpec
CONSTANTS
  Cases <- GENT2_Cases
  MapMax = 512
INVARIANT Emit
CHECK_DEADLOCK TRUE
