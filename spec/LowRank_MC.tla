---- MODULE LowRank_MC ----
(* Exhaustive configuration of LowRank.tla: every admissible size / rank / padding.   *)
EXTENDS LowRank
MaxD == 12
MC_PackCfgs == {[d |-> dd, r |-> rr] : dd \in 4..MaxD, rr \in 1..(MaxD - 3)} \cap
               {c \in [d : 4..MaxD, r : 1..(MaxD - 3)] : c.r + 2 < c.d}
Ranks == {x \in (3 - MaxD)..(MaxD - 3) : x # 0}
MC_RootCfgs == {c \in [d : 4..MaxD, rank : Ranks, ps : 1..MaxD] :
                  /\ c.ps <= c.d /\ c.ps >= c.d - 3 /\ ShouldCompress(c.rank, c.ps)}
Dims == {3, 4, 6, 7}
Shapes == {<<a>> : a \in Dims} \cup {<<a, b>> : a \in Dims, b \in Dims}
          \cup {<<a, b, c>> : a \in Dims, b \in Dims, c \in Dims}
MC_ApplyCfgs == {[shape |-> s, ptype |-> t, r |-> rr] : s \in Shapes, t \in {"ALL", "INPUT", "OUTPUT"}, rr \in 1..3}
====
