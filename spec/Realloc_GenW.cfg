SPECIFICATION GSpec
CONSTANTS
  MaxN = 2
  Scores <- GENW_Scores
  Dims <- GENW_Dims
  Bases <- GENW_Bases
  ExactInputs = TRUE
INVARIANT Emit
INVARIANT NoAssert
CHECK_DEADLOCK FALSE
