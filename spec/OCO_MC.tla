---- MODULE OCO_MC ----
EXTENDS OCO
Deltas == {<<0, 1>>, <<1, 2>>}
Mk(algs, ds, ks, deltas, tm) ==
  {[alg |-> a, d |-> d, k |-> k, dN |-> dl[1], dD |-> dl[2], lrN |-> 1, lrD |-> 4, tmax |-> tm] :
     a \in algs, d \in ds, k \in ks, dl \in deltas}
Plain(tm) == Mk({"OGD", "ADA"}, {2}, {0}, Deltas \cup {<<1, 1>>}, tm)
\* quick: d = 3 to depth 4, d = 4 to depth 3
MC_Cfgs == Mk(Sketched, {3}, {2, 3}, Deltas, 4) \cup Mk(Sketched, {4}, {2, 3}, Deltas, 3) \cup Plain(4)
MC_Masses == {0, 1, 4}
MC_GVals  == {-2, 0, 1}
\* thorough: d = 3 to depth 5 (three deltas), d = 4 (sketch sizes 2..4) to depth 4; ~2.1e6 states
MCT_Cfgs == Mk(Sketched, {3}, {2, 3}, Deltas \cup {<<3, 1>>}, 5)
            \cup Mk(Sketched, {4}, {2, 3, 4}, Deltas, 4) \cup Plain(5)
MCT_Masses == {0, 1, 4}
====
