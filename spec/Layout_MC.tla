----------------------------- MODULE Layout_MC -----------------------------
(* Exhaustive configurations for Layout.tla (no history variables).           *)
(* The option space is covered by *slices*: each slice is the full product of  *)
(* the axes that interact for one aspect of the layout, the other axes pinned. *)
(*   A  shapes      : compression x type x skip rules x block size x merging   *)
(*                    x mode/devices x every tree template                      *)
(*   B  leaf kinds  : graft x FD/avg/reuse/reset (all 16) x metrics x memory    *)
(*                    reduction x intervals x mode x compression                *)
(*   TF-A / TF-B, SM3, TFSO analogously                                         *)
(* Layout_MC.cfg = quick, Layout_MCT.cfg = thorough (wider value sets).         *)
EXTENDS Layout

F32(shapes) == [shapes |-> shapes, dtype |-> "float32", x64 |-> FALSE]
F64(shapes) == [shapes |-> shapes, dtype |-> "float64", x64 |-> TRUE]
X64F32(shapes) == [shapes |-> shapes, dtype |-> "float32", x64 |-> TRUE]

(* parameter-tree templates: ranks 0..4, unit dimensions, several parameters   *)
ShapeSets ==
  { << <<4, 3>>, <<5>> >>,
    << <<>>, <<1>>, <<1, 1>> >>,
    << <<2, 3, 2>>, <<8>> >>,
    << <<2, 1, 3, 2>> >>,
    << <<8, 6>>, <<3>>, <<>> >>,
    << <<1, 4>>, <<4, 1>> >>,
    << <<3, 3>> >>,
    << <<2, 2, 2, 2>> >>,
    << <<5, 1, 1>>, <<2, 2>> >>,
    << <<7>>, <<1, 3, 1, 2>> >>,
    << <<4, 4>>, <<2, 2, 2>> >>,
    << <<>> >> }
FewShapeSets == { << <<4, 3>>, <<5>>, <<>> >>, << <<8, 6>>, <<1, 1>> >>, << <<2, 3, 2>> >> }

Trees    == {F32(s) : s \in ShapeSets}
FewTrees == {F32(s) : s \in FewShapeSets}
TreesT    == Trees \cup {F64(s) : s \in ShapeSets}
FewTreesT == FewTrees \cup {F64(s) : s \in FewShapeSets} \cup {X64F32(s) : s \in FewShapeSets}

Modes == { [mode |-> "plain", D |-> 1], [mode |-> "pmap", D |-> 2],
           [mode |-> "shard", D |-> 1], [mode |-> "shard", D |-> 2], [mode |-> "shard", D |-> 3] }
Merges == { [merge |-> FALSE, merge_bs |-> 4096], [merge |-> TRUE, merge_bs |-> 2],
            [merge |-> TRUE, merge_bs |-> 4], [merge |-> TRUE, merge_bs |-> 4096] }
Intervals == { [S |-> 1, P |-> 1], [S |-> 2, P |-> 2], [S |-> 1, P |-> 2] }

DSCfg(graft, rank, fd, avg, reuse, reset, ptype, srl, sdg, metrics, fdm, memred, bs, mg, sp, md) ==
  [graft |-> graft, rank |-> rank, fd |-> fd, avg |-> avg, reuse |-> reuse, reset |-> reset,
   ptype |-> ptype, skip_rank_lt |-> srl, skip_dim_gt |-> sdg, metrics |-> metrics,
   fd_metrics |-> fdm, memred |-> memred, bs |-> bs, merge |-> mg.merge, merge_bs |-> mg.merge_bs,
   S |-> sp.S, P |-> sp.P, mode |-> md.mode, D |-> md.D, lobpcg |-> 0, eigh |-> FALSE]

DS_A(ranks, srls, bss, merges, modes) ==
  { DSCfg("SGD", rank, fd, fd, fd, FALSE, ptype, srl, sdg, TRUE, TRUE, FALSE, bs, mg,
          [S |-> 1, P |-> 1], md) :
      rank \in ranks, fd \in BOOLEAN, ptype \in {"ALL", "INPUT", "OUTPUT"}, srl \in srls,
      sdg \in {2, 4096}, bs \in bss, mg \in merges, md \in modes }

DS_B(grafts, ranks, bss, sps, modes) ==
  { DSCfg(graft, rank, fd, avg, reuse, reset, "ALL", srl, 4096, metrics, fdm, memred, bs,
          [merge |-> TRUE, merge_bs |-> 4096], sp, md) :
      graft \in grafts, rank \in ranks, fd \in BOOLEAN, avg \in BOOLEAN, reuse \in BOOLEAN,
      reset \in BOOLEAN, srl \in {1, 2}, metrics \in BOOLEAN, fdm \in BOOLEAN,
      memred \in BOOLEAN, bs \in bss, sp \in sps, md \in modes }

AllGrafts == {"NONE", "SGD", "ADAGRAD", "RMSPROP", "RMSPROP_NORMALIZED", "SQRT_N", "ADAGRAD_NORMALIZED"}

DSCases(cfgs, trees) == {[opt |-> "ds", cfg |-> c, tree |-> t] : c \in cfgs, t \in trees}

(* ---- SM3 ------------------------------------------------------------------ *)
SM3Cfgs == {[beta1_8 |-> b1, beta2_8 |-> b2, wd_8 |-> wd, normalize |-> nm, sched |-> "none"] :
              b1 \in {0, 4}, b2 \in {4, 8}, wd \in {0, 1}, nm \in BOOLEAN}
SM3Cases(trees) == {[opt |-> "sm3", cfg |-> c, tree |-> t] : c \in SM3Cfgs, t \in trees}

(* ---- Tearfree ---------------------------------------------------------------- *)
TFCfg(so, bs, md, graft, sr1, sdg, skr, ggt, ekf, gd, epsn, mf, clip, mom, ema, wd, wda, sched, sf, dec) ==
  [so |-> so, bs |-> bs, PF |-> sf, SF |-> sf, decay_8 |-> dec, sk_rank |-> skr, add_ggt |-> ggt,
   ekfac |-> ekf, lin_tail |-> FALSE, graft |-> graft, graft_decay_8 |-> gd, Start |-> 1,
   skip_dim_gt |-> sdg, skip_rank1 |-> sr1, min_factor |-> mf, param_scale |-> FALSE,
   clip_8 |-> clip, graft_eps_neg |-> epsn, merge_dims |-> md, ema |-> ema, nesterov |-> TRUE,
   mom_8 |-> mom, wd_8 |-> wd, wd_after |-> wda, sched |-> sched]

TF_A(bss, mds, skrs) ==
  { TFCfg(so, bs, md, graft, sr1, sdg, skr, ge, ge, 6, FALSE, 128, 8, 4, FALSE, 0, TRUE, "none", 1, 8) :
      so \in {"shampoo", "sketchy"}, bs \in bss, md \in mds, graft \in {"NONE", "SGD"},
      sr1 \in BOOLEAN, sdg \in {3, 4096}, skr \in skrs, ge \in BOOLEAN }

TF_B ==
  { TFCfg(so, 4, 1024, graft, TRUE, 4096, 2, FALSE, FALSE, gd, epsn, mf, clip, mom, ema, wd, wda, sched, sf, dec) :
      so \in {"shampoo", "sketchy"}, graft \in {"NONE", "SGD", "RMSPROP", "ADAFACTOR"},
      gd \in {0, 6, 8}, epsn \in BOOLEAN, mf \in {0, 2}, clip \in {4, 8}, mom \in {0, 4, 12},
      ema \in BOOLEAN, wd \in {0 - 1, 0, 1}, wda \in BOOLEAN, sched \in {"none", "lin16"},
      sf \in {0, 2}, dec \in {8, 12} }

TFCases(cfgs, trees) == {[opt |-> "tf", cfg |-> c, tree |-> t] : c \in cfgs, t \in trees}

TFSOCfgs ==
  { TFCfg(so, bs, 1024, "NONE", FALSE, 4096, skr, ggt, ggt, 6, FALSE, 128, 8, 0, FALSE, 0, TRUE, "none", sf, dec) :
      so \in {"shampoo", "sketchy"}, bs \in {1, 2, 3, 4}, skr \in {0, 1, 2}, ggt \in BOOLEAN,
      sf \in {0, 1, 2}, dec \in {4, 8, 12} }
TFSOCases(trees) == {[opt |-> "tfso", cfg |-> c, tree |-> t] : c \in TFSOCfgs, t \in trees}

(* ---- quick ---------------------------------------------------------------------- *)
MC_Cases ==
  DSCases(DS_A({0, 1, 2, 0 - 1, 0 - 2}, {0, 1, 2, 3}, {1, 2, 3, 8}, Merges, Modes), Trees)
  \cup DSCases(DS_B({"SGD", "ADAGRAD", "RMSPROP_NORMALIZED"}, {0, 1, 0 - 2}, {2, 8}, Intervals, Modes), FewTrees)
  \cup SM3Cases(Trees)
  \cup TFCases(TF_A({0, 1, 2, 3, 4, 1024}, {1, 2, 4, 1024}, {0, 1, 2, 8}), Trees)
  \cup TFCases(TF_B, FewTrees)
  \cup TFSOCases(Trees)

(* ---- thorough --------------------------------------------------------------------- *)
MCT_Cases ==
  DSCases(DS_A({0, 1, 2, 3, 0 - 1, 0 - 2, 0 - 3}, {0, 1, 2, 3, 4}, {1, 2, 3, 4, 8}, Merges, Modes), TreesT)
  \cup DSCases(DS_B(AllGrafts, {0, 1, 2, 0 - 1, 0 - 2}, {1, 2, 8},
                    Intervals \cup {[S |-> 2, P |-> 1]}, Modes), FewTreesT)
  \cup SM3Cases(TreesT \cup {X64F32(s) : s \in ShapeSets})
  \cup TFCases(TF_A({0, 1, 2, 3, 4, 8, 1024}, {1, 2, 3, 4, 8, 1024}, {0, 1, 2, 3, 8}), TreesT)
  \cup TFCases(TF_B, FewTreesT)
  \cup TFSOCases(TreesT)
=============================================================================
