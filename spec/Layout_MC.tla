----------------------------- MODULE Layout_MC -----------------------------
(* Exhaustive configurations for Layout.tla (no history variables).           *)
(* The option space is explored in *slices*: each slice is the full product    *)
(* [field : values, ...] of the axes that interact for one aspect of the        *)
(* layout, the remaining axes pinned to one value:                              *)
(*   DS_A  shapes     : compression x FD x preconditioner type x skip rules x   *)
(*                      block size x merging x mode/devices x all tree templates *)
(*   DS_B  leaf kinds : graft x FD/avg/reuse/reset (all 16) x metrics x memory   *)
(*                      reduction x intervals x mode x compression               *)
(*   TF_A / TF_B, SM3, TFSO analogously for tearfree, sm3 and tearfree's         *)
(*   second-order transforms used directly.                                      *)
(* Record sets are enumerated lazily by TLC; nothing here is a history variable. *)
(* Layout_MC.cfg = quick (MC_Slices), Layout_MCT.cfg = thorough (MCT_Slices).    *)
EXTENDS Layout

F32(shapes)    == [shapes |-> shapes, dtype |-> "float32", x64 |-> FALSE]
F64(shapes)    == [shapes |-> shapes, dtype |-> "float64", x64 |-> TRUE]
X64F32(shapes) == [shapes |-> shapes, dtype |-> "float32", x64 |-> TRUE]

(* parameter-tree templates: ranks 0..4, unit dimensions, several parameters   *)
ShapeSets ==
  { << <<4, 3>>, <<5>> >>,
    << <<>>, <<1>>, <<1, 1>> >>,
    << <<2, 3, 2>>, <<8>> >>,
    << <<2, 1, 3, 2>> >>,
    << <<8, 6>>, <<3>>, <<>> >>,
    << <<1, 4>>, <<4, 1>> >>,
    << <<3, 3>> >>,
    << <<2, 2, 2, 2>> >>,
    << <<5, 1, 1>>, <<2, 2>> >>,
    << <<7>>, <<1, 3, 1, 2>> >>,
    << <<4, 4>>, <<2, 2, 2>> >>,
    << <<>> >> }
FewShapeSets == { << <<4, 3>>, <<5>>, <<>> >>, << <<8, 6>>, <<1, 1>> >>, << <<2, 3, 2>> >> }

Trees     == {F32(s) : s \in ShapeSets}
TwoTrees  == {F32(<< <<4, 3>>, <<5>>, <<>> >>), F32(<< <<8, 6>>, <<1, 1>> >>)}
FewTrees  == {F32(s) : s \in FewShapeSets}
TreesT    == Trees \cup {F64(s) : s \in ShapeSets}
FewTreesT == FewTrees \cup {F64(s) : s \in FewShapeSets} \cup {X64F32(s) : s \in FewShapeSets}

AllGrafts == {"NONE", "SGD", "ADAGRAD", "RMSPROP", "RMSPROP_NORMALIZED", "SQRT_N", "ADAGRAD_NORMALIZED"}
PTypes    == {"ALL", "INPUT", "OUTPUT"}
(* plain mode has no devices and the pmap layout does not depend on their number  *)
(* (one leading axis, stripped): only sharded mode is explored for several counts *)
Local     == {"plain", "pmap"}
Sharded   == {"shard"}
Neg(n)    == 0 - n

DS_A(ranks, srls, bss, mbss, modes, ds) ==
  [graft : {"SGD"}, rank : ranks, fd : BOOLEAN, avg : {FALSE}, reuse : {TRUE}, reset : {FALSE},
   ptype : PTypes, skip_rank_lt : srls, skip_dim_gt : {2, 4096}, metrics : {TRUE},
   fd_metrics : {TRUE}, memred : {FALSE}, bs : bss, merge : BOOLEAN, merge_bs : mbss,
   S : {1}, P : {1}, mode : modes, D : ds, lobpcg : {0}, eigh : {FALSE}]

DS_B(grafts, ranks, bss, ivs, modes, ds) ==
  [graft : grafts, rank : ranks, fd : BOOLEAN, avg : BOOLEAN, reuse : BOOLEAN, reset : BOOLEAN,
   ptype : {"ALL"}, skip_rank_lt : {1, 2}, skip_dim_gt : {4096}, metrics : BOOLEAN,
   fd_metrics : BOOLEAN, memred : BOOLEAN, bs : bss, merge : {TRUE}, merge_bs : {4096},
   S : ivs, P : ivs, mode : modes, D : ds, lobpcg : {0, 1}, eigh : {FALSE}]

SM3Cfgs == [beta1_8 : {0, 4}, beta2_8 : {4, 8}, wd_8 : {0, 1}, normalize : BOOLEAN, sched : {"none"}]

TF_A(bss, mds, skrs) ==
  [so : {"shampoo", "sketchy"}, bs : bss, PF : {1}, SF : {1}, decay_8 : {8}, sk_rank : skrs,
   add_ggt : BOOLEAN, ekfac : BOOLEAN, lin_tail : {FALSE}, graft : {"NONE", "SGD"},
   graft_decay_8 : {0}, Start : {1}, skip_dim_gt : {3, 4096}, skip_rank1 : BOOLEAN,
   min_factor : {128}, param_scale : {FALSE}, clip_8 : {8}, graft_eps_neg : {FALSE},
   merge_dims : mds, ema : {FALSE}, nesterov : {TRUE}, mom_8 : {4}, wd_8 : {0},
   wd_after : {TRUE}, sched : {"none"}]

TF_B ==
  [so : {"shampoo", "sketchy"}, bs : {4}, PF : {0, 2}, SF : {1}, decay_8 : {8, 12}, sk_rank : {2},
   add_ggt : {FALSE}, ekfac : {FALSE}, lin_tail : {FALSE},
   graft : {"NONE", "SGD", "RMSPROP", "ADAFACTOR"}, graft_decay_8 : {0, 6, 8}, Start : {1},
   skip_dim_gt : {4096}, skip_rank1 : {TRUE}, min_factor : {0, 2}, param_scale : {FALSE},
   clip_8 : {4, 8}, graft_eps_neg : BOOLEAN, merge_dims : {1024}, ema : BOOLEAN,
   nesterov : {TRUE}, mom_8 : {0, 4, 12}, wd_8 : {Neg(1), 0, 1}, wd_after : BOOLEAN,
   sched : {"none", "lin16"}]

TFSOCfgs ==
  [so : {"shampoo", "sketchy"}, bs : {1, 2, 3, 4}, PF : {0, 1}, SF : {0, 1, 2}, decay_8 : {4, 8, 12},
   sk_rank : {0, 1, 2}, add_ggt : BOOLEAN, ekfac : BOOLEAN, lin_tail : {FALSE}, graft : {"NONE"},
   graft_decay_8 : {0}, Start : {1}, skip_dim_gt : {4096}, skip_rank1 : {FALSE}, min_factor : {128},
   param_scale : {FALSE}, clip_8 : {8}, graft_eps_neg : {FALSE}, merge_dims : {1024}, ema : {FALSE},
   nesterov : {TRUE}, mom_8 : {0}, wd_8 : {0}, wd_after : {TRUE}, sched : {"none"}]

Slice(opt, cfgs, trees) == [opt |-> opt, cfgs |-> cfgs, trees |-> trees]

(* ---- quick ---------------------------------------------------------------------- *)
MC_Slices ==
  << Slice("ds", DS_A({0, 1, Neg(2)}, {0, 1, 3}, {1, 3, 8}, {4096}, Local, {1}), Trees),
     Slice("ds", DS_A({0, 1, Neg(2)}, {0, 1, 3}, {1, 3, 8}, {4096}, Sharded, {1, 2, 3}), Trees),
     Slice("ds", DS_B({"SGD", "RMSPROP_NORMALIZED"}, {0, 1}, {8}, {1, 2}, Local, {1}), TwoTrees),
     Slice("ds", DS_B({"SGD", "RMSPROP_NORMALIZED"}, {0, 1}, {8}, {1, 2}, Sharded, {1, 2}), TwoTrees),
     Slice("sm3", SM3Cfgs, Trees),
     Slice("tf", TF_A({0, 1, 2, 4}, {1, 2, 1024}, {0, 1, 8}), Trees),
     Slice("tf", TF_B, {F32(<< <<4, 3>>, <<5>>, <<>> >>)}),
     Slice("tfso", TFSOCfgs, FewTrees \cup {F32(<< <<2, 2, 2, 2>> >>), F32(<< <<1, 4>>, <<4, 1>> >>)}) >>

(* ---- thorough --------------------------------------------------------------------- *)
MCT_Slices ==
  << Slice("ds", DS_A({0, 1, 2, 3, Neg(1), Neg(2)}, {0, 1, 2, 3, 4}, {1, 2, 3, 4, 8}, {2, 4096}, Local, {1}), TreesT),
     Slice("ds", DS_A({0, 1, 2, 3, Neg(1), Neg(2)}, {0, 1, 2, 3, 4}, {1, 2, 3, 4, 8}, {2, 4096}, Sharded, {1, 2, 3}), Trees),
     Slice("ds", DS_B(AllGrafts, {0, 1, 2, Neg(1), Neg(2)}, {2, 8}, {1, 2}, Local, {1}), TwoTrees \cup {X64F32(<< <<4, 3>>, <<5>>, <<>> >>)}),
     Slice("ds", DS_B(AllGrafts, {0, 1, 2, Neg(1), Neg(2)}, {2, 8}, {1, 2}, Sharded, {1, 2}), TwoTrees),
     Slice("sm3", SM3Cfgs, TreesT \cup {X64F32(s) : s \in ShapeSets}),
     Slice("tf", TF_A({0, 1, 2, 3, 4, 8, 1024}, {1, 2, 3, 4, 8, 1024}, {0, 1, 2, 3, 8}), TreesT),
     Slice("tf", TF_B, FewTreesT),
     Slice("tfso", TFSOCfgs, TreesT) >>

(* ---- development ---------------------------------------------------------------------- *)
Tiny_Slices ==
  << Slice("ds", DS_A({0, 2}, {1}, {3, 8}, {4096}, Local \cup Sharded, {2}), FewTrees),
     Slice("ds", DS_B({"SGD"}, {0, 1}, {8}, {1, 2}, Local \cup Sharded, {2}), {F32(<< <<4, 3>>, <<5>>, <<>> >>)}),
     Slice("sm3", SM3Cfgs, FewTrees),
     Slice("tf", TF_A({2, 4}, {4, 1024}, {1, 2}), FewTrees),
     Slice("tfso", TFSOCfgs, FewTrees) >>
=============================================================================
