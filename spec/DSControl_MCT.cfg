SPECIFICATION Spec
CONSTANTS
  Cfgs <- MCT_Cfgs
  T = 10
  GradClasses <- MCT_Grad
  ErrClasses <- MCT_Err
INVARIANT TypeOK
INVARIANT IntervalPos
INVARIANT StatsClosedForm
INVARIANT StoredIsPrefix
INVARIANT StoredFinite
INVARIANT ModerateFinite
PROPERTY CountStep
PROPERTY StatsCadence
PROPERTY StatsAbsorb
PROPERTY RootCadence
PROPERTY MetricsFollow
PROPERTY Warmup
PROPERTY Stale
PROPERTY GateSafe
PROPERTY GateSelect
PROPERTY SentinelKeeps
PROPERTY ThrZeroFrozen
CHECK_DEADLOCK FALSE
