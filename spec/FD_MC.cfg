SPECIFICATION Spec
CONSTANTS
  Cfgs <- MC_Cfgs
  GradsOf <- MC_GradsOf
  T = 4
INVARIANT TypeOK
INVARIANT Bracket
INVARIANT NonNeg
INVARIANT RankBound
INVARIANT LowRankExact
INVARIANT FDGuarantee
INVARIANT InvDenotes
PROPERTY TailLaw
PROPERTY ZeroStep
PROPERTY KeepIsThreshold
PROPERTY TailMonotone
CHECK_DEADLOCK FALSE
