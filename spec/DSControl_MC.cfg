SPECIFICATION Spec
CONSTANTS
  Cfgs <- MC_Cfgs
  T = 8
  GradClasses <- MC_Grad
  ErrClasses <- MC_Err
INVARIANT TypeOK
INVARIANT IntervalPos
INVARIANT StatsClosedForm
INVARIANT StoredIsPrefix
INVARIANT StoredFinite
INVARIANT ModerateFinite
PROPERTY CountStep
PROPERTY StatsCadence
PROPERTY StatsAbsorb
PROPERTY RootCadence
PROPERTY MetricsFollow
PROPERTY Warmup
PROPERTY Stale
PROPERTY GateSafe
PROPERTY GateSelect
PROPERTY SentinelKeeps
PROPERTY ThrZeroFrozen
CHECK_DEADLOCK FALSE
