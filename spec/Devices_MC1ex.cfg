SPECIFICATION Spec
CONSTANTS
  Cfgs <- MC1_Ex
INVARIANT TypeOK
INVARIANT Progress
INVARIANT Correct
INVARIANT NoPadUse
INVARIANT BIntegral
INVARIANT RowMap
INVARIANT GatherOrder
INVARIANT PadMinimal
INVARIANT ShardRows
INVARIANT ElemShapeKept
PROPERTY PcOrder
PROPERTY ComputeOnce
CHECK_DEADLOCK FALSE
