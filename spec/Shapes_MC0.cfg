SPECIFICATION Spec
CONSTANTS
  MapMax = 100000
  Cases <- MC0_Cases
INVARIANT TypeOK
INVARIANT MergeProduct
INVARIANT MergeRespectsLimit
INVARIANT MergeAllOnes
INVARIANT MergeGreedy
INVARIANT MergeRankNotGrown
INVARIANT SplitSizesSound
INVARIANT SplitsAgree
INVARIANT AnnouncedCount
INVARIANT BlocksAreDecl
INVARIANT BlocksWithinBlockSize
INVARIANT BlocksBijective
INVARIANT AnnouncedAligned
INVARIANT SlotsSound
INVARIANT IdentityPreconditioning
INVARIANT DSRoundTrip
INVARIANT TFMetaSound
INVARIANT TFStatsAligned
INVARIANT TFBlockifyIsDecl
INVARIANT TFBlockifyBijective
INVARIANT TFRoundTrip
INVARIANT TFRejectionsDocumented
INVARIANT RSPadRule
INVARIANT RSComposes
INVARIANT RSMergedSound
INVARIANT RSRoundTrip
INVARIANT RSRejectionsDocumented
INVARIANT ClosedForms
PROPERTY ResultsOnlyGrow
CHECK_DEADLOCK TRUE
