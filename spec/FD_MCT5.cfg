SPECIFICATION Spec
CONSTANTS
  Cfgs <- MCT5_Cfgs
  GradsOf <- MCT5_GradsOf
  T = 5
INVARIANT TypeOK
INVARIANT Bracket
INVARIANT NonNeg
INVARIANT RankBound
INVARIANT LowRankExact
INVARIANT FDGuarantee
INVARIANT InvDenotes
PROPERTY TailLaw
PROPERTY ZeroStep
PROPERTY KeepIsThreshold
PROPERTY TailMonotone
CHECK_DEADLOCK FALSE
