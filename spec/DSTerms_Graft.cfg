SPECIFICATION GSpec
CONSTANTS
  Cfgs <- C05_Cfgs
  T = 5
INVARIANT Emit
INVARIANT GraftShapeOK
INVARIANT WarmupOK
CHECK_DEADLOCK FALSE
