SPECIFICATION GSpec
CONSTANTS
  Cases <- GEN_Cases
  MapMax = 256
INVARIANT Emit
CHECK_DEADLOCK TRUE
