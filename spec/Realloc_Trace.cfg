SPECIFICATION TraceSpec
CONSTANTS
  MaxN = 0
  Scores = {}
  Dims = {}
  Bases = {}
  ExactInputs = FALSE
INVARIANT EmitVerdict
INVARIANT RankRange
INVARIANT RankBudget
CHECK_DEADLOCK FALSE
