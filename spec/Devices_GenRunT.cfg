SPECIFICATION Spec
CONSTANTS
  Cfgs <- GEN_RunT
INVARIANT Emit
CHECK_DEADLOCK FALSE
