SPECIFICATION GSpec
CONSTANTS
  Cases <- GEN0_Cases
  MapMax = 64
INVARIANT Emit
CHECK_DEADLOCK TRUE
