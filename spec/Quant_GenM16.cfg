SPECIFICATION MatSpec
CONSTANTS
  N = 32767
  GenMax <- G16_Max
  GenShapes <- G_Shapes
  SampleK = 40
  GenVals <- G_Vals
INVARIANT EmitMat
CHECK_DEADLOCK FALSE
