SPECIFICATION GSpec
CONSTANTS
  T = 6
  MaxCrashes = 1
  MaxSaves = 1
  Cads <- One
  Impl = "state"
INVARIANT Emit
CHECK_DEADLOCK FALSE
