SPECIFICATION GSpec
CONSTANTS
  Cfgs <- GEN_Sched
  T = 24
  GradClasses = {"ok"}
  ErrClasses = {"below", "atabove", "nan", "inf"}
INVARIANT Emit
CHECK_DEADLOCK FALSE
