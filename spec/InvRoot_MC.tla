---- MODULE InvRoot_MC ----
(* Exhaustive check of the InvRoot automaton: every case of a reduced lattice (all sizes, *)
(* all padding options, all methods, both ridge rules; the dimensions that only label    *)
(* numbers - spread, scale, p, epsilon - are thinned) x every environment choice.        *)
EXTENDS InvRoot
MC_Cases  == Lattice({1, 2, 3, 5, 16}, {0, 8}, {-6, 0}, {1, 4}, {6}, BOOLEAN, Methods, {"f64"})

(* The decimal kernel the numerical clause is evaluated with, checked against exact integer    *)
(* arithmetic where that fits into 32 bits: sums are exact, products and reciprocals are lower  *)
(* bounds within 0.3 %, the order is the numerical order, scaling by 10^k is exact.            *)
ToInt(a) == IF a[1] = 0 THEN 0 ELSE IF a[2] >= 0 THEN a[1] * P10(a[2]) ELSE a[1] \div P10(-a[2])
Small == 1..160
ASSUME \A a \in Small, b \in Small :
         /\ ToInt(DAddDown(DFromInt(a), DFromInt(b * 7))) = a + b * 7
         /\ DLe(DFromInt(a), DFromInt(b)) = (a <= b)
         /\ LET ex == a * 13 * b * 17
                pr == ToInt(DMulDown(DFromInt(a * 13), DFromInt(b * 17)))
            IN pr <= ex /\ pr >= ex - (ex \div 300) - 1
ASSUME \A a \in 1..2000 :
         LET one == DMulDown(DInvDown(DFromInt(a)), DFromInt(a))
         IN DLe(one, DOne) /\ DLe(<<995000000, -9>>, one) /\ IsDec(DInvDown(DFromInt(a)))
ASSUME \A k \in 0..9 : DFromInt(P10(k)) = DPow10(k) /\ DShift(DOne, k) = DPow10(k)
ASSUME DAddDown(DPow10(0), DPow10(-12)) = DOne /\ DAddDown(DZero, DPow10(-30)) = DPow10(-30)
ASSUME IsDec(ULo) /\ IsDec(TwoM23Lo) /\ ~IsDec(<<-1, 0>>) /\ ~IsDec(<<5, 0>>)
====
