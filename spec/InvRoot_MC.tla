---- MODULE InvRoot_MC ----
(* Exhaustive check of the InvRoot automaton: every case of a reduced lattice (all sizes, *)
(* all padding options, all methods, both ridge rules; the dimensions that only label    *)
(* numbers - spread, scale, p, epsilon - are thinned) x every environment choice.        *)
EXTENDS InvRoot
MC_Cases  == Lattice({1, 2, 3, 5, 16}, {0, 8}, {-6, 0}, {1, 4}, {6}, BOOLEAN, Methods, {"f64"})
====
