SPECIFICATION TraceSpec
CONSTANTS
  Cfgs = {}
  T = 6
INVARIANT EmitVerdict
INVARIANT StatOK
INVARIANT MomOK
INVARIANT UpdOK
CHECK_DEADLOCK FALSE
