---- MODULE InvRoot_MCT ----
(* Thorough: the automaton over the FULL case lattice of DESIGN.md C01. *)
EXTENDS InvRoot
MCT_Cases == Lattice({1, 2, 3, 5, 8, 16}, {0, 2, 4, 6, 8}, {-6, 0, 6}, 1..8, {6, 12}, BOOLEAN,
                     Methods, {"f64", "f32"})
====
