---- MODULE InvRoot_MCT ----
(* Thorough: the automaton over the full case lattice of DESIGN.md C01 except that p is      *)
(* thinned to {1, 4, 8} and only one compute dtype is kept (neither enters a guard).         *)
EXTENDS InvRoot
MCT_Cases == Lattice({1, 2, 3, 5, 8, 16}, {0, 2, 4, 6, 8}, {-6, 0, 6}, {1, 4, 8}, {6, 12}, BOOLEAN,
                     Methods, {"f64"})
====
