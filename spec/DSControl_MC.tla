---- MODULE DSControl_MC ----
EXTENDS DSControl
\* quick exhaustive configuration
MC_Cfgs == [S : 1..3, P : 1..3, Start : {0, 1, 2, 4}, sched : {"none", "lin16"},
            End : {0, 20}, mode : {"rep", "pmapq", "shard"}, thr : {"zero", "pos"}]
MC_Grad == {"ok", "zero", "nan", "huge", "big"}
MC_Err  == {"below", "atabove", "nan"}
\* thorough exhaustive configuration
MCT_Cfgs == [S : 1..4, P : 1..4, Start : 0..5, sched : {"none", "lin16", "half4"},
             End : {0, 1, 20, 100}, mode : {"rep", "pmapq", "shard"}, thr : {"zero", "pos"}]
MCT_Grad == {"ok", "zero", "nan", "inf", "huge", "big"}
MCT_Err  == {"below", "atabove", "nan", "inf"}
====
