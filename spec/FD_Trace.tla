---- MODULE FD_Trace ----
(***************************************************************************)
(* Trace validation (code -> spec) for frequent directions on DENSE,        *)
(* non-commuting histories, where FD.tla's exact lattice does not apply.    *)
(*                                                                         *)
(* A trace is the life of ONE sketch (one statistic / one tensor axis):     *)
(*   {cfg: {impl, k, d, bn, bd, kind, tol, otol},                           *)
(*    events: [{lo, hi, fdg, orth, told, tnew, r, lneg, tneg, fin}]}        *)
(* All numbers are integers in units of tr(C)/10^6 of the exact discounted  *)
(* covariance C after the step (harness/workers/fd_measure.py), rounded     *)
(* against acceptance:                                                      *)
(*   lo    floor lambda_min(C - S)          S = V diag(l) V'                *)
(*   hi    floor lambda_min(S + t I - C)                                    *)
(*   fdg   floor tr C - tr S - (k+1) t                                      *)
(*   orth  ceil  10^6 * ||V'V - I_or_0||_max                                *)
(*   told, tnew  escaped mass before / after the step (nearest)             *)
(*   r     the (k+1)-th eigenvalue of the decomposed matrix (nearest)       *)
(*   lneg, tneg  exact sign tests of the stored l and t; fin: all finite     *)
(* Here numpy MEASURES and TLC COMPARES: the clauses below are FD.tla's      *)
(* invariants (Bracket, NonNeg, FDGuarantee) and action property (TailLaw)   *)
(* restated on measured margins with the tolerance carried by the trace.     *)
(***************************************************************************)
EXTENDS Integers, Sequences, TLC, Json, IOUtils
Traces == JsonDeserialize(IOEnv.TRACE_FILE)
VARIABLES tid, l, bad
tvars == <<tid, l, bad>>
Ev  == Traces[tid].events
Cfg == Traces[tid].cfg
Abs(x) == IF x < 0 THEN -x ELSE x

\* residual of the tail law, times bd (decay b = bn/bd); rounding of the three logged
\* integers contributes at most (bn + 2 bd) / 2
LawResidual(e) == Abs(Cfg.bd * e.tnew - Cfg.bn * e.told - Cfg.bd * e.r)
LawSlack       == Cfg.bd * Cfg.tol + Cfg.bn + 2 * Cfg.bd

Verdict(e) ==
  IF ~e.fin THEN "sketch_not_finite"
  ELSE IF e.lneg \/ e.tneg THEN "negative_mass"
  ELSE IF e.orth > Cfg.otol THEN "columns_not_orthonormal_or_zero"
  ELSE IF e.lo < -Cfg.tol THEN "sketch_exceeds_covariance"
  ELSE IF e.hi < -Cfg.tol THEN "covariance_exceeds_sketch_plus_tail"
  ELSE IF LawResidual(e) > LawSlack THEN "tail_law"
  ELSE IF e.fdg < -(Cfg.k + 2) * Cfg.tol THEN "fd_guarantee"
  ELSE "ok"

TraceInit == tid \in 1..Len(Traces) /\ l = 1 /\ bad = "ok"
TraceStep ==
  /\ l <= Len(Ev) /\ bad = "ok"
  /\ LET v == Verdict(Ev[l])
     IN IF v = "ok" THEN l' = l + 1 /\ bad' = "ok"
        ELSE bad' = v /\ l' = l
  /\ UNCHANGED tid
TraceSpec == TraceInit /\ [][TraceStep]_tvars
Finished == (l = Len(Ev) + 1) \/ bad # "ok"
EmitVerdict == Finished => PrintT("@@V " \o ToJson([tid |-> tid, l |-> l, verdict |-> bad]))
====
