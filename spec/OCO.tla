---- MODULE OCO ----
(***************************************************************************)
(* Online convex optimisation algorithms of precondition/oco/algorithms.py  *)
(* (generate_init_update): OGD, diagonal AdaGrad (ADA) and the four          *)
(* sketched methods S_ADA (S-AdaGrad), ADA_FD, FD_SON, RFD_SON that share     *)
(* _fd_update_fn.  One action per update function; the state variables are    *)
(* the entries of the implementation's state dict:                            *)
(*     tc     state['t']            (OGD and sketched methods)                *)
(*     h      state['diag_h']       (ADA) on integer gradients, numerators    *)
(*     hsq    the same accumulator, value-free: the set of steps s whose      *)
(*            squared gradient G(s)^2 it has absorbed (on top of delta)       *)
(*     rows   state['P'], state['e'] on the axis-aligned lattice (FDLattice)  *)
(*     alpha2 state['alpha']        as the numerator of alpha over 2*dD       *)
(*     w      state['w']            as the list of per-step terms (below)     *)
(* plus the history of inputs `gs` and the ghost `esc` (escaped mass), which  *)
(* exist only to state the properties.                                        *)
(*                                                                           *)
(* NUMBERS.  delta = dN/dD and lr = lrN/lrD are rationals.  No irrational      *)
(* function is evaluated here: an iterate is the list w of terms              *)
(*        w_T = - SUM_s  lr_s * Fn_s(num_s/den_s) * g_s                       *)
(* where the spec emits the function tag and its exact rational argument and   *)
(* the harness evaluates them in float64:                                     *)
(*   "rsqrt"        x^(-1/2)                      (OGD: x = t + delta)        *)
(*   "rsqrt_guard"  x^(-1/2), 1 at x = 0           (ADA: jnp.where(h==0,1,h)) *)
(*   "rsqrt0"       x^(-1/2), 0 at x <= 0          (S_ADA safe_invert)        *)
(*   "recip0"       1/x,      0 at x <= 0          (FD_SON, RFD_SON)          *)
(*   "adafd"        1/(alpha + sqrt(l)), 0 at alpha <= 0   (ADA_FD)           *)
(* OGD is value-free (the gradient is the symbol G(s): the statement holds for *)
(* all gradient values at once); ADA runs on integer gradient vectors; the     *)
(* sketched methods run on the axis-aligned lattice: the environment picks a   *)
(* coordinate j and the integer mass `a` that ENTERS THE SKETCH, i.e.          *)
(*        a = (sketch_update_factor * c)^2,   gradient = +-c e_j.             *)
(* For S_ADA / ADA_FD the factor is 1 (c = sqrt(a)); for RFD_SON it is         *)
(* (t lr)^(-1/2) and for FD_SON (sqrt(t) lr)^(-1/2), so the harness feeds      *)
(* c = sqrt(a t lr) resp. sqrt(a sqrt(t) lr) - irrational magnitudes, integer   *)
(* masses: the sketch arithmetic stays exact for all four methods.             *)
(***************************************************************************)
EXTENDS Integers, Sequences, FiniteSets, TLC, FDLattice

CONSTANTS Cfgs,     \* set of [alg, d, k, dN, dD, lrN, lrD, tmax]   (k = sketch_size, 0 for OGD/ADA;
                    \*   tmax = horizon of this configuration)
          Masses,   \* integer masses the environment may feed to the sketch
          GVals,    \* integer gradient components for ADA
          T         \* global horizon (a configuration stops at min(T, cfg.tmax))

Sketched == {"S_ADA", "ADA_FD", "FD_SON", "RFD_SON"}

VARIABLES cfg, n, gs, tc, h, hsq, rows, alpha2, esc, w
vars == <<cfg, n, gs, tc, h, hsq, rows, alpha2, esc, w>>

D == cfg.d
K == cfg.k
\* alpha_update_factor, doubled:  S_ADA 1.0, ADA_FD 0.0, FD_SON 0.0, RFD_SON 0.5
AlphaFactor2(alg) == CASE alg = "S_ADA" -> 2 [] alg = "RFD_SON" -> 1 [] OTHER -> 0
\* how the harness turns the sketch mass into a gradient magnitude
MagKind(alg) == CASE alg = "RFD_SON" -> "rfd" [] alg = "FD_SON" -> "fdson" [] OTHER -> "plain"
\* which learning rate multiplies the update (the SON variants fold lr into the sketch input)
LrKind(alg) == IF alg \in {"RFD_SON", "FD_SON"} THEN "one" ELSE "lr"
InvKind(alg) == CASE alg = "S_ADA" -> "rsqrt0" [] alg = "ADA_FD" -> "adafd" [] OTHER -> "recip0"

Init == /\ cfg \in Cfgs
        /\ n = 0 /\ gs = <<>> /\ tc = 0 /\ esc = 0 /\ w = <<>>
        /\ h = [i \in 1..cfg.d |-> cfg.dN]                        \* diag_h = ones * delta   (over dD)
        /\ hsq = {}
        /\ rows = IF cfg.alg \in Sketched THEN InitRows(cfg.k) ELSE <<>>   \* P = 0, e = 0
        /\ alpha2 = 2 * cfg.dN                                     \* alpha = delta           (over 2 dD)

\* _ogd_update_fn:  t += 1 ; w -= lr * grad * rsqrt(t + delta)
Live == n < T /\ n < cfg.tmax
OgdStep == /\ cfg.alg = "OGD" /\ Live
           /\ tc' = tc + 1
           /\ w' = Append(w, [fn |-> "rsqrt", lr |-> "lr", num |-> tc' * cfg.dD + cfg.dN, den |-> cfg.dD])
           /\ gs' = Append(gs, [sym |-> n + 1])
           /\ n' = n + 1
           /\ UNCHANGED <<cfg, h, hsq, rows, alpha2, esc>>

\* _diag_adagrad_update_fn:  diag_h += grad^2 ; w -= rsqrt(where(diag_h == 0, 1, diag_h)) * grad * lr
AdaStep(g) == /\ cfg.alg = "ADA" /\ Live
              /\ h' = [i \in 1..D |-> h[i] + cfg.dD * g[i] * g[i]]
              /\ hsq' = hsq \cup {n + 1}
              /\ w' = Append(w, [fn |-> "rsqrt_guard", lr |-> "lr", g |-> g, num |-> h', den |-> cfg.dD,
                                 sq |-> hsq'])
              /\ gs' = Append(gs, [g |-> g])
              /\ n' = n + 1
              /\ UNCHANGED <<cfg, tc, rows, alpha2, esc>>

\* _fd_update_fn on the lattice; `at` = K is the source's B.at[-1]
FdStep(j, a) ==
  /\ cfg.alg \in Sketched /\ Live
  /\ LET st == RowStep(rows, D, K, j, a, K)
         l1 == RowsToL(st.rows, D)
         a2 == alpha2 + AlphaFactor2(cfg.alg) * cfg.dD * st.rho2     \* alpha += factor * rho^2
     IN /\ tc' = tc + 1
        /\ rows' = st.rows
        /\ alpha2' = a2
        /\ esc' = esc + st.rho2
        \* update = P^T(inv(alpha+s) P g) + inv(alpha)(g - P^T P g): on the lattice the coefficient of the
        \* gradient is inv(alpha + l_j) whether or not j is in the sketch (rows of singular value 0 get
        \* inv(alpha) from the first summand and lose it in the second).  ADA_FD: 1/(alpha + sqrt(l_j)).
        /\ w' = Append(w, [fn |-> InvKind(cfg.alg), lr |-> LrKind(cfg.alg), mag |-> MagKind(cfg.alg),
                           j |-> j, a |-> a, t |-> tc',
                           num |-> a2 + 2 * cfg.dD * l1[j], den |-> 2 * cfg.dD,
                           anum |-> a2, lj |-> l1[j]])
  /\ gs' = Append(gs, [j |-> j, a |-> a])
  /\ n' = n + 1
  /\ UNCHANGED <<cfg, h, hsq>>

Ada == \E g \in [1..D -> GVals] : AdaStep(g)
Fd  == \E j \in 1..D, a \in Masses : FdStep(j, a)
Step == OgdStep \/ Ada \/ Fd
\* init_fn() of the SAME bound (init, update) pair called again after any history: a fresh state.  The
\* updates mutate the state dict they are given, so the closure built by generate_init_update must not
\* hand out one cached object (the harness runs an earlier sequence through every pair it judges).
Rebind == /\ n > 0
          /\ n' = 0 /\ gs' = <<>> /\ tc' = 0 /\ esc' = 0 /\ w' = <<>>
          /\ h' = [i \in 1..cfg.d |-> cfg.dN] /\ hsq' = {}
          /\ rows' = IF cfg.alg \in Sketched THEN InitRows(cfg.k) ELSE <<>>
          /\ alpha2' = 2 * cfg.dN
          /\ UNCHANGED cfg
Next == Step \/ Rebind
Spec == Init /\ [][Next]_vars

-----------------------------------------------------------------------------
(* Documented closed forms, as functions of the history gs.                  *)
SumTo(f, m) == FoldFunction(LAMBDA x, y : x + y, 0, [s \in 1..m |-> f[s]])
\* exact second moment of what entered the sketch, after s steps
Cov(s) == [i \in 1..D |-> SumTo([u \in 1..s |-> IF gs[u].j = i THEN gs[u].a ELSE 0], s)]
\* documented frequent directions with K rows of which one is always free (effective rank K-1)
RECURSIVE DocFD(_)
DocFD(s) == IF s = 0 THEN [l |-> Zeros(D), esc |-> 0]
            ELSE LET p  == DocFD(s - 1)
                     sh == DocShrink(AddMass(p.l, gs[s].j, gs[s].a), D, K)
                 IN [l |-> sh.l, esc |-> p.esc + sh.rho2]
L == RowsToL(rows, D)
Touched(s) == {i \in 1..D : Cov(s)[i] > 0}

TypeOK == /\ cfg \in Cfgs /\ n \in 0..T /\ Len(gs) = n /\ Len(w) = n
          /\ (cfg.alg \in Sketched => Len(rows) = K /\ K >= 2 /\ K <= D)

\* ---- OGD / ADA ----
OgdClosedForm == cfg.alg = "OGD" =>
   /\ tc = n
   /\ \A s \in 1..n : w[s].fn = "rsqrt" /\ w[s].num = s * cfg.dD + cfg.dN /\ w[s].den = cfg.dD
AdaClosedForm == cfg.alg = "ADA" =>
   LET H(s, i) == cfg.dN + cfg.dD * SumTo([u \in 1..s |-> gs[u].g[i] * gs[u].g[i]], s) IN
   /\ \A i \in 1..D : h[i] = H(n, i)
   /\ hsq = 1..n /\ \A s \in 1..n : w[s].sq = 1..s
   /\ \A s \in 1..n : w[s].fn = "rsqrt_guard" /\ w[s].g = gs[s].g /\ \A i \in 1..D : w[s].num[i] = H(s, i)
\* the guard matters only where the gradient component is zero: no term is ever g/sqrt(0)
AdaGuardHarmless == cfg.alg = "ADA" => \A s \in 1..n : \A i \in 1..D : w[s].num[i] = 0 => w[s].g[i] = 0

\* ---- sketched methods ----
FD == cfg.alg \in Sketched
LastRowZero  == FD => rows[K].m = 0 /\ rows[K].c = 0
RowsCanonical == FD => /\ \A r \in 1..(K - 1) : rows[r].m >= rows[r + 1].m
                       /\ \A r \in 1..K : (rows[r].m = 0) = (rows[r].c = 0)
                       /\ \A r, q \in 1..K : (r # q /\ rows[r].c # 0) => rows[r].c # rows[q].c
RankBound    == FD => Cardinality({i \in 1..D : L[i] > 0}) <= K - 1
RefinesDocFD == FD => LET doc == DocFD(n) IN L = doc.l /\ esc = doc.esc
Bracket      == FD => \A i \in 1..D : L[i] <= Cov(n)[i] /\ Cov(n)[i] <= L[i] + esc
StepCount    == FD => tc = n
\* alpha = delta + factor * escaped mass
AlphaLaw     == FD => alpha2 = 2 * cfg.dN + AlphaFactor2(cfg.alg) * cfg.dD * esc
\* history of rank below the sketch size: nothing escapes, the sketch is the covariance
Lossless     == FD => (Cardinality(Touched(n)) <= K - 1 => esc = 0 /\ L = Cov(n))
\* ... and then, with delta > 0, S-AdaGrad's step s applies (delta + Cov_s)^(-1/2) to the gradient:
\* full-matrix AdaGrad, whose preconditioner is diagonal in the lattice basis
SAdaIsFullMatrixAdaGrad ==
  (cfg.alg = "S_ADA" /\ cfg.dN > 0 /\ Cardinality(Touched(n)) <= K - 1) =>
     \A s \in 1..n : /\ w[s].fn = "rsqrt0" /\ w[s].lr = "lr"
                     /\ w[s].num = 2 * cfg.dN + 2 * cfg.dD * Cov(s)[gs[s].j] /\ w[s].den = 2 * cfg.dD
\* the preconditioner argument is never below alpha: alpha + l_j with l_j >= 0, and alpha never decreases
ArgLaw == FD => \A s \in 1..n : w[s].num = w[s].anum + 2 * cfg.dD * w[s].lj /\ w[s].lj >= 0
                                /\ w[s].anum >= 2 * cfg.dN
\* the overwritten row never holds mass (action property)
NothingOverwritten == [][FD => rows[K].m = 0]_vars
====
