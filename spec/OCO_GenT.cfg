SPECIFICATION GSpec
CONSTANTS
  Cfgs <- GENT_Cfgs
  Masses <- GEN_Masses
  GVals <- GEN_GVals
  T = 5
INVARIANT Emit
CHECK_DEADLOCK FALSE
