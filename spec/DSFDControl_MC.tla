---- MODULE DSFDControl_MC ----
EXTENDS DSFDControl
MC_Cfgs == [S : 1..4, avg : BOOLEAN, R : {0, 2, 3, 4, 6, 8}]
====
