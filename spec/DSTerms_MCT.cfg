SPECIFICATION Spec
CONSTANTS
  Cfgs <- MCT_Cfgs
  T = 6
INVARIANT StatOK
INVARIANT RootOK
INVARIANT UsedRootOK
INVARIANT GaccOK
INVARIANT MomOK
INVARIANT UpdOK
INVARIANT WarmupOK
INVARIANT GraftShapeOK
INVARIANT StaleOK
CHECK_DEADLOCK FALSE
