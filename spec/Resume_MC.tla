---- MODULE Resume_MC ----
EXTENDS Resume
MC_Cads == [S : {1, 2}, P : {1, 2, 3}]
====
