SPECIFICATION GSpec
CONSTANTS
  Cfgs <- GEN_Cfgs
  Masses <- GEN_Masses
  GVals <- GEN_GVals
  T = 5
INVARIANT Emit
CHECK_DEADLOCK FALSE
