SPECIFICATION Spec
CONSTANTS
  PackCfgs <- Q_PackCfgs
  RootCfgs <- Q_RootCfgs
  ApplyCfgs <- Q_ApplyCfgs
INVARIANT Emit
CHECK_DEADLOCK FALSE
