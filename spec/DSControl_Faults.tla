---- MODULE DSControl_Faults ----
(* Fault-schedule export (C03): TLC enumerates every gradient-class schedule of   *)
(* length T with at most MaxFaults non-"ok" letters, for every configuration.     *)
(* Error classes cannot be predicted by the model (they are the kernels' answer),  *)
(* so the replayed runs are judged by DSControl_Trace, not by expected values.     *)
EXTENDS DSControl, Json
CONSTANT MaxFaults
VARIABLE sched
fvars == <<vars, sched>>
NFaults(s) == Cardinality({i \in DOMAIN s : s[i] # "ok"})
E0 == IF cfg.thr = "zero" THEN "atabove" ELSE "below"
FInit == Init /\ sched = <<>>
FNext == \E g \in GradClasses :
            /\ NFaults(Append(sched, g)) <= MaxFaults
            /\ Update(g, E0, TRUE, TRUE) /\ sched' = Append(sched, g)
FSpec == FInit /\ [][FNext]_fvars
Emit == count = T => PrintT("@@GEN " \o ToJson([cfg |-> cfg, sched |-> sched]))
F_Cfgs == [S : {1, 2}, P : {1, 2}, Start : {1}, sched : {"none"}, End : {0},
           mode : {"rep", "pmapq", "shard"}, thr : {"pos"}]
F_Grad == {"ok", "zero", "nan", "inf", "huge", "tiny", "big", "small"}
====
