SPECIFICATION TraceSpec
CONSTANTS
  Slices <- NoSlices
INVARIANT EmitVerdict
INVARIANT EmitStall
INVARIANT OutcomeOK
INVARIANT UpdatesHaveParamLayout
INVARIANT ShardedDeclaredAgrees
INVARIANT ShardedPSpecAgrees
INVARIANT ShardedIndexing
INVARIANT PrecondShapes
PROPERTY LayoutFixedPoint
CHECK_DEADLOCK FALSE
