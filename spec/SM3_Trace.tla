---- MODULE SM3_Trace ----
(* Trace validation (code -> spec) for SM3.  Two kinds of recorded runs of the real     *)
(* precondition.sm3.sm3 (harness/workers/sm3_trace.py), one parameter tensor each:       *)
(*                                                                                      *)
(* kind "grid": integer gradients, dyadic beta2 = bn/bd (any beta1 / weight decay /      *)
(*   learning rate - they must not reach the accumulators).  Event                       *)
(*     {a:"update", cb, ca, g:[flat row-major ints], acc:[[..],..], exactint:bool}       *)
(*   acc = state.stats.diagonal_statistics after the call times bd^ca (exact integers    *)
(*   in float32; exactint = FALSE if some entry was not an integer).  The event is       *)
(*   explained by SM3!Moving(g) followed by SM3!Sketch; the logged accumulators must be  *)
(*   the ones Sketch produces, and Cover / StepBound / Tight / Rank1Exact / Mono are     *)
(*   evaluated by TLC on the reconstructed state, whose history variable `exact` is the  *)
(*   exact second moment of the logged gradients.                                        *)
(*                                                                                      *)
(* kind "float": arbitrary float32 gradients, beta2 in (0,1], normalize_grads, ranks     *)
(*   1..4 - outside the integer model.  The worker runs the exact recursion              *)
(*   exact' = b2 exact + w g^2 in float64 next to the optimizer and logs per update the  *)
(*   NUMBER of coordinates / accumulator entries that violate, with a one-sided margin    *)
(*   (a comparison is only reported as violated if it fails by more than the margin):    *)
(*     {a:"fupdate", cb, ca, cover, mono, decay, r1, step}                               *)
(*   cover: min_a acc[a][ix[a]] < exact[ix]; mono: entry decreased (judged for beta2 = 1, *)
(*   no margin: float addition of a non-negative term is monotone); decay: entry below    *)
(*   beta2 * previous; r1: rank-1 accumulator differs from exact; step: |update| exceeds  *)
(*   lr|g|/sqrt(exact+eps) (logged only for beta1 = 0, no weight decay).                  *)
(*   The spec state does not move on these events (except n); the verdict is the named    *)
(*   clause of the C12 property that the bits contradict.                                 *)
EXTENDS SM3, Json, IOUtils
Traces == JsonDeserialize(IOEnv.TRACE_FILE)
VARIABLES tid, l, bad
tvars == <<vars, tid, l, bad>>
Tr == Traces[tid]
Ev == Tr.events

RECURSIVE Stride(_, _)
Stride(sh, a) == IF a = Len(sh) THEN 1 ELSE sh[a + 1] * Stride(sh, a + 1)
Size == cfg.shape[1] * Stride(cfg.shape, 1)
Pos(ix) == 1 + FoldSet(LAMBDA a, s : s + (ix[a] - 1) * Stride(cfg.shape, a), 0, Axes)
GradOf(e) == [ix \in Idx |-> e.g[Pos(ix)]]
SameAcc(logged) ==
  /\ Len(logged) = Rank
  /\ \A a \in Axes : Len(logged[a]) = cfg.shape[a]
  /\ \A a \in Axes : \A j \in 1..cfg.shape[a] : logged[a][j] = NewAcc[a][j]

\* verdict of an event, evaluated in the state in which it is consumed
Verdict(e) ==
  IF e.a = "update" THEN
    IF pc = "grad" THEN
      IF e.cb # n THEN "count_before_mismatch"
      ELSE IF Len(e.g) # Size THEN "gradient_shape"
      ELSE "ok"
    ELSE \* pc = "sketch": _moving_averages has been taken with the logged gradient
      IF e.ca # n + 1 THEN "count_not_incremented_by_one"
      ELSE IF ~e.exactint THEN "accumulator_not_on_the_dyadic_grid"
      ELSE IF ~SameAcc(e.acc) THEN "accumulators_differ_from_model"
      ELSE "ok"
  ELSE IF e.a = "fupdate" THEN
    IF e.cb # n \/ e.ca # n + 1 THEN "count_not_incremented_by_one"
    ELSE IF e.cover > 0 THEN "accumulators_below_exact_second_moment"
    ELSE IF Tr.cfg.b2one /\ e.mono > 0 THEN "accumulator_decreased_with_beta2_1"
    ELSE IF e.decay > 0 THEN "accumulator_fell_below_decayed_value"
    ELSE IF Rank = 1 /\ e.r1 > 0 THEN "rank1_differs_from_diagonal_adagrad"
    ELSE IF e.step > 0 THEN "step_larger_than_diagonal_adagrad"
    ELSE "ok"
  ELSE "unknown_event"

TraceInit ==
  /\ tid \in 1..Len(Traces) /\ l = 1 /\ bad = "ok"
  /\ LET c == Traces[tid].cfg
     IN cfg = [shape |-> c.shape, bn |-> c.bn, bd |-> c.bd, vals |-> {}, T |-> 1000000,
               idx |-> IdxOf(c.shape)]
  /\ n = 0 /\ pc = "grad"
  /\ acc = [a \in 1..Len(cfg.shape) |-> [j \in 1..cfg.shape[a] |-> 0]]
  /\ nu = [ix \in Idx |-> 0]
  /\ exact = nu

TraceStep ==
  /\ l <= Len(Ev) /\ bad = "ok"
  /\ LET e == Ev[l]
         v == Verdict(e)
     IN IF v # "ok" THEN bad' = v /\ UNCHANGED <<vars, l>>
        ELSE IF e.a = "update" /\ pc = "grad" THEN Moving(GradOf(e)) /\ UNCHANGED <<l, bad>>
        ELSE IF e.a = "update" THEN Sketch /\ l' = l + 1 /\ UNCHANGED bad
        ELSE /\ n' = n + 1 /\ l' = l + 1 /\ UNCHANGED <<cfg, pc, acc, nu, exact, bad>>
  /\ UNCHANGED tid

TraceSpec == TraceInit /\ [][TraceStep]_tvars
Finished == (l = Len(Ev) + 1) \/ bad # "ok"
EmitVerdict == Finished => PrintT("@@V " \o ToJson([tid |-> tid, l |-> l, verdict |-> bad]))
Stalled == l <= Len(Ev) /\ bad = "ok" /\ ~ENABLED TraceStep
EmitStall == Stalled => PrintT("@@V " \o ToJson([tid |-> tid, l |-> l, verdict |-> "stalled"]))
====
