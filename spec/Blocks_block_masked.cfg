SPECIFICATION Spec
CONSTANTS
  Layouts <- MC_Layouts
  CutoffScope = "block"
  PadScope = "masked"
INVARIANT BlockLocal
INVARIANT ParamLocal
CHECK_DEADLOCK FALSE
