SPECIFICATION Spec
CONSTANTS
  PackCfgs <- MC_PackCfgs
  RootCfgs <- MC_RootCfgs
  ApplyCfgs <- MC_ApplyCfgs
INVARIANT SlotsInBounds
INVARIANT SlotsDisjoint
INVARIANT SlotSizes
INVARIANT RoundTrip
INVARIANT DimAgree
INVARIANT CycleLoss
INVARIANT Selection
INVARIANT Partition
INVARIANT Divisor
INVARIANT LoopInv
INVARIANT AxisMeets
INVARIANT CompressedWhere
CHECK_DEADLOCK FALSE
