#!/bin/sh
# Offline setup: nothing is downloaded or compiled. Parses every TLA+ module with SANY (a parse
# error is reported here and would surface again as exit 2 of the check that uses the module),
# and checks that the python side (harness + the repository under test) imports.
cd "$(dirname "$0")" || exit 2
mkdir -p .work evidence
bad=0
( cd spec
  for f in *.tla; do
    if ! tla-sany "$f" > ../.work/sany_$f.log 2>&1; then
      echo "WARNING: SANY failed on spec/$f"; tail -3 ../.work/sany_$f.log
    fi
  done )
/venv/bin/python -c "import harness.core, jax, optax, flax; import precondition.distributed_shampoo" || bad=1
exit $bad
