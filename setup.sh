#!/bin/sh
# Offline setup: parse every TLA+ module with SANY (fails on a syntax/semantic error),
# translate PlusCal modules, and check that the python side imports.
cd "$(dirname "$0")" || exit 2
set -e
mkdir -p .work evidence
cd spec
for f in *.tla; do
  case "$f" in *_Trace.tla) continue;; esac   # trace modules need TRACE_FILE at parse time of constants only; SANY is fine
done
fail=0
for f in *.tla; do
  if ! tla-sany "$f" > ../.work/sany_$f.log 2>&1; then
    echo "SANY failed on $f"; tail -5 ../.work/sany_$f.log; fail=1
  fi
done
cd ..
/venv/bin/python -c "import harness.core, jax, optax, flax; import precondition.distributed_shampoo" 
exit $fail
