"""Runs the real Tearfree optimizer for a JSON-described job and projects its state."""
from __future__ import annotations

import contextlib
import io

import numpy as np
import jax
import jax.numpy as jnp

from precondition.tearfree import grafting, momentum, optimizer, second_order, shampoo, sketchy
from harness.dsrun import lr_fn, grad_for

GT = {t.name: t for t in grafting.GraftingType}


def make(o):
  so = o.get("so", "shampoo")
  go = grafting.Options(
      grafting_type=GT[o.get("graft", "RMSPROP")],
      second_moment_decay=o.get("graft_decay", 0.75 if o.get("graft", "RMSPROP") in ("RMSPROP", "ADAFACTOR") else 0.0),
      start_preconditioning_step=o.get("Start", 0),
      epsilon=o.get("graft_eps", 1e-23),
      skip_preconditioning_any_dim_gt=o.get("skip_dim_gt", 4096),
      skip_preconditioning_rank1=o.get("skip_rank1", True),
      min_dim_size_to_factor=o.get("min_dim_size_to_factor", 128),
      multiply_by_parameter_scale=o.get("multiply_by_parameter_scale", False),
  )
  sh = shampoo.Options(block_size=o.get("block_size", 1024),
                       update_preconditioners_freq=o.get("PF", 1),
                       update_statistics_freq=o.get("SF", 1),
                       second_moment_decay=o.get("decay", 1.0))
  sk = sketchy.Options(epsilon=o.get("sk_eps", 1e-7), rank=o.get("rank", 2),
                       relative_epsilon=o.get("sk_rel", True),
                       second_moment_decay=o.get("decay", 1.0),
                       update_freq=o.get("SF", 1), ekfac_svd=o.get("ekfac", False),
                       add_ggt=o.get("add_ggt", False),
                       memory_alloc=o.get("memory_alloc", None)) if so == "sketchy" else None
  if so == "sketchy" and o.get("_sk_obj") is not None:
    sk = o["_sk_obj"]          # a pre-built (possibly derived) sketchy.Options object, in-process callers only
  soo = second_order.Options(
      merge_dims=o.get("merge_dims", 1024),
      second_order_type=(second_order.SecondOrderType.SKETCHY if so == "sketchy"
                         else second_order.SecondOrderType.SHAMPOO),
      shampoo_options=sh, sketchy_options=sk)
  mo = momentum.Options(ema=o.get("ema", False), nesterov=o.get("nesterov", False),
                        momentum_decay=o.get("momentum_decay", 0.0),
                        weight_decay=o.get("weight_decay", 0.0),
                        weight_decay_after_momentum=o.get("wd_after", True))
  opts = optimizer.TearfreeOptions(grafting_options=go, second_order_options=soo, momentum_options=mo)
  return optimizer.tearfree(lr_fn(o.get("lr_sched", "none"), o.get("lr", 0.25)), opts)


class Runner:
  def __init__(self, o, shapes, seed=0, dtype=np.float32, params=None):
    self.o = o
    self.shapes = [tuple(s) for s in shapes]
    self.dtype = dtype
    self.tx = make(o)
    rs = np.random.RandomState(seed + 977)
    self.params = params if params is not None else {
        f"p{i}": jnp.asarray(rs.standard_normal(s).astype(dtype)) for i, s in enumerate(self.shapes)}
    with contextlib.redirect_stdout(io.StringIO()):
      if o.get("warm_shapes"):
        # the same transformation object first serves ANOTHER tree of the same structure (other leaf shapes):
        # nothing about one tree may stick to the object
        sib = {f"p{i}": jnp.ones(tuple(s_), dtype) for i, s_ in enumerate(o["warm_shapes"])}
        st0 = self.tx.init(sib)
        self.tx.update(jax.tree.map(lambda x: 0.5 * x, sib), st0, sib)
      self.state = self.tx.init(self.params)
      self._upd = jax.jit(self.tx.update)

  def step(self, grads):
    with contextlib.redirect_stdout(io.StringIO()):
      u, self.state = self._upd(grads, self.state, self.params)
    return u

  def second_order_state(self):
    g = self.state[0]
    direction = g.direction if hasattr(g, "direction") else g
    return direction[1]

  def graft_count(self):
    g = self.state[0]
    return int(g.count) if hasattr(g, "count") and hasattr(g, "direction") else None

  def project(self):
    so = self.second_order_state()
    out = {"count": int(so.count), "params": {}}
    tree = so.blocks if hasattr(so, "blocks") else so.sketches
    for n in self.params:
      node = tree[n]
      if isinstance(node, grafting._GraftMask):
        out["params"][n] = None
        continue
      if hasattr(node, "stats"):
        out["params"][n] = {"stats": [np.asarray(x) for x in node.stats],
                            "roots": [np.asarray(x) for x in node.roots]}
      else:
        out["params"][n] = {"axes": [{k: np.asarray(getattr(a, k)) for k in
                                      ("eigvecs", "eigvals", "inv_eigvals", "tail", "inv_tail")}
                                     for a in node.axes],
                            "ggt": [np.asarray(a.ema_ggt).tobytes() if hasattr(a.ema_ggt, "shape") else None
                                    for a in node.axes],
                            "svd": [b"".join(np.asarray(getattr(a, k)).tobytes()
                                             for k in ("svd_result_u", "svd_result_s", "inv_prev_tail")
                                             if hasattr(getattr(a, k), "shape"))
                                    for a in node.axes]}
    return out


def make_grads(shapes, classes, seed, dtype=np.float32, scales=None):
  rs = np.random.RandomState(seed)
  out = []
  for c in classes:
    out.append({f"p{i}": jnp.asarray(grad_for(c, tuple(s), rs, 1.0 if scales is None else scales[i]).astype(dtype))
                for i, s in enumerate(shapes)})
  return out
