"""Runs the real Distributed Shampoo optimizer for a JSON-described job and projects
its state to the abstract state of spec/DSControl.tla (one automaton per statistic).

Used inside worker processes (jax is imported here, never in the driver).
"""
from __future__ import annotations

import hashlib
import os

import numpy as np

import jax
import jax.numpy as jnp

from precondition import distributed_shampoo as ds
from precondition.quantization_utils import QuantizedValue

GRAFT = {t.name: t for t in ds.GraftingType}
PTYPE = {t.name: t for t in ds.PreconditionerType}


# ---------------------------------------------------------------------------
# learning-rate schedules shared with the specs (dyadic, exact in float32)
# ---------------------------------------------------------------------------
def lr_fn(name, lr0):
  if name == "none" or name is None:
    return lr0
  if name == "lin16":
    return lambda c: lr0 * (1.0 - jnp.minimum(c, 16) / 16.0)
  if name == "half4":
    return lambda c: lr0 * jnp.power(2.0, -(jnp.minimum(c // 4, 20)).astype(jnp.float32))
  if name == "lin8":     # lr0 * (1 - t/16), never reaches 0 within 8 steps
    return lambda c: lr0 * (1.0 - jnp.minimum(c, 8) / 16.0)
  raise ValueError(name)


def lr_value(name, lr0, c):
  if name == "none" or name is None:
    return lr0
  if name == "lin16":
    return lr0 * (1.0 - min(c, 16) / 16.0)
  if name == "half4":
    return lr0 * 2.0 ** (-min(c // 4, 20))
  if name == "lin8":
    return lr0 * (1.0 - min(c, 8) / 16.0)
  raise ValueError(name)


def make_optimizer(o):
  """o: dict of JSON-able options -> (GradientTransformation, mode)."""
  mode = o.get("mode", "rep")
  kw = dict(
      learning_rate=lr_fn(o.get("lr_sched", "none"), o.get("lr", 0.25)),
      block_size=o.get("block_size", 8),
      beta1=o.get("beta1", 0.0),
      beta2=o.get("beta2", 1.0),
      diagonal_epsilon=o.get("diagonal_epsilon", 1e-10),
      matrix_epsilon=o.get("matrix_epsilon", 2.0 ** -10),
      weight_decay=o.get("weight_decay", 0.0),
      start_preconditioning_step=o.get("Start", 1),
      preconditioning_compute_steps=o.get("P", 1),
      statistics_compute_steps=o.get("S", 1),
      best_effort_shape_interpretation=o.get("merge", True),
      graft_type=GRAFT[o.get("graft", "SGD")],
      nesterov=o.get("nesterov", False),
      exponent_override=o.get("exponent_override", 0),
      inverse_failure_threshold=o.get("thr", 0.1),
      moving_average_for_momentum=o.get("mavg", False),
      skip_preconditioning_dim_size_gt=o.get("skip_dim_gt", 4096),
      skip_preconditioning_rank_lt=o.get("skip_rank_lt", 1),
      relative_matrix_epsilon=o.get("relative_eps", True),
      merge_small_dims_block_size=o.get("merge_block", 4096),
      precondtioner_type=PTYPE[o.get("ptype", "ALL")],
      compression_rank=o.get("compression_rank", 0),
      frequent_directions=o.get("fd", False),
      average_grad=o.get("average_grad", False),
      reset_preconditioner=o.get("reset", False),
      reuse_preconditioner=o.get("reuse", False),
      decoupled_learning_rate=o.get("dlr", True),
      decoupled_weight_decay=o.get("dwd", False),
      generate_training_metrics=o.get("metrics", True),
      generate_fd_metrics=o.get("fd_metrics", False),
      eigh=o.get("eigh", False),
      best_effort_memory_usage_reduction=o.get("memred", mode == "pmapq"),
      lobpcg_topk_precondition=o.get("lobpcg", 0),
      clip_by_scaled_gradient_norm=o.get("clip", None),
  )
  if o.get("sched", "none") != "none" and o.get("End", 0):
    kw["decay_preconditioning_compute_steps"] = True
    kw["end_preconditioning_compute_steps"] = o["End"]
    kw["learning_rate"] = lr_fn(o["sched"], o.get("lr", 0.25))
  if mode in ("pmap", "pmapq"):
    kw["batch_axis_name"] = "batch"
  if mode == "shard":
    from jax.sharding import PartitionSpec as PS
    kw["shard_optimizer_states"] = True
    kw["num_devices_for_pjit"] = o.get("D", 1)
    kw["statistics_partition_spec"] = PS("x", None, None)
    kw["preconditioner_partition_spec"] = PS("x", None, None)
  return ds.distributed_shampoo(**kw), mode


# ---------------------------------------------------------------------------
# gradients
# ---------------------------------------------------------------------------
def grad_for(cls, shape, rs, scale=1.0):
  g = rs.standard_normal(shape).astype(np.float32) * np.float32(scale)
  if cls == "ok":
    return g
  if cls == "zero":
    return np.zeros(shape, np.float32)
  if cls == "nan":
    g = g.copy(); g.reshape(-1)[rs.randint(g.size)] = np.nan; return g
  if cls == "inf":
    g = g.copy(); g.reshape(-1)[rs.randint(g.size)] = np.inf; return g
  if cls == "huge":
    return (g * np.float32(1e30)).astype(np.float32)
  if cls == "tiny":
    return (g * np.float32(1e-30)).astype(np.float32)
  if cls == "big":
    return (g * np.float32(1e12)).astype(np.float32)
  if cls == "small":
    return (g * np.float32(1e-12)).astype(np.float32)
  raise ValueError(cls)


def make_params(shapes, seed):
  rs = np.random.RandomState(seed + 977)
  return {f"p{i}": jnp.asarray(rs.standard_normal(tuple(s)).astype(np.float32))
          for i, s in enumerate(shapes)}


def make_grads(shapes, classes, seed, scales=None):
  """classes: list over steps of (class or list of per-param classes)."""
  rs = np.random.RandomState(seed)
  out = []
  for c in classes:
    step = {}
    for i, s in enumerate(shapes):
      ci = c[i] if isinstance(c, (list, tuple)) else c
      sc = 1.0 if scales is None else scales[i]
      step[f"p{i}"] = jnp.asarray(grad_for(ci, tuple(s), rs, sc))
    out.append(step)
  return out


# ---------------------------------------------------------------------------
# driving the three modes
# ---------------------------------------------------------------------------
class Runner:
  def __init__(self, o, shapes, seed=0, params=None):
    self.o = o
    self.shapes = [tuple(s) for s in shapes]
    self.opt, self.mode = make_optimizer(o)
    self.params = params if params is not None else make_params(shapes, seed)
    self.D = o.get("D", 1)
    if self.mode in ("pmap", "pmapq"):
      devs = jax.devices()[:self.D]
      assert len(devs) == self.D, (len(jax.devices()), self.D)
      self._devs = devs
      rep = lambda t: jax.tree.map(lambda x: jnp.stack([x] * self.D), t)
      self.state = jax.pmap(self.opt.init, axis_name="batch", devices=devs)(rep(self.params))
      self._rp = rep(self.params)
      self._upd = jax.pmap(self.opt.update, axis_name="batch", devices=devs)
    elif self.mode == "shard":
      from jax.sharding import Mesh
      self.mesh = Mesh(np.array(jax.devices()[:self.D]), ("x",))
      fns = self.opt.init(None)
      self.fns = fns
      with self.mesh:
        self.state = fns.init_fn(self.params)
        self._upd = jax.jit(self.opt.update)
    else:
      if o.get("warm_shapes"):
        # the same optimizer object first serves ANOTHER tree of the same structure (other leaf shapes):
        # nothing about one tree may stick to the object (hidden Python-side state)
        sib = {f"p{i}": jnp.ones(tuple(s_), jnp.float32) for i, s_ in enumerate(o["warm_shapes"])}
        st0 = self.opt.init(sib)
        jax.jit(self.opt.update)(jax.tree.map(lambda x: 0.5 * x, sib), st0, sib)
      self.state = self.opt.init(self.params)
      self._upd = jax.jit(self.opt.update)

  def reset(self):
    """Fresh optimizer state, same compiled update."""
    if self.mode in ("pmap", "pmapq"):
      self.state = jax.pmap(self.opt.init, axis_name="batch", devices=self._devs)(self._rp)
    elif self.mode == "shard":
      with self.mesh:
        self.state = self.fns.init_fn(self.params)
    else:
      self.state = self.opt.init(self.params)

  def step(self, grads):
    if self.mode in ("pmap", "pmapq"):
      g = jax.tree.map(lambda x: jnp.stack([x] * self.D), grads)
      u, self.state = self._upd(g, self.state, self._rp)
      return u
    if self.mode == "shard":
      with self.mesh:
        u, self.state = self._upd(grads, self.state, self.params)
      return u
    u, self.state = self._upd(grads, self.state, self.params)
    return u

  # ---- host-side views -----------------------------------------------------
  def host_state(self, dev=0):
    s = self.state
    if self.mode in ("pmap", "pmapq"):
      s = jax.tree.map(lambda x: np.asarray(x[dev]), s)
    else:
      s = jax.tree.map(np.asarray, s)
    return s

  def host_update(self, u, dev=0):
    if self.mode in ("pmap", "pmapq"):
      return jax.tree.map(lambda x: np.asarray(x[dev]), u)
    return jax.tree.map(np.asarray, u)


def _bytes(x):
  if isinstance(x, QuantizedValue):
    parts = [x.quantized, x.diagonal, x.bucket_size]
    return b"".join(np.ascontiguousarray(np.asarray(p)).tobytes() for p in parts
                    if not (isinstance(p, list) and not p))
  return np.ascontiguousarray(np.asarray(x)).tobytes()


def _float(x):
  if isinstance(x, QuantizedValue):
    if isinstance(x.quantized, list):
      return np.zeros((0,), np.float32)
    q = np.asarray(x.quantized)
    if x.quantized_dtype in (jnp.float32,):
      return q
    if x.quantized_dtype == jnp.bfloat16:
      return q.astype(np.float32)
    v = q.astype(np.float32) * np.asarray(x.bucket_size)[np.newaxis, ...]
    if x.extract_diagonal:
      v = v + np.diag(np.asarray(x.diagonal))
    return v
  return np.asarray(x)


def project(hstate, mode, nparams):
  """-> dict(count, stats=[...], precs=[...], errs=[...], metrics=[bytes...]) per statistic,
  flattened in parameter order (p0, p1, ...)."""
  names = [f"p{i}" for i in range(nparams)]
  stats, precs, errs, mets, owner, retries = [], [], [], [], [], []
  if mode == "shard":
    gs = hstate.stats.global_stats
    for pi, n in enumerate(names):
      ls = hstate.stats.local_stats[n]
      k = len(ls.sizes)
      for j in range(k):
        row = int(ls.index_start) + j
        stats.append(np.asarray(gs.statistics[row]))
        precs.append(np.asarray(gs.preconditioners[row]))
        tm = ls.training_metrics
        if hasattr(tm, "inverse_pth_root_errors"):
          errs.append(float(np.asarray(tm.inverse_pth_root_errors)[j]))
          retries.append(float(np.asarray(tm.total_retries)[j]))
          mets.append(b"".join(np.asarray(x)[j].tobytes() for x in jax.tree.leaves(tm)))
        else:
          errs.append(None); mets.append(b""); retries.append(None)
        owner.append(pi)
    nrows = int(np.asarray(gs.statistics).shape[0])
    extra = {"global_rows": nrows,
             "pad_rows_stats": [np.asarray(gs.statistics[r]) for r in range(len(stats), nrows)],
             "pad_rows_precs": [np.asarray(gs.preconditioners[r]) for r in range(len(stats), nrows)]}
  else:
    extra = {}
    for pi, n in enumerate(names):
      st = hstate.stats[n]
      for j in range(len(st.statistics)):
        stats.append(st.statistics[j])
        precs.append(st.preconditioners[j])
        tm = st.training_metrics
        if hasattr(tm, "inverse_pth_root_errors"):
          errs.append(float(np.asarray(tm.inverse_pth_root_errors)[j]))
          retries.append(float(np.asarray(tm.total_retries)[j]))
          mets.append(b"".join(np.asarray(x)[j].tobytes() for x in jax.tree.leaves(tm)))
        else:
          errs.append(None); mets.append(b""); retries.append(None)
        owner.append(pi)
  return {"count": int(np.asarray(hstate.count)), "stats": stats, "precs": precs,
          "errs": errs, "mets": mets, "owner": owner, "retries": retries, **extra}


def err_class(err, thr):
  if err is None:
    return "unknown"
  e = np.float32(err)
  if np.isnan(e):
    return "nan"
  if np.isinf(e):
    return "inf"
  return "below" if e < np.float32(thr) else "atabove"


def sha(b):
  return hashlib.sha256(b).hexdigest()[:16]


def trace_run(o, shapes, classes, seed, keep=False, runner=None):
  """Run and return per-statistic DSControl traces (events with change bits).

  If keep, also returns float copies of statistics / roots / updates per step."""
  if runner is None:
    r = Runner(o, shapes, seed)
  else:
    r = runner
    r.reset()
  n = len(shapes)
  grads = make_grads(shapes, classes, seed)
  prev = project(r.host_state(), r.mode, n)
  nstat = len(prev["stats"])
  events = [[] for _ in range(nstat)]
  kept = []
  thr = o.get("thr", 0.1)
  for t, g in enumerate(grads):
    u = r.step(g)
    hu = r.host_update(u)
    cur = project(r.host_state(), r.mode, n)
    fin_u = [bool(np.isfinite(hu[f"p{i}"]).all()) for i in range(n)]
    for k in range(nstat):
      cls = classes[t][cur["owner"][k]] if isinstance(classes[t], (list, tuple)) else classes[t]
      events[k].append({
          "cb": prev["count"], "ca": cur["count"], "g": cls,
          "sc": _bytes(prev["stats"][k]) != _bytes(cur["stats"][k]),
          "pc": _bytes(prev["precs"][k]) != _bytes(cur["precs"][k]),
          "mc": prev["mets"][k] != cur["mets"][k],
          "err": err_class(cur["errs"][k], thr),
          "finp": bool(np.isfinite(_float(cur["precs"][k])).all()),
          "finu": fin_u[cur["owner"][k]],
      })
    if keep:
      kept.append({"stats": [_float(x).copy() for x in cur["stats"]],
                   "precs": [_float(x).copy() for x in cur["precs"]],
                   "upd": {k: v.copy() for k, v in hu.items()},
                   "sh": [sha(_bytes(x)) for x in cur["stats"]],
                   "ph": [sha(_bytes(x)) for x in cur["precs"]]})
    prev = cur
  return events, kept, r
