"""Float64 numpy interpretation of the TFTerms/TFDoc symbols, written from the Tearfree
documentation (independent of /repo/precondition/tearfree)."""
import numpy as np

from harness.refds import merge_dims


def blocks_of(shape, block):
  """ragged blocks of the UNPADDED merged tensor (zero padding adds nothing to real entries)"""
  import itertools
  cuts = []
  for d in shape:
    if d >= block:
      edges = list(range(0, d, block)) + [d]
    else:
      edges = [0, d]
    cuts.append([(edges[i], edges[i + 1]) for i in range(len(edges) - 1)])
  return [tuple(slice(a, b) for (a, b) in combo) for combo in itertools.product(*cuts)]


def pinv_root(c, p, rel_cut=1e-6):
  c = np.asarray(c, np.float64); c = (c + c.T) / 2
  w, v = np.linalg.eigh(c)
  m = w.max() if w.size else 0.0
  keep = w > rel_cut * m
  r = np.where(keep, np.where(keep, w, 1.0) ** (-1.0 / p), 0.0)
  return (v * r) @ v.T


class Shampoo:
  def __init__(self, shape, merge, block):
    self.orig = tuple(shape)
    m = merge_dims(shape, merge)
    self.shape = tuple() if m == [1] else tuple(m)
    self.blocks = blocks_of(self.shape, block)
    self.p = 2 * len(self.shape)

  def grams(self, g):
    g = np.asarray(g, np.float64).reshape(self.shape)
    out = []
    for b in self.blocks:
      gb = g[b]
      out.append([(lambda m: m @ m.T)(np.moveaxis(gb, a, 0).reshape(gb.shape[a], -1)) for a in range(gb.ndim)])
    return out

  def apply(self, g, roots):
    g = np.asarray(g, np.float64).reshape(self.shape)
    out = np.zeros_like(g)
    for bi, b in enumerate(self.blocks):
      gb = g[b]
      for a in range(gb.ndim):
        gb = np.moveaxis(np.tensordot(roots[bi][a], gb, axes=[[1], [a]]), 0, a)
      out[b] = gb
    return out.reshape(self.orig)


class SketchyAxis:
  """Frequent directions per axis as documented: S <- top-k of (b S + G G^T) deflated by the
  (k+1)-th eigenvalue rho, tail <- b tail + rho; roots (l + tail + eps)^(-1/p) on kept directions
  (with positive deflated mass) and (tail + eps)^(-1/p) (0 if tail = 0) on the complement."""

  def __init__(self, d, k, b, eps, rel, p):
    self.d, self.k, self.b, self.eps, self.rel, self.p = d, min(d, k), b, eps, rel, p
    self.S = np.zeros((d, d)); self.tail = 0.0
    self.V = np.zeros((d, self.k)); self.inv = np.zeros(self.k); self.inv_tail = 0.0

  def update(self, gm):
    c = self.b * self.S + gm @ gm.T
    w, v = np.linalg.eigh((c + c.T) / 2)
    w = np.maximum(w[::-1], 0.0); v = v[:, ::-1]
    k = self.k
    rho = w[k] if k < self.d else 0.0
    top = w[:k]
    defl = np.maximum(top - rho, 0.0)
    und = top + self.b * self.tail
    self.tail = self.b * self.tail + rho
    mask = defl > 0
    eps = (und.max() * self.eps) if (self.rel and self.eps > 0) else self.eps
    self.V = v[:, :k] * mask
    self.inv = np.where(mask, (und + eps) ** (-1.0 / self.p), 0.0)
    self.inv_tail = (self.tail + eps) ** (-1.0 / self.p) if self.tail > 0 else 0.0
    self.S = (self.V * defl) @ self.V.T

  def matrix(self):
    return (self.V * self.inv) @ self.V.T + self.inv_tail * (np.eye(self.d) - self.V @ self.V.T)


def rmsprop_step(g, hist, coefs, eps):
  acc = sum(c * np.asarray(h, np.float64) ** 2 for c, h in zip(coefs, hist) if c != 0.0)
  return np.asarray(g, np.float64) / np.sqrt(acc + eps)
