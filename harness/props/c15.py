"""C15 - the Tearfree optimizer equals its documented composition.

M: spec/TFTerms (the chain as implemented: second order -> graft -> [ema scale] -> trace(nesterov) ->
   weight decay before/after -> learning rate with its own counter) refines spec/TFDoc (documented closed
   forms) for every configuration of the bounded option product; exact dyadic coefficients.
R: seeded TLC simulations export behaviours; harness/reftf.py (float64, written from the documentation:
   merge, ragged blocks WITHOUT padding, per-block inverse (2*rank)-th roots with the per-block 1e-6 cut-off,
   frequent-directions root for Sketchy, RMSProp / AdaFactor(optax) graft steps) interprets the symbols
   and is compared with the real update: Shampoo in float64 under x64 (1e-9), Sketchy in float32 (1e-4).
   Every run is paired with a run at twice the learning rate: updates must be in ratio exactly 2 (<= 2 ulp).
"""
import copy

from harness import core

LEVEL = "model_checking"

GEOS = [
    {"so": "shampoo", "shapes": [[4, 4]], "block": 1024, "merge": 3},
    {"so": "shampoo", "shapes": [[6, 3]], "block": 3, "merge": 3},          # 2 blocks
    {"so": "shampoo", "shapes": [[5, 3]], "block": 4, "merge": 3},          # padded to (8,3): ragged block
    {"so": "shampoo", "shapes": [[2, 3, 2]], "block": 1024, "merge": 6},    # merged to (6,2)
    {"so": "shampoo", "shapes": [[6, 6]], "block": 3, "merge": 3, "row_scale": [[3, 6, 1e-4]]},   # 2x2 blocks, scale-disparate
    {"so": "shampoo", "shapes": [[6, 3]], "block": 3, "merge": 3, "row_scale": [[0, 3, 1e3]]},
    {"so": "shampoo", "shapes": [[2, 2, 3]], "block": 1024, "merge": 2},    # rank 3, exponent 6
    {"so": "sketchy", "shapes": [[5, 4]], "block": 1024, "merge": 4, "rank": 2},
    {"so": "sketchy", "shapes": [[6, 3]], "block": 1024, "merge": 3, "rank": 2},
    {"so": "sketchy", "shapes": [[4, 5]], "block": 1024, "merge": 4, "rank": 2, "sk_rel": False, "sk_eps": 1e-6},
]
TOL = {"update": None, "lr_linearity_ulps": 2.0}


def make_jobs(ck, beh, geos=GEOS):
  jobs = []
  for i, b in enumerate(beh):
    geo = dict(geos[i % len(geos)])
    c = b["cfg"]
    if c["skipped"] and c["graft"] != "NONE":
      geo = dict(geo, shapes=geo["shapes"] + [[5]], target=1)     # a rank-1 parameter is masked
    jobs.append({"cfg": c, "geo": geo, "steps": b["steps"], "seed": ck.seed * 10000 + i,
                 "x64": geo["so"] == "shampoo"})
  return jobs


def execute(ck, jobs):
  j64 = [j for j in jobs if j["x64"]]
  j32 = [j for j in jobs if not j["x64"]]
  res = {}
  for js, x in ((j64, True), (j32, False)):
    if js:
      for j, r in zip(js, core.run_workers("harness.workers.tf_terms", js, x64=x, work=ck.work)):
        res[id(j)] = r
  return [res[id(j)] for j in jobs]


def judge(ck, jobs, res, label):
  for j, r in zip(jobs, res):
    c = j["cfg"]
    sig = f"{j['geo']['so']}|{c['graft']}"
    ck.count(1, key=[c, j["geo"]])
    if r["error"]:
      ck.violation(f"tf|{sig}|{'internal_error' if r['kind'] == 'internal' else 'rejected'}",
                   f"{label}: raised {r['error']} cfg={c} geo={j['geo']}", {"job": j, "tb": r["tb"]})
      continue
    ck.calib("update_x64" if j["x64"] else "update_x32", r["worst"]["update"], 1e-9 if j["x64"] else 1e-4)
    ck.calib("lr_linearity_ulps", r["worst"]["lr_linearity_ulps"], 2.0)
    if r["mismatches"]:
      m = r["mismatches"][0]
      ck.violation(f"tf|{sig}|{m['clause']}", f"{label}: step {m['step']}: {m['clause']} ({m['detail']}); cfg={c} "
                   f"geo={j['geo']}", {"job": j, "mismatches": r["mismatches"][:8]})
    else:
      ck.traces_ok(1)


def run(ck):
  quick = ck.quick
  ck.mc("TFTerms_MC", "TFTerms_MC", required_actions=["Step"])
  beh = ck.gen("TFTerms_Gen", "TFTerms_Gen", simulate=(108 if quick else 1200), depth=6)
  ck.sample({"spec_behaviour": {"cfg": beh[0]["cfg"], "step1": beh[0]["steps"][0]}})
  jobs = make_jobs(ck, beh)
  judge(ck, jobs, execute(ck, jobs), "TFTerms_Gen replay")
  # ---- binding self-tests -------------------------------------------------------------------------
  base = next(b for b in beh if b["cfg"]["md"] != [0, 0] and b["cfg"]["nest"] and not b["cfg"]["skipped"])
  bad = copy.deepcopy(base)       # forget the Nesterov look-ahead term of the last step
  last = bad["steps"][-1]["upd"]
  k = len(bad["steps"]) - 1
  key = "S" if last["S"][k] != [0, 0] else "F"
  last[key][k] = bad["steps"][-1]["upd"][key][k - 1] if k > 0 else [0, 0]
  bad2 = copy.deepcopy(next(b for b in beh if not b["cfg"]["skipped"]))   # statistics weight wrong
  bad2["steps"][-1]["root"][0] = [5, 1]
  sub = core.Check(ck.pid, ck.level, ck.tier, ck.seed, parent=ck)
  sj = make_jobs(sub, [bad, bad2], geos=GEOS[:1])
  sr = execute(sub, sj)
  ck.selftest("R: wrong momentum coefficient is flagged", bool(sr[0]["mismatches"]))
  ck.selftest("R: wrong statistics weight in the root is flagged", bool(sr[1]["mismatches"]))
  ck.assume("Sketchy is compared on histories whose per-axis Gram rank exceeds the sketch rank (or rank = dim): "
            "at rank exactly k the exact-zero tests `tail > 0` / `deflated > 0` are decided by float32 noise")
  ck.assume("AdaFactor's graft step is taken from optax (a dependency, not code under test)")
