"""C15 - the Tearfree optimizer equals its documented composition.

M: spec/TFTerms (the chain as implemented: second order -> graft -> [ema scale] -> trace(nesterov) ->
   weight decay before/after -> learning rate with its own counter) refines spec/TFDoc (documented closed
   forms) for every configuration of the bounded option product; exact dyadic coefficients.
R: seeded TLC simulations export behaviours; harness/reftf.py (float64, written from the documentation:
   merge, ragged blocks WITHOUT padding, per-block inverse (2*rank)-th roots with the per-block 1e-6 cut-off,
   frequent-directions root for Sketchy, RMSProp / AdaFactor(optax) graft steps) interprets the symbols
   and is compared with the real update: Shampoo in float64 under x64 (1e-9), Sketchy in float32 (1e-4).
   Every run is paired with a run at twice the learning rate: updates must be in ratio exactly 2 (<= 2 ulp).
"""
import copy

from harness import core

LEVEL = "model_checking"

GEOS = [
    {"so": "shampoo", "shapes": [[4, 4]], "block": 1024, "merge": 3},
    {"so": "shampoo", "shapes": [[6, 3]], "block": 3, "merge": 3},          # 2 blocks
    {"so": "shampoo", "shapes": [[5, 3]], "block": 4, "merge": 3},          # padded to (8,3): ragged block
    {"so": "shampoo", "shapes": [[2, 3, 2]], "block": 1024, "merge": 6},    # merged to (6,2)
    {"so": "shampoo", "shapes": [[6, 6]], "block": 3, "merge": 3, "row_scale": [[3, 6, 1e-4]]},   # 2x2 blocks, scale-disparate
    {"so": "shampoo", "shapes": [[6, 3]], "block": 3, "merge": 3, "row_scale": [[0, 3, 1e3]]},
    {"so": "shampoo", "shapes": [[2, 2, 3]], "block": 1024, "merge": 2},    # rank 3, exponent 6
    {"so": "shampoo", "shapes": [[6, 2, 6]], "block": 3, "merge": 2},       # 2x2 blocks around a small middle axis
    # skip_preconditioning_any_dim_gt EQUAL to the largest dimension: "greater than" does not skip it
    {"so": "shampoo", "shapes": [[4, 3]], "block": 1024, "merge": 3, "skip_dim_gt": 4},
    # Adafactor grafting with its parameter-scale factor, on ordinary and on near-zero parameters (RMS << 1e-3)
    {"so": "shampoo", "shapes": [[4, 3]], "block": 1024, "merge": 3, "mbps": True},
    {"so": "shampoo", "shapes": [[4, 3]], "block": 1024, "merge": 3, "mbps": True, "param_scale": 1e-5},
    # the second block gets no gradient at step 0: zero covariance -> zero root until the next refresh
    {"so": "shampoo", "shapes": [[6, 2]], "block": 3, "merge": 2, "zero_rows_first": [3, 6, 1]},
    # ... and the whole parameter: its second-order direction is exactly zero until the roots are refreshed
    {"so": "shampoo", "shapes": [[4, 3]], "block": 1024, "merge": 3, "zero_rows_first": [0, 4, 1]},
    {"so": "sketchy", "shapes": [[5, 4]], "block": 1024, "merge": 4, "rank": 2},
    {"so": "sketchy", "shapes": [[6, 3]], "block": 1024, "merge": 3, "rank": 2},
    {"so": "sketchy", "shapes": [[4, 5]], "block": 1024, "merge": 4, "rank": 2, "sk_rel": False, "sk_eps": 1e-6},
    {"so": "sketchy", "shapes": [[4, 3]], "block": 1024, "merge": 3, "rank": 2, "tie_first": True},   # exact ties at the cut
    # add_ggt only STORES the moving Gram matrices next to the sketch: the update must stay the documented one
    {"so": "sketchy", "shapes": [[5, 4]], "block": 1024, "merge": 4, "rank": 2, "add_ggt": True},
]
TOL = {"update": None, "lr_linearity_ulps": 2.0}


def make_jobs(ck, beh, geos=GEOS):
  jobs = []
  for i, b in enumerate(beh):
    geo = dict(geos[i % len(geos)])
    c = b["cfg"]
    if c["skipped"] and c["graft"] != "NONE":
      geo = dict(geo, shapes=geo["shapes"] + [[5]], target=1)     # a rank-1 parameter is masked
    jobs.append({"cfg": c, "geo": geo, "steps": b["steps"], "seed": ck.seed * 10000 + i,
                 "x64": geo["so"] == "shampoo"})
  return jobs


def execute(ck, jobs):
  j64 = [j for j in jobs if j["x64"]]
  j32 = [j for j in jobs if not j["x64"]]
  res = {}
  for js, x in ((j64, True), (j32, False)):
    if js:
      for j, r in zip(js, core.run_workers("harness.workers.tf_terms", js, x64=x, work=ck.work)):
        res[id(j)] = r
  return [res[id(j)] for j in jobs]


def judge(ck, jobs, res, label):
  for j, r in zip(jobs, res):
    c = j["cfg"]
    sig = f"{j['geo']['so']}|{c['graft']}"
    ck.count(1, key=[c, j["geo"]])
    if r["error"]:
      ck.violation(f"tf|{sig}|{'internal_error' if r['kind'] == 'internal' else 'rejected'}",
                   f"{label}: raised {r['error']} cfg={c} geo={j['geo']}", {"job": j, "tb": r["tb"]})
      continue
    ck.calib("update_x64" if j["x64"] else "update_x32", r["worst"]["update"], 1e-9 if j["x64"] else 1e-4)
    ck.calib("lr_linearity_ulps", r["worst"]["lr_linearity_ulps"], 2.0)
    if r["mismatches"]:
      m = r["mismatches"][0]
      ck.violation(f"tf|{sig}|{m['clause']}", f"{label}: step {m['step']}: {m['clause']} ({m['detail']}); cfg={c} "
                   f"geo={j['geo']}", {"worker": "harness.workers.tf_terms", "x64": j["x64"], "job": j, "mismatches": r["mismatches"][:8]})
    else:
      ck.traces_ok(1)


def probe_leg(ck, n):
  """V: coefficients of the linear regime measured on the real Tearfree optimizer, validated by TFTerms_Trace."""
  import numpy as np
  rs = np.random.RandomState(ck.seed + 1502)
  pick = lambda xs: xs[rs.randint(len(xs))]
  jobs = []
  for i in range(n):
    cfg = {"graft": "SGD", "start": pick([0, 2]), "skipped": bool(rs.randint(2)), "ema": bool(rs.randint(2)),
           "nest": bool(rs.randint(2)), "md": pick([[0, 0], [1, 2], [1, 1], [3, 2]]),
           "wd": pick([[0, 0], [1, 3], [1, 2], [3, 3]]), "wdafter": bool(rs.randint(2)),
           "lr": pick([[1, 2], [1, 1], [1, 0], [3, 2]]), "lrs": pick(["const", "lin8"]), "SF": pick([1, 2]),
           "PF": pick([1, 2, 3]), "b2": pick([[1, 0], [1, 1]]), "gd": [1, 0]}
    jobs.append({"cfg": cfg, "T": 6, "seed": ck.seed * 1000 + i, "so": pick(["shampoo", "sketchy"])})
  res = core.run_workers("harness.workers.tf_probe", jobs, work=ck.work)
  traces = []
  for j, r in zip(jobs, res):
    if r["error"]:
      ck.violation(f"tf|probe|{'internal_error' if r['kind'] == 'internal' else 'rejected'}",
                   f"coefficient probe raised {r['error']} cfg={j['cfg']}", {"job": j, "tb": r["tb"]})
      continue
    if not r["structure_ok"]:
      ck.violation("tf|probe|update_not_supported_on_the_probed_entry",
                   f"unit-impulse response is not a multiple of the impulse; cfg={j['cfg']}", {"job": j})
      continue
    traces.append(r["trace"])
  verdicts = ck.validate("TFTerms_Trace", "TFTerms_Trace", traces)
  for t, v in zip(traces, verdicts):
    ck.count(1, key=["probe", t["cfg"]])
    if v["accepted"]:
      ck.traces_ok(1)
    else:
      ck.violation(f"tf|probe|{v['verdict']}",
                   f"coefficient probe: trace rejected at step {v['l'] - 1} ({v['verdict']}); cfg={t['cfg']}",
                   {"trace_module": "TFTerms_Trace", "trace": t, "verdict": v})
  ck.sample({"probe_trace": {"cfg": traces[0]["cfg"], "coef_row_T": traces[0]["coef"][-1], "cx": traces[0]["cx"]}})
  bad = copy.deepcopy(traces[0])
  m, e = bad["coef"][-1][-1]
  bad["coef"][-1][-1] = [m * 3 if m else 1, e]
  sub = core.Check(ck.pid, ck.level, ck.tier, ck.seed, parent=ck)
  ck.selftest("V: a measured coefficient altered by a factor 3 is rejected",
              not sub.validate("TFTerms_Trace", "TFTerms_Trace", [bad])[0]["accepted"])


def near_one_decay(ck):
  """second_moment_decay = 1 - 2^-17 (within 1e-5 of 1 but NOT 1): still an exponential moving average.
  TLC's 32-bit dyadics cannot carry (1 - 2^-17)^k, so this decay is compared numerically, outside the term
  machine: Tearfree Shampoo without grafting, three steps, against the float64 closed form
  C_t = d C_{t-1} + (1 - d) g g', update = -lr prod_a C_a^(-1/(2 rank)) g."""
  import numpy as np
  jobs = [{"d": 1.0 - 2.0 ** -17, "shape": [4, 3], "seed": ck.seed * 10 + k, "T": 3} for k in range(2)]
  res = core.run_workers("harness.workers.tf_nearone", jobs, x64=True, work=ck.work)
  for j, r in zip(jobs, res):
    ck.count(1, key=["near_one_decay", j["seed"]])
    if r["error"]:
      ck.violation("tf|shampoo|NONE|near_one_decay|code_raised", f"decay {j['d']!r}: {r['error']}", {"job": j})
      continue
    ck.calib("near_one_decay_update", r["worst"], 1e-6)
    if not r["worst"] <= 1e-6:
      ck.violation("tf|shampoo|NONE|near_one_decay|update_differs_from_documented_composition",
                   f"second_moment_decay = 1 - 2^-17 on a {j['shape']} parameter: update deviates {r['worst']:.3g} from "
                   f"-lr * (EMA covariances)^(-1/4) applied to g (step {r['step']})", {"job": j, "result": r})
    else:
      ck.traces_ok(1)


def run(ck):
  quick = ck.quick
  ck.mc("TFTerms_MC", "TFTerms_MC", required_actions=["Step"])
  ck.mc("TFRefine_MC", "TFRefine_MC", required_actions=["Next"])   # chain machine vs control skeleton, lockstep
  beh = ck.gen("TFTerms_Gen", "TFTerms_Gen", simulate=(108 if quick else 1200), depth=6)
  ck.sample({"spec_behaviour": {"cfg": beh[0]["cfg"], "step1": beh[0]["steps"][0]}})
  jobs = make_jobs(ck, beh)
  judge(ck, jobs, execute(ck, jobs), "TFTerms_Gen replay")
  near_one_decay(ck)
  # ---- binding self-tests -------------------------------------------------------------------------
  base = next(b for b in beh if b["cfg"]["md"] != [0, 0] and b["cfg"]["nest"] and not b["cfg"]["skipped"])
  bad = copy.deepcopy(base)       # forget the Nesterov look-ahead term of the last step
  last = bad["steps"][-1]["upd"]
  k = len(bad["steps"]) - 1
  key = "S" if last["S"][k] != [0, 0] else "F"
  last[key][k] = bad["steps"][-1]["upd"][key][k - 1] if k > 0 else [0, 0]
  bad2 = copy.deepcopy(next(b for b in beh if not b["cfg"]["skipped"]))   # statistics weight wrong
  bad2["steps"][-1]["root"][0] = [5, 1]
  sub = core.Check(ck.pid, ck.level, ck.tier, ck.seed, parent=ck)
  sj = make_jobs(sub, [bad, bad2], geos=GEOS[:1])
  sr = execute(sub, sj)
  ck.selftest("R: wrong momentum coefficient is flagged", bool(sr[0]["mismatches"]))
  ck.selftest("R: wrong statistics weight in the root is flagged", bool(sr[1]["mismatches"]))
  probe_leg(ck, 48 if quick else 600)
  ck.assume("coefficient probing: with the SGD graft and a start step never reached (or a masked parameter) the "
            "chain is exactly linear; unit impulses give dyadic coefficients that are exact in float32")
  ck.assume("Sketchy is compared on histories whose per-axis Gram rank exceeds the sketch rank (or rank = dim): "
            "at rank exactly k the exact-zero tests `tail > 0` / `deflated > 0` are decided by float32 noise")
  ck.assume("AdaFactor's graft step is taken from optax (a dependency, not code under test)")
