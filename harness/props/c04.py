"""C04 - statistics / preconditioner refresh and warm-up follow the configured schedule.

M: spec/DSControl (+TFControl) exhaustively with TLC.
R: DSControl_Gen / TFControl_Gen behaviours replayed into the real optimizers; change bits,
   counts and *provenance* (via the code's own every-step twin) compared per step.
V: randomly configured real runs recorded as traces and validated by DSControl_Trace.
"""
import numpy as np

from harness import core
from harness.props import tf_cadence

LEVEL = "model_checking"

SHAPES = [[(4, 3)], [(5,), (3, 3)], [(2, 3, 2)], [(12,), (3, 4)]]


def ds_replay(ck, behaviours, label):
  jobs = []
  for i, b in enumerate(behaviours):
    c = b["cfg"]
    o = {"mode": c["mode"], "S": c["S"], "P": c["P"], "Start": c["Start"], "sched": c["sched"],
         "End": c["End"], "thr": [0.1, 0.5, 4.0][(i // 3) % 3], "beta1": 0.5 if i % 2 else 0.0,
         "graft": ["SGD", "RMSPROP", "ADAGRAD"][i % 3], "beta2": [1.0, 0.75][(i // 2) % 2],
         "lr": 0.25, "merge": False}
    if c["mode"] in ("pmap", "pmapq"):
      o["D"] = 1
    jobs.append({"o": o, "shapes": SHAPES[i % len(SHAPES)], "T": len(b["steps"]),
                 "seed": ck.seed * 1000 + i, "steps": b["steps"]})
  res = core.run_workers("harness.workers.ds_cadence", jobs, work=ck.work)
  env_dev = 0
  for j, r in zip(jobs, res):
    c = j["o"]
    ck.count(1, key=["ds", c["mode"], c["S"], c["P"], c["Start"], c["sched"], c["End"]])
    env_dev += r["env_dev"]
    for k, v in r["worst"].items():
      ck.calib(k, v, {"stats_twin": 1e-5, "stats_twin_int16": 1e-3, "precs_twin": 1e-3, "precs_twin_int16": 3e-2, "warmup_twin": 1e-6}[k])
    if r["mismatches"]:
      m = r["mismatches"][0]
      ck.violation(f"ds|{c['mode']}|{m['clause']}",
                   f"{label}: S={c['S']} P={c['P']} Start={c['Start']} sched={c['sched']}/{c['End']} "
                   f"step {m['step']} statistic {m['stat']}: {m['clause']} {m.get('detail', '')}",
                   {"worker": "harness.workers.ds_cadence", "job": j, "mismatches": r["mismatches"][:10]})
    else:
      ck.traces_ok(1)
  ck.cov.setdefault("env_deviations", 0)
  ck.cov["env_deviations"] += env_dev
  return jobs, res


def ds_random_traces(ck, n):
  rs = np.random.RandomState(ck.seed + 4)
  jobs = []
  for i in range(n):
    mode = ["rep", "shard", "pmapq", "pmap"][rs.randint(4)]
    sched = ["none", "none", "lin16", "half4"][rs.randint(4)]
    o = {"mode": mode, "S": int(rs.randint(1, 8)), "P": int(rs.randint(1, 8)),
         "Start": int(rs.randint(0, 9)), "sched": sched,
         "End": int([0, 10, 20, 40][rs.randint(4)]) if sched != "none" else 0,
         "thr": float([0.1, 0.5, 0.02][rs.randint(3)]), "beta1": float([0.0, 0.5, 0.9][rs.randint(3)]),
         "beta2": float([1.0, 0.5, 0.999][rs.randint(3)]),
         "graft": ["SGD", "ADAGRAD", "RMSPROP", "RMSPROP_NORMALIZED", "SQRT_N"][rs.randint(5)],
         "nesterov": bool(rs.randint(2)), "eigh": bool(rs.randint(2)), "D": 1,
         "metrics": bool(rs.randint(4) > 0)}
    T = int(rs.randint(8, 25 if ck.quick else 41))
    shapes = SHAPES[rs.randint(len(SHAPES))]
    jobs.append({"o": o, "shapes": shapes, "classes": ["ok"] * T, "seed": int(rs.randint(1 << 30))})
  res = core.run_workers("harness.workers.ds_trace", jobs, work=ck.work)
  traces = []
  for j, r in zip(jobs, res):
    if r["error"]:
      if r["kind"] == "internal":
        ck.violation(f"ds|{j['o']['mode']}|internal_error", f"random cadence run raised {r['error']}",
                     {"job": j, "tb": r["tb"]})
      continue
    traces.extend(r["traces"])
  return traces


def judge_traces(ck, traces, label, prefix="ds"):
  verdicts = ck.validate("DSControl_Trace", "DSControl_Trace",
                         [{"cfg": t["cfg"], "events": t["events"]} for t in traces])
  for t, v in zip(traces, verdicts):
    ck.count(1, key=[label, t["cfg"], len(t["events"]), t["meta"]["seed"], t["meta"]["stat"]])
    if v["accepted"]:
      ck.traces_ok(1)
    else:
      mode = t["cfg"]["mode"]
      ck.violation(f"{prefix}|{mode}|{v['verdict']}",
                   f"{label}: trace rejected at event {v['l']} ({v['verdict']}); cfg={t['cfg']}",
                   {"trace_module": "DSControl_Trace", "trace": t, "verdict": v})
  return verdicts


def run(ck):
  quick = ck.quick
  # ---- M ------------------------------------------------------------------------
  ck.mc("DSControl_MC", "DSControl_MC" if quick else "DSControl_MCT", required_actions=["Update"])
  tf_cadence.model_check(ck)
  # ---- M (unbounded counter): Apalache discharges the inductive invariant of spec/Cadence ------------
  obligations = [("Init", "IndInv", 0), ("IndInit", "IndInv", 1), ("IndInit", "RootNotAhead", 0)]
  done = 0
  for init, inv, length in obligations:
    verdict, text = core.apalache("Cadence", init=init, inv=inv, length=length, cinit="ConstInit", work=ck.work)
    if verdict != "ok":
      raise core.MachineryError(f"Apalache obligation {init} => {inv} (length {length}): {verdict}\n{text[-1500:]}")
    done += 1
  verdict, _ = core.apalache("Cadence", init="IndInit", inv="WrongInv", length=1, cinit="ConstInit", work=ck.work)
  ck.selftest("M: Apalache refutes a deliberately wrong (off-by-one) closed form", verdict == "violated")
  ck.cov["apalache_inductive_obligations"] = {"module": "Cadence", "obligations": len(obligations),
                                              "discharged": done, "constants": "S,P in 1..6, Start in 0..8",
                                              "counter": "unbounded"}
  # ---- R: Distributed Shampoo -----------------------------------------------------
  beh = ck.gen("DSControl_Gen", "DSControl_Gen" if quick else "DSControl_GenT")
  beh += ck.gen("DSControl_Gen", "DSControl_GenS")
  ck.sample({"spec_behaviour": {"cfg": beh[0]["cfg"], "steps": beh[0]["steps"][:3]}})
  ds_replay(ck, beh, "DSControl_Gen replay")
  # binding self-test (R): a behaviour whose expectation is corrupted must be flagged
  import copy
  bad = copy.deepcopy([b for b in beh if b["cfg"]["S"] == 2 and b["cfg"]["mode"] == "rep"][0])
  bad["steps"][1]["sc"] = True
  bad["steps"][1]["stats"] = bad["steps"][1]["stats"] + [1]
  sub = core.Check(ck.pid, ck.level, ck.tier, ck.seed, parent=ck)
  ds_replay(sub, [bad], "selftest")
  ck.selftest("R: corrupted expected statistics refresh is flagged", len(sub.violations) > 0)
  # ---- R: Distributed Shampoo in frequent-directions mode (gradient-averaging windows, reset) ----
  ck.mc("DSFDControl_MC", "DSFDControl_MC", required_actions=["Update"])
  fbeh = ck.gen("DSFDControl_Gen", "DSFDControl_Gen")
  fjobs = [{"cfg": b["cfg"], "steps": b["steps"], "seed": ck.seed * 1000 + i} for i, b in enumerate(fbeh)]
  fres = core.run_workers("harness.workers.ds_fdcadence", fjobs, work=ck.work)
  mass = 0.0
  for j, r in zip(fjobs, fres):
    ck.count(1, key=["dsfd", j["cfg"]])
    if r["error"]:
      ck.violation(f"ds|fd|{'internal_error' if r['kind'] == 'internal' else 'rejected'}",
                   f"FD cadence run raised {r['error']} cfg={j['cfg']}", {"job": j, "tb": r["tb"]})
      continue
    ck.calib("fd_sketch_twin", r["worst"]["fd_sketch_twin"], 1e-3)
    ck.calib("fd_tail_twin", r["worst"]["fd_tail_twin"], 1e-3)
    mass = max(mass, r["worst"]["fd_sketch_mass"])
    if r["mismatches"]:
      m = r["mismatches"][0]
      ck.violation(f"ds|fd|{m['clause']}", f"DSFDControl_Gen replay cfg={j['cfg']} step {m['step']}: {m['clause']} "
                   f"{m.get('detail', '')}", {"worker": "harness.workers.ds_fdcadence", "job": j, "mismatches": r["mismatches"][:8]})
    else:
      ck.traces_ok(1)
  if mass <= 0.0:
    raise core.MachineryError("vacuous: FD sketches are all zero")
  # ---- R: Tearfree ------------------------------------------------------------------
  tf_cadence.replay(ck)
  # ---- V ------------------------------------------------------------------------
  traces = ds_random_traces(ck, 48 if quick else 400)
  ck.sample({"recorded_trace": {"cfg": traces[0]["cfg"], "events": traces[0]["events"][:3]}})
  judge_traces(ck, traces, "random cadence run")
  # binding self-test (V): flip one change bit on a non-refresh step
  t0 = copy.deepcopy(next(t for t in traces if t["cfg"]["P"] > 1 and t["cfg"]["sched"] == "none"))
  t0["events"][1]["pc"] = True
  t1 = copy.deepcopy(traces[0]); t1["events"][2]["ca"] += 1
  sub = core.Check(ck.pid, ck.level, ck.tier, ck.seed, parent=ck)
  vs = sub.validate("DSControl_Trace", "DSControl_Trace",
                    [{"cfg": t["cfg"], "events": t["events"]} for t in (t0, t1)])
  ck.selftest("V: preconditioner change bit on a non-refresh step is rejected", not vs[0]["accepted"])
  ck.selftest("V: count advancing by two is rejected", not vs[1]["accepted"])
  ck.assume("gradients are generic (seeded normal), so 'provenance changed' implies 'bytes changed'")
  ck.assume("twin configurations are different XLA programs: 1e-5 (statistics) / 1e-3 (roots) relative "
            "tolerance instead of bytewise equality; within one run unchanged means bytewise unchanged")
