"""C11 - quantised optimizer state round-trips within half a bucket and never wraps.

M: spec/Quant exhaustively with TLC on the integer lattice: every column <<v, m>> with the column
   maximum m in {1..300} u boundary values (N-1, N, N+1, multiples / divisors of N, 2^15, 2^16) and
   v in -m..m, for N = 127 and N = 32767; every small matrix with / without extract_diagonal.
   NoWrap, HalfBucket, RoundTrip, ZeroExact, MaxHitsN, ZeroColumn, SignKept, RuleAllowed, Idempotent,
   Homogeneous.
R: Quant_Gen exports, for every lattice column and every small / sampled matrix, the SET of payloads
   the spec's Round action may produce; the real QuantizedValue.from_float_value / to_float (eager
   and jit) is run on the column x 2^e for e across the float32 range (near overflow, the normal
   floor, subnormal entries, bucket underflow), as rank 1 / 2 / 3 tensors and as square matrices
   with extract_diagonal; payload membership is exact, bucket / dequantised float are compared with
   the exact rationals, requantisation must reproduce the payload.  Full 24-bit mantissas (beyond
   TLC's 32-bit integers) are judged by the numpy transcription of Quant!Allowed, which is compared
   with TLC's export on every lattice entry.  bfloat16 / float32: pass-through properties.
V: random grid tensors of rank 1..3 recorded as traces and validated by Quant_Trace (the spec's own
   actions with the logged payloads, all invariants on every state).
"""
import copy
import json
import os
import time
from concurrent.futures import ThreadPoolExecutor
from fractions import Fraction

import numpy as np

from harness import core
from harness.workers.quant_replay import NB, allowed_np

LEVEL = "model_checking"
DTS = ("int8", "int16")
SFX = {"int8": "8", "int16": "16"}


def sweep(m, N):
  """Exponents e for a lattice column with max m, by class (exact arithmetic)."""
  e_hi = 128 - m.bit_length()                       # m 2^e_hi <= FLT_MAX
  e_b = -126 - 40
  while Fraction(m) * Fraction(2) ** e_b < N * Fraction(2) ** -126:
    e_b += 1                                        # smallest e with a normal bucket
  e_n = max(e_b, -126)                              # ... and normal entries
  normal = sorted({e for e in (e_hi, e_hi - 1, 100, 40, 10, 0, -1, -20, -60, -100, e_n + 1, e_n)
                   if e_n <= e <= e_hi}, reverse=True)
  subn = list(range(e_b, -126))[:3]
  under = sorted({e for e in (e_b - 1, e_b - 2, -133, -149) if -149 <= e < e_b}, reverse=True)
  return {"normal": normal, "subn": subn, "under": under}


def model_check(ck):
  quick = ck.quick
  t = "" if quick else "T"
  runs = [("Quant_MCM8" + t, ["ExtractDiagonal", "Scale", "Round", "ToFloat", "Requantize"]),
          ("Quant_MCM16" + t, ["ExtractDiagonal", "Scale", "Round", "ToFloat", "Requantize"]),
          ("Quant_MC8" + t, []), ("Quant_MC16" + t, [])]
  if not quick:
    runs += [("Quant_MCM8T3", []), ("Quant_MCM16T3", [])]
  w = max(2, core.NCPU // 4)
  with ThreadPoolExecutor(4) as ex:
    futs = [ex.submit(ck.mc, "Quant_MC", cfg, required_actions=ra, workers=w) for cfg, ra in runs]
    res = [f.result() for f in futs]
  for (cfg, _), r in zip(runs, res):
    if r.depth != 6:
      raise core.MachineryError(f"{cfg}: depth {r.depth} != 6 (extract, scale, round, tofloat, requant)")


def export(ck):
  quick = ck.quick
  t = "" if quick else "T"
  seed = ["-seed", str(ck.seed)]
  names = []
  for dt in DTS:
    s = SFX[dt]
    names += [(dt, "col", "Quant_GenC" + s + t, []), (dt, "mat", "Quant_GenM" + s + t, []),
              (dt, "smp", "Quant_GenS" + s + t, seed)]
  with ThreadPoolExecutor(6) as ex:
    futs = [ex.submit(ck.gen, "Quant_Gen", cfg, extra=extra) for (_, _, cfg, extra) in names]
    outs = [f.result() for f in futs]
  exp = {dt: {"col": {}, "mat": [], "smp": []} for dt in DTS}
  for (dt, kind, cfg, _), items in zip(names, outs):
    for it in items:
      if it["N"] != NB[dt]:
        raise core.MachineryError(f"{cfg}: exported N={it['N']}")
      if kind == "col":
        exp[dt]["col"][it["m"]] = it
      else:
        exp[dt][kind].append(it)
  return exp


def same_col(c, N, **kw):
  m = c["m"]
  v = np.arange(-m, m + 1, dtype=np.int64)
  lo, amb = allowed_np(v, m, N, **kw)
  return lo.tolist() == c["lo"] and sorted(v[amb > 0].tolist()) == sorted(c["amb"]), v.size


def check_transcription(ck, exp):
  """allowed_np (used for full 24-bit mantissas) == Quant!Allowed on every exported entry."""
  n = 0
  for dt in DTS:
    N = NB[dt]
    for m, c in exp[dt]["col"].items():
      same, k = same_col(c, N)
      if not same:
        raise core.MachineryError(f"allowed_np differs from Quant!Allowed for N={N} m={m}")
      n += k
    for it in exp[dt]["mat"] + exp[dt]["smp"]:
      off = np.asarray(it["off"], np.int64)
      lo, amb = allowed_np(off, np.asarray(it["mx"], np.int64)[None, :], N)
      if lo.tolist() != it["lo"] or (lo + amb).tolist() != it["hi"]:
        raise core.MachineryError(f"allowed_np differs from Quant!Allowed on matrix {it['x']} N={N}")
      n += off.size
  ck.cov["transcription_entries_compared_with_tlc"] = n
  # binding: a transcription that lacks the near-tie window, or the exact-bucket rule, is noticed
  cols = exp["int8"]["col"]
  ck.selftest("R: a numpy transcription without the near-tie window differs from TLC's export",
              not all(same_col(c, 127, window=False)[0] for c in cols.values()))
  ck.selftest("R: a numpy transcription without the exact-bucket rule differs from TLC's export",
              not same_col(cols[254], 127, exact=False)[0])


def build_jobs(ck, exp):
  quick = ck.quick
  rs = np.random.RandomState(ck.seed + 11)
  jobs = []
  for dt in DTS:
    N = NB[dt]
    cols = exp[dt]["col"]

    def col(m, classes=("normal", "subn", "under")):
      sw = sweep(m, N)
      es = [e for c in classes for e in sw[c]]
      return {"m": m, "lo": cols[m]["lo"], "amb": cols[m]["amb"], "es": es}
    small = sorted(m for m in cols if m <= 300)
    mid = sorted(m for m in cols if 300 < m <= 2200)
    big = sorted(m for m in cols if m > 2200)
    # (1) rank-1 tensors: every boundary column and a seeded choice of small ones, full sweep
    pick = sorted(set([1, 2, 3, N if N <= 300 else 255, 254, 256, 300] +
                      rs.choice(small, 10 if quick else 60, replace=False).tolist()))
    for jit in (False, True):
      jobs.append({"kind": "cols", "dtype": dt, "jit": jit, "layout": "vec", "L": 601,
                   "cols": [col(m) for m in pick if m in cols]})
      for grp in (mid,):
        if grp:
          jobs.append({"kind": "cols", "dtype": dt, "jit": jit, "layout": "vec", "L": 2 * max(grp) + 1,
                       "cols": [col(m) for m in grp]})
      for m in big:
        c = col(m)
        if quick and jit:
          c["es"] = c["es"][::3]
        jobs.append({"kind": "cols", "dtype": dt, "jit": jit, "layout": "vec", "L": 2 * m + 1, "cols": [c]})
    # (2) every small column in rank-2 / rank-3 tensors and in square matrices with/without
    #     extract_diagonal; each column has its own exponent (all classes mixed)
    for rot in range(2 if quick else 6):
      cs = [col(m) for m in small]
      for c in cs:
        c["es"] = [c["es"][(7 * c["m"] + 3 * rot + i) % len(c["es"])] for i in range(3)]
      for layout in ("mat", "cube", "square", "square_diag"):
        jobs.append({"kind": "cols", "dtype": dt, "jit": bool((rot + len(layout)) % 2), "layout": layout,
                     "L": 601, "c1": 20, "cols": cs, "seed": ck.seed * 100 + rot})
    # (3) small matrices exported by the spec (exhaustive 2x2 (+3x2), sampled up to 5x2 / 4x4)
    items = exp[dt]["mat"] + exp[dt]["smp"]
    per = 400
    for i in range(0, len(items), per):
      jobs.append({"kind": "mats", "dtype": dt, "jit": bool((i // per) % 2), "seed": ck.seed * 1000 + i,
                   "items": items[i:i + per]})
    # (4) full mantissas incl. the FLT_MAX edge
    for i in range(4 if quick else 24):
      jobs.append({"kind": "full", "dtype": dt, "jit": bool(i % 2), "seed": ck.seed * 77 + i,
                   "n": 60, "edge": i % 4 < 2})
  jobs.append({"kind": "pass", "seed": ck.seed, "n": 24 if quick else 200})
  return jobs


def cases(j):
  """distinct replayed cases of a job: (dtype, layout, jit, column max, exponent) / matrix / tensor."""
  if j["kind"] == "cols":
    base = [j["dtype"], j["layout"], j["jit"]]
    if j["layout"] == "vec":
      return [base + [c["m"], e] for c in j["cols"] for e in c["es"]]
    C = j["L"] if j["layout"].startswith("square") else len(j["cols"])
    n = len(j["cols"])
    return [base + [j["cols"][i % n]["m"], j["cols"][i % n]["es"][(i // n) % len(j["cols"][i % n]["es"])]]
            for i in range(C)]
  if j["kind"] == "mats":
    return [[j["dtype"], "mat", j["jit"], it["x"], it["ed"]] for it in j["items"]]
  return [[j.get("dtype", "pass"), j["kind"], j.get("jit"), j["seed"], i, j.get("edge")] for i in range(j["n"])]


def n_cases(j):
  return len(cases(j))


def job_desc(j):
  d = {k: v for k, v in j.items() if k not in ("cols", "items")}
  if "cols" in j:
    d["columns_m"] = [c["m"] for c in j["cols"]][:20]
  return d


def weight(j):
  if j["kind"] == "cols":
    return j["L"] * (sum(len(c["es"]) for c in j["cols"]) if j["layout"] == "vec" else
                     (j["L"] if j["layout"].startswith("square") else len(j["cols"])))
  if j["kind"] == "mats":
    return 3000 * len(j["items"])
  return 20000 * j["n"]


def slim_job(j, v):
  """the job to store in a replay file: for rank-1 sweeps only the offending column / exponent."""
  if j["kind"] == "cols" and j["layout"] == "vec" and isinstance(v.get("detail"), dict) and "m" in v["detail"]:
    cs = [dict(c, es=[v["detail"]["e"]]) for c in j["cols"] if c["m"] == v["detail"]["m"]]
    if cs:
      return dict(j, cols=cs)
  return j


def replay(ck, jobs, label):
  # one process per core (importing jax/flax dominates a short worker's life), balanced mix
  P = core.NCPU
  srt = sorted(range(len(jobs)), key=lambda i: -weight(jobs[i]))
  order = [i for b in range(P) for i in srt[b::P]]
  res = core.run_workers("harness.workers.quant_replay", [jobs[i] for i in order], work=ck.work)
  res = dict(zip(order, res))
  tot = {"entries": 0, "near_ties": 0, "near_ties_up": 0, "normal": 0, "underflow": 0, "subnormal_entry": 0,
         "flags": [[] for _ in jobs]}
  for i, j in enumerate(jobs):
    r = res[i]
    tot["flags"][i] = [v["key"] for v in r["viol"]] + (["error"] if r["error"] else [])
    if r["error"]:
      ck.violation(f"quant|{j.get('dtype', 'pass')}|{'internal_error' if r.get('kind') == 'internal' else 'rejected'}",
                   f"{label}: {job_desc(j)} raised {r['error']}", {"job": job_desc(j), "tb": r.get("tb")})
      continue
    tot["entries"] += r["entries"]
    tot["near_ties"] += r["near_ties"]
    tot["near_ties_up"] += r["near_ties_up"]
    for k in ("normal", "underflow", "subnormal_entry"):
      tot[k] += r["cols"][k]
    ck.calib("bucket_vs_exact_rel_in_2^-24", r["worst"]["bucket_rel_2^-24"], 4.0)
    ck.calib("dequantised_vs_exact_rel_in_2^-24_of_max", r["worst"]["dequant_rel_2^-24"], 4.0)
    cs = cases(j)
    n = len(cs)
    for c in cs:
      ck.count(1, key=c)
    fail = False
    for v in r["viol"]:
      if ck.violation(v["key"], f"{label}: {v['clause']} in {v['tag'] or job_desc(j)}: {v['detail']}",
                      {"job": slim_job(j, v), "violation": v}):
        fail = True
    if not fail:
      ck.traces_ok(n)
  return tot


class SubCheck(core.Check):
  """Context for binding self-tests: same known-finding routing, but a violation provoked by a
  deliberately corrupted expectation must not leave a replay file behind."""

  def __init__(self, ck):
    self.pid, self.level, self.tier, self.seed = ck.pid, ck.level, ck.tier, ck.seed
    self.work = ck.work
    self.violations, self.known_hits, self.selftests, self.assumptions = [], {}, [], []
    self.cov = {"states": 0, "transitions": 0, "traces_validated_against_impl": 0, "samples": [],
                "evaluations": 0, "distinct_nontrivial": 0, "tlc_runs": [], "calibration": {}}
    self._distinct = set()
    self.findings = list(ck.findings)
    self.quick = ck.quick

  def violation(self, key, what, replay=None):
    for f in self.findings:
      if f.get("status") == "open" and (key == f["key"] or key.startswith(f["key"] + "|")):
        self.known_hits.setdefault(f["key"], f["what"])
        return False
    if not any(v[0] == key for v in self.violations):
      self.violations.append((key, what, None))
    return True


def guarded_selftest(ck, name, rejected, base_ok):
  """A binding self-test corrupts a case that the real code passes.  If the code under test is
  itself wrong for the base case the self-test says nothing - and must not turn the VIOLATION
  verdict into a machinery error."""
  if base_ok:
    ck.selftest(name, rejected)
  elif ck.violations:
    ck.assume(f"self-test '{name}' skipped: its uncorrupted base case already violates the property")
  else:
    raise core.MachineryError(f"self-test '{name}': base case fails although no violation was reported")


def record(ck):
  quick = ck.quick
  jobs = []
  for dt in DTS:
    for i in range(core.NCPU // 2 if quick else 2 * core.NCPU):
      jobs.append({"dtype": dt, "seed": ck.seed * 1000 + 17 * i + (0 if dt == "int8" else 500),
                   "n": 40 if quick else 150, "jit": bool(i % 2)})
  res = core.run_workers("harness.workers.quant_trace", jobs, work=ck.work)
  traces = {dt: [] for dt in DTS}
  for j, r in zip(jobs, res):
    if r["error"]:
      ck.violation(f"quant|{j['dtype']}|{'internal_error' if r.get('kind') == 'internal' else 'rejected'}",
                   f"recorded round trip raised {r['error']}", {"job": j, "tb": r.get("tb")})
      continue
    traces[j["dtype"]].extend(r["traces"])
  return traces


def judge(ck, dt, traces, label):
  vs = ck.validate("Quant_Trace", "Quant_Trace" + SFX[dt],
                   [{"x": t["x"], "ed": t["ed"], "events": t["events"]} for t in traces])
  for t, v in zip(traces, vs):
    ck.count(1, key=["V", t["meta"]])
    if v["accepted"]:
      ck.traces_ok(1)
    else:
      ck.violation(f"quant|{dt}|{v['verdict']}",
                   f"{label}: trace rejected at event {v['l']} ({v['verdict']}); shape {t['meta']['shape']} "
                   f"extract_diagonal={t['ed']} x={str(t['x'])[:200]} e={t['meta']['e']}",
                   {"trace": t, "verdict": v})
  return vs


def run(ck):
  t0 = time.time()
  ph = ck.cov.setdefault("phase_wall_s", {})
  if getattr(ck, "replay", None):
    saved = json.load(open(ck.replay))["case"]
    if "job" in saved:
      replay(ck, [saved["job"]], "replay of " + ck.replay)
      ck.sample({"replayed_job": job_desc(saved["job"])})
    elif "trace" in saved:
      judge(ck, saved["trace"]["meta"]["dtype"], [saved["trace"]], "replay of " + ck.replay)
      ck.sample({"replayed_trace": saved["trace"]["meta"]})
    else:
      raise core.MachineryError("replay file holds neither a job nor a trace")
    return
  # ---- M ---------------------------------------------------------------------------------
  if os.environ.get("VERIF_C11_SKIP_M") == "1":     # development only (mutation runs: the model is unchanged)
    ck.assume("M leg skipped by VERIF_C11_SKIP_M=1")
  else:
    model_check(ck)
  ph["M"] = round(time.time() - t0, 1)
  # ---- R ---------------------------------------------------------------------------------
  exp = export(ck)
  ph["gen"] = round(time.time() - t0, 1)
  check_transcription(ck, exp)
  c = exp["int8"]["col"][254]
  ck.sample({"spec_lattice_column": {"N": 127, "m": 254, "lo[250:260]": c["lo"][250:260], "amb[:8]": c["amb"][:8],
                                     "exponent_sweep": sweep(254, 127)}})
  ck.sample({"spec_matrix": next(it for it in exp["int16"]["smp"] if it["ed"])})
  jobs = build_jobs(ck, exp)
  tot = replay(ck, jobs, "Quant_Gen replay")
  ph["replay"] = round(time.time() - t0, 1)
  ck.cov["replayed_entries"] = tot["entries"]
  ck.cov["near_tie_entries"] = tot["near_ties"]
  ck.cov["near_tie_entries_rounded_up"] = tot["near_ties_up"]
  ck.cov["columns_by_class"] = {k: tot[k] for k in ("normal", "underflow", "subnormal_entry")}
  if min(tot["normal"], tot["underflow"], tot["subnormal_entry"], tot["near_ties"]) == 0:
    raise core.MachineryError(f"vacuous: a column class / near ties were never exercised {tot}")
  # (depends on what the code did, so it must never pre-empt a verdict)
  if not ck.violations and (tot["near_ties_up"] == 0 or tot["near_ties_up"] == tot["near_ties"]):
    raise core.MachineryError(f"vacuous: near ties were never resolved both ways by the code {tot}")
  # binding self-tests (R): corrupt the exported set of one normal-range column / the expected
  # diagonal of one matrix; the uncorrupted twins must pass
  base1 = copy.deepcopy(next(j for j in jobs if j["kind"] == "cols" and j["layout"] == "vec" and j["dtype"] == "int8"))
  base1["cols"] = base1["cols"][:1]
  base1["cols"][0]["es"] = [0]
  bad1 = copy.deepcopy(base1)
  bad1["cols"][0]["lo"][0] += 1            # entry -m must map to -127
  base2 = copy.deepcopy(next(j for j in jobs if j["kind"] == "mats" and j["dtype"] == "int16"))
  base2["items"] = [it for it in base2["items"] if it["ed"]][:1]
  bad2 = copy.deepcopy(base2)
  bad2["items"][0]["diag"][0] += 1         # the expected diagonal entry
  sub = SubCheck(ck)
  fl = replay(sub, [base1, bad1, base2, bad2], "selftest")["flags"]
  guarded_selftest(ck, "R: corrupted exported payload set of a normal-range column is an (unmasked) violation",
                   "quant|int8|payload_not_allowed" in fl[1] and
                   "quant|int8|payload_not_allowed" in {v[0] for v in sub.violations}, not fl[0])
  guarded_selftest(ck, "R: corrupted expected diagonal is flagged",
                   any(k.startswith("quant|int16|diagonal_not_") for k in fl[3]), not fl[2])
  # ---- V ---------------------------------------------------------------------------------
  ph["selftest_R"] = round(time.time() - t0, 1)
  traces = record(ck)
  ph["record"] = round(time.time() - t0, 1)
  ok = {}
  for dt in DTS:
    if not traces[dt]:
      if ck.violations:
        return
      raise core.MachineryError("no trace recorded")
    vs = judge(ck, dt, traces[dt], "recorded round trip")
    ok[dt] = [t for t, v in zip(traces[dt], vs) if v["accepted"]]
  ph["validate"] = round(time.time() - t0, 1)
  tr0 = traces["int8"][0]
  ck.sample({"recorded_trace": {"x": tr0["x"], "ed": tr0["ed"], "events": tr0["events"], "meta": tr0["meta"]}})
  base = next((t for t in ok["int16"] if abs(t["events"][2]["q"][0][0]) < 32000 and not t["ed"]), None)
  based = next((t for t in ok["int16"] if t["ed"]), None)
  a = b = d = cdiag = None
  if base:
    a, b, d = copy.deepcopy(base), copy.deepcopy(base), copy.deepcopy(base)
    a["events"][2]["q"][0][0] += 2
    b["events"][4]["q2"][0][0] += 1
    d["events"][1]["mx"][0] += 1
  if based:
    cdiag = copy.deepcopy(based)
    cdiag["events"][0]["diag"][0] += 1
  cases = [("V: payload off by two is rejected", a, ("payload_not_allowed", "payload_wraps")),
           ("V: drifting re-quantised payload is rejected", b, ("requantisation_drifts",)),
           ("V: wrong stored diagonal is rejected", cdiag, ("diagonal_not_stored_exactly",)),
           ("V: wrong column maximum is rejected", d, ("bucket_is_not_column_maxabs_over_N",))]
  have = [c for c in cases if c[1] is not None]
  sub = SubCheck(ck)
  vs = sub.validate("Quant_Trace", "Quant_Trace16",
                    [{"x": t["x"], "ed": t["ed"], "events": t["events"]} for _, t, _ in have]) if have else []
  got = {c[0]: v for c, v in zip(have, vs)}
  for name, t, want in cases:
    guarded_selftest(ck, name, name in got and got[name]["verdict"] in want, t is not None)
  ck.assume("tensors are k * 2^e with integer mantissas k (|k| <= 65535 on the TLC lattice, <= 32768 in traces, "
            "24 bits in the numpy-judged leg) and one exponent per column; scaling by 2^e is exact")
  ck.assume("near-tie window |q - N x/max| <= 1/2 + |N x/max| 2^-21 (twice the rigorous float32 bound incl. "
            "XLA's x/N -> x*(1/N) rewrite under jit); bucket and dequantised float within 4 * 2^-24 relative "
            "of the exact rational (analytic bound 3 * 2^-24, not an empirical tolerance)")
  ck.assume("XLA CPU flushes subnormals: columns with max-abs < N*2^-126, subnormal entries and max-abs = FLT_MAX "
            "are swept on every run and reported under their own known-finding keys; all other columns are strict")
