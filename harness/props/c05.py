"""C05 - grafting: warm-up uses the graft step, afterwards only its norm is transplanted.

M: on spec/DSTerms with momentum and weight decay off the emitted update is exactly one symbol,
   -lr(count) * S(s) from the start step on for a preconditioned parameter, -lr(count) * F(s) before
   it and for skipped parameters (GraftShapeOK, WarmupOK), for every graft type, start step, skip,
   interval and mode; on spec/TFControl the Warmup action property gives the same for Tearfree.
R: every exported behaviour is executed on the real optimizers in every preconditioner
   representation (full, sharded, int16-quantized, low-rank compressed +-r, frequent directions;
   Tearfree Shampoo and Sketchy): S(s) means norm = norm of the graft step and direction = the
   preconditioned gradient, F(s) means the graft step itself; the graft step is additionally
   compared with its closed form (SGD, AdaGrad, RMSProp, normalised variants, sign).
"""
import copy

from harness import core

LEVEL = "model_checking"

REPS = [
    {"mode": "rep", "shapes": [[4, 3], [5]]},
    {"mode": "shard", "shapes": [[4, 3]]},
    {"mode": "pmapq", "shapes": [[4, 3], [3, 3]]},
    {"mode": "rep", "shapes": [[6, 5]], "rank": 2},
    {"mode": "rep", "shapes": [[6, 5], [7]], "rank": -2, "eigh": True},
    {"mode": "rep", "shapes": [[6, 6]], "rank": 2, "fd": True},
    {"mode": "rep", "shapes": [[2, 3, 2]], "block": 2},
    {"mode": "shard", "shapes": [[6, 5]], "rank": 1},
    # reset_preconditioner: documented to behave like beta2 = 1.0 otherwise - used for behaviours whose beta2
    # IS 1; the optimizer is then given beta2 = 0.75 together with reset_preconditioner=True
    {"mode": "rep", "shapes": [[6, 6], [5]], "rank": 2, "fd": True, "reset": True},
]
TOL = {"norm": 1e-5, "cosine": 1e-5, "graft_step": 1e-6, "graft_closed_form": 1e-5,
       "tf_norm": 1e-5, "tf_cosine": 1e-5, "tf_graft_step": 1e-6, "zero_direction_steps": None}


def judge(ck, jobs, res, prefix, label):
  for j, r in zip(jobs, res):
    ck.count(1, key=[prefix, j.get("cfg"), j.get("rep"), j.get("o")])
    sig = j["sig"]
    if r["error"]:
      ck.violation(f"{prefix}|{sig}|{'internal_error' if r['kind'] == 'internal' else 'rejected'}",
                   f"{label}: raised {r['error']}", {"job": j, "tb": r["tb"]})
      continue
    for k, v in r["worst"].items():
      if TOL.get(k) is not None:
        ck.calib(k, v, TOL[k])
    if r["mismatches"]:
      m = r["mismatches"][0]
      ck.violation(f"{prefix}|{sig}|{m['clause']}",
                   f"{label}: step {m['step']}: {m['clause']} ({m.get('detail')}); {sig}",
                   {"worker": "harness.workers." + ("ds_graft" if prefix == "ds" else "tf_graft"), "job": j, "mismatches": r["mismatches"][:8]})
    else:
      ck.traces_ok(1)


def ds_jobs(ck, beh):
  jobs = []
  for i, b in enumerate(beh):
    rep = REPS[i % len(REPS)]
    c = dict(b["cfg"])
    if rep.get("reset") and c["b2"][0] != 2 ** c["b2"][1]:
      rep = REPS[5]                       # same FD representation without the reset option
    jobs.append({"cfg": c, "rep": rep, "steps": b["steps"], "seed": ck.seed * 10000 + i,
                 "sparse": i % 3 == 0, "diag_eps": [1e-10, 2.0 ** -6][(i // 2) % 2],
                 "sig": f"{c['graft']}|{rep['mode']}|rank{rep.get('rank', 0)}{'|fd' if rep.get('fd') else ''}{'|reset' if rep.get('reset') else ''}"})
  return jobs


def tf_jobs(ck, beh):
  jobs = []
  grafts = ["SGD", "RMSPROP", "ADAFACTOR"]
  for i, b in enumerate(beh):
    c = b["cfg"]
    if not c["graft"]:
      continue
    g = grafts[i % 3]
    o = {"so": c["so"], "SF": c["SF"], "PF": c["PF"], "Start": c["Start"], "graft": g,
         "graft_decay": 0.75 if g != "SGD" else 0.0, "decay": [1.0, 0.5][(i // 3) % 2],
         "momentum_decay": 0.0, "block_size": 2 if (c["so"] == "shampoo" and i % 2) else 1024,
         "rank": 2, "lr": 1.0, "merge_dims": 3, "graft_eps": 1e-10, "ekfac": c.get("ekfac", False)}
    if c["skipped"]:
      shapes, target = [(3, 3), (5,)], 1
    else:
      shapes, target = [[(4, 4)], [(3, 3), (5,)], [(4, 6)]][i % 3], 0
    if i % 2:
      # the optimizer object first serves a tree of the same structure whose leaves fall on the other side of
      # the skip rule (matrix <-> vector)
      o["warm_shapes"] = [((5,) if len(s_) > 1 else (3, 3)) for s_ in shapes]
    jobs.append({"o": o, "shapes": shapes, "steps": b["steps"], "target": target, "seed": ck.seed * 10000 + i,
                 "sparse": i % 4 == 0, "late": (c["so"] == "shampoo" and c["PF"] >= 2 and not c["skipped"]),
                 "sig": f"{c['so']}|{g}|{'skipped' if c['skipped'] else 'preconditioned'}"})
  return jobs


def run(ck):
  quick = ck.quick
  # ---- M ----------------------------------------------------------------------------------
  beh = ck.gen("DSTerms_Gen", "DSTerms_Graft", simulate=(96 if quick else 1200), depth=6)
  ck.mc("DSTerms_MC", "DSTerms_MC" if quick else "DSTerms_MCT", required_actions=["Step"])
  ck.mc("TFControl_MC", "TFControl_MC", required_actions=["Update"])
  ck.sample({"ds_spec_behaviour": {"cfg": beh[0]["cfg"], "step1": beh[0]["steps"][0]}})
  # ---- R: Distributed Shampoo ----------------------------------------------------------------
  jobs = ds_jobs(ck, beh)
  res = core.run_workers("harness.workers.ds_graft", jobs, work=ck.work)
  judge(ck, jobs, res, "ds", "DSTerms_Graft replay")
  nS = sum(1 for j in jobs for t, st in enumerate(j["steps"]) if st["upd"]["S"][t] != [0, 0])
  ck.cov["ds_preconditioned_steps_checked"] = nS
  if nS == 0:
    raise core.MachineryError("vacuous: no preconditioned step among the replayed behaviours")
  # ---- R: Tearfree -------------------------------------------------------------------------------
  tbeh = ck.gen("TFControl_Gen", "TFControl_Gen")
  tjobs = tf_jobs(ck, tbeh)
  tres = core.run_workers("harness.workers.tf_graft", tjobs, work=ck.work)
  judge(ck, tjobs, tres, "tf", "TFControl_Gen graft replay")
  ck.sample({"tf_job": {"o": tjobs[0]["o"], "kinds": [s["kind"] for s in tjobs[0]["steps"]]}})
  nz = sum(r["worst"].get("zero_direction_steps", 0) for r in tres if not r["error"])
  ck.cov["tf_zero_direction_steps_checked"] = int(nz)
  if nz == 0:
    raise core.MachineryError("vacuous: no step with a zero preconditioned direction and a non-zero graft step")
  # ---- binding self-tests ----------------------------------------------------------------------------
  bad = copy.deepcopy(next(j for j in jobs if not j["cfg"]["skip"] and j["cfg"]["start"] == 0))
  for t, st in enumerate(bad["steps"]):      # claim "graft step" where the spec says "Shampoo step"
    st["upd"]["F"][t], st["upd"]["S"][t] = st["upd"]["S"][t], [0, 0]
  r = core.run_workers("harness.workers.ds_graft", [bad], work=ck.work)[0]
  ck.selftest("R: swapping S(s) for F(s) in the expectation is flagged", bool(r["mismatches"]))
  tb = copy.deepcopy(next(j for j in tjobs if all(s["kind"] == "precond" for s in j["steps"])))
  for s in tb["steps"]:
    s["kind"] = "graft"
  r = core.run_workers("harness.workers.tf_graft", [tb], work=ck.work)[0]
  ck.selftest("R(tf): expecting the graft step where the spec says preconditioned is flagged", bool(r["mismatches"]))
  ck.assume("direction oracle = the same configuration with grafting NONE (statistics and roots do not "
            "depend on the graft type); graft-step oracle = the same configuration that never starts "
            "preconditioning, itself compared with float64 closed forms")
