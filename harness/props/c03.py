"""C03 - a preconditioner is replaced only by a verified root; failures never leak.

M: gate invariants of spec/DSControl (GateSafe, GateSelect, SentinelKeeps, ThrZeroFrozen,
   StoredFinite, ModerateFinite) over every fault schedule / error class / threshold / mode.
R+V: TLC enumerates the fault schedules (DSControl_Faults); each is driven through the real
   optimizer in replicated, pmap-int16-quantized and sharded mode with thresholds
   {0, tiny, default, huge}, ridge {0, >0}, Newton / eigh; the recorded per-statistic traces
   (change bits, error class, finiteness) are validated by TLC against DSControl_Trace.
"""
import copy

from harness import core
from harness.props.c04 import judge_traces

LEVEL = "model_checking"

SHAPES = [[(4, 3), (1,), (5,)], [(3, 3), (2, 1)], [(6,), (2, 2, 2)]]
THRS = [0.1, 0.0, 1e-30, 1e30]
VARIANTS = [  # (eigh, matrix_epsilon, relative, graft)
    (False, 1e-6, True, "SGD"), (True, 0.0, True, "RMSPROP"), (False, 0.0, False, "ADAGRAD"),
    (True, 1e-6, True, "SQRT_N"), (False, 1e-12, True, "RMSPROP_NORMALIZED"), (True, 0.0, False, "NONE"),
]


def run(ck):
  quick = ck.quick
  ck.mc("DSControl_MC", "DSControl_MC" if quick else "DSControl_MCT", required_actions=["Update"])
  fs = ck.gen("DSControl_Faults", "DSControl_Faults" if quick else "DSControl_FaultsT")
  by_cfg = {}
  for f in fs:
    by_cfg.setdefault(core.json.dumps(f["cfg"], sort_keys=True), []).append(f["sched"])
  ck.sample({"fault_schedule_from_TLC": fs[len(fs) // 2]})
  jobs = []
  i = 0
  for ckey, scheds in sorted(by_cfg.items()):
    c = core.json.loads(ckey)
    if quick:
      # every (mode, S, P) x every threshold; graft/root variants rotate; each combination gets a
      # quarter of the schedules.  Plus one combination that always stresses the eigh route with no
      # ridge on rank-deficient statistics (vector-shaped parameters), where a clipped non-positive
      # eigenvalue would turn into an infinite root.
      combos = [(thr, VARIANTS[(i + k) % 6], scheds[k::4], SHAPES[(i + k) % len(SHAPES)], bool((i + k) % 2))
                for k, thr in enumerate(THRS)]
      combos.append(([0.1, 1e30][i % 2], VARIANTS[[1, 5][(i // 2) % 2]], scheds[(i % 4)::4], SHAPES[0], True))
      # ... and one that routes the roots through the LOBPCG-deflated Newton iteration (statistics of size
      # 12: below ~11 the LOBPCG kernel itself refuses the matrix - open C07 finding; the vector parameter keeps
      # its statistic rank deficient, where LOBPCG falls back to no deflation), with and without ridge,
      # where the error figure that reaches the gate is the re-verification against the ORIGINAL matrix
      combos.append(([1e30, 0.1][i % 2], (False, [0.0, 1e-6][(i // 2) % 2], True, "SGD", 2),
                     scheds[((i + 1) % 4)::4], [(12,), (12, 12)], False))
    else:
      combos = [(t, v, scheds, SHAPES[(i + a + b) % len(SHAPES)], bool((a + b) % 2))
                for a, t in enumerate(THRS) for b, v in enumerate(VARIANTS)]
    # ... and a tree whose statistics are ALL 1x1 (the closed-form scalar branch of the Newton routine), without
    # ridge: a zero gradient leaves the statistic exactly 0 and its root infinite - the gate must reject it
    combos.append(([0.1, 1e30][(i // 2) % 2], (False, 0.0, [True, False][i % 2], "SGD"),
                   scheds[((i + 2) % 4)::4], [(1,), (1, 1)], False))
    for (thr, variant, sub, shapes, merge) in combos:
      eigh, eps, rel, graft = variant[:4]
      o = {"lobpcg": variant[4] if len(variant) > 4 else 0, "mode": c["mode"], "S": c["S"], "P": c["P"], "Start": c["Start"], "thr": thr, "eigh": eigh,
           "matrix_epsilon": eps, "relative_eps": rel, "graft": graft, "beta1": 0.5, "beta2": 0.75,
           "D": 1, "merge": merge}
      if o["lobpcg"]:
        o["block_size"] = 16          # one 12x12 statistic per axis (the LOBPCG kernel needs 5 k < n)
      nchunk = 1 if quick else 3
      for q in range(nchunk):
        jobs.append({"o": o, "shapes": shapes, "schedules": sub[q::nchunk],
                     "seed": ck.seed * 100000 + len(jobs) * 1000})
    i += 1
  res = core.run_workers("harness.workers.ds_faults", jobs, work=ck.work, chunk=1)
  traces = []
  for j, r in zip(jobs, res):
    for e in r["errors"]:
      if e["kind"] == "internal":
        ck.violation(f"ds|{j['o']['mode']}|internal_error", f"fault run raised {e['error']} at {e['where']}",
                     {"job": {k: v for k, v in j.items() if k != 'schedules'}, "err": e})
    traces.extend(r["traces"])
  ck.cov["fault_runs"] = sum(len(j["schedules"]) for j in jobs)
  ck.sample({"recorded_trace": {"cfg": traces[0]["cfg"], "classes": traces[0]["meta"]["classes"],
                                "events": traces[0]["events"][:3]}})
  # TLC validates in batches (JSON parsing in TLC is the bottleneck for very large files)
  B = 6000
  for b in range(0, len(traces), B):
    judge_traces(ck, traces[b:b + B], "fault schedule")
  # how often did the gate actually reject / accept?  (vacuity control)
  rej = sum(1 for t in traces for e in t["events"] if e["err"] in ("nan", "inf", "atabove") and not e["pc"])
  acc = sum(1 for t in traces for e in t["events"] if e["pc"])
  ck.cov["gate_rejections_observed"] = rej
  ck.cov["gate_acceptances_observed"] = acc
  if rej == 0 or acc == 0:
    raise core.MachineryError("vacuous fault sweep: the gate never rejected or never accepted")
  # binding self-tests
  t0 = copy.deepcopy(next(t for t in traces if any(e["err"] == "nan" for e in t["events"])))
  k = next(i for i, e in enumerate(t0["events"]) if e["err"] == "nan")
  t0["events"][k]["pc"] = True
  t1 = copy.deepcopy(traces[0]); t1["events"][-1]["finp"] = False
  sub = core.Check(ck.pid, ck.level, ck.tier, ck.seed, parent=ck)
  vs = sub.validate("DSControl_Trace", "DSControl_Trace",
                    [{"cfg": t["cfg"], "events": t["events"]} for t in (t0, t1)])
  ck.selftest("V: root replaced although the reported error is NaN is rejected", not vs[0]["accepted"])
  ck.selftest("V: non-finite stored root is rejected", not vs[1]["accepted"])
  ck.assume("error class is read from training_metrics after the update; on non-refresh steps the gate's "
            "sentinel is modelled, not observed")
  ck.assume("pmap-quantized mode runs on one forced host device here (device counts are C13's subject)")
