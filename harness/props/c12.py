"""C12 - SM3 accumulators cover the true second moment.

M: spec/SM3 exhaustively with TLC (Cover, StepBound, NuBelowAcc, Tight, Rank1Exact, Mono,
   MonoDecay, CountStep) over shapes 2, 3, 2x2, 2x3, 2x2x2 (+3x2, 2x1x2x2 thorough), decay 1, 1/2
   (3/4 thorough), T <= 3.
R: every SM3_Gen behaviour of depth <= 2 (exhaustive) and a seeded -simulate sample of depth 3
   through the real precondition.sm3.sm3(beta1=0, weight_decay=0): accumulators must EQUAL the
   spec's after every update, the update must be -lr g / sqrt(nu + eps) for the spec's nu.
V: (a) integer-grid runs with beta1 / weight decay / other shapes (ranks 1..4) recorded and
   validated by SM3_Trace (the spec re-executes Moving/Sketch on the logged gradients, compares
   the logged accumulators and evaluates every invariant on the reconstructed state);
   (b) float runs with beta1, weight decay, normalize_grads, ranks 1..4: per-update violation
   counts against an exact float64 recursion (one-sided margin) validated by SM3_Trace.
"""
import copy
import json
import os
import time

import numpy as np

from harness import core
from harness.workers import sm3_replay

LEVEL = "model_checking"

LR = 0.25
EPS = 2.0 ** -10


def _key(cfg):
  return (tuple(cfg["shape"]), cfg["bn"], cfg["bd"], cfg.get("tag", ""))


def replay(ck, behaviours, label, chunk=400):
  groups = {}
  for b in behaviours:
    groups.setdefault(_key(b["cfg"]), []).append(b)
  jobs = []
  for k, bs in sorted(groups.items()):
    for i in range(0, len(bs), chunk):
      part = bs[i:i + chunk]
      jobs.append({"cfg": part[0]["cfg"], "lr": LR, "eps": EPS,
                   "eager": False, "behaviours": [b["steps"] for b in part]})
    # the same code without jit on a few behaviours of every configuration
    part = bs[::max(1, len(bs) // 12)][:12]
    jobs.append({"cfg": part[0]["cfg"], "lr": LR, "eps": EPS, "eager": True,
                 "behaviours": [b["steps"] for b in part]})
  # one process per core (importing jax/optax/flax dominates a worker's life); interleave so
  # that every process gets a similar mix of large and small jobs
  order = sorted(range(len(jobs)), key=lambda i: i % core.NCPU)
  jobs = [jobs[i] for i in order]
  res = core.run_workers("harness.workers.sm3_replay", jobs, work=ck.work)
  # vacuity statistics from the SPEC's behaviours (independent of what the code did): steps that
  # start from unequal accumulators (the min matters) and steps whose nu exceeds the exact moment
  mattered = sum(1 for b in behaviours for i, st in enumerate(b["steps"])
                 if i > 0 and len(b["cfg"]["shape"]) > 1 and any(len(set(a)) > 1 for a in b["steps"][i - 1]["acc"]))
  lossy = sum(1 for b in behaviours for st in b["steps"] if any(n_ > e_ for n_, e_ in zip(st["nu"], st["ex"])))
  flagged = set()
  for j, r in zip(jobs, res):
    c = j["cfg"]
    rk = f"rank{len(c['shape'])}"
    b2 = f"beta2={c['bn']}/{c['bd']}"
    if r["error"]:
      flagged.add(c.get("tag", ""))
      ck.violation(f"sm3|{rk}|{'internal_error' if r.get('kind') == 'internal' else 'rejected'}",
                   f"{label}: shape {c['shape']} {b2}: sm3 raised {r['error']}",
                   {"job_cfg": c, "tb": r.get("tb")})
      continue
    if r["mismatches"]:
      flagged.add(c.get("tag", ""))
    ck.calib("update_vs_spec_nu_rel", r["worst_upd"], sm3_replay.UPD_TOL)
    bad = {m["beh"] for m in r["mismatches"]}
    for bi, steps in enumerate(j["behaviours"]):
      ck.count(1, key=["R", c["shape"], c["bn"], c["bd"], j["eager"], [s["g"] for s in steps]])
      if bi not in bad:
        ck.traces_ok(1)
    for m in r["mismatches"][:1]:
      ck.violation(f"sm3|{rk}|{m['clause']}",
                   f"{label}: shape {c['shape']} {b2} {'eager' if j['eager'] else 'jit'}: step {m['step']} "
                   f"gradients {[s['g'] for s in j['behaviours'][m['beh']][:m['step'] + 1]]}: "
                   f"{m['clause']} {str(m['detail'])[:300]}",
                   {"cfg": c, "steps": j["behaviours"][m["beh"]], "mismatch": m, "lr": LR, "eps": EPS})
  return mattered, lossy, flagged


class SubCheck(core.Check):
  """Context for binding self-tests: same known-finding routing, but a violation provoked by a
  deliberately corrupted expectation must not leave a replay file behind."""

  def __init__(self, ck):
    self.pid, self.level, self.tier, self.seed = ck.pid, ck.level, ck.tier, ck.seed
    self.work = ck.work
    self.violations, self.known_hits, self.selftests, self.assumptions = [], {}, [], []
    self.cov = {"states": 0, "transitions": 0, "traces_validated_against_impl": 0, "samples": [],
                "evaluations": 0, "distinct_nontrivial": 0, "tlc_runs": [], "calibration": {}}
    self._distinct = set()
    self.findings = list(ck.findings)
    self.quick = ck.quick

  def violation(self, key, what, replay=None):
    for f in self.findings:
      if f.get("status") == "open" and (key == f["key"] or key.startswith(f["key"] + "|")):
        self.known_hits.setdefault(f["key"], f["what"])
        return False
    if not any(v[0] == key for v in self.violations):
      self.violations.append((key, what, None))
    return True


def guarded_selftest(ck, name, rejected, base_ok):
  """A binding self-test corrupts a case that the real code passes.  If the code under test is
  itself wrong for the base case the self-test says nothing - and must not turn the VIOLATION
  verdict into a machinery error."""
  if base_ok:
    ck.selftest(name, rejected)
  elif ck.violations:
    ck.assume(f"self-test '{name}' skipped: its uncorrupted base case already violates the property")
  else:
    raise core.MachineryError(f"self-test '{name}': base case fails although no violation was reported")


def record(ck, n_grid, n_float):
  rs = np.random.RandomState(ck.seed + 12)
  shapes = [(5,), (3,), (2, 3), (4, 2), (3, 3), (2, 2, 3), (3, 1, 2), (2, 2, 2, 2), (2, 3, 1, 2), (1, 4)]
  jobs = []
  for i in range(n_grid):
    bn, bd = [(1, 1), (1, 2), (3, 4), (1, 4)][rs.randint(4)]
    sh = shapes[rs.randint(len(shapes))]
    T = int(rs.randint(2, 6 if bd < 4 else 5))
    jobs.append({"kind": "grid", "shape": list(sh), "T": T, "seed": int(rs.randint(1 << 30)),
                 "lr": 0.125, "beta1": float([0.0, 0.5, 0.9][rs.randint(3)]),
                 "wd": float([0.0, 0.125][rs.randint(2)]), "normalize": False, "eps": EPS,
                 "bn": bn, "bd": bd, "lo": -3, "hi": 3, "eager": i % 4 == 3})
  for i in range(n_float):
    sh = shapes[rs.randint(len(shapes))]
    jobs.append({"kind": "float", "shape": list(sh), "T": int(rs.randint(3, 13)),
                 "seed": int(rs.randint(1 << 30)), "lr": float([0.1, 1.0, 1e-3][rs.randint(3)]),
                 "beta1": float([0.0, 0.0, 0.9][rs.randint(3)]),
                 "wd": float([0.0, 0.0, 0.01][rs.randint(3)]),
                 "normalize": bool(rs.randint(3) == 0),
                 "eps": float([1e-10, 1e-6][rs.randint(2)]),
                 "beta2": float([1.0, 0.999, 0.9, 0.5, 0.99][rs.randint(5)]),
                 "scale": float(10.0 ** rs.randint(-4, 4)), "eager": i % 4 == 1, "companion": i % 3 == 2})
  # low-precision parameters, long histories: the second-moment recursion must not lose increments once
  # an accumulator is 2^8 (bfloat16) / 2^11 (float16) times larger than the incoming squared gradient
  for i in range(max(4, n_float // 15)):
    sh = [(5,), (2, 3), (3, 2, 2), (4, 2)][i % 4]
    jobs.append({"kind": "float", "shape": list(sh), "T": int([300, 600][i % 2] if i % 3 else 2600),
                 "seed": int(rs.randint(1 << 30)), "lr": 0.1, "beta1": 0.0, "wd": 0.0, "normalize": False,
                 "eps": 1e-10, "beta2": float([1.0, 1.0, 0.75, 0.5][(i // 2) % 4]), "scale": 1.0, "pow2": True,
                 "pdtype": ["bfloat16", "float16"][(i // 3) % 2 if i % 3 == 0 else 0]})
  res = core.run_workers("harness.workers.sm3_trace", jobs, work=ck.work)
  traces = []
  for j, r in zip(jobs, res):
    if r["error"]:
      ck.violation(f"sm3|rank{len(j['shape'])}|{'internal_error' if r.get('kind') == 'internal' else 'rejected'}",
                   f"recorded run raised {r['error']} (job {j})", {"job": j, "tb": r.get("tb")})
      continue
    if j["kind"] == "float":
      # recorded with margin MARGIN; the worst observed excess must stay far below it
      ck.calib("float_cover_excess_rel", max(r["worst"]["cover"], 0.0), 1e-4)
      ck.calib("float_rank1_diff_rel", r["worst"]["rank1"], 1e-4)
      ck.calib("float_step_excess_rel", max(r["worst"]["step"], 0.0), 1e-4)
    traces.append(r["trace"])
  return traces


def judge(ck, traces, label):
  vs = ck.validate("SM3_Trace", "SM3_Trace", [{"cfg": t["cfg"], "events": t["events"]} for t in traces])
  for t, v in zip(traces, vs):
    m = t["meta"]
    ck.count(1, key=[label, t["cfg"], m["kind"], m["seed"], m["T"]])
    if v["accepted"]:
      ck.traces_ok(1)
    else:
      ck.violation(f"sm3|rank{len(t['cfg']['shape'])}|{m['kind']}|{v['verdict']}",
                   f"{label}: trace rejected at event {v['l']} ({v['verdict']}); cfg={t['cfg']} "
                   f"beta1={m['beta1']} wd={m['wd']} normalize={m['normalize']} "
                   f"beta2={m.get('beta2', (m.get('bn'), m.get('bd')))}",
                   {"trace": t, "verdict": v})
  return vs


def run(ck):
  t0 = time.time()
  ph = ck.cov.setdefault("phase_wall_s", {})
  if getattr(ck, "replay", None):
    saved = json.load(open(ck.replay))["case"]
    if "steps" in saved:
      replay(ck, [{"cfg": saved["cfg"], "steps": saved["steps"]}], "replay of " + ck.replay)
      ck.sample({"replayed_behaviour": saved["cfg"]})
    elif "trace" in saved:
      judge(ck, [saved["trace"]], "replay of " + ck.replay)
      ck.sample({"replayed_trace": saved["trace"]["cfg"]})
    else:
      raise core.MachineryError("replay file holds neither a behaviour nor a trace")
    return
  quick = ck.quick
  # ---- M ------------------------------------------------------------------------------
  if os.environ.get("VERIF_C12_SKIP_M") == "1":     # development only (mutation runs: the model is unchanged)
    ck.assume("M leg skipped by VERIF_C12_SKIP_M=1")
  else:
    ck.mc("SM3_MC", "SM3_MCV", required_actions=["Grad", "Sketch"])       # vacuity (with coverage)
    r = ck.mc("SM3_MC", "SM3_MC" if quick else "SM3_MCT")
    if r.depth < 7:
      raise core.MachineryError(f"SM3_MC explored depth {r.depth} < 7: horizon T=3 not reached")
  ph["M"] = round(time.time() - t0, 1)
  # ---- R ------------------------------------------------------------------------------
  beh = ck.gen("SM3_Gen", "SM3_Gen" if quick else "SM3_GenT")
  sim = ck.gen("SM3_Gen", "SM3_GenS", simulate=600 if quick else 6000, depth=7)
  if any(len(b["steps"]) != b["cfg"]["T"] for b in beh + sim):
    raise core.MachineryError("SM3_Gen exported an incomplete behaviour")
  ck.sample({"spec_behaviour": next(b for b in beh if b["cfg"]["shape"] == [2, 2] and b["cfg"]["bd"] == 2
                                     and b["steps"][0]["g"] == [2, -1, -1, 2])})
  ck.sample({"spec_behaviour_simulated": sim[0]})
  ph["gen"] = round(time.time() - t0, 1)
  mattered, lossy, _ = replay(ck, beh + sim, "SM3_Gen replay", chunk=200)
  ph["replay"] = round(time.time() - t0, 1)
  m2 = l2 = 0
  ck.cov["steps_where_min_over_unequal_accumulators"] = mattered
  ck.cov["steps_where_nu_exceeds_exact"] = lossy
  if mattered == 0 or lossy == 0:
    raise core.MachineryError("vacuous replay: the min over accumulators / the lossy sketch never mattered")
  # binding self-tests (R): one corrupted expected accumulator / one corrupted nu must be flagged
  base = next(b for b in beh if b["cfg"]["shape"] == [2, 2] and b["cfg"]["T"] == 2
              and b["steps"][0]["g"] == [2, -1, -1, 2])
  base0, bad1, bad2 = copy.deepcopy(base), copy.deepcopy(base), copy.deepcopy(base)
  bad1["steps"][1]["acc"][1][0] += 1
  bad2["steps"][0]["nu"][0] *= 2
  base0["cfg"] = dict(base["cfg"], tag="base")            # separate jobs
  bad1["cfg"] = dict(base["cfg"], tag="acc")
  bad2["cfg"] = dict(base["cfg"], tag="nu")
  sub = SubCheck(ck)
  _, _, flagged = replay(sub, [base0, bad1, bad2], "selftest")
  guarded_selftest(ck, "R: expected accumulator entry + 1 is flagged", "acc" in flagged, "base" not in flagged)
  guarded_selftest(ck, "R: expected nu entry * 2 is flagged", "nu" in flagged, "base" not in flagged)
  # ---- V ------------------------------------------------------------------------------
  ph["selftest_R"] = round(time.time() - t0, 1)
  traces = record(ck, 60 if quick else 600, 90 if quick else 900)
  ph["record"] = round(time.time() - t0, 1)
  if not traces:
    if ck.violations:
      return
    raise core.MachineryError("no trace recorded")
  ck.sample({"recorded_trace": {"cfg": traces[0]["cfg"], "events": traces[0]["events"][:2],
                                "meta": traces[0]["meta"]}})
  fl = next((t for t in traces if t["meta"]["kind"] == "float"), None)
  if fl:
    ck.sample({"recorded_float_trace": {"cfg": fl["cfg"], "events": fl["events"][:2], "meta": fl["meta"]}})
  vs = judge(ck, traces, "recorded sm3 run")
  ok = [t for t, v in zip(traces, vs) if v["accepted"]]

  def pick(pred):
    return copy.deepcopy(next((t for t in ok if pred(t)), None))
  g0 = pick(lambda t: t["meta"]["kind"] == "grid" and len(t["cfg"]["shape"]) > 1)
  f0 = pick(lambda t: t["meta"]["kind"] == "float")
  f1 = pick(lambda t: t["meta"]["kind"] == "float" and t["cfg"]["b2one"])
  if g0:
    g0["events"][-1]["acc"][0][0] += 1
  if f0:
    f0["events"][-1]["cover"] = 1
  if f1:
    f1["events"][1]["mono"] = 1
  cases = [("V: logged accumulator + 1 is rejected", g0), ("V: one uncovered coordinate is rejected", f0),
           ("V: decreasing accumulator with beta2 = 1 is rejected", f1)]
  sub = SubCheck(ck)
  have = [(n_, t) for n_, t in cases if t is not None]
  vs = sub.validate("SM3_Trace", "SM3_Trace", [{"cfg": t["cfg"], "events": t["events"]} for _, t in have]) if have else []
  got = {n_: v for (n_, _), v in zip(have, vs)}
  for n_, t in cases:
    guarded_selftest(ck, n_, n_ in got and not got[n_]["accepted"], t is not None)
  ck.assume("replayed gradients are small integers and beta2 is dyadic, so float32 accumulators are exact "
            "and compared with ==; the update is compared with 2e-5 relative tolerance (float32 sqrt/divide)")
  ck.assume("float traces: inequalities are judged against a float64 recursion with a one-sided relative "
            "margin of 1e-4 (float32 rounding over <= 12 steps is < 1e-5); monotonicity for beta2 = 1 is exact")
  ck.assume("beta1 = 0 and weight_decay = 0 in replay so that the returned update is the pre-momentum step "
            "(sm3 quantises momentum to int8)")
