"""C08 - block-diagonal semantics: blocks and parameters do not influence each other.

M: spec/Blocks (dependency sets through the phases stats -> roots -> apply -> graft -> emit):
   BlockLocal / ParamLocal hold when the root routine's cut-off and padding are per block and are
   violated for the "batch" cut-off (Tearfree before its repair) and for leaky padding.
R: TLC enumerates the cases (block layout x per-block gradient scale classes x companion);
   for each, on the real Distributed Shampoo and Tearfree Shampoo: the blocked tensor's update equals,
   block by block, the update of the blocks optimised as separate leaves; the grafted update is the
   un-grafted one times ONE scalar; adding a companion parameter (vector, larger matrix, 1e6-scale
   leaf) does not change the target's update.
"""
from harness import core

LEVEL = "model_checking"
TOL = {"blocked_vs_leaves": 1e-4, "common_factor": 1e-4, "companion": 1e-4, "companion_sharded_compressed": 1e-3}


def run(ck):
  quick = ck.quick
  ck.mc("Blocks_MC", "Blocks_block_masked", required_actions=["Stats", "Roots", "Apply", "Graft", "Emit"])
  for bad in ("Blocks_batch_masked", "Blocks_block_leaky"):
    r = core.tlc("Blocks_MC", bad, work=ck.work)
    ck.selftest(f"M: model variant {bad} violates BlockLocal (invariant is not vacuous)",
                r.violated in ("BlockLocal", "ParamLocal"))
  cases = ck.gen("Blocks_Gen", "Blocks_Gen")
  jobs = []
  cases = sorted(cases, key=lambda c: (c["blocks"], c["scales"], c["companion"]))
  kinds = ["none", "vector", "matrix", "huge"]
  groups = sorted({(c["blocks"], c["scales"]) for c in cases})
  for i, c in enumerate(cases):
    # quick: half of the cases - every (layout, scales) group keeps two companion kinds, alternating between
    # {none, matrix} and {vector, huge} from group to group, so every kind meets every layout
    if quick and (kinds.index(c["companion"]) + groups.index((c["blocks"], c["scales"]))) % 2:
      continue
    for opt in ("ds", "tf"):
      jobs.append({"opt": opt, "case": c, "seed": ck.seed * 1000 + i, "quick": quick, "eigh": bool((i // 2) % 2), "shard_leg": (len(jobs) % 16 == 0),      # every 8th kept case (two jobs per case)
                   "middle": bool((i // 4) % 2),      # 2x2 layouts: every other one as (2b, 2, 2b)
                   "graft": {"ds": ["SGD", "RMSPROP", "ADAGRAD"][i % 3], "tf": ["SGD", "RMSPROP"][i % 2]}[opt]})
  if not any(j.get("shard_leg") and j["opt"] == "ds" for j in jobs):
    raise core.MachineryError("vacuous: no job carries the sharded companion leg")
  ck.sample({"case_from_TLC": cases[3], "meaning": "blocked target, per-block scales, companion"})
  res = core.run_workers("harness.workers.blocks_indep", jobs, work=ck.work)
  for j, r in zip(jobs, res):
    ck.count(1, key=[j["opt"], j["case"]])
    sig = f"{j['opt']}|blocks{j['case']['blocks']}"
    if r["error"]:
      ck.violation(f"{sig}|{'internal_error' if r['kind'] == 'internal' else 'rejected'}",
                   f"raised {r['error']} for {j['case']}", {"job": j, "tb": r["tb"]})
      continue
    for k, v in r["worst"].items():
      ck.calib(k, v, TOL[k])
    if r["mismatches"]:
      m = r["mismatches"][0]
      ck.violation(f"{sig}|{m['clause']}",
                   f"{j['opt']} case {j['case']}: step {m['step']} block {m['block']}: {m['clause']} "
                   f"(rel. diff {m['detail']})", {"worker": "harness.workers.blocks_indep", "job": j, "mismatches": r["mismatches"][:8]})
    else:
      ck.traces_ok(1)
  ck.assume("blocked and separate-leaf runs are different XLA programs (different padding sizes): 1e-4 "
            "relative to each block's own max-abs; gradients per block are seeded normals times the scale class")
