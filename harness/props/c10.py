"""C10 - the low-rank packed preconditioner agrees with the dense matrix it denotes.

M: spec/LowRank.tla exhaustively with TLC for every d <= 12, |r| + 2 < d, both signs, padding
   0..3, gradient rank 1..3 x three preconditioner types: slots in bounds / disjoint, pack ->
   unpack round trip on distinct tokens, _precond_dim / _should_compress, storage-cycle loss,
   selection rule / partition / divisor of _low_rank_root, loop invariant and axis bookkeeping of
   Preconditioner._precondition_block.
R: every exported case is replayed on the real functions (harness/workers/lowrank_cases.py):
   cell-exact pack / unpack, _low_rank_root on prescribed spectra (x64), compressed application vs
   numpy multiplication by the dense denotation of the same stored fields (x64 and float32);
   plus real Distributed Shampoo runs with compression_rank = +-r (lowrank_dsrun.py).
"""
import copy
import json

import numpy as np

from harness import core

LEVEL = "model_checking"


def selftest(ck, name, rejected):
  """A binding self-test compares a corrupted expectation with the REAL code; if the code under
  test is itself wrong (violations already recorded) a corrupted expectation may coincide with
  it - that must not mask the violations behind a machinery error."""
  if rejected or not ck.violations:
    ck.selftest(name, rejected)
  else:
    ck.cov.setdefault("selftests_inconclusive_under_violation", []).append(name)

TOL_ROOT = 1e-6       # _low_rank_root vs exact root of the prescribed spectrum, x64
TOL_APPLY64 = 1e-9    # compressed application vs dense denotation, x64
TOL_APPLY32 = 1e-4    # the same in float32
TOL_RUN = 2e-3        # stored packed root vs float64 root of the stored statistics (float32 run)
TOL_DIR = 1e-4        # 1 - cos(update, dense denotation applied to the gradient)


def replay(ck, cases, x64, label="LowRank_Gen replay"):
  jobs = []
  for i, c in enumerate(cases):
    if c["part"] == "root" and not x64:
      continue
    tol = TOL_ROOT if c["part"] == "root" else (TOL_APPLY64 if x64 else TOL_APPLY32)
    jobs.append({"case": c, "seed": ck.seed * 100003 + i, "tol": tol})
  res = core.run_workers("harness.workers.lowrank_cases", jobs, x64=x64, work=ck.work)
  mode = "x64" if x64 else "f32"
  for j, r in zip(jobs, res):
    c = j["case"]
    ck.count(1, key=[mode, c["part"], {k: v for k, v in c.items() if k in ("d", "r", "rank", "ps", "shape", "ptype")}])
    for k, v in r["worst"].items():
      tol = {"root_abs": TOL_ROOT, "root_rel": 2e-4, "selection": TOL_ROOT, "padding_rows": 1e-6,
             "apply": j["tol"]}[k]
      ck.calib(f"{k}.{mode}", v, tol)
    if r["bad"]:
      cl, det = r["bad"][0]
      ident = {k: v for k, v in c.items() if k in ("d", "r", "rank", "ps", "shape", "ptype")}
      ck.violation(f"lowrank|{c['part']}|{cl}",
                   f"{label} ({mode}): {c['part']} case {ident}: {cl}: {det}",
                   {"case": c, "bad": r["bad"][:10], "seed": j["seed"], "tb": r.get("tb")})
    else:
      ck.traces_ok(1)
  return jobs, res


def run_jobs(ck, quick):
  rs = np.random.RandomState(ck.seed + 5)
  jobs = []
  combos = [((8, 8), 2), ((8, 8), -2), ((7, 9), 3), ((7, 9), -3), ((6, 6, 6), 1), ((6, 5, 7), -2),
            ((9, 4), 2), ((12,), 4), ((12,), -3)]
  if not quick:
    combos += [((10, 10), 5), ((10, 10), -5), ((5, 6, 7), 2), ((8, 3, 8), -4), ((16,), 9), ((11, 8), -1)]
  for i, (shape, rank) in enumerate(combos):
    o = {"compression_rank": rank, "S": 1, "P": 1, "Start": 1 + i % 3, "beta1": 0.0,
         "beta2": [1.0, 0.75][i % 2], "graft": "SGD", "merge": False, "block_size": 32,
         "matrix_epsilon": [2.0 ** -10, 1e-6][i % 2], "relative_eps": True, "eigh": False}
    jobs.append({"o": o, "shape": list(shape), "T": 5 if quick else 10, "seed": int(rs.randint(1 << 30)),
                 "tol": TOL_RUN, "tol_dir": TOL_DIR})
  return jobs


def run(ck):
  quick = ck.quick
  # ---- M --------------------------------------------------------------------------------
  ck.mc("LowRank_MC", "LowRank_MC", required_actions=["PackStep", "Unpack", "RootStep", "ApplyStep"])
  # ---- R: cases from TLC --------------------------------------------------------------------
  cases = ck.gen("LowRank_Gen", "LowRank_Gen" if quick else "LowRank_GenT")
  parts = {p: sum(1 for c in cases if c["part"] == p) for p in ("pack", "root", "apply")}
  ck.cov["cases"] = parts
  if min(parts.values()) == 0:
    raise core.MachineryError(f"vacuous case set {parts}")
  for p in ("pack", "root", "apply"):
    ck.sample({"spec_case": next(c for c in cases if c["part"] == p and (p != "apply" or len(c["shape"]) == 3))}, limit=8)
  replay(ck, cases, x64=True)
  replay(ck, cases, x64=False)
  # binding self-tests: a corrupted expectation must be flagged by the same machinery
  bad = []
  c0 = copy.deepcopy(next(c for c in cases if c["part"] == "pack" and c["r"] >= 2))
  c0["cells"]["const"], c0["cells"]["tail"] = c0["cells"]["tail"], c0["cells"]["const"]
  c1 = copy.deepcopy(next(c for c in cases if c["part"] == "root" and c["rank"] > 0 and c["ps"] < c["d"]))
  c1["keep"], c1["avg"] = [c1["avg"][0]] + c1["keep"][1:], [c1["keep"][0]] + c1["avg"][1:]
  c2 = copy.deepcopy(next(c for c in cases if c["part"] == "root" and c["ps"] < c["d"]))
  c2["divisor"] += 2
  c3 = copy.deepcopy(next(c for c in cases if c["part"] == "apply" and len(c["shape"]) == 3 and c["ptype"] == "ALL"
                          and c["shape"][0] == c["shape"][1]))
  c3["met"][0]["axis"], c3["met"][1]["axis"] = c3["met"][1]["axis"], c3["met"][0]["axis"]
  for name, c in (("swapped const/tail cells", c0), ("retained set exchanged with an averaged direction", c1),
                  ("divisor off by two", c2), ("two axes' preconditioners exchanged", c3)):
    sub = core.Check(ck.pid, ck.level, ck.tier, ck.seed); sub.work = ck.work
    replay(sub, [c], x64=True, label="selftest")
    selftest(ck, f"R: {name} is flagged", len(sub.violations) > 0)
  # ---- R: real optimizer runs ------------------------------------------------------------------
  jobs = run_jobs(ck, quick)
  res = core.run_workers("harness.workers.lowrank_dsrun", jobs, work=ck.work, chunk=1)
  nroot = ndir = 0
  for j, r in zip(jobs, res):
    ck.count(1, key=["dsrun", j["shape"], j["o"]["compression_rank"]])
    nroot += r["worst"].get("n_root", 0); ndir += r["worst"].get("n_dir", 0)
    if "run_root" in r["worst"]:
      ck.calib("run_root", r["worst"]["run_root"], TOL_RUN)
    if "run_dir" in r["worst"]:
      ck.calib("run_dir", r["worst"]["run_dir"], TOL_DIR)
    if r["bad"]:
      t, a, cl, det = r["bad"][0]
      ck.violation(f"lowrank|dsrun|{cl}",
                   f"DS run shape={j['shape']} compression_rank={j['o']['compression_rank']}: step {t} "
                   f"statistic {a}: {cl} = {det}", {"job": j, "bad": r["bad"][:10], "tb": r.get("tb")})
    else:
      ck.traces_ok(1)
  ck.cov["run_roots_compared"] = nroot
  ck.cov["run_directions_compared"] = ndir
  if nroot == 0 or ndir == 0:
    raise core.MachineryError("optimizer runs compared nothing")
  ck.assume("eigen-directions are identified by their rank in the spectrum; spectra have a gap >= 1.3x at every "
            "cut so the retained set is well defined in floating point")
  ck.assume("the dense denotation is built from the SAME stored fields the compressed path reads (unpacked by the "
            "code's own _low_rank_unpack, whose cell map is checked separately against the spec)")
  ck.assume("in optimizer runs the reference root is numpy float64 eigh of the stored float32 statistics; "
            "compared only where the retained set is separated by > 1% of the top eigenvalue")
