"""C16 - OCO algorithms match closed forms; lossless S-AdaGrad is full-matrix AdaGrad.

M: spec/OCO (over spec/FDLattice) exhaustively with TLC: OGD / diagonal-AdaGrad closed forms, and for the four
   sketched methods on the exact axis-aligned lattice: the row machine (last row overwritten) refines
   documented frequent directions, last row zero, bracket, rank bound, alpha law, lossless => sketch = covariance,
   and S-AdaGrad's preconditioner argument = delta + covariance (full-matrix AdaGrad) on lossless histories.
R: every behaviour exported by OCO_Gen (exhaustive small bound + tlc -simulate beyond it) is driven through the
   real generate_init_update pair under jax x64, the lattice rotated by a seeded random orthogonal Q; after
   every update: iterate w against the spec's emitted terms (function tag + exact rational argument,
   evaluated here in float64), P^T diag(e^2) P against Q diag(l) Q^T, e against the spec's singular values,
   e[-1] == 0 exactly, alpha, t; S-AdaGrad additionally against an exact full-matrix AdaGrad iterate built from
   the spec's covariance.  OGD and ADA also on dense random gradient sequences, from the value-free structure
   the spec emits.
V: dense random histories (no lattice): per step the harness measures, in float64, the two bracket margins
   lambda_min(C - S), lambda_min(S + esc I - C), the alpha-law residual and the last sketch row, logs them as
   one-sidedly rounded fixed-point integers, and TLC validates the traces against OCO_Trace.
"""
import copy
import math

import numpy as np

from harness import core

LEVEL = "model_checking"
WORKER = "harness.workers.oco_run"
TOL = 1e-9          # x64 implementation vs float64 evaluation of the spec's closed forms
# ADA_FD inverts alpha + sqrt(l): where the lattice mass l is exactly 0 the implementation holds ~1e-16 and
# the square root turns that into ~1e-8 (Hoelder-1/2, not Lipschitz): the iterate agrees to ~1e-8/alpha^2 only
TOL_ADAFD = 1e-4
SKETCHED = ("S_ADA", "ADA_FD", "FD_SON", "RFD_SON")


def fn_eval(term, x):
  fn = term["fn"]
  if fn == "rsqrt":
    return x ** -0.5
  if fn == "rsqrt_guard":
    return 1.0 if x == 0 else x ** -0.5
  if fn == "rsqrt0":
    return 0.0 if x <= 0 else x ** -0.5
  if fn == "recip0":
    return 0.0 if x <= 0 else 1.0 / x
  if fn == "adafd":
    alpha = term["anum"] / term["den"]
    return 0.0 if alpha <= 0 else 1.0 / (alpha + math.sqrt(term["lj"]))
  raise core.MachineryError(f"unknown function tag {fn}")


def magnitude(term, lr):
  a, t = term["a"], term["t"]
  if term["mag"] == "plain":
    return math.sqrt(a)
  if term["mag"] == "rfd":            # sketch_update_factor = rsqrt(t * lr)
    return math.sqrt(a * t * lr)
  if term["mag"] == "fdson":          # sketch_update_factor = rsqrt(sqrt(t) * lr)
    return math.sqrt(a * math.sqrt(t) * lr)
  raise core.MachineryError(f"unknown magnitude kind {term['mag']}")


def orth(rs, d):
  q, r = np.linalg.qr(rs.standard_normal((d, d)))
  return q * np.sign(np.diag(r))


def build_job(b, seed, jit=False):
  """Turn an exported behaviour into a job for the worker plus the data needed to judge it."""
  c = b["cfg"]
  rs = np.random.RandomState(seed)
  d, delta, lr = c["d"], c["dN"] / c["dD"], c["lrN"] / c["lrD"]
  aux = {"delta": delta, "lr": lr}
  if c["alg"] in SKETCHED:
    Q = orth(rs, d)
    grads, sgn = [], []
    for st in b["steps"]:
      s = float(rs.choice([-1.0, 1.0]))
      sgn.append(s)
      grads.append((s * magnitude(st["term"], lr) * Q[:, st["in"]["j"] - 1]).tolist())
    aux.update(Q=Q, sgn=sgn)
    shape = [2, 2] if (d == 4 and seed % 3 == 0) else [d]
  elif c["alg"] == "ADA":
    grads = [[float(x) for x in st["in"]["g"]] for st in b["steps"]]
    shape = [d]
  else:
    raise core.MachineryError("OGD behaviours are replayed by dense_jobs")
  job = {"alg": c["alg"], "shape": shape, "k": c["k"], "delta": delta, "lr": lr, "grads": grads, "jit": jit}
  return job, aux


def rel(a, b):
  a, b = np.asarray(a, float), np.asarray(b, float)
  if a.shape != b.shape:
    return float("inf")
  if not np.all(np.isfinite(a)):
    return float("inf")
  return float(np.max(np.abs(a - b)) / max(1.0, float(np.max(np.abs(b))))) if a.size else 0.0


def judge_lattice(b, job, aux, r, worst):
  """-> list of (clause, detail) for a sketched / ADA lattice behaviour."""
  c = b["cfg"]
  out = []
  if r["error"]:
    return [("exception", f"{r['error']['type']}: {r['error']['msg']} at step {r['error']['at_step']}")]
  d, lr, delta = c["d"], aux["lr"], aux["delta"]
  w = np.zeros(d)
  wfm = np.zeros(d)
  alpha_zero = False     # a non-zero gradient has been preconditioned while the spec's alpha was exactly 0
  for s, (st, rl) in enumerate(zip(b["steps"], r["steps"])):
    term, exp = st["term"], st["exp"]
    g = np.asarray(job["grads"][s])
    def bad(clause, e, tol=TOL, detail=""):
      worst[clause] = max(worst.get(clause, 0.0), e if math.isfinite(e) else 0.0)
      if not e <= tol:
        out.append((clause, f"step {s + 1}: {detail} deviation {e:.3g} > {tol:g}"))
    if rl["wdtype"] != "float64":
      out.append(("dtype", f"w is {rl['wdtype']}"))
    if c["alg"] == "ADA":
      args = np.asarray(term["num"], float) / term["den"]
      coef = np.array([fn_eval(term, x) for x in args])
      w = w - lr * g * coef
      bad("accumulator_mismatch", rel(rl["diag_h"], args), detail=f"diag_h {rl['diag_h']} vs {args.tolist()}")
      bad("iterate_mismatch", rel(rl["w"], w), detail=f"w {rl['w']} vs {w.tolist()}")
      continue
    Q = aux["Q"]
    lr_eff = lr if term["lr"] == "lr" else 1.0
    w = w - lr_eff * fn_eval(term, term["num"] / term["den"]) * g
    P, e = np.asarray(rl["P"]), np.asarray(rl["e"])
    S = P.T @ (e[:, None] ** 2 * P)
    Sexp = Q @ np.diag(np.asarray(exp["l"], float)) @ Q.T
    bad("sketch_mismatch", rel(S, Sexp), detail=f"P^T e^2 P vs Q diag({exp['l']}) Q^T;")
    bad("singular_values_mismatch", rel(e ** 2, np.asarray(exp["sv2"], float)), detail=f"e^2 {(e ** 2).tolist()} vs {exp['sv2']};")
    if not e[-1] == 0.0:
      out.append(("last_row_not_zero", f"step {s + 1}: e[-1] = {e[-1]!r}"))
    bad("alpha_mismatch", rel(rl["alpha"], exp["alpha2"] / (2.0 * c["dD"])),
        detail=f"alpha {rl['alpha']} vs {exp['alpha2']}/{2 * c['dD']};")
    if rl["t"] != exp["tc"]:
      out.append(("step_count_mismatch", f"step {s + 1}: t = {rl['t']} vs {exp['tc']}"))
    if exp["alpha2"] == 0 and st["in"]["a"] > 0:
      alpha_zero = True
    if alpha_zero:
      # inv(alpha) is discontinuous at alpha = 0 (safe_invert gives 0, any rounding residue gives 1/tiny):
      # kept apart from the well-posed comparison, under its own clause
      bad("alpha=0|iterate_mismatch", rel(rl["w"], w), detail=f"w {rl['w']} vs closed form {w.tolist()};")
    elif c["alg"] == "ADA_FD":
      bad("iterate_mismatch_adafd", rel(rl["w"], w), tol=TOL_ADAFD, detail=f"w {rl['w']} vs closed form {w.tolist()};")
    else:
      bad("iterate_mismatch", rel(rl["w"], w), detail=f"w {rl['w']} vs closed form {w.tolist()};")
    if c["alg"] == "S_ADA" and delta > 0 and exp["lossless"]:
      # exact full-matrix AdaGrad: w -= lr (delta I + G_s)^(-1/2) g_s,  G_s = Q diag(cov_s) Q^T
      G = Q @ np.diag(np.asarray(exp["cov"], float)) @ Q.T
      ev, V = np.linalg.eigh(delta * np.eye(d) + G)
      wfm = wfm - lr * (V @ ((V.T @ g) / np.sqrt(ev)))
      bad("not_full_matrix_adagrad", rel(rl["w"], wfm), detail=f"w {rl['w']} vs full-matrix AdaGrad {wfm.tolist()};")
  return out


def ideal_result(b, job, aux):
  """What an exact implementation would return for a sketched behaviour, built from the SPEC's expectations
  (used by the binding self-tests, so that they do not depend on the code under test)."""
  c = b["cfg"]
  d, lr = c["d"], aux["lr"]
  Q = aux["Q"]
  w = np.zeros(d)
  steps = []
  for s, st in enumerate(b["steps"]):
    term, exp = st["term"], st["exp"]
    g = np.asarray(job["grads"][s])
    w = w - (lr if term["lr"] == "lr" else 1.0) * fn_eval(term, term["num"] / term["den"]) * g
    order = sorted(range(d), key=lambda i: -exp["l"][i])[:c["k"]]
    P = np.array([Q[:, i] for i in order])
    e = np.sqrt(np.array([exp["l"][i] for i in order], float))
    steps.append({"w": w.tolist(), "wdtype": "float64", "t": float(exp["tc"]),
                  "alpha": exp["alpha2"] / (2.0 * c["dD"]), "P": P.tolist(), "e": e.tolist(), "diag_h": None})
  return {"error": None, "x64": True, "steps": steps}


def dense_jobs(ck, beh, n_per):
  """OGD (value-free) and ADA (value-free part: the set `sq` of absorbed squares) on dense random sequences."""
  jobs = []
  chosen, seen = [], set()
  for b in beh:
    c = b["cfg"]
    key = core.json.dumps(c, sort_keys=True)
    if c["alg"] in ("OGD", "ADA") and key not in seen:    # the structure does not depend on the values
      seen.add(key)
      chosen.append(b)
  for bi, b in enumerate(chosen):
    c = b["cfg"]
    for q in range(n_per):
      rs = np.random.RandomState(ck.seed * 7919 + bi * 131 + q)
      shape = [[1], [3], [2, 3], [5], [2, 2, 2]][q % 5]
      size = int(np.prod(shape))
      T = len(b["steps"])
      scale = 10.0 ** rs.uniform(-3, 3)
      G = rs.standard_normal((T, size)) * scale
      if q % 3 == 1:
        G[:, rs.randint(size)] = 0.0           # a coordinate that never sees a gradient (the ADA guard)
      if q % 4 == 2:
        G[rs.randint(T)] = 0.0                 # a zero step
      jobs.append(({"alg": c["alg"], "shape": shape, "k": 0, "delta": c["dN"] / c["dD"],
                    "lr": c["lrN"] / c["lrD"], "grads": G.tolist(), "jit": q % 6 == 5}, b))
  return jobs


def judge_dense(b, job, r, worst):
  c = b["cfg"]
  out = []
  if r["error"]:
    return [("exception", f"{r['error']['type']}: {r['error']['msg']}")]
  G = np.asarray(job["grads"])
  delta, lr = job["delta"], job["lr"]
  w = np.zeros(G.shape[1])
  for s, (st, rl) in enumerate(zip(b["steps"], r["steps"])):
    term = st["term"]
    if c["alg"] == "OGD":
      w = w - lr * fn_eval(term, term["num"] / term["den"]) * G[s]
    else:
      hsym = delta + sum(G[u - 1] ** 2 for u in term["sq"])
      e = rel(rl["diag_h"], hsym)
      worst["accumulator_mismatch"] = max(worst.get("accumulator_mismatch", 0.0), e if math.isfinite(e) else 0.0)
      if not e <= TOL:
        out.append(("accumulator_mismatch", f"step {s + 1}: diag_h deviates {e:.3g}"))
      w = w - lr * G[s] * np.array([fn_eval(term, x) for x in hsym])
    scale = max(1e-300, float(np.max(np.abs(w))))
    e = float(np.max(np.abs(np.asarray(rl["w"]) - w)) / scale) if np.all(np.isfinite(rl["w"])) else float("inf")
    if float(np.max(np.abs(w))) == 0.0:
      e = 0.0 if not np.any(np.asarray(rl["w"])) else float("inf")
    worst["iterate_mismatch"] = max(worst.get("iterate_mismatch", 0.0), e if math.isfinite(e) else 0.0)
    if not e <= TOL:
      out.append(("iterate_mismatch", f"step {s + 1}: w {rl['w'][:4]} vs closed form {w[:4].tolist()} (rel {e:.3g})"))
    if rl["t"] is not None and rl["t"] != s + 1:
      out.append(("step_count_mismatch", f"step {s + 1}: t = {rl['t']}"))
  return out


def report(ck, b, job, verdicts, label):
  c = b["cfg"]
  # one report per distinct clause, the well-posed ones first
  seen = set()
  for clause, detail in sorted(verdicts, key=lambda v: v[0].startswith("alpha=0")):
    if clause in seen:
      continue
    seen.add(clause)
    if clause.startswith("alpha=0"):
      # delta = 0: the iterate divides by an alpha that is exactly 0 in the model and ~1e-32 (squared SVD
      # residue) in floating point.  C16 states the full-matrix equivalence only for delta > 0, so this is
      # recorded as an observation outside the property, not as a violation.
      obs = ck.cov.setdefault("observations_outside_property", {})
      k = f"oco|{c['alg']}|{clause}"
      obs[k] = obs.get(k, 0) + 1
      continue
    ck.violation(f"oco|{c['alg']}|{clause}",
                 f"{label}: {c['alg']} d={c['d']} sketch_size={c['k']} delta={c['dN']}/{c['dD']} "
                 f"lr={c['lrN']}/{c['lrD']}: {detail}",
                 {"behaviour": b, "job": job, "all": verdicts[:10]})


# ------------------------------------------------------------------------------------------------------
# V: dense histories, measured margins
# ------------------------------------------------------------------------------------------------------
FP = 10 ** 9        # fixed-point scale of the logged margins (relative to the trace of the covariance)
VTOL = 1e-9         # tolerance the trace spec applies to the measured margins (relative; worst observed 3e-14)
FMTOL = 1e-5        # lossless S-AdaGrad vs full-matrix AdaGrad on scale-disparate histories (worst observed 1e-7:
                    # (delta I + C)^(-1/2) with cond up to 1e15)


def v_jobs(ck, n):
  rs = np.random.RandomState(ck.seed + 1600)
  jobs = []
  for i in range(n):
    alg = SKETCHED[i % 4]
    d = int(rs.randint(2, 9))
    k = int(rs.randint(2, d + 1))
    T = int(rs.randint(3, 13))
    delta = float([0.0, 0.5, 1e-3, 3.0][rs.randint(4)]) if alg in ("S_ADA", "RFD_SON") else float([0.5, 1e-3, 3.0][rs.randint(3)])
    lr = float([0.25, 1.0, 0.1, 3.0][rs.randint(4)])
    kind = ["dense", "lowrank", "scaled", "repeated", "disparate"][i // 4 % 5]
    G = rs.standard_normal((T, d))
    if kind == "disparate":        # lossless history whose directions live on very different scales
      d = max(d, 4); k = max(k, 3); k = min(k, d)
      r = k - 1
      basis = orth(rs, d)[:r]
      # small regularisation: a direction dropped from the sketch would be preconditioned by delta^(-1/2).
      # With delta = 1e-8 the scales stay <= 1: the SVD's own round-off in rho^2 (~1e-16 sigma_max^2) must
      # stay far below delta, or float64 itself cannot tell the lossless sketch from full-matrix AdaGrad
      # (observed on the unchanged code: 3e-4 at sigma_max 1e3)
      delta = [1e-3, 1e-8][i // 20 % 2]
      sc = 10.0 ** (rs.uniform(-3, 3, size=r) if delta == 1e-3 else rs.uniform(-5, 0, size=r))
      G = (rs.standard_normal((T, r)) * sc[None, :]) @ basis
      if i // 40 % 2:
        # ... or whole steps on different scales (tiny gradients, then a spike) inside the same subspace
        st = 10.0 ** (rs.uniform(-3, 3, size=T) if delta == 1e-3 else rs.uniform(-5, 0, size=T))
        G = (rs.standard_normal((T, r)) @ basis) * st[:, None]
    
    if kind == "lowrank":          # history of rank < sketch size: nothing may escape
      r = max(1, k - 1 - int(rs.randint(0, 2)))
      basis = rs.standard_normal((r, d))
      G = rs.standard_normal((T, r)) @ basis
    if kind == "scaled":
      G = G * (10.0 ** rs.uniform(-3, 3, size=(T, 1)))
    elif kind == "repeated":
      G[1::2] = G[0] * rs.standard_normal((len(G[1::2]), 1))
    jobs.append({"alg": alg, "shape": [d], "k": k, "delta": delta, "lr": lr, "grads": G.tolist(),
                 "jit": i % 16 == 15, "kind": kind})
  return jobs


def v_trace(job, r):
  """Measure the bracket / alpha law / last row on the recorded states; integers only."""
  alg, k, delta, lr = job["alg"], job["k"], job["delta"], job["lr"]
  f2 = {"S_ADA": 2, "RFD_SON": 1}.get(alg, 0)
  cfg = {"alg": alg, "k": k, "fp": FP, "tolfp": int(VTOL * FP), "f2": f2, "dpos": bool(delta > 0),
         "fmtolfp": int(FMTOL * FP)}
  if r["error"]:
    return {"cfg": cfg, "events": [{"err": r["error"]["type"], "tc": 0, "lastzero": False, "finite": False,
                                    "lo": 0, "hi": 0, "aerr": 0, "rank": 0, "lossless": False, "escfp": 0,
                                    "fmfp": 0}]}
  G = np.asarray(job["grads"])
  d = G.shape[1]
  C = np.zeros((d, d))
  Pp, ep = np.zeros((k, d)), np.zeros(k)
  alpha_p, esc = delta, 0.0
  ev = []
  raw = {"lo": 0.0, "hi": 0.0, "aerr": 0.0, "fm": 0.0}
  wfm = np.zeros(d)       # exact full-matrix AdaGrad on the same history (S_ADA, delta > 0, while lossless)
  for s, rl in enumerate(r["steps"]):
    t = s + 1
    fac = {"RFD_SON": (t * lr) ** -0.5, "FD_SON": (math.sqrt(t) * lr) ** -0.5}.get(alg, 1.0)
    gin = G[s] * fac
    C = C + np.outer(gin, gin)
    # the escaped mass of this step, measured independently of the implementation's arithmetic:
    # smallest singular value of the matrix the implementation is documented to factor
    B = Pp * ep[:, None]
    B[-1] = gin
    rho2 = float(np.linalg.svd(B, compute_uv=False)[-1] ** 2)
    esc += rho2
    P, e = np.asarray(rl["P"]), np.asarray(rl["e"])
    finite = bool(np.all(np.isfinite(P)) and np.all(np.isfinite(e)) and np.all(np.isfinite(rl["w"]))
                  and math.isfinite(rl["alpha"]))
    scale = max(float(np.trace(C)), 1e-300)
    if finite:
      S = P.T @ (e[:, None] ** 2 * P)
      lo = float(np.linalg.eigvalsh(C - S)[0]) / scale                      # >= 0: sketch below covariance
      hi = float(np.linalg.eigvalsh(S + esc * np.eye(d) - C)[0]) / scale    # >= 0: covariance below sketch + esc
      aerr = abs((rl["alpha"] - alpha_p) - 0.5 * f2 * rho2) / max(scale, abs(delta), 1e-300)
      rank = int(np.sum(e ** 2 > 1e-12 * max(float(np.max(e ** 2)), 1e-300)))
      lossless = bool(np.linalg.matrix_rank(G[:t] * 1.0, tol=1e-9 * max(1e-300, float(np.max(np.abs(G[:t]))))) <= k - 1)
      escrel = esc / scale
      fm = 0.0
      if alg == "S_ADA" and delta > 0 and lossless:
        evl, V = np.linalg.eigh(delta * np.eye(d) + C)
        wfm = wfm - lr * (V @ ((V.T @ G[s]) / np.sqrt(evl)))
        fm = float(np.max(np.abs(np.asarray(rl["w"]) - wfm)) / max(float(np.max(np.abs(wfm))), 1e-300))
      raw = {"lo": max(raw["lo"], -lo), "hi": max(raw["hi"], -hi), "aerr": max(raw["aerr"], aerr),
             "fm": max(raw["fm"], fm)}
    else:
      lo = hi = -1.0
      aerr, rank, lossless, escrel, fm = 1.0, 0, False, 0.0, 0.0
    clip = lambda x: int(max(-2 * FP, min(2 * FP, x)))
    ev.append({"err": "none", "tc": int(rl["t"]), "lastzero": bool(e[-1] == 0.0), "finite": finite,
               "lo": clip(math.floor(lo * FP)), "hi": clip(math.floor(hi * FP)),     # margins rounded down
               "aerr": clip(math.ceil(aerr * FP)),                                     # residual rounded up
               "rank": rank, "lossless": lossless, "escfp": clip(math.ceil(escrel * FP)),
               "fmfp": clip(math.ceil(fm * FP))})
    Pp, ep, alpha_p = P, e, rl["alpha"]
  return {"cfg": cfg, "events": ev, "raw": raw}


def run(ck):
  quick = ck.quick
  # ---- M ------------------------------------------------------------------------------------------
  ck.mc("OCO_MC", "OCO_MC" if quick else "OCO_MCT", required_actions=["OgdStep", "Ada", "Fd", "Rebind"])
  # ---- R: exported behaviours ------------------------------------------------------------------------
  beh = ck.gen("OCO_Gen", "OCO_Gen" if quick else "OCO_GenT", timeout=2400)
  sim = ck.gen("OCO_Gen", "OCO_GenS", simulate=60 if quick else 600, depth=7)
  seen, simu = set(), []
  for b in sim:
    key = core.json.dumps(b, sort_keys=True)
    if key not in seen:
      seen.add(key)
      simu.append(b)
  rs = np.random.RandomState(ck.seed)
  rs.shuffle(simu)
  simu = simu[:600 if quick else 8000]
  allb = beh + simu
  ck.cov["behaviours_exhaustive"] = len(beh)
  ck.cov["behaviours_simulated"] = len(simu)
  lattice = [b for b in allb if b["cfg"]["alg"] != "OGD"]
  jobs, auxs = [], []
  for i, b in enumerate(lattice):
    j, a = build_job(b, ck.seed * 100003 + i, jit=(i % 211 == 0))
    jobs.append(j)
    auxs.append(a)
  res = core.run_workers(WORKER, jobs, x64=True, work=ck.work)
  worst = {}
  stats = {"deflating_steps": 0, "lossless_sada_steps": 0}
  for b, j, a, r in zip(lattice, jobs, auxs, res):
    c = b["cfg"]
    v = judge_lattice(b, j, a, r, worst)
    ck.count(1, key=["R", c, [st["in"] for st in b["steps"]]])
    if v:
      report(ck, b, j, v, "lattice replay")
    else:
      ck.traces_ok(1)
    if c["alg"] in SKETCHED:
      prev = 0
      for st in b["steps"]:
        stats["deflating_steps"] += st["exp"]["esc"] > prev
        prev = st["exp"]["esc"]
        stats["lossless_sada_steps"] += (c["alg"] == "S_ADA" and c["dN"] > 0 and st["exp"]["lossless"])
  ck.cov["replay_stats"] = stats
  if stats["deflating_steps"] == 0 or stats["lossless_sada_steps"] == 0:
    raise core.MachineryError(f"vacuous replay: {stats}")
  k = next(i for i, b in enumerate(lattice) if b["cfg"]["alg"] == "S_ADA" and b["cfg"]["dN"] > 0
           and b["steps"][-1]["exp"]["esc"] > 0 and b["steps"][-1]["in"]["a"] > 0)
  ck.sample({"spec_behaviour": lattice[k], "real_final_state": (res[k]["steps"] or [None])[-1]})
  # dense random sequences for the value-free parts
  dj = dense_jobs(ck, allb, 8 if quick else 40)
  dres = core.run_workers(WORKER, [j for j, _ in dj], x64=True, work=ck.work)
  nd = {"OGD": 0, "ADA": 0}
  for (j, b), r in zip(dj, dres):
    v = judge_dense(b, j, r, worst)
    nd[b["cfg"]["alg"]] += 1
    ck.count(1, key=["Rdense", b["cfg"], j["shape"], j["grads"][0][:2]])
    if v:
      report(ck, b, j, v, "dense random sequence")
    else:
      ck.traces_ok(1)
  ck.cov["dense_sequences"] = nd
  if not nd["OGD"] or not nd["ADA"]:
    raise core.MachineryError(f"vacuous dense replay {nd}")
  for kname, vworst in worst.items():
    if kname != "alpha=0|iterate_mismatch":
      ck.calib(kname, vworst, TOL_ADAFD if kname.endswith("adafd") else TOL)
  ck.cov["alpha_zero_iterate_deviation_worst"] = worst.get("alpha=0|iterate_mismatch", 0.0)
  # binding self-tests (R): an ideal result built from the spec's own expectations must pass; one corrupted
  # expected value / one corrupted observed value must be flagged (independent of the code under test)
  okk = next(i for i, b in enumerate(lattice)
             if b["cfg"]["alg"] == "S_ADA" and b["steps"][-1]["exp"]["esc"] > 0 and b["cfg"]["dN"] > 0
             and all(st["in"]["a"] > 0 for st in b["steps"]) and b["steps"][0]["exp"]["lossless"])
  b0, j0, a0 = lattice[okk], jobs[okk], auxs[okk]
  r0 = ideal_result(b0, j0, a0)
  b1 = copy.deepcopy(b0); b1["steps"][0]["term"]["num"] += 1
  b2 = copy.deepcopy(b0); b2["steps"][-1]["exp"]["alpha2"] += 1
  b3 = copy.deepcopy(b0); b3["steps"][-1]["exp"]["l"] = list(reversed(b3["steps"][-1]["exp"]["l"]))
  b5 = copy.deepcopy(b0); b5["steps"][0]["exp"]["cov"] = [x + 1 for x in b5["steps"][0]["exp"]["cov"]]
  r4 = copy.deepcopy(r0); r4["steps"][-1]["e"][-1] = 1e-12
  ck.selftest("R: an exact implementation (built from the spec's expectations) is accepted",
              not judge_lattice(b0, j0, a0, r0, {}))
  ck.selftest("R: preconditioner argument of one term off by 1/den is flagged",
              any(c == "iterate_mismatch" for c, _ in judge_lattice(b1, j0, a0, r0, {})))
  ck.selftest("R: expected alpha off by 1/(2 dD) is flagged",
              any(c == "alpha_mismatch" for c, _ in judge_lattice(b2, j0, a0, r0, {})))
  if b3["steps"][-1]["exp"]["l"] != b0["steps"][-1]["exp"]["l"]:
    ck.selftest("R: sketch mass on the wrong lattice coordinate is flagged",
                any(c == "sketch_mismatch" for c, _ in judge_lattice(b3, j0, a0, r0, {})))
  ck.selftest("R: a last sketch row of 1e-12 instead of 0 is flagged",
              any(c == "last_row_not_zero" for c, _ in judge_lattice(b0, j0, a0, r4, {})))
  ck.selftest("R: a wrong covariance in the full-matrix AdaGrad reference is flagged",
              any(c == "not_full_matrix_adagrad" for c, _ in judge_lattice(b5, j0, a0, r0, {})))
  # ---- V: dense histories ------------------------------------------------------------------------------
  vj = v_jobs(ck, 240 if quick else 3000)
  vres = core.run_workers(WORKER, [{k: v for k, v in j.items() if k != "kind"} for j in vj], x64=True, work=ck.work)
  traces = [v_trace(j, r) for j, r in zip(vj, vres)]
  verdicts = ck.validate("OCO_Trace", "OCO_Trace", [{"cfg": t["cfg"], "events": t["events"]} for t in traces])
  wl = wh = wa = wf = 0.0
  nloss = 0
  for j, t, v in zip(vj, traces, verdicts):
    ck.count(1, key=["V", j["alg"], j["k"], j["delta"], j["lr"], j["kind"], j["grads"][0][:2]])
    for e in t["events"]:
      if e["err"] == "none" and e["finite"]:
        nloss += e["lossless"]
    if v["accepted"] and "raw" in t:
      wl, wh, wa = max(wl, t["raw"]["lo"]), max(wh, t["raw"]["hi"]), max(wa, t["raw"]["aerr"])
      wf = max(wf, t["raw"]["fm"])
    if v["accepted"]:
      ck.traces_ok(1)
    else:
      ck.violation(f"oco|{j['alg']}|dense|{v['verdict']}",
                   f"dense {j['kind']} history, {j['alg']} d={j['shape'][0]} sketch_size={j['k']} delta={j['delta']} "
                   f"lr={j['lr']}: trace rejected at step {v['l']} ({v['verdict']}); event "
                   f"{t['events'][min(v['l'], len(t['events'])) - 1]}",
                   {"job": j, "trace": t, "verdict": v})
  ck.calib("bracket_lower_margin_violation", wl, VTOL)
  ck.calib("bracket_upper_margin_violation", wh, VTOL)
  ck.calib("alpha_law_residual", wa, VTOL)
  ck.calib("lossless_sadagrad_vs_full_matrix_adagrad", wf, FMTOL)
  ck.cov["dense_lossless_steps"] = nloss
  if nloss == 0 and not ck.violations:
    raise core.MachineryError("vacuous V leg: no lossless step in the dense histories")
  ck.sample({"recorded_trace": {"cfg": traces[0]["cfg"], "events": traces[0]["events"][:3]}})
  # binding self-tests (V): a synthetic well-formed trace is accepted, each corrupted field is rejected
  def ev(tc, **kw):
    e = {"err": "none", "tc": tc, "lastzero": True, "finite": True, "lo": -1, "hi": -1, "aerr": 1, "rank": 1,
         "lossless": False, "escfp": 5 * FP // 10, "fmfp": 0}
    e.update(kw)
    return e
  base = {"cfg": {"alg": "S_ADA", "k": 3, "fp": FP, "tolfp": int(VTOL * FP), "f2": 2, "dpos": True,
                  "fmtolfp": int(FMTOL * FP)},
          "events": [ev(1, lossless=True, escfp=0), ev(2), ev(3, rank=2)]}
  def mod(i, **kw):
    t = copy.deepcopy(base)
    t["events"][i].update(kw)
    return t
  synth = [base, mod(2, lastzero=False), mod(2, hi=-int(1e-6 * FP)), mod(1, lo=-int(1e-6 * FP)),
           mod(1, aerr=int(1e-6 * FP)), mod(1, tc=3), mod(0, escfp=int(1e-2 * FP)), mod(2, rank=3)]
  synth[0] = copy.deepcopy(base)
  wrongf = copy.deepcopy(base); wrongf["cfg"]["f2"] = 1
  synth.append(wrongf)
  synth.append(mod(0, fmfp=int(1e-3 * FP)))
  sub = core.Check(ck.pid, ck.level, ck.tier, ck.seed); sub.work = ck.work
  vs = sub.validate("OCO_Trace", "OCO_Trace", synth)
  ck.selftest("V: a well-formed synthetic trace is accepted", vs[0]["accepted"])
  ck.selftest("V: a non-zero last sketch row is rejected", vs[1]["verdict"] == "last_row_not_zero")
  ck.selftest("V: covariance above sketch + escaped mass by 1e-6 is rejected", vs[2]["verdict"] == "bracket_upper")
  ck.selftest("V: sketch above covariance by 1e-6 is rejected", vs[3]["verdict"] == "bracket_lower")
  ck.selftest("V: alpha-law residual of 1e-6 is rejected", vs[4]["verdict"] == "alpha_law")
  ck.selftest("V: step counter advancing by two is rejected", vs[5]["verdict"] == "step_count")
  ck.selftest("V: escaped mass on a lossless history is rejected", vs[6]["verdict"] == "lossless_but_escaped")
  ck.selftest("V: sketch rank = sketch size is rejected", vs[7]["verdict"] == "rank_bound")
  ck.selftest("V: a trace claiming another alpha factor than the spec's is rejected",
              vs[8]["verdict"] == "alpha_factor_of_trace_disagrees_with_spec")
  ck.selftest("V: a lossless S-AdaGrad iterate 1e-3 away from full-matrix AdaGrad is rejected",
              vs[9]["verdict"] == "lossless_not_full_matrix_adagrad")
  ck.assume("ADA_FD and FD_SON are exercised with delta > 0 only: they keep alpha = delta for ever; with delta = 0 "
            "ADA_FD's d = e/(alpha+e) is 0/0 in the always-zero last sketch row and the iterate is NaN from the "
            "first step (observed), an input outside the algorithm's definition")
  ck.assume("FD_SON / RFD_SON scale the sketch input by an irrational factor: the lattice fixes the integer mass "
            "that enters the sketch and the harness feeds the gradient magnitude sqrt(a sqrt(t) lr) resp. "
            "sqrt(a t lr) in float64")
  ck.assume("rotation equivariance of frequent directions: the lattice history is fed rotated by a seeded "
            "random orthogonal Q and the expectation is Q-conjugated")
