"""C01 - the inverse p-th root is accurate and its reported error is honest.

M: spec/InvRoot (case structure + bookkeeping of the Newton / eigh / LOBPCG-deflated routines)
   exhaustively: every case of a lattice x every environment choice of the retry automaton.
R: InvRoot_Gen enumerates the full C01 case lattice (147 456 cases per dtype) and exports a slice chosen by
   tier and VERIF_SEED; each case is built as Q diag(a) Q^T and pushed through the real routine;
   what the spec derives for the case (branch, fixed retry count, all-padding result, dtype /
   shape) is compared directly.
V: every real call is laid out as a trace and validated by TLC against InvRoot_Trace: structural
   clauses, retry-automaton consistency, lambda_hat <= lambda_max, and - in float64 - the
   acceptance relation  measured residual <= figure (1 + 2^-23) + 1000 n p u cond(A + dI)  with
   the ridge d reconstructed BY THE SPEC from (relative/absolute, estimate vs floor, retries)
   and the slack computed BY THE SPEC from the case's spectrum; the worker only measures
   residuals for every candidate (base, escalation) pair.
"""
import copy
import json
import zlib

from harness import core

LEVEL = "exploration"
WORKER = "harness.workers.invroot_run"
U = 2.0 ** -53
SLACK_C = 1000          # InvRoot!SlackC (python replica: calibration records only)


class _Collect:
  """stand-in for Check in self-tests: collects violation keys, writes nothing"""

  def __init__(self):
    self.violations = []

  def violation(self, key, what, replay=None):
    self.violations.append(key)
    return True


def static_key(c):
  return (c["method"], c["rel"], c["k"], c["ps"] >= 0, c["n"])


def jobs_for(ck, items):
  jobs = []
  for it in items:
    c = it["case"]
    h = zlib.crc32(json.dumps(c, sort_keys=True).encode())
    # the iteration cap is a documented argument: a fifth of the Newton cases stop at 6 or 12 iterations, i.e.
    # possibly in the middle of convergence - what is reported must still bound the residual of what is returned
    ni = [6, 12][h % 2] if (c["method"] == "newton" and (h // 2) % 5 == 0) else 100
    jobs.append({"case": c, "derived": it["derived"], "seed": (h + 7919 * ck.seed) % (1 << 31), "num_iters": ni})
  jobs.sort(key=lambda j: (static_key(j["case"]), json.dumps(j["case"], sort_keys=True)))
  return jobs


def run_cases(ck, items):
  """real calls; returns (jobs, results) with f64 and f32 cases run under the matching x64 flag"""
  jobs = jobs_for(ck, items)
  j64 = [j for j in jobs if j["case"]["dt"] == "f64"]
  j32 = [j for j in jobs if j["case"]["dt"] == "f32"]
  # small contiguous chunks of the job list sorted by compilation key: few XLA compilations per
  # process, and the slow LOBPCG cases do not end up in one process
  ch = lambda js: max(8, min(64, len(js) // (3 * core.NCPU) + 1))
  r64 = core.run_workers(WORKER, j64, x64=True, work=ck.work, chunk=ch(j64)) if j64 else []
  r32 = core.run_workers(WORKER, j32, x64=False, work=ck.work, chunk=ch(j32)) if j32 else []
  return j64 + j32, r64 + r32


def label(c):
  return (f"{c['method']} n={c['n']} ps={c['ps']} fill={c['fill']} exps={c['exps']} scale=1e{c['c']} "
          f"p={c['p']} eps=1e-{c['eexp']} rel={c['rel']} k={c['k']} {c['dt']}")


def replay_compare(ck, jobs, res):
  """R: the spec's derived facts about the case against the real call."""
  ok = []
  for j, r in zip(jobs, res):
    c, d = j["case"], j["derived"]
    if r["error"]:
      ck.violation(f"invroot|{c['method']}|{r['kind']}_error",
                   f"{label(c)}: the routine raised {r['error']}", {"job": j, "tb": r["tb"]})
      continue
    o = r["obs"]
    bad = None
    want_dt = "float64" if c["dt"] == "f64" else "float32"
    if not o["finite"]:
      bad = ("root_not_finite", f"X has non-finite entries (error={o['err']}, max_eigen_value={o['lam']})")
    elif o["dtype"] != want_dt or o["shape"] != [c["n"], c["n"]]:
      bad = ("result_dtype_or_shape", f"X is {o['dtype']}{o['shape']}, input was {want_dt}")
    elif d["retriesFixed"] >= 0 and o["retries"] != d["retriesFixed"]:
      bad = ("retries_on_a_branch_without_retry_loop", f"total_retries={o['retries']}")
    elif d["allpad"] and not (o["xzero"] and o["err"] == 0.0):
      bad = ("all_padding_result_or_error_not_zero", f"xzero={o['xzero']} error={o['err']}")
    elif c["ps"] >= 0 and o["padnz"] != 0:
      bad = ("padding_rows_not_zero", f"{o['padnz']} non-zero entries outside rows {d['rows']}")
    elif d["lamSource"] == "one" and c["method"] != "eigh" and o["lam"] != 1.0:
      bad = ("absolute_ridge_reports_estimate_not_one", f"max_eigen_value={o['lam']}")
    if bad:
      ck.violation(f"invroot|{c['method']}|{bad[0]}", f"{label(c)}: {bad[1]}", {"job": j, "obs": o})
    else:
      ok.append((j, r))
  return ok


def validate(ck, pairs, count=True):
  traces = [{"cfg": j["case"], "events": r["events"]} for j, r in pairs]
  out = []
  B = 4000
  for b in range(0, len(traces), B):
    out.extend(ck.validate("InvRoot_Trace", "InvRoot_Trace", traces[b:b + B]))
  return out


def selected(j, r):
  """The (base, k) the spec's rule selects - python replica used ONLY for calibration records."""
  c, d, o = j["case"], j["derived"], r["obs"]
  if not c["rel"]:
    base = "abs"
  elif d["lamSource"] == "hidden":
    base = "rel_floor" if d["lamBelowFloor"] else "rel_lam"
  else:
    base = "rel_floor" if o["lam"] < 10.0 ** -d["floorExp"] else "rel_lam"
  k = int(o["retries"]) - 1 if (d["branch"] == "loop" and d["figureEscalated"]) else 0
  return base, max(k, 0)


def slack_of(c, d, o, base, k, u):
  amax = 10.0 ** c["c"]
  amin = 0.0 if len(c["exps"]) < d["m"] else 10.0 ** (c["c"] - max(c["exps"]))
  lam = amax if d["lamSource"] == "hidden" else o["lam"]
  dd = 10.0 ** -c["eexp"] * {"abs": 1.0, "rel_floor": 10.0 ** -d["floorExp"], "rel_lam": lam}[base] * 10.0 ** k
  return SLACK_C * c["n"] * c["p"] * u * max(1.0, amax / (amin + dd))      # InvRoot!CondLo (never below 1)


def calibrate(ck, pairs, verdicts):
  n_honest = n_sharp = 0
  for (j, r), v in zip(pairs, verdicts):
    c, d, o = j["case"], j["derived"], r["obs"]
    u = U if c["dt"] == "f64" else 2.0 ** -24
    if not d["allpad"] and o["finite"]:
      base, k = selected(j, r)
      if d["branch"] == "loop":
        k = max(int(o["retries"]) - 1, 0)          # the ridge inside X is always the escalated one
      ck.calib(f"asymmetry_over_slack_{c['dt']}", o["asym"] / slack_of(c, d, o, base, k, u), 1.0)
    if c["method"] != "eigh" and c["rel"] and d["m"] > 0:
      ck.calib(f"lambda_hat_over_lambda_max_minus_1_{c['dt']}", max(0.0, o["lam"] / 10.0 ** c["c"] - 1),
               2.0 ** -23 if c["dt"] == "f64" else 2.0 ** -23 + 1e-4)
    pi_ok = next(e for e in r["events"] if e["a"] == "Gate")["pi"]
    if c["dt"] == "f64" and o["fc"] == "below" and not d["allpad"] and "meas_raw" in o and pi_ok:
      base, k = selected(j, r)
      col = o["meas_raw"].get(base, [])
      slack = slack_of(c, d, o, base, k, U) if k < len(col) else 0.0
      if k < len(col) and slack / (SLACK_C * c["n"] * c["p"] * U) <= 1e13:      # InvRoot!NumDomain
        n_honest += 1
        n_sharp += slack < 1e-6
        ratio = max(0.0, (col[k] - o["err"] * (1 + 2.0 ** -23)) / slack)
        ck.calib("honest_excess_over_slack", ratio, 1.0)
        if ratio >= ck.cov.get("honest_worst_case", {"ratio": -1})["ratio"]:
          ck.cov["honest_worst_case"] = {"ratio": ratio, "case": label(c), "measured": col[k], "figure": o["err"],
                                         "slack": slack}
  return n_honest, n_sharp


def judge(ck, jobs, res):
  """R comparison, then V: every remaining real call validated by TLC; reports violations."""
  pairs = replay_compare(ck, jobs, res)
  verdicts = validate(ck, pairs) if pairs else []
  tally = {"size1": 0, "allpad": 0, "padded": 0, "retried": 0, "exhausted": 0, "accepted": 0,
           "rejected_by_gate": 0, "floor_active": 0, "lobpcg": 0, "f32": 0, "pi_premise_failed": 0,
           "in_domain_cond_le_1e8": 0, "in_domain_not_accepted": 0, "in_domain_ridge_escalated": 0}
  for (j, r), v in zip(pairs, verdicts):
    c, d, o = j["case"], j["derived"], r["obs"]
    ck.count(1, key=c, nontrivial=not d["allpad"])
    tally["size1"] += d["branch"] == "size1"
    tally["allpad"] += d["allpad"]
    tally["padded"] += 0 < c["ps"] < c["n"]
    tally["retried"] += o["retries"] > 1
    tally["exhausted"] += o["retries"] >= 6
    tally["accepted"] += o["accepted"]
    tally["rejected_by_gate"] += not o["accepted"]
    tally["floor_active"] += bool(d["lamBelowFloor"] and c["rel"])
    tally["lobpcg"] += c["method"] == "lobpcg"
    tally["f32"] += c["dt"] == "f32"
    if c["dt"] == "f64" and c["method"] != "lobpcg" and not d["allpad"] and o["finite"]:
      base, _ = selected(j, r)
      cond0 = slack_of(c, d, o, base, 0, U) / (SLACK_C * c["n"] * c["p"] * U)   # with the configured ridge
      if cond0 <= 1.0001e8:
        tally["in_domain_cond_le_1e8"] += 1
        tally["in_domain_not_accepted"] += not o["accepted"]
        if o["retries"] > 1:
          tally["in_domain_ridge_escalated"] += 1
          ck.cov.setdefault("in_domain_escalated_examples", [])
          if len(ck.cov["in_domain_escalated_examples"]) < 8:
            ck.cov["in_domain_escalated_examples"].append(
                {"case": label(c), "retries": o["retries"], "error": o["err"], "iters": o["iters"]})
    if not next(e for e in r["events"] if e["a"] == "Gate")["pi"]:
      tally["pi_premise_failed"] += 1
      ck.cov.setdefault("pi_premise_failed_examples", [])
      if len(ck.cov["pi_premise_failed_examples"]) < 5:
        ck.cov["pi_premise_failed_examples"].append({"case": label(c), "power_iteration": o.get("pi_lam")})
    if v["accepted"]:
      ck.traces_ok(1)
    else:
      ck.violation(f"invroot|{c['method']}|{v['verdict']}",
                   f"{label(c)}: trace rejected at event {v['l']} ({v['verdict']}); observed "
                   f"error={o['err']} lambda_hat={o['lam']} retries={o['retries']}",
                   {"job": j, "obs": o, "events": r["events"], "verdict": v})
  return pairs, verdicts, tally


def run(ck):
  quick = ck.quick
  if getattr(ck, "replay", None):
    # re-run the saved case on the code as it is NOW and judge it (R comparison + TLC validation)
    saved = json.load(open(ck.replay))["case"]
    if "job" not in saved:
      raise core.MachineryError("replay file holds no exported case")
    job = saved["job"]
    res = core.run_workers(WORKER, [job], x64=job["case"]["dt"] == "f64", work=ck.work)
    pairs, verdicts, _ = judge(ck, [job], res)
    ck.sample({"replayed": job["case"],
               "observed": {k: v for k, v in (res[0].get("obs") or {}).items() if k != "meas_raw"},
               "verdict": verdicts[0]["verdict"] if verdicts else "rejected by the replay comparison"})
    return
  # ---- M ------------------------------------------------------------------------------
  acts = ["Mask", "Deflate", "Estimate", "Size1", "Attempt", "ExitLoop", "Redeflate", "Decompose",
          "Report", "Override", "Gate"]
  ck.mc("InvRoot_MC", "InvRoot_MC", required_actions=acts)
  if not quick:
    ck.mc("InvRoot_MCT", "InvRoot_MCT", required_actions=acts, timeout=7200)
  # ---- cases from TLC -----------------------------------------------------------------
  mod64, mod32 = (499, 1499) if quick else (13, 41)
  items = ck.gen("InvRoot_Gen", "InvRoot_Gen",
                 env={"GEN_MOD": str(mod64), "GEN_MOD32": str(mod32), "GEN_SLICE": str(ck.seed)},
                 timeout=3600)
  ck.cov["lattice_slice"] = {"mod_f64": mod64, "mod_f32": mod32, "slice": ck.seed, "cases": len(items)}
  ck.sample({"case_from_TLC": items[len(items) // 2]})
  # ---- R + V --------------------------------------------------------------------------
  jobs, res = run_cases(ck, items)
  pairs, verdicts, tally = judge(ck, jobs, res)
  n_honest, n_sharp = calibrate(ck, pairs, verdicts)
  tally["honest_clause_evaluated"] = n_honest
  tally["honest_clause_sharp_slack_below_1e-6"] = n_sharp
  ck.cov["branches_observed"] = tally
  if pairs:
    mid = pairs[len(pairs) // 3]
    ck.sample({"recorded_trace": {"cfg": mid[0]["case"], "events": mid[1]["events"]}})
  if len(pairs) == len(jobs):  # vacuity control only makes sense on a tree that runs
    for k in ("size1", "allpad", "padded", "accepted", "retried", "honest_clause_evaluated",
              "honest_clause_sharp_slack_below_1e-6", "floor_active", "f32"):
      if tally[k] == 0:
        raise core.MachineryError(f"vacuous case slice: no '{k}' case among {len(pairs)} runs")
  selftests(ck, pairs, verdicts)
  ck.assume("inputs are Q diag(a) Q^T with eigenvalues 10^(c-e) (spread <= 1e8, scale 1e-9..1e6 (1e-9: below the 1e-6 floor and stop increment of the power iteration), n <= 16, "
            "p <= 8): C01 is decided on matrices with a prescribed spectrum, not on every PSD matrix")
  ck.assume("a float32 report r (error figure, max_eigen_value) stands for some real in r(1 -+ 2^-23); eigh "
            "does not report its estimate: lambda_hat in [lambda_max(1 - 1e-4), lambda_max] for lambda_max >= 1 "
            "(power iteration to 1e-6 on spectra with ratios 1 or <= 1/10), floor 1e-6 below")
  ck.assume("the residual is measured in numpy float64 for every candidate ridge; TLC selects the candidate "
            "by the spec's ridge rule, computes the slack 1000 n p 2^-53 cond(A+dI), restricts the clause to "
            "cond(A+dI) <= 1e13 and decides the relation; "
            "all decimal roundings go against acceptance")
  ck.assume("float32 compute (x64 off): structural clauses only")
  ck.assume("LOBPCG-deflated variant only for n = 16, k in {2, 3} (jax requires n > 5k; smaller sizes are "
            "C07's finding ds|lobpcg|small_matrix)")


def selftests(ck, pairs, verdicts):
  """Binding self-tests: corrupted traces / a spec applied with the wrong rule must be rejected."""
  good = [(j, r) for (j, r), v in zip(pairs, verdicts) if v["accepted"]]

  def pick(pred):
    for j, r in good:
      if pred(j, r):
        return copy.deepcopy(j), copy.deepcopy(r)
    return None

  def ev(r, a):
    return next(e for e in r["events"] if e["a"] == a)

  tests = []
  # 1. the measured residual of the ridge the spec selects is large -> dishonest figure
  t = pick(lambda j, r: j["case"]["dt"] == "f64" and r["obs"]["fc"] == "below" and not j["derived"]["allpad"])
  if t:
    j, r = t
    base, k = selected(j, r)
    ev(r, "Gate")["meas"][base][k] = [500000000, -9]
    tests.append(("V: residual 0.5 behind an accepted figure is rejected", j, r, "reported_error_below_true_residual"))
  # 2. the real run judged under the other ridge rule (spec must pick another column / expect lambda=1)
  t = pick(lambda j, r: j["case"]["dt"] == "f64" and j["case"]["method"] == "newton" and j["case"]["rel"]
           and j["case"]["c"] != 0 and j["derived"]["branch"] == "loop" and r["obs"]["fc"] == "below")
  if t:
    j, r = t
    j["case"]["rel"] = False
    tests.append(("V: relative-ridge run judged as absolute-ridge case is rejected", j, r, None))
  # 3. escalation off by one: the residuals of escalation k+1 presented at k
  def shift_matters(j, r):
    c, d, o = j["case"], j["derived"], r["obs"]
    if not (c["dt"] == "f64" and c["method"] == "newton" and d["branch"] == "loop" and o["fc"] == "below"
            and "meas_raw" in o):
      return False
    base, k = selected(j, r)
    col = o["meas_raw"][base]
    return k + 1 < len(col) and col[k + 1] > 100 * (o["err"] * 1.001 + slack_of(c, d, o, base, k, U)) \
        and slack_of(c, d, o, base, k, U) < 1e-3
  t = pick(shift_matters)
  if t:
    j, r = t
    m = ev(r, "Gate")["meas"]
    for b in m:
      m[b] = m[b][1:] + m[b][-1:]
    tests.append(("V: residuals measured against a 10x larger ridge are rejected", j, r,
                  "reported_error_below_true_residual"))
  # 4. retry automaton: loop left although the last error is above 0.05 and attempts remain
  t = pick(lambda j, r: j["case"]["method"] == "newton" and j["derived"]["branch"] == "loop"
           and r["obs"]["retries"] == 1)
  if t:
    j, r = t
    [e for e in r["events"] if e["a"] == "Attempt"][-1]["cls"] = "big"
    ev(r, "Report").update(c05="big", fc="atabove")
    ev(r, "Gate")["accepted"] = False
    tests.append(("V: leaving the retry loop with error > 0.05 after one attempt is rejected", j, r,
                  "loop_exited_with_error_above_retry_threshold"))
  # 5. structural: a non-zero entry in a padding row
  t = pick(lambda j, r: 0 < j["case"]["ps"] < j["case"]["n"])
  if t:
    j, r = t
    ev(r, "Return")["padnz"] = 1
    tests.append(("V: non-zero entry in a padding row is rejected", j, r, "padding_rows_not_zero"))
  # 6. estimate above lambda_max
  t = pick(lambda j, r: j["case"]["method"] == "newton" and j["case"]["rel"] and j["derived"]["m"] > 0)
  if t:
    j, r = t
    ev(r, "Estimate")["lam"] = [100000100, j["case"]["c"] - 8]      # lambda_max * (1 + 1e-6)
    tests.append(("V: lambda_hat 1e-6 above lambda_max is rejected", j, r, "lambda_hat_above_lambda_max"))
  # 7. retries reported on the 1x1 branch
  t = pick(lambda j, r: j["derived"]["branch"] == "size1")
  if t:
    j, r = t
    ev(r, "Report")["retries"] = 1
    tests.append(("V: a retry reported by the 1x1 branch is rejected", j, r, "reported_retries_differ_from_attempts"))
  if len(tests) < 5:
    if len(good) < len(pairs):
      return            # the tree under test misbehaves broadly; verdicts above already say so
    raise core.MachineryError("could not build the binding self-tests from the recorded traces")
  sub = core.Check(ck.pid, ck.level, ck.tier, ck.seed, parent=ck)
  vs = sub.validate("InvRoot_Trace", "InvRoot_Trace",
                    [{"cfg": j["case"], "events": r["events"]} for _, j, r, _ in tests])
  for (name, j, r, want), v in zip(tests, vs):
    rejected = (not v["accepted"]) and (want is None or v["verdict"] == want)
    if rejected or not ck.violations:      # on a tree that already violates C01 the recorded traces
      ck.selftest(name, rejected)          # may not lend themselves to a corruption; the verdict stands
  # R: a corrupted derived fact is flagged by the replay comparison
  j, r = copy.deepcopy(good[0])
  j["derived"]["retriesFixed"] = 3
  sub2 = _Collect()
  replay_compare(sub2, [j], [r])
  ck.selftest("R: corrupted expected retry count is flagged", len(sub2.violations) > 0)
