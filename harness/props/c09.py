"""C09 - the frequent-directions sketch brackets the true second moment.

M: spec/FD.tla (axis-aligned histories, exact rationals) exhaustively with TLC: Bracket, NonNeg,
   RankBound, LowRankExact, FDGuarantee, InvDenotes, TailLaw, ZeroStep, KeepIsThreshold.
R: behaviours exported by TLC (all of depth 3, ridge configurations of depth 4, a seeded
   -simulate sample of depth 6) replayed into the three implementations with gradients rotated
   by a seeded random orthogonal matrix: directly (distributed_shampoo._fd_update_root with
   packed sketches and padding, tearfree sketchy._update_axis on tensors of rank 1..3, oco
   _fd_update_fn under x64) and through the real optimizers (Distributed Shampoo FD run,
   Tearfree Sketchy); sketch matrix, escaped mass, orthonormal-or-zero columns, bracket and the
   arguments of the stored inverse roots are compared with the spec's rationals.
V: dense non-commuting histories: numpy measures bracket margins / tail law / FD guarantee in
   float64, TLC (FD_Trace) compares.
"""
import copy
import json

import numpy as np

from harness import core

LEVEL = "model_checking"


def vacuous(ck, msg):
  """Vacuity is a machinery error - unless the code under test is already known to be wrong on
  this run (then the missing coverage is a consequence, and the violations must be reported)."""
  if ck.violations:
    ck.cov.setdefault("vacuity_notes_under_violation", []).append(msg)
  else:
    raise core.MachineryError(msg)


def selftest(ck, name, rejected):
  """A binding self-test compares a corrupted expectation with the REAL code; if the code under
  test is itself wrong (violations already recorded) a corrupted expectation may coincide with
  it - that must not mask the violations behind a machinery error."""
  if rejected or not ck.violations:
    ck.selftest(name, rejected)
  else:
    ck.cov.setdefault("selftests_inconclusive_under_violation", []).append(name)

TOL32 = 5e-4      # mass-space comparisons, relative to the history's trace, float32 code paths
TOL64 = 1e-9      # the same under jax_enable_x64 with float64 state
TOL64_TF_INV = 1e-5  # Sketchy keeps its exponent `alpha` in float32 even under x64: the stored inverse
                     # roots are then only float32-accurate (measured 9.5e-8)
VTOL = 300        # measured margins, units of tr(C) / 1e6
KNOWN_MIXED = "ds|fd|mixed_sizes|sketch_lost_by_truncation"

DS_VARS = [
    {"others": [7], "axis": 0, "pad": 2, "p": 4, "rel": False, "extra": 0},
    {"others": [3, 3], "axis": 1, "pad": 0, "p": 2, "rel": True, "extra": 1},
    {"others": [2, 2, 2], "axis": 2, "pad": 3, "p": 6, "rel": True, "extra": 0},
    {"others": [8], "axis": 1, "pad": 1, "p": 8, "rel": False, "extra": 2},
]
TF_VARS = [
    {"others": [6], "axis": 1, "eps": 2.0 ** -10, "rel": True, "extra": 0},
    {"others": [2, 3], "axis": 1, "eps": 0.25, "rel": False, "extra": 1},
    {"others": [7], "axis": 0, "eps": 1e-7, "rel": True, "extra": 2},
    {"others": [3, 2], "axis": 2, "eps": 0.0, "rel": True, "extra": 0},
    {"others": [], "axis": 0, "eps": 2.0 ** -10, "rel": True, "extra": 1},     # rank-1 tensor
]
OCO_VARS = [
    {"wshape": [6], "alg": "S_ADA", "delta": 0.25},
    {"wshape": [2, 3], "alg": "ADA_FD", "delta": 0.5},
    {"wshape": [5], "alg": "S_ADA", "delta": 1.0},
]


def _chunk(jobs):
  """Jobs per worker process: two waves of processes, so that jax start-up and jit caches are
  shared by many jobs."""
  return max(1, -(-len(jobs) // (2 * core.NCPU)))


def _nnz(b):
  return max(sum(1 for x in s["g"] if x) for s in b["steps"])


def _clean(b):
  """Ridge configurations are replayed only where float arithmetic cannot turn an exactly empty
  slot into a kept 1e-8 direction (which would then receive the ridge)."""
  return b["cfg"]["ridge"] == 0 or not any(s["slack"] or s["tie"] for s in b["steps"])


def _key(b):
  return json.dumps([b["cfg"], [s["g"] for s in b["steps"]]], sort_keys=True)


def direct_jobs(ck, behs, impl, x64):
  """Group behaviours by configuration, rotate implementation variants over the groups."""
  groups = {}
  for b in behs:
    c = b["cfg"]
    if impl == "tf" and c["ridge"]:
      continue
    if impl == "oco" and (c["ridge"] or c["bn"] != c["bd"] or _nnz(b) > 1):
      continue
    if impl == "ds" and not _clean(b):
      continue
    groups.setdefault(json.dumps(c, sort_keys=True), []).append(b)
  jobs = []
  variants = {"ds": DS_VARS, "tf": TF_VARS, "oco": OCO_VARS}[impl]
  for gi, (ckey, bs) in enumerate(sorted(groups.items())):
    c = json.loads(ckey)
    chunk = 120
    for j in range(0, len(bs), chunk):
      part = bs[j:j + chunk]
      vi = (gi + j // chunk) % len(variants)
      var = dict(variants[vi])
      if impl in ("ds", "tf"):
        m = int(np.prod(var["others"])) if var["others"] else 1
        sub = [b for b in part if _nnz(b) <= m]
        rest = [b for b in part if _nnz(b) > m]
        if rest:      # tensor too small for multi-coordinate gradients: use the first variant
          jobs.append({"impl": impl, "behs": rest, "seed": ck.seed * 7919 + len(jobs),
                       "var": dict(variants[0]), "tol": TOL64 if x64 else TOL32})
        part = sub
      if impl == "oco":
        var = dict(var)
        n = int(np.prod(var["wshape"]))
        if n < max(c["d"], c["k"] + 1):
          var["wshape"] = [max(c["d"], c["k"] + 1) + 1]
      if part:
        jobs.append({"impl": impl, "behs": part, "seed": ck.seed * 7919 + len(jobs), "var": var,
                     "tol": TOL64 if x64 else TOL32})
  if impl == "tf" and x64:
    for j in jobs:
      j["var"] = dict(j["var"], tol_inv=TOL64_TF_INV)
  return jobs


def judge(ck, jobs, res, label, mode, stats):
  nbad = 0
  for j, r in zip(jobs, res):
    for b, x in zip(j["behs"], r["results"]):
      ck.count(1, key=[j["impl"], mode, _key(b)])
      for k, v in x["worst"].items():
        if k == "flag_checked":
          stats["flag_checked"] = stats.get("flag_checked", 0) + v
          continue
        tol = 1e-4 if k == "orth" else 0.0 if k == "nonneg" else j["tol"] * (100 if k == "applied" else 1)
        if k in ("inv_arg", "inv_tail_arg") and j["var"].get("tol_inv"):
          tol = j["var"]["tol_inv"]
        ck.calib(f"{j['impl']}.{mode}.{k}", v, tol)
      if x["bad"]:
        nbad += 1
        first = x["bad"][0]
        clause = first[-2]
        ck.violation(f"{j['impl']}|{mode}|{clause}",
                     f"{label}: {j['impl']} cfg={b['cfg']} var={j.get('var') or j.get('o')} gradients="
                     f"{[s['g'] for s in b['steps']]}: step {first[0]}: {clause} = {first[-1]} "
                     f"(normalised by the history's trace; tolerance {j['tol']})",
                     {"job": {k: v for k, v in j.items() if k != 'behs'}, "behaviour": b,
                      "bad": x["bad"][:10], "tb": x.get("tb")})
      else:
        ck.traces_ok(1)
  return nbad


def opt_jobs(ck, behs, quick):
  """Through-the-optimizer replays: one compiled optimizer per (configuration, shape)."""
  per = 40 if quick else 250
  by = {}
  for b in behs:
    by.setdefault(json.dumps(b["cfg"], sort_keys=True), []).append(b)
  jobs = []
  rs = np.random.RandomState(ck.seed + 11)
  for gi, (ckey, bs) in enumerate(sorted(by.items())):
    c = json.loads(ckey)
    d, k, b = c["d"], c["k"], c["bn"] / c["bd"]
    bs = [x for x in bs if _clean(x)]
    if not bs:
      continue
    idx = rs.permutation(len(bs))[:per]
    sel = [bs[i] for i in idx]
    D = max(d, k + 3)
    # Distributed Shampoo, all statistics of one size (strict) ...
    shapes = [(D, D), (D + 1, D + 1, D + 1), (D + 2, D + 2)]
    o = {"fd": True, "compression_rank": k, "reuse": True, "S": 1, "P": 1, "Start": 1 + gi % 3,
         "beta2": b, "matrix_epsilon": float(c["ridge"]), "relative_eps": c["ridge"] == 0,
         "merge": False, "block_size": 16, "graft": ["SGD", "RMSPROP", "ADAGRAD"][gi % 3],
         "beta1": [0.0, 0.5][gi % 2], "metrics": bool(gi % 2),
         # window of one step with the gradient-averaging accumulator on: what enters the sketch is still g_t
         "average_grad": (gi // 2) % 2 == 1}
    if k + 2 < D:
      jobs.append({"impl": "dsrun", "o": o, "shape": shapes[gi % 3], "behs": sel, "tol": TOL32,
                   "seed": ck.seed * 31 + gi, "mixed": False})
    # ... with an axis too small to sketch (<= k + 2) in FRONT of the sketched one: the small axis keeps ordinary
    # Shampoo statistics, the large one must still be fed the gradient factor of frequent directions
    if d <= k + 2 and k + 2 < D:
      jobs.append({"impl": "dsrun", "o": o, "shape": (k + 2, D), "behs": sel[:max(8, per // 4)], "tol": TOL32,
                   "seed": ck.seed * 31 + gi, "mixed": False})
    # ... one sketched axis whose unfolded gradient is WIDE (8 x 320, INPUT type: a single statistic, so the open
    # mixed-size finding does not interfere) and, the lattice history being of rank < 8, row-rank deficient
    if d <= 6 and k + 2 < 8 and gi % 4 == 0:
      jobs.append({"impl": "dsrun", "o": dict(o, ptype="INPUT", block_size=512), "shape": (8, 320),
                   "behs": sel[:max(6, per // 6)], "tol": TOL32, "seed": ck.seed * 31 + gi, "mixed": False})
    # ... and of two sizes (known finding on the smaller one)
    if c["ridge"] == 0 and gi % 2 == 0 and k + 2 < D:
      jobs.append({"impl": "dsrun", "o": o, "shape": (D, D + 2), "behs": sel[:max(8, per // 5)],
                   "tol": TOL32, "seed": ck.seed * 31 + gi, "mixed": True})
    # Tearfree Sketchy (no per-step ridge in this implementation)
    if c["ridge"] == 0:
      tshape = [(d, d + 2), (d + 1, d, d + 2), (d + 1, d), (d, d, d)][gi % 4]
      to = {"so": "sketchy", "rank": k, "decay": b, "sk_eps": [2.0 ** -10, 1e-7, 0.25][gi % 3],
            "sk_rel": gi % 3 != 2, "merge_dims": 2, "Start": gi % 2, "graft": ["RMSPROP", "SGD"][gi % 2],
            "momentum_decay": [0.0, 0.5][gi % 2]}
      jobs.append({"impl": "tfrun", "o": to, "shape": tshape, "behs": sel, "tol": TOL32,
                   "seed": ck.seed * 31 + gi, "mixed": False})
  return jobs


def judge_opt(ck, jobs, res, stats):
  for j, r in zip(jobs, res):
    if r.get("error"):
      ck.violation(f"{j['impl']}|construct|exception", f"{j['impl']} {j['o']} {j['shape']}: {r['error']}",
                   {"job": {k: v for k, v in j.items() if k != 'behs'}, "tb": r.get("tb")})
      continue
    small = [a for a, n in enumerate(j["shape"]) if n < max(j["shape"])]
    for b, x in zip(j["behs"], r["results"]):
      ck.count(1, key=[j["impl"], "opt", list(j["shape"]), _key(b)])
      for k, v in x["worst"].items():
        if not j["mixed"]:
          ck.calib(f"{j['impl']}.opt.{k}", v, 1e-4 if k == "orth" else 0.0 if k == "nonneg" else
                   1e-3 if k == "update_direction" else j["tol"])
      strict = [y for y in x["bad"] if not (j["mixed"] and y[1] in small)]
      known = [y for y in x["bad"] if j["mixed"] and y[1] in small]
      if known:
        stats["mixed_hits"] = stats.get("mixed_hits", 0) + 1
        y = known[0]
        ck.violation(KNOWN_MIXED + "|replay",
                     f"DS FD run, parameter {j['shape']}: statistic of axis {y[1]} (size {j['shape'][y[1]]} < "
                     f"max_size {max(j['shape'])}) step {y[0]}: {y[2]} = {y[3]}",
                     {"job": {k: v for k, v in j.items() if k != 'behs'}, "behaviour": b, "bad": known[:6]})
      if strict:
        y = strict[0]
        ck.violation(f"{j['impl']}|opt|{y[2]}",
                     f"{j['impl']} run o={j['o']} shape={j['shape']} cfg={b['cfg']} gradients="
                     f"{[s['g'] for s in b['steps']]}: step {y[0]} axis {y[1]}: {y[2]} = {y[3]}",
                     {"job": {k: v for k, v in j.items() if k != 'behs'}, "behaviour": b,
                      "bad": strict[:10], "tb": x.get("tb")})
      elif not known:
        ck.traces_ok(1)


KINDS = ["full", "lowrank", "rank1", "zero_mix", "scale", "aniso"]
DECAYS = [(1, 1), (1, 2), (9, 10), (99, 100), (3, 4)]


def measure_jobs(ck, quick):
  rs = np.random.RandomState(ck.seed + 23)
  jobs = []
  n = 10 if quick else 60
  T = 10 if quick else 25
  for i in range(n):
    kind = KINDS[i % len(KINDS)]
    bn, bd = DECAYS[(i // len(KINDS) + i) % len(DECAYS)]
    seed = int(rs.randint(1 << 30))
    k = int(rs.randint(1, 4))
    d = k + 3 + int(rs.randint(0, 4))
    base = {"k": k, "d": d, "bn": bn, "bd": bd, "kind": kind, "T": T, "seed": seed}
    jobs.append(dict(base, impl="ds", var={"others": [[d + 1], [3, 3], [2, 2, 3]][i % 3], "axis": i % 2,
                                            "pad": [0, 2, 5][i % 3], "rel": i % 4 != 3, "p": [2, 4, 6][i % 3],
                                            "ridge": [1e-6, 0.0, 2.0 ** -10, 1e-3][i % 4]}))
    kt = int(rs.randint(1, 5))
    dt = int(rs.randint(3, 8))
    jobs.append(dict(base, impl="tf", k=kt, d=dt,
                     var={"others": [[5], [2, 3], []][i % 3], "axis": [1, 1, 0][i % 3],
                          "rel": i % 2 == 0, "eps": [1e-7, 1e-3][i % 2]}))
    jobs.append(dict(base, impl="oco", bn=1, bd=1,
                     var={"wshape": [d], "alg": ["S_ADA", "S_ADA", "ADA_FD"][i % 3], "delta": 0.25}))
    shape = [[d, d], [d, d, d]][i % 2] if d <= 6 else [d, d]
    jobs.append(dict(base, impl="dsrun",
                     var={"o": {"fd": True, "compression_rank": k, "reuse": True, "beta2": bn / bd,
                                "merge": False, "block_size": 16, "graft": "SGD",
                                "matrix_epsilon": [1e-6, 0.0, 2.0 ** -10][i % 3]}, "shape": shape}))
    if i % 3 == 0:
      jobs.append(dict(base, impl="dsrun",
                       var={"o": {"fd": True, "compression_rank": k, "reuse": True, "beta2": bn / bd,
                                  "merge": False, "block_size": 16, "graft": "SGD", "matrix_epsilon": 1e-6},
                            "shape": [d, d + 2]}))
    jobs.append(dict(base, impl="tfrun", k=kt,
                     var={"o": {"so": "sketchy", "rank": kt, "decay": bn / bd, "merge_dims": 2},
                          "shape": [[dt, dt + 1], [dt, 3, 4], [dt + 2, dt]][i % 3]}))
  # ADA_FD keeps alpha fixed: its escaped mass is not observable, only the sketch is
  jobs = [j for j in jobs if not (j["impl"] == "oco" and j["var"]["alg"] == "ADA_FD")]
  return jobs


def judge_measured(ck, traces, stats):
  tl = [{"cfg": dict(t["cfg"], tol=VTOL, otol=VTOL), "events": t["events"]} for t in traces]
  verdicts = ck.validate("FD_Trace", "FD_Trace", tl)
  for t, v in zip(traces, verdicts):
    c = t["cfg"]
    ck.count(1, key=["measured", c, t["meta"]["seed"], t["meta"]["axis"]])
    for e in (t["events"] if v["accepted"] else []):
      ck.calib("measured.margin_units", max(0, -e["lo"], -e["hi"]), VTOL)
      ck.calib("measured.orth_units", e["orth"], VTOL)
      ck.calib("measured.tail_law_units",
               abs(c["bd"] * e["tnew"] - c["bn"] * e["told"] - c["bd"] * e["r"]) / c["bd"], VTOL)
      stats["v_escaped"] = stats.get("v_escaped", 0) + (1 if e["r"] > 1000 else 0)
    if v["accepted"]:
      ck.traces_ok(1)
    elif t["meta"].get("smaller_than_max") and c["impl"] == "dsrun":
      stats["mixed_hits"] = stats.get("mixed_hits", 0) + 1
      ck.violation(KNOWN_MIXED + "|measured",
                   f"DS FD run {t['meta']['var']['shape']}, axis {t['meta']['axis']}: {v['verdict']} at event {v['l']}",
                   {"trace": t, "verdict": v})
    else:
      ck.violation(f"{c['impl']}|measured|{v['verdict']}",
                   f"dense {c['kind']} history, {c['impl']} k={c['k']} d={c['d']} decay={c['bn']}/{c['bd']} "
                   f"var={t['meta']['var']}: trace rejected at event {v['l']}: {v['verdict']} "
                   f"{t['events'][min(v['l'], len(t['events'])) - 1]}", {"trace": t, "verdict": v})
  return verdicts


def run(ck):
  import time
  quick = ck.quick
  stats = {}
  phase = ck.cov.setdefault("phase_wall_s", {})
  t_last = [time.time()]

  def mark(name):
    phase[name] = round(time.time() - t_last[0], 1)
    t_last[0] = time.time()
  ck.assume("R: FD is rotation-equivariant; axis-aligned histories rotated by a seeded random orthogonal Q are "
            "dense for the implementation and diagonal for the spec")
  ck.assume("R: has_zeros / zeroed columns are discontinuous in the last bit where a slot is exactly empty or "
            "two eigenvalues tie at the cut: there only the continuous observations (sketch matrix, tail, "
            "denoted inverse) are compared; ridge>0 behaviours are replayed only where no slot is empty")
  ck.assume("V: numpy (float64) measures eigenvalue margins of dense histories, TLC only compares them with the "
            "tolerance carried in the trace; r is recomputed from the implementation's previous sketch")
  ck.assume("per-step ridge of Distributed Shampoo is counted into C as the code adds it (rho V V' on stored columns)")
  # ---- M -------------------------------------------------------------------------------
  # (coverage instrumentation makes this run 4x slower; the spec has one action, so "taken" is
  # witnessed by the depth of the state graph instead)
  for cfgname in (["FD_MC"] if quick else ["FD_MCT", "FD_MCT5"]):
    r = ck.mc("FD_MC", cfgname)
    if r.depth < 5 or r.generated <= r.distinct // 2:
      raise core.MachineryError(f"vacuous model run {cfgname}: depth {r.depth}")
  mark("M")
  # ---- R: behaviours from TLC ----------------------------------------------------------------
  beh = ck.gen("FD_Gen", "FD_Gen" if quick else "FD_GenT")
  beh += ck.gen("FD_Gen", "FD_GenR")
  deep = ck.gen("FD_Gen", "FD_GenS", simulate=(40 if quick else 400), depth=10)
  seen, allb = set(), []
  for b in beh + deep:
    k = _key(b)
    if k not in seen:
      seen.add(k)
      allb.append(b)
  steps = [s for b in allb for s in b["steps"]]
  cov = {"behaviours": len(allb),
         "steps_with_escaped_mass": sum(1 for s in steps if s["r"] > 0),
         "zero_gradient_steps": sum(1 for s in steps if not any(s["g"])),
         "tie_steps": sum(1 for s in steps if s["tie"]),
         "exact_low_rank_final_states": sum(1 for b in allb if b["steps"][-1]["t"] == 0 and any(b["steps"][-1]["l"])),
         "ridge_behaviours_replayed": sum(1 for b in allb if b["cfg"]["ridge"] and _clean(b))}
  ck.cov["spec_behaviours"] = cov
  if min(cov.values()) == 0:
    raise core.MachineryError(f"vacuous behaviour set: {cov}")
  ck.sample({"spec_behaviour": next(b for b in allb if any(s["r"] > 0 for s in b["steps"]))})
  ck.cov["tlc_exported_deep"] = len(deep)
  mark("gen")
  # direct calls
  for x64, impls in ((False, ("ds", "tf")), (True, ("oco",) if quick else ("oco", "ds", "tf"))):
    jobs = [j for impl in impls for j in direct_jobs(ck, allb, impl, x64)]
    jobs = [jobs[i] for i in np.random.RandomState(ck.seed + 3).permutation(len(jobs))]   # balance
    res = core.run_workers("harness.workers.fd_direct", jobs, x64=x64, work=ck.work, chunk=_chunk(jobs))
    judge(ck, jobs, res, "FD_Gen replay (direct call)", "direct64" if x64 else "direct", stats)
    mark(f"R_direct{'_x64' if x64 else ''}")
  if not stats.get("flag_checked"):
    vacuous(ck, "has_zeros was never checked on a full sketch")
  # binding self-test (R): corrupt the expected escaped mass of one step
  bad = copy.deepcopy(next(b for b in allb if b["cfg"]["ridge"] == 0 and b["steps"][-1]["t"] > 0))
  bad["steps"][-1]["t"] += bad["steps"][-1]["den"]
  for impl, x64 in (("ds", False), ("tf", False)):
    sub = core.Check(ck.pid, ck.level, ck.tier, ck.seed)
    sub.work = ck.work
    jobs = direct_jobs(sub, [bad], impl, x64)
    judge(sub, jobs, core.run_workers("harness.workers.fd_direct", jobs, x64=x64, work=ck.work), "selftest", "direct", {})
    selftest(ck, f"R: corrupted expected escaped mass is flagged ({impl})",
                any(v[0].endswith("|tail") or "tail" in v[0] for v in sub.violations))
  mark("R_selftest")
  # through the optimizers
  jobs = opt_jobs(ck, allb, quick)
  res = core.run_workers("harness.workers.fd_optrun", jobs, work=ck.work, chunk=_chunk(jobs))
  judge_opt(ck, jobs, res, stats)
  ck.cov["optimizer_replay_jobs"] = len(jobs)
  mark("R_optimizers")
  # ---- V: measured traces on dense histories -------------------------------------------------
  mj = measure_jobs(ck, quick)
  traces = []
  for x64, sel in ((False, [j for j in mj if j["impl"] != "oco"]), (True, [j for j in mj if j["impl"] == "oco"])):
    res = core.run_workers("harness.workers.fd_measure", sel, x64=x64, work=ck.work, chunk=_chunk(sel))
    for j, r in zip(sel, res):
      if r.get("error"):
        ck.violation(f"{j['impl']}|measured|exception", f"{j['impl']} {j['var']}: {r['error']}",
                     {"job": j, "tb": r.get("tb")})
      traces.extend(r["traces"])
  mark("V_record")
  if not traces:
    vacuous(ck, "no measured trace was recorded")
    return
  ck.sample({"measured_trace": {"cfg": traces[0]["cfg"], "events": traces[0]["events"][:2]}})
  verdicts = judge_measured(ck, traces, stats)
  if not stats.get("v_escaped"):
    vacuous(ck, "no measured step ever removed mass")
  if not stats.get("mixed_hits"):
    ck.cov["mixed_size_finding_reobserved"] = False
  else:
    ck.cov["mixed_size_finding_reobserved"] = True
  mark("V_validate")
  # binding self-tests (V)
  good = [t for t, v in zip(traces, verdicts) if v["accepted"]]
  if not good:
    vacuous(ck, "no measured trace was accepted")
    return
  t0 = copy.deepcopy(next((t for t in good if any(e["r"] > 1000 for e in t["events"])), good[0]))
  i0 = next((i for i, e in enumerate(t0["events"]) if e["r"] > 1000), 0)
  t0["events"][i0]["tnew"] += 5000
  t1 = copy.deepcopy(good[0]); t1["events"][-1]["hi"] = -5000
  t2 = copy.deepcopy(good[0]); t2["events"][0]["orth"] = 5000
  sub = core.Check(ck.pid, ck.level, ck.tier, ck.seed); sub.work = ck.work
  vs = sub.validate("FD_Trace", "FD_Trace",
                    [{"cfg": dict(t["cfg"], tol=VTOL, otol=VTOL), "events": t["events"]} for t in (t0, t1, t2)])
  selftest(ck, "V: escaped mass off by 0.5% of the trace is rejected (tail_law)", vs[0]["verdict"] == "tail_law")
  selftest(ck, "V: covariance exceeding sketch + tail is rejected", not vs[1]["accepted"])
  selftest(ck, "V: non-orthonormal columns are rejected", not vs[2]["accepted"])
