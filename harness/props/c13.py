"""C13 - device-count invariance of the distributed preconditioner computation.

M: spec/Devices exhaustively (N = 0..30 statistics x D = 1..8 devices x pmap/sharded x full/compressed,
   every order of the D replica computations): every parameter gets Root(own id, own exponent, own
   padding start); no padding entry is used; b integral; the three sharded computations of the leading
   dimension agree.  The corner "every statistic is 1x1" (unbatch squeezes the matrix axes away) is
   model-checked separately and then probed on the real code.
R: (1) real batch/unbatch on id-valued arrays for every (N, D) against the spec's rows / flat order;
   (2) real jax.pmap runs on D forced host devices in full / int16-quantized / compressed mode on
   the trees exported by Devices_Gen: every device bytewise equal to device 0, and equal to the
   D = 1 run within the compilation-level tolerances; (3) sharded init for every (N, D) and sharded
   runs under a D-device mesh: leading dimension, exponent rows, index_start, padding rows, results.
V: the gate / cadence traces of all multi-device runs are validated by TLC against DSControl_Trace.
"""
import copy
import json
import time

from harness import core
from harness.props.c04 import judge_traces

LEVEL = "model_checking"

# quick tier: which of the exported trees (by N) each variant runs; together they still cover
# every residue of N modulo every D <= 4 (checked at run time), N <= D (b = 1) and N > D
QUICK_N = {"full": {1, 3, 6, 8, 11}, "int16": {1, 6, 11}, "compressed": {3, 8, 11}, "fd": {3, 8, 11},
           "shard": {0, 1, 3, 6, 8, 11}}

PMAP_ACTIONS = ["Pad", "BatchAll", "ComputeAny", "AllGather", "Unbatch", "Assign", "Regroup"]
SHARD_ACTIONS = ["ShardPad", "ShardComputeAny", "ShardCombine", "ShardLookup"]


def model(ck):
  ck.mc("Devices_MC", "Devices_MC", required_actions=PMAP_ACTIONS + SHARD_ACTIONS)
  ck.mc("Devices_MC", "Devices_MC1ex", required_actions=PMAP_ACTIONS)
  # the squeeze corner: the model of unbatch AS WRITTEN loses the matrix axes when every
  # statistic is 1x1.  Expected on the model; whether the code does it is probed below.
  r = core.tlc("Devices_MC", "Devices_MC1sq", work=ck.work)
  if r.violated != "ElemShapeKept":
    raise core.MachineryError(f"Devices_MC1sq: expected ElemShapeKept to fail, got {r.violated} rc={r.rc}\n"
                              + r.out[-2000:])
  ck.cov["tlc_runs"].append({"module": "Devices_MC", "cfg": "Devices_MC1sq", "expected_violation": "ElemShapeKept",
                             "distinct": r.distinct, "wall_s": round(r.wall, 1)})


def judge_simple(ck, jobs, res, prefix, label):
  bad = 0
  for j, r in zip(jobs, res):
    c = j["rec"]["cfg"]
    ck.count(1, key=[j["kind"], c["mode"], j["rec"]["N"], c["D"], c["crank"]])
    if r["error"]:
      bad += 1
      ck.violation(f"{prefix}|{r['error']['kind']}_error",
                   f"{label}: N={j['rec']['N']} D={c['D']} raised {r['error']['error']}",
                   {"cfg": c, "err": r["error"]})
    elif r["mismatches"]:
      bad += 1
      m = r["mismatches"][0]
      ck.violation(f"{prefix}|{m['clause']}",
                   f"{label}: N={j['rec']['N']} D={c['D']} tree={c['tree']}: {m['clause']} {str(m['detail'])[:300]}",
                   {"rec": j["rec"], "mismatches": r["mismatches"][:5]})
    else:
      ck.traces_ok(1)
  return bad


def index_maps(ck):
  recs = ck.gen("Devices_Gen", "Devices_Gen")
  pm = [r for r in recs if r["cfg"]["mode"] == "pmap"]
  sh = [r for r in recs if r["cfg"]["mode"] == "shard"]
  if ck.quick:
    sh = [r for r in sh if r["N"] <= 12 or r["N"] % 6 == 0]
  ck.sample({"spec_index_map": {k: pm[37][k] for k in ("cfg", "N", "pad", "rowsS", "rowsE", "flat")}})
  jobs = [{"kind": "idx", "rec": r} for r in pm]
  res = core.run_workers("harness.workers.devices_idx", jobs, work=ck.work)
  judge_simple(ck, jobs, res, "ds|batch_unbatch", "real batch/unbatch vs Devices.tla")
  # binding self-test: a spec row map with two entries swapped must be flagged
  badrec = copy.deepcopy(next(r for r in pm if r["N"] == 7 and r["cfg"]["D"] == 3))
  badrec["rowsS"][0][0], badrec["rowsS"][1][0] = badrec["rowsS"][1][0], badrec["rowsS"][0][0]
  badrec2 = copy.deepcopy(next(r for r in pm if r["N"] == 5 and r["cfg"]["D"] == 2))
  badrec2["rowsE"][0][1] += 2
  sub = core.Check(ck.pid, ck.level, ck.tier, ck.seed); sub.work = ck.work
  jb = [{"kind": "idx", "rec": badrec}, {"kind": "idx", "rec": badrec2}]
  rb = core.run_workers("harness.workers.devices_idx", jb, work=ck.work)
  ck.selftest("R1: swapped entries in the expected row map are flagged", bool(rb[0]["mismatches"] or rb[0]["error"]))
  ck.selftest("R1: corrupted expected exponent row is flagged", bool(rb[1]["mismatches"] or rb[1]["error"]))
  # which unbatch variant does the code implement?
  pr = core.run_workers("harness.workers.devices_idx", [{"kind": "probe"}], work=ck.work)[0]
  if pr["error"]:
    ck.violation("ds|unbatch|1x1|internal_error", f"unbatch on 1x1 elements raised {pr['error']['error']}", pr)
  else:
    lost = {k: v for k, v in pr["probe"].items() if any(s != [1, 1] for s in v)}
    ck.cov["unbatch_variant"] = "squeeze" if lost else "exact"
    if lost:
      ck.violation("ds|unbatch|1x1_elements|rank_lost",
                   f"unbatch returns elements of shapes {lost} for 1x1 inputs (Devices.tla: unbatch = \"squeeze\", "
                   "ElemShapeKept fails): a tree whose statistics are all 1x1 cannot be updated", pr["probe"])
    ck.count(len(pr["probe"]), key="unbatch_1x1_probe")
  # sharded init functions for every (N, D)
  jobs = [{"kind": "shardinit", "rec": r} for r in sh]
  res = core.run_workers("harness.workers.devices_idx", jobs, work=ck.work)
  judge_simple(ck, jobs, res, "ds|shard_init", "sharded init vs Devices.tla")
  badrec = copy.deepcopy(next(r for r in sh if r["N"] == 5 and r["cfg"]["D"] == 4))
  badrec["pad"] += 4; badrec["packE"] += [1] * 4
  rb = core.run_workers("harness.workers.devices_idx", [{"kind": "shardinit", "rec": badrec}], work=ck.work)
  ck.selftest("R3: a wrong expected leading dimension is flagged", bool(rb[0]["mismatches"] or rb[0]["error"]))
  return recs


def all_ones_corner(ck):
  """The model counterexample of Devices_MC1sq on the real optimizer: every statistic 1x1."""
  jobs = []
  for mode in ("pmap", "pmapq"):
    o = {"mode": mode, "P": 1, "S": 1, "Start": 1, "merge": False, "block_size": 8, "beta2": 0.75}
    jobs.append({"o": o, "tree": [[1], [1, 1]], "Ds": [1, 2], "T": 2, "seed": ck.seed,
                 "rec": {"N": 3, "counts": [1, 2], "sizes": [[1], [1, 1]], "crank": 0}})
  res = core.run_workers("harness.workers.devices_run", jobs, devices=2, work=ck.work, chunk=1)
  for j, r in zip(jobs, res):
    ck.count(1, key=["all_1x1", j["o"]["mode"]])
    if r["error"]:
      ck.violation(f"ds|{j['o']['mode']}|all_statistics_1x1|{r['error']['kind']}_error",
                   f"parameter tree whose statistics are all 1x1 (shapes {j['tree']}), D={r['error']['D']}: "
                   f"update raised {r['error']['error']} (unbatch squeezes the 1x1 matrix axes away; "
                   "Devices_MC1sq counterexample reproduced)", {"job": j, "err": r["error"]})
    elif r["mismatches"]:
      m = r["mismatches"][0]
      ck.violation(f"ds|{j['o']['mode']}|all_statistics_1x1|{m['clause']}", f"all-1x1 tree: {m}", {"job": j, "m": r["mismatches"]})
    else:
      ck.traces_ok(1)


def runs(ck):
  quick = ck.quick
  recs = ck.gen("Devices_Gen", "Devices_GenRun" if quick else "Devices_GenRunT")
  groups = {}
  for r in recs:
    c = r["cfg"]
    groups.setdefault((json.dumps(c["tree"]), c["mode"], c["crank"]), []).append(r)
  Dmax = 4 if quick else 8
  jobs = []
  gi = 0
  for (tkey, mode, crank), rs in sorted(groups.items()):
    rs = sorted(rs, key=lambda r: r["cfg"]["D"])
    r0 = rs[0]
    Ds = [r["cfg"]["D"] for r in rs]
    sizes = [[x["ps"] for x in per] for per in r0["per"]]
    rec = {"N": r0["N"], "counts": r0["counts"], "sizes": sizes, "crank": crank}
    variants = [mode] if (mode == "shard" or crank) else ["pmap", "pmapq"]
    if mode == "pmap" and crank > 0:
      variants = ["pmap", "pmap_fd"]       # frequent directions: the only root that reads the PREVIOUS preconditioner
    for v in variants:
      vname = ("shard" if mode == "shard" else "fd" if v == "pmap_fd" else "compressed" if crank
               else {"pmap": "full", "pmapq": "int16"}[v])
      fd = v == "pmap_fd"
      v = "pmap" if fd else v
      if quick and r0["N"] not in QUICK_N[vname]:
        continue                      # budget: quick runs a subset of the exported trees per variant
      # both preconditioner cadences for the full-precision pmap runs (thorough), alternating otherwise
      for P in ([1, 2] if (not quick and vname == "full") else [1 + gi % 2]):
        o = {"mode": v, "P": P, "S": 1, "Start": 1, "merge": False, "block_size": r0["cfg"]["B"],
             "compression_rank": crank, "beta2": [1.0, 0.75][gi % 2], "beta1": [0.0, 0.5][(gi // 2) % 2],
             "graft": ["SGD", "RMSPROP", "ADAGRAD"][gi % 3], "nesterov": bool(gi % 2)}
        if fd:
          o.update(fd=True, reuse=True, P=1)
        elif vname in ("int16", "full", "shard") and r0["N"] in (6, 11):
          # preconditioner interval scheduled with the learning rate (lax.cond traces both refresh closures)
          o.update(sched="lin16", End=10)
        job = {"o": o, "tree": r0["cfg"]["tree"], "Ds": Ds, "T": 4 if quick else 6,
               "seed": ck.seed * 1000 + gi, "rec": rec}
        if mode == "shard":
          job["rows"] = {str(r["cfg"]["D"]): r["N"] + r["pad"] for r in rs}
          job["exps"] = {str(r["cfg"]["D"]): r["packE"] for r in rs}
        jobs.append(job)
        gi += 1
  ck.sample({"run_job_from_spec": {k: jobs[1][k] for k in ("o", "tree", "Ds", "T", "rec")}})
  # longest first: one job per worker process, every process sees Dmax forced host devices
  jobs.sort(key=lambda j: -(j["rec"]["N"] * len(j["Ds"])))
  res = core.run_workers("harness.workers.devices_run", jobs, devices=Dmax, work=ck.work, chunk=1)
  traces = []
  residues = set()
  for j, r in zip(jobs, res):
    o = j["o"]
    variant = "compressed" if o["compression_rank"] else {"pmap": "full", "pmapq": "int16", "shard": "shard"}[o["mode"]]
    if o.get("fd"):
      variant = "fd"
    if o["mode"] == "shard" and o["compression_rank"]:
      variant = "shard_compressed"
    for D in j["Ds"]:
      ck.count(1, key=[variant, j["rec"]["N"], D, o["P"]], nontrivial=D > 1)
      residues.add((D, j["rec"]["N"] % D))
    if r["error"]:
      ck.violation(f"ds|{variant}|{r['error']['kind']}_error",
                   f"N={j['rec']['N']} D={r['error']['D']} tree={j['tree']}: raised {r['error']['error']}",
                   {"job": j, "err": r["error"]})
      continue
    for k, v in r["worst"].items():
      if v or not k.endswith("unsharded") or o["mode"] == "shard":
        tol = {"stats_xD": 1e-5, "roots_xD": 1e-3, "upd_xD": 1e-3,
               "stats_shard_vs_unsharded": 1e-4, "roots_shard_vs_unsharded": 5e-3}[k]
        if k == "roots_xD" and o["compression_rank"]:
          tol = 5e-3                 # devices_run.ROOTS_XD_COMPRESSED
        ck.calib(f"{k}[{variant}]", v, tol)
    if r["mismatches"]:
      m = r["mismatches"][0]
      ck.violation(f"ds|{variant}|{m['clause']}",
                   f"N={j['rec']['N']} D={m['D']} P={o['P']} tree={j['tree']} step {m['step']}: {m['clause']} "
                   f"{str(m['detail'])[:300]}", {"job": j, "mismatches": r["mismatches"][:10]})
    else:
      ck.traces_ok(len(j["Ds"]))
    traces.extend(r["traces"])
  # vacuity: every residue of N modulo every D > 1 must have been run
  need = {(D, q) for D in ({2, 3, 4} if quick else {2, 3, 4, 5, 8}) for q in range(D)}
  if not need <= residues:
    raise core.MachineryError(f"vacuous device sweep: residues not covered: {sorted(need - residues)}")
  ck.cov["residues_covered"] = len(residues)
  return jobs, res, traces


def fault_histories(ck):
  """Histories in which ONE parameter's statistics overflow at one step (its roots fail and must be
  rejected) while the other parameters stay healthy: the accept/reject decision is taken per statistic
  from the error figures gathered from all devices, so every device must still take the single-device
  decision for every statistic - with and without training metrics kept in the state."""
  tree = [[4, 3], [3, 5], [2, 6]]
  rec = {"N": 6, "counts": [2, 2, 2], "sizes": [[4, 3], [3, 5], [2, 6]], "crank": 0}
  Ds = [1, 2, 3, 4]
  T = 4
  jobs = []
  gi = 0
  for mode in ("pmap", "pmapq"):
    for metrics in (False, True):
      for victim in ((0, 2) if ck.quick else (0, 1, 2)):
        classes = [["ok"] * 3 for _ in range(T)]
        classes[1 + gi % 2][victim] = "huge"
        o = {"mode": mode, "P": 1, "S": 1, "Start": 1, "merge": False, "block_size": 8, "compression_rank": 0,
             "beta2": [1.0, 0.75][gi % 2], "graft": ["SGD", "RMSPROP"][(gi // 2) % 2], "metrics": metrics}
        jobs.append({"o": o, "tree": tree, "Ds": Ds, "T": T, "seed": ck.seed * 1000 + 500 + gi, "rec": rec,
                     "classes": classes})
        gi += 1
  res = core.run_workers("harness.workers.devices_run", jobs, devices=4, work=ck.work, chunk=1)
  traces = []
  for j, r in zip(jobs, res):
    o = j["o"]
    variant = {"pmap": "full", "pmapq": "int16"}[o["mode"]] + ("" if o["metrics"] else "_nometrics")
    for D in j["Ds"]:
      ck.count(1, key=["fault_history", variant, D], nontrivial=D > 1)
    if r["error"]:
      ck.violation(f"ds|{variant}|fault_history|{r['error']['kind']}_error",
                   f"one parameter overflowing, D={r['error']['D']}: raised {r['error']['error']}",
                   {"job": j, "err": r["error"]})
    elif r["mismatches"]:
      m = r["mismatches"][0]
      ck.violation(f"ds|{variant}|fault_history|{m['clause']}",
                   f"history with parameter overflow {j['classes']}, D={m['D']} step {m['step']}: {m['clause']} "
                   f"{str(m['detail'])[:300]}", {"job": j, "mismatches": r["mismatches"][:10]})
    else:
      ck.traces_ok(len(j["Ds"]))
    traces.extend(r["traces"])
  return traces


def _phase(ck, name, t0):
  ck.cov.setdefault("phase_wall_s", {})[name] = round(time.time() - t0, 1)
  return time.time()


def run(ck):
  t = time.time()
  model(ck); t = _phase(ck, "M", t)
  index_maps(ck); t = _phase(ck, "R1_R3a_index_maps", t)
  all_ones_corner(ck); t = _phase(ck, "all_1x1_corner", t)
  jobs, res, traces = runs(ck); t = _phase(ck, "R2_R3b_runs", t)
  traces = traces + fault_histories(ck); t = _phase(ck, "R2_fault_histories", t)
  # ---- binding self-test (R2): a run whose D-device result is compared against ANOTHER seed's
  # single-device reference must be flagged; done by a worker-side switch? no: corrupt expectation
  # of the Collect step instead (statistics per parameter)
  j0 = copy.deepcopy(next(j for j in jobs if j["o"]["mode"] == "pmap" and j["rec"]["N"] >= 3))
  j0["rec"]["counts"][-1] += 1
  j0["Ds"] = [1]
  rb = core.run_workers("harness.workers.devices_run", [j0], devices=1, work=ck.work)[0]
  ck.selftest("R2: corrupted expected statistics-per-parameter table is flagged",
              bool(rb["error"]) or any(m["clause"] == "statistics_per_parameter" for m in rb["mismatches"]))
  js = copy.deepcopy(next(j for j in jobs if j["o"]["mode"] == "shard" and j["rec"]["N"] % 2 == 1))
  js["Ds"] = [1, 2]
  js["rows"]["2"] += 2
  rb = core.run_workers("harness.workers.devices_run", [js], devices=2, work=ck.work)[0]
  ck.selftest("R3: corrupted expected leading dimension after update is flagged",
              bool(rb["error"]) or any(m["clause"] == "global_rows_after_update" for m in rb["mismatches"]))
  # ---- V -----------------------------------------------------------------------------------
  if not traces:
    if ck.violations:
      return                      # every run failed and was reported: nothing left to validate
    raise core.MachineryError("no traces recorded from the multi-device runs")
  ck.sample({"recorded_trace": {"cfg": traces[0]["cfg"], "events": traces[0]["events"][:2]}})
  B = 6000
  for b in range(0, len(traces), B):
    judge_traces(ck, traces[b:b + B], "multi-device run", prefix="ds|multidevice")
  t0 = copy.deepcopy(next(t for t in traces if t["cfg"]["P"] == 2))
  t0["events"][1]["pc"] = True
  sub = core.Check(ck.pid, ck.level, ck.tier, ck.seed); sub.work = ck.work
  vs = sub.validate("DSControl_Trace", "DSControl_Trace", [{"cfg": t0["cfg"], "events": t0["events"]}])
  ck.selftest("V: preconditioner change bit on a non-refresh step is rejected", not vs[0]["accepted"])
  _phase(ck, "selftests_V", t)
  ck.assume("forced host-platform CPU devices stand in for accelerators (same program per replica, "
            "real all_gather / mesh partitioning); a D-device pmap inside a process with Dmax forced devices "
            "is the program a process with exactly D devices would run")
  ck.assume("different D = different XLA programs: cross-D comparison within 1e-5 (statistics) / 1e-3 (updates, "
            "dense denotation of stored roots; 5e-3 for compressed roots, measured worst 4e-5); devices of ONE run "
            "are compared bytewise")
  ck.assume("parameter names are chosen so that the pytree order equals the spec's tree order")
