"""Tearfree half of C04 (shared helper, not a property module)."""
from harness import core

TOL = {"tf_stats_twin": 1e-5, "tf_roots_twin": 1e-3, "tf_warmup_twin": 1e-6}


def model_check(ck):
  ck.mc("TFControl_MC", "TFControl_MC", required_actions=["Update"])


def jobs_for(ck, beh):
  jobs = []
  for i, b in enumerate(beh):
    c = b["cfg"]
    o = {"so": c["so"], "SF": c["SF"], "PF": c["PF"], "Start": c["Start"],
         "graft": (["RMSPROP", "SGD"][i % 2] if c["graft"] else "NONE"),
         "decay": [1.0, 0.5][(i // 2) % 2], "momentum_decay": [0.0, 0.5][(i // 3) % 2],
         "block_size": 2 if (c["so"] == "shampoo" and i % 3 == 0) else 1024, "rank": 2, "lr": 0.25, "merge_dims": 3, "ekfac": c.get("ekfac", False),
         "add_ggt": c["so"] == "sketchy" and (i // 2) % 2 == 1}     # with decay 0.5: at decay 1 the moving GGT stays 0
    if c["skipped"]:
      shapes, target = [(3, 3), (5,)], 1
    else:
      shapes, target = [[(4, 4)], [(3, 3), (5,)], [(4, 4), (2, 2)]][i % 3], 0
    jobs.append({"o": o, "shapes": shapes, "T": len(b["steps"]), "seed": ck.seed * 1000 + i,
                 "steps": b["steps"], "target": target, "cfg": c})
  return jobs


def replay(ck, selftest=True):
  beh = ck.gen("TFControl_Gen", "TFControl_Gen")
  if not ck.quick:
    pass
  ck.sample({"tf_spec_behaviour": {"cfg": beh[0]["cfg"], "steps": beh[0]["steps"][:3]}})
  jobs = jobs_for(ck, beh)
  res = core.run_workers("harness.workers.tf_cadence", jobs, work=ck.work)
  for j, r in zip(jobs, res):
    c = j["cfg"]
    ck.count(1, key=["tf", c])
    for k, v in r["worst"].items():
      ck.calib(k, v, TOL[k])
    if r["mismatches"]:
      m = r["mismatches"][0]
      ck.violation(f"tf|{c['so']}|{m['clause']}",
                   f"TFControl_Gen replay cfg={c} step {m['step']}: {m['clause']} {m.get('detail', '')}",
                   {"worker": "harness.workers.tf_cadence", "job": j, "mismatches": r["mismatches"][:10]})
    else:
      ck.traces_ok(1)
  if selftest:
    import copy
    bad = copy.deepcopy(next(j for j in jobs if j["cfg"]["SF"] == 2 and not j["cfg"]["skipped"]))
    bad["steps"][1]["sc"] = True
    r = core.run_workers("harness.workers.tf_cadence", [bad], work=ck.work)[0]
    ck.selftest("R(tf): corrupted expected statistics refresh is flagged", bool(r["mismatches"]))
