"""C14 - training resumes bit-identically from serialised optimizer state at any step.

M: spec/Resume exhaustively: every interleaving of Step / Save / CrashRestore (T <= 6, <= 2 crashes,
   <= 3 saves; thorough T <= 8, <= 3 crashes) keeps the live state equal to the uninterrupted run's
   state and every emitted update equal to the uninterrupted one; Save / CrashRestore are stuttering
   steps of the uninterrupted run.  The variant of the model that reads a Python-side counter
   (Impl = "hidden") is checked to VIOLATE this, so the property is not vacuous.
R: TLC enumerates the crash schedules (Resume_Gen); each is executed on the real optimizers
   (Distributed Shampoo full / int16+int8 quantized / int8 momentum / compressed / frequent directions,
   sm3, Tearfree Shampoo, Tearfree Sketchy; sharded Distributed Shampoo in thorough): Save = flax to_bytes,
   CrashRestore = NEW optimizer object + from_bytes into init's template + jnp.asarray; state bytes,
   update bytes, counts and treedefs compared bytewise / exactly with the uninterrupted run (jit; a few
   schedules also op-by-op without jit, where Python-side state would advance per call); plus a
   cross-PROCESS leg: checkpoints written by one process are resumed in a fresh one.
V: the executed schedules are logged as traces and validated by TLC against Resume_Trace.
"""
import copy
import time

import numpy as np

from harness import core

LEVEL = "fault_enumeration"

LR = {"lr_sched": "lin8", "lr": 0.25}       # the step counter must matter: scheduled learning rate
DS = dict(LR, P=2, S=1, Start=2, beta1=0.5, beta2=0.75, graft="RMSPROP", merge=False, block_size=8,
          nesterov=True, weight_decay=0.125)
VARIANTS = {
    "ds_full": ({"kind": "ds", "o": dict(DS, mode="rep")}, [(4, 3), (5,), (2, 3, 2)]),
    "ds_int16_int8": ({"kind": "ds", "o": dict(DS, mode="pmapq", D=1)}, [(4, 3), (5,)]),
    "ds_int8_momentum": ({"kind": "ds", "o": dict(DS, mode="rep", memred=True, graft="ADAGRAD")}, [(4, 3), (5,)]),
    "ds_compressed": ({"kind": "ds", "o": dict(DS, mode="rep", compression_rank=2, graft="SGD")}, [(6, 5), (7,)]),
    "ds_fd": ({"kind": "ds", "o": dict(DS, mode="rep", fd=True, compression_rank=2, reuse=True, S=2, P=2)},
              [(6, 5), (7,)]),
    "sm3": ({"kind": "sm3", "o": dict(LR, beta1=0.5, beta2=0.75, weight_decay=0.125)}, [(4, 3), (5,), (2, 3, 2)]),
    "tf_shampoo": ({"kind": "tf", "o": dict(LR, so="shampoo", PF=2, SF=1, Start=2, momentum_decay=0.5,
                                            decay=0.75, block_size=4, nesterov=True)}, [(6, 3), (5,)]),
    "tf_sketchy": ({"kind": "tf", "o": dict(LR, so="sketchy", rank=2, SF=1, Start=2, momentum_decay=0.5,
                                            decay=0.75)}, [(6, 5), (5,)]),
    # sharded state layout with SEVERAL preconditioned parameters: the per-parameter offsets into the
    # stacked global statistics are static (non-leaf) fields, which a restore takes from the fresh init
    "ds_shard": ({"kind": "ds", "o": dict(DS, mode="shard", D=2)}, [(4, 3), (5,), (3, 5), (2, 6)]),
}
THOROUGH_ONLY = {
    "ds_shard_compressed": ({"kind": "ds", "o": dict(DS, mode="shard", D=2, compression_rank=2)}, [(6, 5), (7,)]),
}
NP_LEAVES = ["tf_shampoo", "sm3", "ds_full", "tf_sketchy"]     # all their decays / rates are dyadic
EAGER = ["ds_full", "ds_int8_momentum", "ds_compressed", "ds_fd", "sm3", "tf_shampoo", "tf_sketchy"]


def sched_key(s):
  return "".join({"step": "s", "save": "S", "crash": "C"}[a["a"]] for a in s["sched"])


def judge_sched_jobs(ck, jobs, res, label, traces):
  restores = 0
  for j, r in zip(jobs, res):
    name = j["name"]
    if r["error"]:
      ck.violation(f"{name}|{r['error']['kind']}_error",
                   f"{label}: {name} raised {r['error']['error']}", {"job": {k: v for k, v in j.items() if k != 'schedules'},
                                                                   "err": r["error"]})
      continue
    restores += r["restores"]
    if j.get("np_leaves"):
      ck.calib("numpy_leaf_resume_update_rel", r.get("np_leaf_worst", 0.0), 1e-4)
    for s, out in zip(j["schedules"], r["results"]):
      key = "".join({"step": "s", "save": "S", "crash": "C"}[a["a"]] for a in s)
      ck.count(1, key=[name, j.get("eager", False), bool(j.get("np_leaves")), key])
      traces.append({"events": out["events"], "meta": {"variant": name, "eager": j.get("eager", False), "sched": key,
                                                       "seed": j["seed"]}})
      if out["mismatches"]:
        m = out["mismatches"][0]
        ck.violation(f"{name}|{m['clause']}",
                     f"{label}: {name} ({'eager, NumPy leaves' if j.get('np_leaves') else 'eager' if j.get('eager') else 'jit'}) schedule {key}: {m['clause']} at action "
                     f"{m['at']} (count {m.get('count')}) {str({k: v for k, v in m.items() if k in ('rel', 'detail')})[:300]}",
                     {"variant": j["variant"], "shapes": j["shapes"], "T": j["T"], "seed": j["seed"],
                      "eager": j.get("eager", False), "np_leaves": bool(j.get("np_leaves")), "schedule": s,
                      "mismatches": out["mismatches"]})
      else:
        ck.traces_ok(1)
  return restores


def _phase(ck, name, t0):
  ck.cov.setdefault("phase_wall_s", {})[name] = round(time.time() - t0, 1)
  return time.time()


def run(ck):
  quick = ck.quick
  tph = time.time()
  rs = np.random.RandomState(ck.seed + 14)
  # ---- M ---------------------------------------------------------------------------------------
  ck.mc("Resume_MC", "Resume_MC" if quick else "Resume_MCT",
        required_actions=["Step", "Save", "CrashRestore", "Finish"])
  r = core.tlc("Resume_MC", "Resume_MCbug", work=ck.work)
  if r.violated not in ("LiveIsRef", "OutIsRef"):
    raise core.MachineryError(f"Resume_MCbug: the hidden-state variant must violate the property, got "
                              f"{r.violated} rc={r.rc}\n{r.out[-2000:]}")
  ck.cov["tlc_runs"].append({"module": "Resume_MC", "cfg": "Resume_MCbug", "expected_violation": r.violated,
                             "distinct": r.distinct, "wall_s": round(r.wall, 1)})
  tph = _phase(ck, "M", tph)
  # ---- schedules from TLC --------------------------------------------------------------------------
  single = ck.gen("Resume_Gen", "Resume_Gen" if quick else "Resume_GenT1")
  double = [s for s in ck.gen("Resume_Gen", "Resume_Gen2" if quick else "Resume_GenT") if s["crashes"] == 2]
  T = single[0]["T"]
  ck.sample({"crash_schedule_from_TLC": single[len(single) // 2]})
  ck.sample({"double_crash_schedule_from_TLC": double[len(double) // 3]})
  ck.cov["schedules_enumerated"] = {"single_crash_or_none": len(single), "double_crash": len(double)}
  # crash immediately after restore (C directly followed by C) must be among the double-crash ones
  cc = [s for s in double if "CC" in sched_key(s)]
  older = [s for s in double if "SsC" in sched_key(s) or "SssC" in sched_key(s)]
  if not cc or not older:
    raise core.MachineryError("schedule export lacks crash-after-restore / restore-from-older-save schedules")
  variants = dict(VARIANTS)
  if not quick:
    variants.update(THOROUGH_ONLY)
  names = sorted(variants)
  jobs = []
  for vi, name in enumerate(names):
    var, shapes = variants[name]
    if quick:
      # every single-crash schedule is run by two of the eight variants; plus a seeded
      # sample of double-crash schedules always containing a crash-after-restore one
      mine = [s for i, s in enumerate(single) if i % 4 == vi % 4]
      dbl = [cc[rs.randint(len(cc))], older[rs.randint(len(older))]] + [double[i] for i in rs.choice(len(double), 3, replace=False)]
      nchunk = 2
    else:
      mine = single
      dbl = [cc[i] for i in rs.choice(len(cc), min(len(cc), 20), replace=False)] + \
            [double[i] for i in rs.choice(len(double), 100, replace=False)]
      nchunk = 8
    scheds = [s["sched"] for s in mine + dbl]
    for q in range(nchunk):
      jobs.append({"kind": "sched", "name": name, "variant": var, "shapes": shapes, "T": T,
                   "seed": ck.seed * 100 + vi, "eager": False, "schedules": scheds[q::nchunk]})
  # op-by-op (no jit): Python-side code runs at every call, so Python-side state would advance
  eager_scheds = [next(s for s in single if sched_key(s) == "ss" + "S" + "ss" + "C" + "s" * (T - 2)),      # restore older save
                  next(s for s in single if sched_key(s) == "sss" + "S" + "C" + "s" * (T - 3))]            # crash right after save
  for vi, name in enumerate(names):
    if name in EAGER:
      var, shapes = variants[name]
      jobs.append({"kind": "sched", "name": name, "variant": var, "shapes": shapes, "T": T,
                   "seed": ck.seed * 100 + 50 + vi, "eager": True,
                   "schedules": [s["sched"] for s in (eager_scheds if quick else eager_scheds + [cc[0], older[0]])]})
  # op-by-op resume from host NumPy leaves (what flax.serialization.from_bytes returns, made writable as
  # pickle / np.load would): an in-place write into a restored leaf is silent there.  Updates are compared at
  # 1e-4, not bitwise: NumPy combines host leaves without XLA's fused multiply-add (observed 5e-7)
  np_variants = {n: variants[n] for n in NP_LEAVES}
  tfv, tfs = variants["tf_shampoo"]
  # statistics every second step: a restore at an odd count is followed by a SKIPPED statistics step, whose
  # untaken branch still closes over the restored buffers
  np_variants["tf_shampoo_sf2"] = ({"kind": "tf", "o": dict(tfv["o"], SF=2)}, tfs)
  for vi, name in enumerate(sorted(np_variants)):
    if True:
      var, shapes = np_variants[name]
      jobs.append({"kind": "sched", "name": name, "variant": var, "shapes": shapes, "T": T,
                   "seed": ck.seed * 100 + 70 + vi, "eager": True, "np_leaves": True,
                   "schedules": [s["sched"] for s in eager_scheds]})
  jobs.sort(key=lambda j: -len(j["schedules"]) * (4 if j["eager"] else 1))
  res = core.run_workers("harness.workers.resume_run", jobs, devices=2, work=ck.work, chunk=1)
  traces = []
  restores = judge_sched_jobs(ck, jobs, res, "crash schedule", traces)
  ck.cov["restores_into_fresh_optimizer_objects"] = restores
  if restores == 0:
    raise core.MachineryError("vacuous: no CrashRestore was executed")
  ck.sample({"state_of_" + jobs[0]["name"]: {"serialised_bytes": res[0].get("state_bytes"), "treedef": res[0].get("treedef")}})
  tph = _phase(ck, "R_schedules", tph)
  # ---- cross-process leg ------------------------------------------------------------------------------
  ks = sorted({0, 1, T // 2, T - 1}) if quick else list(range(T))
  xjobs = [{"kind": "xref", "name": n, "variant": variants[n][0], "shapes": variants[n][1], "T": T,
            "seed": ck.seed * 100 + 70 + i, "ks": ks} for i, n in enumerate(names)]
  xres = core.run_workers("harness.workers.resume_run", xjobs, devices=2, work=ck.work, chunk=1)
  rjobs = []
  for j, r in zip(xjobs, xres):
    if r["error"]:
      ck.violation(f"{j['name']}|{r['error']['kind']}_error", f"uninterrupted run raised {r['error']['error']}",
                   {"err": r["error"]})
      continue
    for k in ks:
      rjobs.append({"kind": "xresume", "name": j["name"], "variant": j["variant"], "shapes": j["shapes"], "T": T,
                    "seed": j["seed"], "k": k, "blob": r["saves"][str(k)], "_ref": r})
  send = [{k: v for k, v in j.items() if k != "_ref"} for j in rjobs]
  # one fresh process per variant handles all its resume points
  rres = core.run_workers("harness.workers.resume_run", send, devices=2, work=ck.work, chunk=len(ks))
  nonbit = 0
  for j, r in zip(rjobs, rres):
    ck.count(1, key=["xproc", j["name"], j["k"]])
    if r["error"]:
      ck.violation(f"{j['name']}|xproc|{r['error']['kind']}_error",
                   f"fresh process resuming {j['name']} from count {j['k']} raised {r['error']['error']}", {"err": r["error"]})
      continue
    ref = j["_ref"]
    worst = 0.0
    for t, h in r["upd"].items():
      if h != ref["upd"][int(t)]:
        a = np.frombuffer(bytes.fromhex(h), np.float32).astype(np.float64)
        b = np.frombuffer(bytes.fromhex(ref["upd"][int(t)]), np.float32).astype(np.float64)
        rel = float(np.abs(a - b).max() / max(np.abs(b).max(), 1e-30)) if a.shape == b.shape else float("inf")
        worst = max(worst, rel if np.isfinite(rel) else 1e30)
    if r["state_sha"][str(j["k"])] != ref["state_sha"][j["k"]]:
      ck.violation(f"{j['name']}|xproc|restored_state_differs_from_checkpoint",
                   f"fresh process: {j['name']} restored at count {j['k']} re-serialises to different bytes", None)
    ck.calib("xproc_update_rel", worst, 1e-5)
    if worst > 1e-5:
      ck.violation(f"{j['name']}|xproc|update_differs_from_uninterrupted",
                   f"fresh process resuming {j['name']} from count {j['k']}: updates differ from the uninterrupted "
                   f"run by {worst:.3g} (relative)", {"variant": j["variant"], "k": j["k"], "seed": j["seed"]})
    else:
      nonbit += worst > 0
      ck.traces_ok(1)
  ck.cov["xproc_resumes"] = len(rjobs)
  ck.cov["xproc_resumes_not_bitwise_but_within_1e-5"] = int(nonbit)
  tph = _phase(ck, "R_cross_process", tph)
  # ---- V ----------------------------------------------------------------------------------------------
  if not any(any(e["a"] == "crash" for e in t["events"]) and len(t["events"]) >= T for t in traces):
    if ck.violations:
      return                      # the runs failed and were reported: nothing left to validate
    raise core.MachineryError("no complete crash schedule was executed")
  vs = ck.validate("Resume_Trace", "Resume_Trace", [{"events": t["events"]} for t in traces])
  for t, v in zip(traces, vs):
    if v["accepted"]:
      ck.traces_ok(1)
    else:
      ck.violation(f"{t['meta']['variant']}|{v['verdict']}",
                   f"executed schedule {t['meta']['sched']} on {t['meta']['variant']} rejected by Resume_Trace at event "
                   f"{v['l']}: {v['verdict']}", {"trace": t, "verdict": v})
  ck.sample({"recorded_trace": {"meta": traces[0]["meta"], "events": traces[0]["events"][:4]}})
  # ---- binding self-tests --------------------------------------------------------------------------------
  full = next(t for t in traces if any(e["a"] == "crash" for e in t["events"]) and len(t["events"]) >= T)
  t0 = copy.deepcopy(full); k = next(i for i, e in enumerate(t0["events"]) if e["a"] == "crash")
  t0["events"][k]["ca"] += 1
  for e in t0["events"][k + 1:]:
    e["cb"] += 1; e["ca"] += 1
  t1 = copy.deepcopy(full); t1["events"][-1]["uref"] = False
  t2 = copy.deepcopy(full); t2["events"][k]["sref"] = False
  sub = core.Check(ck.pid, ck.level, ck.tier, ck.seed); sub.work = ck.work
  v = sub.validate("Resume_Trace", "Resume_Trace", [{"events": t["events"]} for t in (t0, t1, t2)])
  ck.selftest("V: a restore that lands on another count than the checkpoint's is rejected", not v[0]["accepted"])
  ck.selftest("V: an update that differs from the uninterrupted run is rejected", not v[1]["accepted"])
  ck.selftest("V: a restored state that differs from the uninterrupted run is rejected", not v[2]["accepted"])
  # R: the comparison is alive - resuming with ANOTHER seed's checkpoint must be flagged
  var, shapes = variants["ds_full"]
  bad = {"kind": "sched", "name": "ds_full", "variant": var, "shapes": shapes, "T": T, "seed": ck.seed * 100 + 91,
         "eager": False, "schedules": [eager_scheds[0]["sched"]], "corrupt_restore": True}
  rb = core.run_workers("harness.workers.resume_run", [bad], devices=2, work=ck.work)[0]
  ck.selftest("R: a restored state with one perturbed tensor is flagged",
              rb["error"] is not None or bool(rb["results"][0]["mismatches"]))
  _phase(ck, "V_selftests", tph)
  ck.assume("restored leaves are converted with jnp.asarray (as any checkpoint loader does) before the next update")
  ck.assume("CrashRestore inside a process = a new optimizer object (new closures, new jit cache entry); process-level "
            "freshness is covered by the cross-process leg, compared bytewise with a 1e-5 fall-back that is reported")
  ck.assume("gradients are a function of the step index (seeded), parameters are held fixed")
