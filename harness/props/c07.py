"""C07 - state contract: shapes preserved, layout stable, every accepted config runs.

M: spec/Layout (+LayoutShapes) exhaustively with TLC over slices of the option space x
   parameter-tree templates: outcome in {ok, explicit_reject}, layout is a fixed point of
   Update, updates have the parameters' layout, the three sharded descriptions coincide.
R: Layout_Gen exports a pairwise-covering array of cases (plus every documented rejection,
   plus an x64 leg); each case is run for real (constructor -> init -> T updates eager/jit ->
   lax.scan carry; sharded: init_fn vs shape_and_dtype_fn vs pspec_fn) and compared with the
   spec's predicted layout / with itself.
V: seeded random cases from the raw option product are run the same way, recorded as traces
   and judged by TLC against Layout_Trace (outcome classes, predicted initial layout, fixed
   point, update layout).
"""
import copy
import json
import os
import re

import numpy as np

from harness import core

LEVEL = "model_checking"
WORKER = "harness.workers.layout_run"
DEVICES = 3
MAX_KEYS_PER_CLAUSE = 3


# ---------------------------------------------------------------------------
# spec case -> worker job
# ---------------------------------------------------------------------------
def job_of(case, seed):
  cfg = dict(case["cfg"])
  note = None
  if case["opt"] == "ds" and cfg["mode"] == "pmap" and cfg["D"] > 1 and case.get("zero_len_metrics"):
    cfg["D"] = 1            # jaxlib CPU segfaults on pmap programs with zero-size operands
    note = "pmap_D_forced_to_1"
  return {"opt": case["opt"], "cfg": cfg, "tree": case["tree"]["shapes"], "T": cfg.get("T", 2),
          "exec": cfg.get("exec", "jit"), "dtype": case["tree"]["dtype"], "seed": seed,
          "note": note}


def signature(case):
  """Short, stable option signature for violation keys."""
  c, opt = case["cfg"], case["opt"]
  if opt == "ds":
    f = []
    f.append("r0" if c["rank"] == 0 else ("r+" if c["rank"] > 0 else "r-"))
    for k, name in (("fd", "fd"), ("avg", "avg"), ("reset", "reset"), ("memred", "memred"),
                    ("eigh", "eigh")):
      if c.get(k):
        f.append(name)
    if c["ptype"] != "ALL":
      f.append(c["ptype"])
    if not c["metrics"]:
      f.append("nometrics")
    if c["fd_metrics"] and c["fd"]:
      f.append("fdm")
    if c["bs"] == 1:
      f.append("bs1")
    if not c["merge"]:
      f.append("nomerge")
    if c["P"] > 1:
      f.append("P>1")
    if c.get("lobpcg"):
      f.append("lobpcg")
    return "+".join(f)
  if opt in ("tf", "tfso"):
    f = [c["so"], c["graft"]]
    for k in ("add_ggt", "ekfac", "lin_tail"):
      if c.get(k):
        f.append(k)
    return "+".join(f)
  return "sm3"


def mode_of(case):
  return case["cfg"].get("mode", "plain") if case["opt"] == "ds" else (
      "x64" if case["tree"]["x64"] else "x32")


def normalise_real_layout(case, lay):
  """Sub-trees owned by optax whose layout the spec does not predict."""
  if lay is None:
    return None
  lay = copy.deepcopy(lay)
  if case["opt"] == "tf" and case["cfg"]["graft"] == "ADAFACTOR":
    try:
      lay["v"][0]["norm"] = {"ty": "opaque"}
    except Exception:      # pylint: disable=broad-except
      pass
  return lay


def first_diff(a, b, path=""):
  if type(a) != type(b):
    return path, a, b
  if isinstance(a, dict):
    for k in sorted(set(a) | set(b)):
      if k not in a or k not in b:
        return f"{path}.{k}", a.get(k, "<absent>"), b.get(k, "<absent>")
      d = first_diff(a[k], b[k], f"{path}.{k}")
      if d:
        return d
    return None
  if isinstance(a, list):
    if len(a) != len(b):
      return f"{path}[len]", len(a), len(b)
    for i, (u, v) in enumerate(zip(a, b)):
      d = first_diff(u, v, f"{path}[{i}]")
      if d:
        return d
    return None
  return None if a == b else (path, a, b)


def norm_path(p):
  return re.sub(r"\[\d+\]", "[]", p or "")


# ---------------------------------------------------------------------------
# judging one run
# ---------------------------------------------------------------------------
class Judge:
  def __init__(self, ck, label):
    self.ck, self.label = ck, label
    self.stats = {"ok": 0, "explicit": 0, "internal": 0, "explicit_unpredicted": 0,
                  "accepted_predicted_reject": 0, "layout_compared": 0, "known": 0,
                  "sharded_ok": 0, "scan_ok": 0, "eager": 0, "pmap_D_forced_to_1": 0,
                  "suppressed_duplicates": 0}
    self.per_clause = {}

  def report(self, key_prefix, sig, what, replay):
    n = self.per_clause.setdefault(key_prefix, set())
    if sig not in n and len(n) >= MAX_KEYS_PER_CLAUSE:
      self.stats["suppressed_duplicates"] += 1
      return
    n.add(sig)
    return self.ck.violation(f"{key_prefix}|{sig}", what, replay)

  def known_or_violation(self, case, job, res):
    """An internal error: one of the open findings, or a violation."""
    e = res["error"] or {}
    opt, mode, sig = case["opt"], mode_of(case), signature(case)
    what = (f"{self.label}: {opt} {json.dumps(job['cfg'], sort_keys=True)} tree={job['tree']} "
            f"dtype={job['dtype']}: {res['phase']}"
            f"{'' if res['step'] is None else ' #' + str(res['step'] + 1)} raised "
            f"{e.get('type')}: {e.get('msg')} at {e.get('where')} (in {e.get('repo_frame')})")
    replay = {"job": job, "result": {k: res[k] for k in ("outcome", "phase", "step", "error")}}
    if opt == "ds" and e.get("type") == "AssertionError" and \
        case["rejects"] == "all_layers_too_small_for_compression_rank":
      self.stats["known"] += 1
      return self.ck.violation(f"ds|compression|all_statistics_too_small|AssertionError|{mode}", what, replay)
    if opt == "ds" and mode == "shard" and case.get("zero_stat") and e.get("type") == "ValueError" \
        and "max()" in (e.get("msg") or ""):
      self.stats["known"] += 1
      return self.ck.violation(f"ds|shard|zero_stat_unskipped_param|ValueError_max|{sig}", what, replay)
    if opt == "ds" and case.get("lobpcg_small") and e.get("type") == "ValueError" \
        and "search dim" in (e.get("msg") or ""):
      self.stats["known"] += 1
      return self.ck.violation(f"ds|lobpcg|small_matrix|{mode}", what, replay)
    if case.get("drift") and res["phase"] in ("update", "scan"):
      self.stats["known"] += 1
      return self.ck.violation(f"x64_float32_params|dtype_drift|{opt}", what, replay)
    c = case["cfg"]
    msg = e.get("msg") or ""
    # ---- defects that were found by this check and fixed in /repo: stable keys ----------
    if opt == "ds" and c["fd"] and c["fd_metrics"] and not c["metrics"] and e.get("type") == "TypeError" \
        and "pytree structure" in msg:
      return self.ck.violation(f"ds|fd_metrics_without_training_metrics|cond_pytree_mismatch|{mode}", what, replay)
    if opt == "ds" and mode == "shard" and c["reuse"] and "with_sharding_constraint" in msg:
      return self.ck.violation(f"ds|shard|reuse_preconditioner|sharding_constraint_on_list|{job['exec']}",
                               what, replay)
    if opt in ("tf", "tfso") and case["tree"]["x64"] and c["so"] == "sketchy" and \
        "_safe_svd" in (e.get("repo_frame") or ""):
      return self.ck.violation(f"tf|x64|sketchy|_safe_svd_cond_dtype|{opt}", what, replay)
    if opt == "ds" and e.get("type") == "IndexError" and case["layout"] != {"ty": "none"} and \
        _all_stats_1x1(case["layout"]):
      return self.ck.violation(f"ds|all_statistics_1x1|IndexError|{mode}", what, replay)
    if opt == "ds" and e.get("type") == "UnboundLocalError" and "total_retries" in msg:
      return self.ck.violation(f"inv_root|1x1|UnboundLocalError|{mode}", what, replay)
    if opt == "ds" and c["ptype"] == "INPUT" and e.get("type") == "AssertionError" and \
        "_preconds_for_grad" in (e.get("repo_frame") or ""):
      return self.ck.violation(f"ds|INPUT|rank<=1|AssertionError|{mode}", what, replay)
    if opt == "ds" and c["fd"] and not c["reuse"] and e.get("type") == "AssertionError":
      return self.ck.violation(f"ds|fd|no_reuse|AssertionError|{mode}", what, replay)
    if opt == "ds" and c["fd"] and case["tree"]["x64"] and e.get("type") == "TypeError" and \
        "cond" in msg and "new_mi_pth_root" in (e.get("repo_frame") or ""):
      return self.ck.violation(f"ds|fd|x64|cond_dtype_mismatch|{mode}", what, replay)
    if res["phase"] == "scan" and e.get("type") == "TypeError" and "carry" in msg:
      # jax refuses the optimizer state as a lax.scan carry: its layout is not a fixed point
      if opt == "ds" and c["fd"] and c["avg"] and "avg_grad" in msg:
        return self.ck.violation(f"ds|fd+average_grad|skipped_param|layout_change|{mode}", what, replay)
      if opt == "ds" and "training_metrics" in msg and ".fd" in msg:
        return self.ck.violation(f"ds|fd_metrics|zero_stat_param|layout_change|{mode}", what, replay)
      return self.report(f"{opt}|{mode}|state_is_not_a_scan_carry", sig, what, replay)
    fn = (e.get("repo_frame") or "").split(":")[-1] or "outside_repo"
    return self.report(f"{opt}|{mode}|internal:{e.get('type')}@{res['phase']}:{fn}", sig, what, replay)

  def judge(self, case, job, res):
    ck = self.ck
    opt, mode, sig = case["opt"], mode_of(case), signature(case)
    st = self.stats
    if job.get("note"):
      st[job["note"]] += 1
    c = case["cfg"]
    ck.count(1, key=[opt, {k: v for k, v in c.items() if k not in ("row", "T", "exec")}, case["tree"]])
    st[res["outcome"]] += 1
    predicted_reject = case["rejects"] != "none"
    clean = True
    if res["outcome"] == "internal":
      self.known_or_violation(case, job, res)
      return False
    if res["outcome"] == "explicit":
      if not predicted_reject:
        st["explicit_unpredicted"] += 1       # allowed by the property; coverage accounting only
      return True
    # ---- ran to the end ----------------------------------------------------------
    if job["exec"] == "eager":
      st["eager"] += 1
    if predicted_reject:
      st["accepted_predicted_reject"] += 1
    else:
      real = normalise_real_layout(case, res["layout"])
      d = first_diff(case["layout"], real)
      st["layout_compared"] += 1
      if d:
        clean = False
        self.report(f"{opt}|{mode}|layout_prediction:{norm_path(d[0])}", sig,
                    f"{self.label}: {opt} cfg={json.dumps(job['cfg'], sort_keys=True)} tree={job['tree']}: "
                    f"initial state differs from the specified layout at {d[0]}: "
                    f"spec {json.dumps(d[1])[:200]} vs real {json.dumps(d[2])[:200]}",
                    {"job": job, "spec_layout": case["layout"], "real_layout": real})
    for cl in res["clauses"]:
      clean = False
      what = (f"{self.label}: {opt} cfg={json.dumps(job['cfg'], sort_keys=True)} tree={job['tree']} "
              f"dtype={job['dtype']}: {cl['clause']}: {cl['detail']}")
      if case.get("drift") and cl["clause"] in ("state_layout_changed", "scan_carry", "updates_layout"):
        st["known"] += 1
        ck.violation(f"x64_float32_params|dtype_drift|{opt}", what, {"job": job, "clause": cl})
        continue
      if opt == "ds" and case["tree"]["x64"] and cl["clause"] == "sharded_declared" and \
          cl.get("path") == ".stats.global_stats.exponents.d":
        ck.violation("ds|shard|x64|exponents_dtype", what, {"job": job, "clause": cl})
        continue
      if opt == "ds" and cl["clause"] in ("state_layout_changed", "scan_carry") and \
          cl.get("path", "").endswith(".training_metrics.fd"):
        ck.violation(f"ds|fd_metrics|zero_stat_param|layout_change|{mode}", what, {"job": job, "clause": cl})
        continue
      if opt == "ds" and cl["clause"] in ("state_layout_changed", "scan_carry") and c["fd"] and c["avg"] \
          and ".avg_grad" in cl.get("path", ""):
        ck.violation(f"ds|fd+average_grad|skipped_param|layout_change|{mode}", what, {"job": job, "clause": cl})
        continue
      if opt == "ds" and mode == "shard" and cl["clause"] == "sharded_declared" and \
          cl.get("path", "").endswith(".d"):
        ck.violation(f"ds|shard|declared_dtypes|{norm_path(cl['path'])}", what, {"job": job, "clause": cl})
        continue
      self.report(f"{opt}|{mode}|{cl['clause']}:{cl.get('path', '')}", sig, what, {"job": job, "clause": cl})
    if clean:
      st["scan_ok"] += 1
      if mode == "shard":
        st["sharded_ok"] += 1
      ck.traces_ok(1)
    return clean


# ---------------------------------------------------------------------------
# running jobs: a worker process that dies from a signal is data, not a machinery error
# ---------------------------------------------------------------------------
def _crash_result(signum):
  return {"outcome": "internal", "phase": "crash", "step": None, "layout": None, "clauses": [], "nupd": 0,
          "secs": {}, "error": {"type": "WorkerCrash", "msg": f"the process running this case died with "
                                f"signal {signum} (segmentation fault / abort inside jaxlib)",
                                "where": "", "repo_frame": "", "tb": ""}}


def _run_chunk(jobs, x64, wdir):
  """Run jobs in ONE worker process; if it dies from SIGSEGV/SIGABRT bisect to find the culprit."""
  try:
    # the deliberate crash of the binding self-test is not restarted (and so not reported as a restart)
    return core.run_workers(WORKER, jobs, x64=x64, devices=DEVICES, nproc=1, chunk=len(jobs), work=wdir,
                            retries=0 if any(j.get("selftest_crash") for j in jobs) else 2)
  except core.MachineryError as e:
    m = re.search(r"rc=(-?\d+)", str(e))
    rc = int(m.group(1)) if m else 0
    if rc not in (-11, -6, 139, 134):
      raise
    if len(jobs) == 1:
      return [_crash_result(-rc if rc < 0 else rc - 128)]
    h = len(jobs) // 2
    return _run_chunk(jobs[:h], x64, wdir) + _run_chunk(jobs[h:], x64, wdir)


def run_jobs(ck, jobs, x64=False):
  from concurrent.futures import ThreadPoolExecutor
  if not jobs:
    return []
  n = core.NCPU
  size = max(1, min(24, (len(jobs) + n - 1) // n))
  chunks = [jobs[i:i + size] for i in range(0, len(jobs), size)]
  ck._c07_runs = getattr(ck, "_c07_runs", 0) + 1
  def one(args):
    i, ch = args
    wdir = ck.work / f"w{ck._c07_runs}_{i}"      # private directory: run_workers' file names
    return _run_chunk(ch, x64, wdir)             # are only unique per process and millisecond
  with ThreadPoolExecutor(max_workers=n) as ex:
    parts = list(ex.map(one, enumerate(chunks)))
  return [r for p in parts for r in p]


def replay(ck, cases, label, x64=False):
  jobs = [job_of(c, ck.seed * 100000 + i) for i, c in enumerate(cases)]
  # interleave cheap and expensive jobs over the workers
  order = list(range(len(jobs)))
  rs = np.random.RandomState(ck.seed + 7)
  rs.shuffle(order)
  res_shuffled = run_jobs(ck, [jobs[i] for i in order], x64=x64)
  res = [None] * len(jobs)
  for k, i in enumerate(order):
    res[i] = res_shuffled[k]
  j = Judge(ck, label)
  for c, jb, r in zip(cases, jobs, res):
    j.judge(c, jb, r)
  return j, jobs, res


def _sub(ck):
  """Throw-away context for binding self-tests: records violations, writes no replay files."""
  sub = core.Check(ck.pid, ck.level, ck.tier, ck.seed, parent=ck)
  def violation(key, what, replay=None):
    sub.violations.append((key, what, None))
    return True
  sub.violation = violation
  return sub


def gen_cases(ck, x64):
  """quick: one covering array (seed VERIF_SEED); thorough: four different arrays."""
  out = []
  for k in range(1 if ck.quick else 4):
    env = {"GEN_SEED": str(ck.seed if ck.quick else ck.seed * 10 + k), "GEN_X64": "1" if x64 else "0",
           "GEN_TIER": "quick" if ck.quick else "thorough"}
    out += ck.gen("Layout_Gen", "Layout_Gen", env=env)
  return out


def merge_stats(ck, name, st):
  ck.cov.setdefault("c07", {})[name] = st


# ---------------------------------------------------------------------------
def run(ck):
  quick = ck.quick
  legs = os.environ.get("C07_LEGS", "MRXV")      # development aid: subset of the legs
  # ---- M ------------------------------------------------------------------------
  if "M" in legs:
    ck.mc("Layout_MC", "Layout_MC" if quick else "Layout_MCT",
          required_actions=["Construct", "InitState", "Update"], timeout=3000)

  # ---- R: x32 ---------------------------------------------------------------------
  cases = gen_cases(ck, x64=False)
  j, jobs, res = replay(ck, cases, "Layout_Gen replay")
  merge_stats(ck, "replay_x32", j.stats)
  sample = next(c for c in cases if c["rejects"] == "none" and c["opt"] == "ds")
  ck.sample({"spec_case": {"opt": sample["opt"], "cfg": sample["cfg"], "tree": sample["tree"],
                           "layout_head": json.dumps(sample["layout"])[:600]}})
  if j.stats["layout_compared"] < 50 or j.stats["sharded_ok"] + j.stats["known"] == 0:
    raise core.MachineryError(f"vacuous replay: {j.stats}")

  # ---- R: x64 leg -------------------------------------------------------------------
  if "X" in legs:
    cases64 = gen_cases(ck, x64=True)
    j64, _, _ = replay(ck, cases64, "Layout_Gen replay (jax_enable_x64)", x64=True)
    merge_stats(ck, "replay_x64", j64.stats)

  # ---- binding self-tests (R) ---------------------------------------------------------
  good = [(c, jb, r) for c, jb, r in zip(cases, jobs, res)
          if r["outcome"] == "ok" and not r["clauses"] and c["rejects"] == "none"]
  if not good:
    raise core.MachineryError("no clean accepted run to build a self-test from")
  sub = _sub(ck)
  c0, jb0, r0 = next(g for g in good if g[0]["opt"] == "ds")
  bad_case = copy.deepcopy(c0)
  _corrupt_first_leaf(bad_case["layout"])
  Judge(sub, "selftest").judge(bad_case, jb0, r0)
  ck.selftest("R: corrupted predicted leaf shape is flagged", len(sub.violations) > 0)
  sub = _sub(ck)
  r_bad = copy.deepcopy(r0)
  r_bad.update(outcome="internal", phase="update", step=0,
               error={"type": "UnboundLocalError", "msg": "injected", "where": "x.py:1 f", "repo_frame": "x.py:f"})
  Judge(sub, "selftest").judge(c0, jb0, r_bad)
  ck.selftest("R: an internal error is a violation", len(sub.violations) > 0)
  sub = _sub(ck)
  r_bad = copy.deepcopy(r0)
  r_bad["clauses"] = [{"clause": "state_layout_changed", "path": ".x", "detail": "injected"}]
  Judge(sub, "selftest").judge(c0, jb0, r_bad)
  ck.selftest("R: a layout change after an update is a violation", len(sub.violations) > 0)
  sub = _sub(ck)
  crash_job = dict(jb0, selftest_crash=True)
  Judge(sub, "selftest").judge(c0, crash_job, run_jobs(ck, [crash_job])[0])
  ck.selftest("R: a case that kills its worker process is a violation, not a machinery error",
              len(sub.violations) > 0)

  # ---- V ---------------------------------------------------------------------------
  if "V" in legs:
    validate_random(ck)

  ck.assume("parameter trees are dicts p0..pn of ranks 0..4 with dims <= 8 (unit dims included); "
            "gradients are seeded standard normal")
  ck.assume("pmap rows whose state holds zero-length metric arrays run on ONE device: jaxlib's CPU "
            "backend segfaults compiling pmap programs over >= 2 devices with zero-size operands "
            "(repro: jax.pmap(lambda x, y: (x + 1, y * 2))(zeros((2, 0)), ones((2, 3))))")
  ck.assume("explicit rejection = ValueError/NotImplementedError raised by a `raise` statement inside "
            "/repo/precondition; a rejection the spec does not predict is counted, not judged")
  ck.assume("the adafactor graft state of tearfree belongs to optax: checked for stability only")


# ---------------------------------------------------------------------------
# V: random cases -> traces -> TLC
# ---------------------------------------------------------------------------
GRAFTS = ["SGD", "ADAGRAD", "RMSPROP", "RMSPROP_NORMALIZED", "SQRT_N", "ADAGRAD_NORMALIZED", "NONE"]
DIMS = [1, 2, 3, 4, 5, 6, 8]


def random_tree(rs):
  n = int(rs.randint(1, 4))
  shapes = []
  for _ in range(n):
    rank = int(rs.choice([0, 1, 1, 2, 2, 2, 3, 4]))
    shapes.append([int(rs.choice(DIMS)) for _ in range(rank)])
  if int(np.prod([np.prod(s) if s else 1 for s in shapes])) > 4096:
    shapes = shapes[:1]
  return {"shapes": shapes, "dtype": "float32", "x64": False}


def pick(rs, xs):
  return xs[int(rs.randint(len(xs)))]


def random_case(rs):
  """A case drawn from the raw option product (dependent options repaired with prob. 3/4)."""
  kind = pick(rs, ["ds", "ds", "ds", "tf", "tf", "sm3"])
  run = pick(rs, [[1, "scan"], [2, "scan"], [3, "scan"], [2, "jit"], [3, "jit"], [1, "eager"], [2, "eager"]])
  tree = random_tree(rs)
  if kind == "sm3":
    cfg = {"beta1_8": pick(rs, [0, 4, 7, 8]), "beta2_8": pick(rs, [4, 8]), "wd_8": pick(rs, [0, 1]),
           "normalize": bool(rs.randint(2)), "sched": pick(rs, ["none", "lin16"])}
  elif kind == "ds":
    md = pick(rs, [["plain", 1], ["plain", 1], ["pmap", 1], ["pmap", 2], ["pmap", 3], ["shard", 1],
                   ["shard", 2], ["shard", 3]])
    cfg = {"graft": pick(rs, GRAFTS), "rank": pick(rs, [0, 0, 0, 1, 2, 3, -1, -2]),
           "fd": bool(rs.randint(3) == 0), "avg": bool(rs.randint(3) == 0), "reuse": bool(rs.randint(2)),
           "reset": bool(rs.randint(4) == 0), "ptype": pick(rs, ["ALL", "ALL", "INPUT", "OUTPUT"]),
           "skip_rank_lt": pick(rs, [0, 1, 1, 1, 2, 3]), "skip_dim_gt": pick(rs, [2, 3, 5, 4096, 4096, 4096]),
           "metrics": bool(rs.randint(4) > 0), "fd_metrics": bool(rs.randint(2)), "memred": bool(rs.randint(2)),
           "bs": pick(rs, [1, 2, 3, 4, 5, 8, 8, 8]), "merge": bool(rs.randint(4) > 0),
           "merge_bs": pick(rs, [2, 3, 4, 6, 4096]), "eigh": bool(rs.randint(2)),
           "S": pick(rs, [1, 1, 2, 3]), "P": pick(rs, [1, 1, 2, 3]), "mode": md[0], "D": md[1],
           "Start": pick(rs, [0, 1, 2, 5]), "beta2_8": pick(rs, [8, 8, 4, 7]), "beta1_8": pick(rs, [0, 4, 7]),
           "nesterov": bool(rs.randint(2)), "mavg": bool(rs.randint(2)), "dlr": bool(rs.randint(2)),
           "dwd": bool(rs.randint(2)), "wd_8": pick(rs, [0, 1]), "lobpcg": pick(rs, [0, 0, 0, 0, 0, 0, 1]),
           "clip_8": pick(rs, [0, 0, 8]), "rel_eps": bool(rs.randint(2)), "exp_override": pick(rs, [0, 0, 2, 4]),
           "sched": pick(rs, ["none", "none", "lin16"])}
    if rs.randint(4) > 0:       # repair towards an accepted combination
      if cfg["fd"]:
        cfg["rank"] = abs(cfg["rank"]) or 1
        cfg["reuse"] = True
        cfg["P"] = cfg["S"]
      else:
        cfg["avg"] = cfg["reset"] = False
  else:
    so = pick(rs, ["shampoo", "sketchy"])
    graft = pick(rs, ["NONE", "SGD", "RMSPROP", "ADAFACTOR"])
    cfg = {"so": so, "add_ggt": bool(rs.randint(2)), "ekfac": bool(rs.randint(3) == 0),
           "lin_tail": bool(rs.randint(4) == 0), "bs": pick(rs, [0, 1, 2, 3, 4, 5, 8, 1024]),
           "merge_dims": pick(rs, [1, 2, 3, 4, 8, 1024]), "graft": graft,
           "graft_decay_8": pick(rs, [0, 4, 6, 8]), "graft_eps_neg": bool(rs.randint(8) == 0),
           "min_factor": pick(rs, [0, 2, 4, 128]), "clip_8": pick(rs, [4, 8, 16]),
           "param_scale": bool(rs.randint(2)), "skip_rank1": bool(rs.randint(2)),
           "skip_dim_gt": pick(rs, [2, 3, 5, 4096, 4096]), "sk_rank": pick(rs, [0, 1, 2, 3, 8]),
           "mom_8": pick(rs, [0, 4, 7, 8, 12]), "ema": bool(rs.randint(2)), "nesterov": bool(rs.randint(2)),
           "wd_8": pick(rs, [-1, 0, 0, 1]), "wd_after": bool(rs.randint(2)), "PF": pick(rs, [0, 1, 1, 2, 3]),
           "SF": pick(rs, [0, 1, 1, 2, 3]), "decay_8": pick(rs, [0, 4, 8, 8, 12]), "Start": pick(rs, [0, 1, 2, 5]),
           "sched": pick(rs, ["none", "lin16"])}
    if rs.randint(4) > 0:
      cfg["bs"] = max(cfg["bs"], 2)
      cfg["merge_dims"] = max(cfg["merge_dims"], 2)
      cfg["graft_decay_8"] = 6 if graft in ("RMSPROP", "ADAFACTOR") else 0
      cfg["graft_eps_neg"] = False
      cfg["min_factor"] = max(cfg["min_factor"], 2)
      cfg["clip_8"] = max(cfg["clip_8"], 8)
      cfg["sk_rank"] = max(cfg["sk_rank"], 1)
      cfg["mom_8"] = min(cfg["mom_8"], 8)
      cfg["wd_8"] = max(cfg["wd_8"], 0)
      cfg["PF"] = max(cfg["PF"], 1)
      cfg["SF"] = max(cfg["SF"], 1)
      cfg["decay_8"] = min(cfg["decay_8"], 8)
  cfg["T"], cfg["exec"] = run
  return {"opt": kind, "cfg": cfg, "tree": tree}


def zero_len_metrics(case):
  """Python twin of Layout!DSZeroLenMetrics, only used to keep pmap rows with zero-length metric
  arrays on one device (an over-approximation is harmless: it merely pins D to 1)."""
  c = case["cfg"]
  if case["opt"] != "ds" or c["mode"] != "pmap" or not c["metrics"]:
    return False
  for sh in case["tree"]["shapes"]:
    if len(sh) < max(c["skip_rank_lt"], 1) or any(d > c["skip_dim_gt"] for d in sh):
      return True
  return False


# node schema of the layout vocabulary: ty -> list of alternatives {field: kind};
# kinds: R record, LR list of records, LI list of ints, I int, B bool, S string
_E = {}
SCHEMA = {
    None: [{"s": "LI", "d": "S"}],
    "nil": [_E], "MaskedNode": [_E], "EmptyState": [_E], "_GraftMask": [_E], "opaque": [_E], "none": [_E],
    "QV": [{"q": "R", "dg": "R", "b": "R", "qd": "S", "ex": "B", "sh": "LI"}],
    "TM": [{"n": "I", "d": "S", "fd": "B", "nl": "I"}],
    "dict": [{"v": "LR"}], "tuple": [{"v": "LR"}],
    "ShampooState": [{"count": "R", "stats": "R"}],
    "SM3State": [{"count": "R", "stats": "R"}],
    "ParameterStats": [{"diagonal_statistics": "R", "statistics": "LR", "preconditioners": "LR",
                        "diagonal_momentum": "R", "momentum": "R", "avg_grad": "R", "training_metrics": "R"},
                       {"diagonal_statistics": "LR", "diagonal_momentum": "R"}],
    "ShardedShampooStats": [{"global_stats": "R", "local_stats": "R"}],
    "GlobalShardedParameterStats": [{"statistics": "R", "preconditioners": "R", "exponents": "R"}],
    "LocalShardedParameterStats": [{"diagonal_statistics": "R", "diagonal_momentum": "R", "momentum": "R",
                                    "avg_grad": "R", "training_metrics": "R", "index_start": "I",
                                    "sizes": "LI"}],
    "GraftingState": [{"count": "R", "direction": "R", "norm": "R"}],
    "_ShampooState": [{"count": "R", "blocks": "R"}],
    "_SketchyState": [{"count": "R", "sketches": "R"}],
    "_AxesBlocks": [{"stats": "LR", "roots": "LR"}],
    "_TensorState": [{"axes": "LR"}],
    "_AxisState": [{k: "R" for k in ("eigvecs", "eigvals", "inv_eigvals", "tail", "inv_tail", "ema_ggt",
                                     "svd_result_u", "svd_result_s", "inv_prev_tail")}],
    "RMSPropAccumulator": [{"acc": "R"}], "TraceState": [{"trace": "R"}],
    "ScaleByScheduleState": [{"count": "R"}],
}


def schema_violation(x, path=""):
  """None if x is built from the nodes of the layout vocabulary, else the offending path."""
  if not isinstance(x, dict):
    return path or "."
  ty = x.get("ty")
  if ty is not None and not isinstance(ty, str) or ty not in SCHEMA:
    return f"{path}<{ty}>"
  fields = {k: v for k, v in x.items() if k != "ty"}
  for alt in SCHEMA[ty]:
    if set(alt) != set(fields):
      continue
    bad = None
    for k, kind in alt.items():
      v = fields[k]
      if kind == "R":
        bad = schema_violation(v, f"{path}.{k}")
      elif kind == "LR":
        if not isinstance(v, list):
          bad = f"{path}.{k}"
        else:
          for i, u in enumerate(v):
            bad = bad or schema_violation(u, f"{path}.{k}[{i}]")
      elif kind == "LI":
        bad = None if isinstance(v, list) and all(type(u) is int for u in v) else f"{path}.{k}"
      elif kind == "I":
        bad = None if type(v) is int else f"{path}.{k}"
      elif kind == "B":
        bad = None if type(v) is bool else f"{path}.{k}"
      elif kind == "S":
        bad = None if isinstance(v, str) else f"{path}.{k}"
      if bad:
        break
    if not bad:
      return None
    return bad
  return f"{path}<{ty}>:fields={sorted(fields)}"


def trace_of(case, res):
  none = {"ty": "none"}
  ev = []
  if res["phase"] in ("construct", "crash"):
    return [{"a": "Construct", "out": res["outcome"]}]
  ev.append({"a": "Construct", "out": "ok"})
  if res["phase"] in ("init", "sharded_fns"):
    ev.append({"a": "InitState", "out": res["outcome"], "layout": none, "decl": True, "pspec": True})
    return ev
  names = [c["clause"] for c in res["clauses"]]
  ev.append({"a": "InitState", "out": "ok", "layout": normalise_real_layout(case, res["layout"]),
             "decl": "sharded_declared" not in names, "pspec": "sharded_pspec" not in names})
  for t in range(res["nupd"]):
    last = t == res["nupd"] - 1
    ev.append({"a": "Update", "out": "ok",
               "same": not (last and ("state_layout_changed" in names or "scan_carry" in names)),
               "upd": not (last and "updates_layout" in names)})
  if res["phase"] in ("update", "scan"):
    ev.append({"a": "Update", "out": res["outcome"], "same": True, "upd": True})
  return ev


def judge_traces(ck, cases, jobs, results, label):
  traces = [{"case": {"opt": c["opt"], "cfg": {k: v for k, v in c["cfg"].items() if k != "row"},
                      "tree": c["tree"]},
             "events": trace_of(c, r)} for c, r in zip(cases, results)]
  j = Judge(ck, label)
  for c, jb, t in zip(cases, jobs, traces):
    for e in t["events"]:
      bad = schema_violation(e["layout"]) if "layout" in e else None
      if bad:
        j.report(f"{c['opt']}|{mode_of(c)}|layout_schema:{norm_path(bad)}", signature(c),
                 f"{label}: the initial state contains a node outside the layout vocabulary at {bad}: "
                 f"{c['opt']} cfg={json.dumps(jb['cfg'], sort_keys=True)} tree={jb['tree']}",
                 {"job": jb, "layout": e["layout"]})
        e["layout"] = {"ty": "unschematic"}
  verdicts = ck.validate("Layout_Trace", "Layout_Trace", traces)
  st = {"accepted": 0, "allowed": 0, "rejected": 0}
  for c, jb, r, t, v in zip(cases, jobs, results, traces, verdicts):
    ck.count(1, key=["V", c["opt"], c["cfg"], c["tree"]])
    opt, mode, sig = c["opt"], mode_of(c), signature(c)
    if v["accepted"]:
      st["accepted"] += 1
      ck.traces_ok(1)
      continue
    if v["verdict"].startswith("allowed_"):
      st["allowed"] += 1
      st[v["verdict"]] = st.get(v["verdict"], 0) + 1
      continue
    st["rejected"] += 1
    if any(e.get("layout") == {"ty": "unschematic"} for e in t["events"]):
      continue                       # already reported by the schema gate
    if v["verdict"].startswith("internal_error"):
      full = dict(c, rejects=v["rejects"], lobpcg_small=v["lobpcg_small"], zero_stat=v["zero_stat"],
                  drift=v["drift"], layout=r["layout"] or {"ty": "none"})
      j.known_or_violation(full, jb, r)
      continue
    detail = "; ".join(f"{cl['clause']}: {cl['detail']}" for cl in r["clauses"])[:600]
    j.report(f"{opt}|{mode}|{v['verdict']}", sig,
             f"{label}: trace rejected at event {v['l']} ({v['verdict']}): {opt} "
             f"cfg={json.dumps(jb['cfg'], sort_keys=True)} tree={jb['tree']}; {detail}",
             {"trace": t, "verdict": v, "job": jb})
  st["known"] = j.stats["known"]
  return st, traces, verdicts


def validate_random(ck):
  n = 48 if ck.quick else 1500
  rs = np.random.RandomState(ck.seed + 70)
  cases = [random_case(rs) for _ in range(n)]
  for c in cases:
    c["zero_len_metrics"] = zero_len_metrics(c)
  jobs = [job_of(c, ck.seed * 100000 + 50000 + i) for i, c in enumerate(cases)]
  results = run_jobs(ck, jobs)
  st, traces, verdicts = judge_traces(ck, cases, jobs, results, "random case")
  merge_stats(ck, "traces", st)
  if st["accepted"] < n // 8:
    raise core.MachineryError(f"vacuous trace validation: {st}")
  k = next(i for i, v in enumerate(verdicts) if v["accepted"] and len(traces[i]["events"]) >= 3)
  ck.sample({"recorded_trace": {"case": traces[k]["case"],
                                "events": [dict(e, layout="...") if "layout" in e else e
                                           for e in traces[k]["events"]]}})
  # ---- binding self-tests (V) -----------------------------------------------------
  t1 = copy.deepcopy(traces[k]); _corrupt_first_leaf(t1["events"][1]["layout"])
  t2 = copy.deepcopy(traces[k]); t2["events"][-1]["same"] = False
  t3 = copy.deepcopy(traces[k]); t3["events"][-1]["out"] = "internal"
  t4 = copy.deepcopy(traces[k]); t4["events"][-1]["upd"] = False
  sub = _sub(ck)
  vs = sub.validate("Layout_Trace", "Layout_Trace", [t1, t2, t3, t4])
  ck.selftest("V: a recorded initial layout with one wrong leaf shape is rejected",
              vs[0]["verdict"] == "initial_layout_differs_from_specified_layout")
  ck.selftest("V: an update that changes the state layout is rejected",
              vs[1]["verdict"] == "state_layout_changed_by_update")
  ck.selftest("V: an internal error during update is rejected", vs[2]["verdict"] == "internal_error_in_update")
  ck.selftest("V: updates without the parameters' layout are rejected",
              vs[3]["verdict"] == "updates_do_not_have_the_parameters_layout")


def _all_stats_1x1(layout):
  """True iff the predicted layout has statistics and all of them are 1x1."""
  found = []

  def walk(x):
    if isinstance(x, dict):
      for k, v in x.items():
        if k == "statistics" and isinstance(v, list):
          for m in v:
            s = m.get("s") if "s" in m else m.get("sh")
            found.append(list(s))
        elif k == "sizes" and isinstance(v, list):
          found.extend([[d, d] for d in v])
        else:
          walk(v)
    elif isinstance(x, list):
      for v in x:
        walk(v)
  walk(layout)
  return bool(found) and all(s == [1, 1] for s in found)


def _corrupt_first_leaf(x, dtype_too=True):
  """Corrupt one leaf of a layout: the first leaf of rank >= 1 gets a wrong first dimension; if
  there is none, the first leaf gets a wrong dtype."""
  if _corrupt_shape(x):
    return True
  return dtype_too and _corrupt_dtype(x)


def _corrupt_shape(x):
  if isinstance(x, dict):
    if "s" in x and "d" in x and isinstance(x["s"], list) and len(x["s"]) >= 1:
      x["s"] = list(x["s"]); x["s"][0] += 1
      return True
    for k in sorted(x):
      if _corrupt_shape(x[k]):
        return True
  if isinstance(x, list):
    for v in x:
      if _corrupt_shape(v):
        return True
  return False


def _corrupt_dtype(x):
  if isinstance(x, dict):
    if "s" in x and "d" in x:
      x["d"] = "float16"
      return True
    for k in sorted(x):
      if _corrupt_dtype(x[k]):
        return True
  if isinstance(x, list):
    for v in x:
      if _corrupt_dtype(v):
        return True
  return False
