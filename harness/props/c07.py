"""C07 - state contract: shapes preserved, layout stable, every accepted config runs.

M: spec/Layout (+LayoutShapes) exhaustively with TLC over slices of the option space x
   parameter-tree templates: outcome in {ok, explicit_reject}, layout is a fixed point of
   Update, updates have the parameters' layout, the three sharded descriptions coincide.
R: Layout_Gen exports a pairwise-covering array of cases (plus every documented rejection,
   plus an x64 leg); each case is run for real (constructor -> init -> T updates eager/jit ->
   lax.scan carry; sharded: init_fn vs shape_and_dtype_fn vs pspec_fn) and compared with the
   spec's predicted layout / with itself.
V: seeded random cases from the raw option product are run the same way, recorded as traces
   and judged by TLC against Layout_Trace (outcome classes, predicted initial layout, fixed
   point, update layout).
"""
import copy
import json
import re

import numpy as np

from harness import core

LEVEL = "model_checking"
WORKER = "harness.workers.layout_run"
DEVICES = 3
MAX_KEYS_PER_CLAUSE = 3


# ---------------------------------------------------------------------------
# spec case -> worker job
# ---------------------------------------------------------------------------
def job_of(case, seed):
  cfg = dict(case["cfg"])
  note = None
  if case["opt"] == "ds" and cfg["mode"] == "pmap" and cfg["D"] > 1 and case.get("zero_len_metrics"):
    cfg["D"] = 1            # jaxlib CPU segfaults on pmap programs with zero-size operands
    note = "pmap_D_forced_to_1"
  return {"opt": case["opt"], "cfg": cfg, "tree": case["tree"]["shapes"], "T": cfg.get("T", 2),
          "exec": cfg.get("exec", "jit"), "dtype": case["tree"]["dtype"], "seed": seed,
          "note": note}


def signature(case):
  """Short, stable option signature for violation keys."""
  c, opt = case["cfg"], case["opt"]
  if opt == "ds":
    f = []
    f.append("r0" if c["rank"] == 0 else ("r+" if c["rank"] > 0 else "r-"))
    for k, name in (("fd", "fd"), ("avg", "avg"), ("reset", "reset"), ("memred", "memred"),
                    ("eigh", "eigh")):
      if c.get(k):
        f.append(name)
    if c["ptype"] != "ALL":
      f.append(c["ptype"])
    if not c["metrics"]:
      f.append("nometrics")
    if c["fd_metrics"] and c["fd"]:
      f.append("fdm")
    if c["bs"] == 1:
      f.append("bs1")
    if not c["merge"]:
      f.append("nomerge")
    if c["P"] > 1:
      f.append("P>1")
    if c.get("lobpcg"):
      f.append("lobpcg")
    return "+".join(f)
  if opt in ("tf", "tfso"):
    f = [c["so"], c["graft"]]
    for k in ("add_ggt", "ekfac", "lin_tail"):
      if c.get(k):
        f.append(k)
    return "+".join(f)
  return "sm3"


def mode_of(case):
  return case["cfg"].get("mode", "plain") if case["opt"] == "ds" else (
      "x64" if case["tree"]["x64"] else "x32")


def normalise_real_layout(case, lay):
  """Sub-trees owned by optax whose layout the spec does not predict."""
  if lay is None:
    return None
  lay = copy.deepcopy(lay)
  if case["opt"] == "tf" and case["cfg"]["graft"] == "ADAFACTOR":
    try:
      lay["v"][0]["norm"] = {"ty": "opaque"}
    except Exception:      # pylint: disable=broad-except
      pass
  return lay


def first_diff(a, b, path=""):
  if type(a) != type(b):
    return path, a, b
  if isinstance(a, dict):
    for k in sorted(set(a) | set(b)):
      if k not in a or k not in b:
        return f"{path}.{k}", a.get(k, "<absent>"), b.get(k, "<absent>")
      d = first_diff(a[k], b[k], f"{path}.{k}")
      if d:
        return d
    return None
  if isinstance(a, list):
    if len(a) != len(b):
      return f"{path}[len]", len(a), len(b)
    for i, (u, v) in enumerate(zip(a, b)):
      d = first_diff(u, v, f"{path}[{i}]")
      if d:
        return d
    return None
  return None if a == b else (path, a, b)


def norm_path(p):
  return re.sub(r"\[\d+\]", "[]", p or "")


# ---------------------------------------------------------------------------
# judging one run
# ---------------------------------------------------------------------------
class Judge:
  def __init__(self, ck, label):
    self.ck, self.label = ck, label
    self.stats = {"ok": 0, "explicit": 0, "internal": 0, "explicit_unpredicted": 0,
                  "accepted_predicted_reject": 0, "layout_compared": 0, "known": 0,
                  "sharded_ok": 0, "scan_ok": 0, "eager": 0, "pmap_D_forced_to_1": 0,
                  "suppressed_duplicates": 0}
    self.per_clause = {}

  def report(self, key_prefix, sig, what, replay):
    n = self.per_clause.setdefault(key_prefix, set())
    if sig not in n and len(n) >= MAX_KEYS_PER_CLAUSE:
      self.stats["suppressed_duplicates"] += 1
      return
    n.add(sig)
    return self.ck.violation(f"{key_prefix}|{sig}", what, replay)

  def known_or_violation(self, case, job, res):
    """An internal error: one of the open findings, or a violation."""
    e = res["error"] or {}
    opt, mode, sig = case["opt"], mode_of(case), signature(case)
    what = (f"{self.label}: {opt} {json.dumps(job['cfg'], sort_keys=True)} tree={job['tree']} "
            f"dtype={job['dtype']}: {res['phase']}"
            f"{'' if res['step'] is None else ' #' + str(res['step'] + 1)} raised "
            f"{e.get('type')}: {e.get('msg')} at {e.get('where')} (in {e.get('repo_frame')})")
    replay = {"job": job, "result": {k: res[k] for k in ("outcome", "phase", "step", "error")}}
    if opt == "ds" and e.get("type") == "AssertionError" and \
        case["rejects"] == "all_layers_too_small_for_compression_rank":
      self.stats["known"] += 1
      return self.ck.violation(f"ds|compression|all_statistics_too_small|AssertionError|{mode}", what, replay)
    if opt == "ds" and mode == "shard" and case.get("zero_stat") and e.get("type") == "ValueError" \
        and "max()" in (e.get("msg") or ""):
      self.stats["known"] += 1
      return self.ck.violation(f"ds|shard|zero_stat_unskipped_param|ValueError_max|{sig}", what, replay)
    if opt == "ds" and case.get("lobpcg_small") and e.get("type") == "ValueError" \
        and "search dim" in (e.get("msg") or ""):
      self.stats["known"] += 1
      return self.ck.violation(f"ds|lobpcg|small_matrix|{mode}", what, replay)
    if case.get("drift") and res["phase"] in ("update", "scan"):
      self.stats["known"] += 1
      return self.ck.violation(f"x64_float32_params|dtype_drift|{opt}", what, replay)
    fn = (e.get("repo_frame") or "").split(":")[-1] or "outside_repo"
    return self.report(f"{opt}|{mode}|internal:{e.get('type')}@{res['phase']}:{fn}", sig, what, replay)

  def judge(self, case, job, res):
    ck = self.ck
    opt, mode, sig = case["opt"], mode_of(case), signature(case)
    st = self.stats
    if job.get("note"):
      st[job["note"]] += 1
    c = case["cfg"]
    ck.count(1, key=[opt, {k: v for k, v in c.items() if k not in ("row", "T", "exec")}, case["tree"]])
    st[res["outcome"]] += 1
    predicted_reject = case["rejects"] != "none"
    clean = True
    if res["outcome"] == "internal":
      self.known_or_violation(case, job, res)
      return False
    if res["outcome"] == "explicit":
      if not predicted_reject:
        st["explicit_unpredicted"] += 1       # allowed by the property; coverage accounting only
      return True
    # ---- ran to the end ----------------------------------------------------------
    if job["exec"] == "eager":
      st["eager"] += 1
    if predicted_reject:
      st["accepted_predicted_reject"] += 1
    else:
      real = normalise_real_layout(case, res["layout"])
      d = first_diff(case["layout"], real)
      st["layout_compared"] += 1
      if d:
        clean = False
        self.report(f"{opt}|{mode}|layout_prediction:{norm_path(d[0])}", sig,
                    f"{self.label}: {opt} cfg={json.dumps(job['cfg'], sort_keys=True)} tree={job['tree']}: "
                    f"initial state differs from the specified layout at {d[0]}: "
                    f"spec {json.dumps(d[1])[:200]} vs real {json.dumps(d[2])[:200]}",
                    {"job": job, "spec_layout": case["layout"], "real_layout": real})
    for cl in res["clauses"]:
      clean = False
      what = (f"{self.label}: {opt} cfg={json.dumps(job['cfg'], sort_keys=True)} tree={job['tree']} "
              f"dtype={job['dtype']}: {cl['clause']}: {cl['detail']}")
      if case.get("drift") and cl["clause"] in ("state_layout_changed", "scan_carry", "updates_layout"):
        st["known"] += 1
        ck.violation(f"x64_float32_params|dtype_drift|{opt}", what, {"job": job, "clause": cl})
        continue
      self.report(f"{opt}|{mode}|{cl['clause']}:{cl.get('path', '')}", sig, what, {"job": job, "clause": cl})
    if clean:
      st["scan_ok"] += 1
      if mode == "shard":
        st["sharded_ok"] += 1
      ck.traces_ok(1)
    return clean


def replay(ck, cases, label, x64=False):
  jobs = [job_of(c, ck.seed * 100000 + i) for i, c in enumerate(cases)]
  # interleave cheap and expensive jobs over the workers
  order = list(range(len(jobs)))
  rs = np.random.RandomState(ck.seed + 7)
  rs.shuffle(order)
  chunk = max(1, min(24, (len(jobs) + core.NCPU - 1) // core.NCPU))
  res_shuffled = core.run_workers(WORKER, [jobs[i] for i in order], x64=x64, devices=DEVICES,
                                  chunk=chunk, work=ck.work)
  res = [None] * len(jobs)
  for k, i in enumerate(order):
    res[i] = res_shuffled[k]
  j = Judge(ck, label)
  for c, jb, r in zip(cases, jobs, res):
    j.judge(c, jb, r)
  return j, jobs, res


def gen_cases(ck, x64):
  env = {"GEN_SEED": str(ck.seed), "GEN_X64": "1" if x64 else "0",
         "GEN_TIER": "quick" if ck.quick else "thorough"}
  return ck.gen("Layout_Gen", "Layout_Gen", env=env)


def merge_stats(ck, name, st):
  ck.cov.setdefault("c07", {})[name] = st


# ---------------------------------------------------------------------------
def run(ck):
  quick = ck.quick
  # ---- M ------------------------------------------------------------------------
  ck.mc("Layout_MC", "Layout_MC" if quick else "Layout_MCT",
        required_actions=["Construct", "InitState", "Update"], timeout=3000)

  # ---- R: x32 ---------------------------------------------------------------------
  cases = gen_cases(ck, x64=False)
  j, jobs, res = replay(ck, cases, "Layout_Gen replay")
  merge_stats(ck, "replay_x32", j.stats)
  sample = next(c for c in cases if c["rejects"] == "none" and c["opt"] == "ds")
  ck.sample({"spec_case": {"opt": sample["opt"], "cfg": sample["cfg"], "tree": sample["tree"],
                           "layout_head": json.dumps(sample["layout"])[:600]}})
  if j.stats["layout_compared"] < 50 or j.stats["sharded_ok"] + j.stats["known"] == 0:
    raise core.MachineryError(f"vacuous replay: {j.stats}")

  # ---- R: x64 leg -------------------------------------------------------------------
  cases64 = gen_cases(ck, x64=True)
  j64, _, _ = replay(ck, cases64, "Layout_Gen replay (jax_enable_x64)", x64=True)
  merge_stats(ck, "replay_x64", j64.stats)

  # ---- binding self-tests (R) ---------------------------------------------------------
  good = [(c, jb, r) for c, jb, r in zip(cases, jobs, res)
          if r["outcome"] == "ok" and not r["clauses"] and c["rejects"] == "none"]
  if not good:
    raise core.MachineryError("no clean accepted run to build a self-test from")
  sub = core.Check(ck.pid, ck.level, ck.tier, ck.seed); sub.work = ck.work
  c0, jb0, r0 = next(g for g in good if g[0]["opt"] == "ds")
  bad_case = copy.deepcopy(c0)
  _corrupt_first_leaf(bad_case["layout"])
  Judge(sub, "selftest").judge(bad_case, jb0, r0)
  ck.selftest("R: corrupted predicted leaf shape is flagged", len(sub.violations) > 0)
  sub = core.Check(ck.pid, ck.level, ck.tier, ck.seed); sub.work = ck.work
  r_bad = copy.deepcopy(r0)
  r_bad.update(outcome="internal", phase="update", step=0,
               error={"type": "UnboundLocalError", "msg": "injected", "where": "x.py:1 f", "repo_frame": "x.py:f"})
  Judge(sub, "selftest").judge(c0, jb0, r_bad)
  ck.selftest("R: an internal error is a violation", len(sub.violations) > 0)
  sub = core.Check(ck.pid, ck.level, ck.tier, ck.seed); sub.work = ck.work
  r_bad = copy.deepcopy(r0)
  r_bad["clauses"] = [{"clause": "state_layout_changed", "path": ".x", "detail": "injected"}]
  Judge(sub, "selftest").judge(c0, jb0, r_bad)
  ck.selftest("R: a layout change after an update is a violation", len(sub.violations) > 0)

  # ---- V ---------------------------------------------------------------------------
  validate_random(ck)

  ck.assume("parameter trees are dicts p0..pn of ranks 0..4 with dims <= 8 (unit dims included); "
            "gradients are seeded standard normal")
  ck.assume("pmap rows whose state holds zero-length metric arrays run on ONE device: jaxlib's CPU "
            "backend segfaults compiling pmap programs over >= 2 devices with zero-size operands "
            "(repro: jax.pmap(lambda x, y: (x + 1, y * 2))(zeros((2, 0)), ones((2, 3))))")
  ck.assume("explicit rejection = ValueError/NotImplementedError raised by a `raise` statement inside "
            "/repo/precondition; a rejection the spec does not predict is counted, not judged")
  ck.assume("the adafactor graft state of tearfree belongs to optax: checked for stability only")


def validate_random(ck):
  pass


def _corrupt_first_leaf(x):
  if isinstance(x, dict):
    if "s" in x and "d" in x and isinstance(x["s"], list) and len(x["s"]) >= 1:
      x["s"] = list(x["s"]); x["s"][0] += 1
      return True
    for k in sorted(x):
      if _corrupt_first_leaf(x[k]):
        return True
  if isinstance(x, list):
    for v in x:
      if _corrupt_first_leaf(v):
        return True
  return False
