"""C06 - merging, blocking, blockifying and padding are lossless and self-consistent.

M: spec/Shapes (Shapes_MC / Shapes_MCT) exhaustively with TLC: every shape x block size x merge
   limit x preconditioner type within the bound through the three pipelines (Distributed Shampoo
   Preconditioner, Tearfree Shampoo blockify, Tearfree reshaper), tensors being index maps, with the
   28 invariants and one action property (product, limit, split sizes, order / contiguity / bijectivity
   of blocks, announced preconditioners aligned with the blocks, slot lists, round trips, pad rule,
   rejections, closed forms); deadlock checking shows that every accepted case runs to the end.
R: Shapes_Gen exports every enumerated case with the spec's expected shapes / block lists / slot
   lists / verdicts / index maps; harness/workers/shapes_replay runs the REAL functions on
   index-valued tensors and compares elementwise and exactly.
V: harness/workers/shapes_trace records what the real functions do on random LARGER shapes
   (realistic dims, block sizes and merge limits) as integer traces, one event per code-level step;
   Shapes_Trace re-runs the module's own actions (shape-only tensors) and compares every logged field.
"""
import copy
import json
import os
import threading
import time

import numpy as np

from harness import core

LEVEL = "model_checking"

def vkey(c, clause):
  if c["sys"] == "ds":
    return f"ds|{c['ptype']}|{clause}"
  return f"{c['sys']}|{clause}"


def describe(c):
  return (f"{c['sys']} shape={c['shape']} block_size={c['bs']} merge_limit={c['limit']}"
          + (f" type={c['ptype']}" if c["sys"] == "ds" else ""))


def run_cases(ck, items, label, report=True, nproc=None):
  """Replays exported cases; returns (results, number of flagged cases)."""
  # Cases of the same shape share their (eagerly compiled) XLA programs: keep them in one worker
  # process; the groups themselves are dealt out in a seeded random order to balance the load.
  groups = {}
  for i, it in enumerate(items):
    groups.setdefault((it["cfg"]["sys"], tuple(it["cfg"]["shape"])), []).append(i)
  keys = sorted(groups)
  order = [i for k in np.random.RandomState(ck.seed + 6).permutation(len(keys)) for i in groups[keys[k]]]
  jobs = [items[i] for i in order]
  chunk = max(50, min(2500, (len(jobs) + 2 * core.NCPU - 1) // (2 * core.NCPU)))
  res = core.run_workers("harness.workers.shapes_replay", jobs, x64=True, work=ck.work, chunk=chunk, nproc=nproc)
  flagged = 0
  back = [None] * len(items)
  for pos, i in enumerate(order):
    back[i] = res[pos]
  for j, r in zip(jobs, res):
    c = j["cfg"]
    if r["machinery"]:
      raise core.MachineryError(f"{label}: {r['machinery']}")
    bad = False
    for e in r["err"]:
      bad = True
      if report:
        ck.violation(vkey(c, "internal_error|" + e["error"].split(":")[0]),
                     f"{label}: {describe(c)}: {e['where']} raised {e['error']}", {"case": j, "err": e})
    for m in r["mism"][:1]:
      bad = True
      if report:
        ck.violation(vkey(c, m["clause"]),
                     f"{label}: {describe(c)}: {m['clause']} differs from the specification: "
                     f"{json.dumps(m['detail'])[:400]}", {"case": j, "mismatch": m})
    flagged += bad
    if report:
      ck.count(r["n"], key=[c["sys"], c["shape"], c["limit"], c["bs"], c["ptype"]])
      if not bad:
        ck.traces_ok(1)
  return back, flagged


BRANCHES = ["ds_multi_block", "ds_exact_multiple_split", "ds_short_last_block", "ds_merged",
            "ds_rank_le1_typed", "ds_input_output_rank_gt1",
            "tf_two_large_axes", "tf_one_large_axis", "tf_no_large_axis", "tf_two_large_with_middle",
            "tf_rejected_unit", "tf_rejected_many_large", "tf_rejected_indivisible", "tf_rejected_bad_block",
            "rs_padded", "rs_unpadded_small_dim", "rs_scalar", "rs_rejected", "rs_shampoo_rejects_output",
            "live_cases", "shape_only_cases"]


def vacuity(items, cov):
  """Counts how often each interesting branch occurs among the exported (and replayed) cases."""
  for k in BRANCHES:
    cov.setdefault(k, 0)
  for it in items:
    c, r = it["cfg"], it["r"]
    cov["live_cases" if it["live"] else "shape_only_cases"] += 1
    if c["sys"] == "ds":
      cov["ds_multi_block"] += len(r["blocks"]) > 1
      for z, d in zip(r["split_sizes"], r["transformed"]):
        if len(z) > 1:
          cov["ds_exact_multiple_split"] += d % c["bs"] == 0
          cov["ds_short_last_block"] += d % c["bs"] != 0
      cov["ds_merged"] += c["limit"] > 0 and r["transformed"] != c["shape"]
      cov["ds_rank_le1_typed"] += c["ptype"] != "ALL" and len(r["transformed"]) <= 1
      cov["ds_input_output_rank_gt1"] += c["ptype"] != "ALL" and len(r["transformed"]) > 1
    elif c["sys"] == "tf":
      if r["verdict"] != "ok":
        cov["tf_rejected_" + r["verdict"]] += 1
      else:
        la = r["meta"]["large_axes"]
        cov[["tf_no_large_axis", "tf_one_large_axis", "tf_two_large_axes"][len(la)]] += 1
        cov["tf_two_large_with_middle"] += len(la) == 2 and la[1] - la[0] > 1
    else:
      if r["verdict"] != "ok":
        cov["rs_rejected"] += 1
      else:
        sh = r["shapes"]
        cov["rs_padded"] += sh["padded_shape"] != sh["merged_shape"]
        cov["rs_unpadded_small_dim"] += c["bs"] > 0 and any(m < c["bs"] for m in sh["merged_shape"])
        cov["rs_scalar"] += sh["merged_shape"] == [] and c["shape"] != []
        cov["rs_shampoo_rejects_output"] += r["tf_verdict"] != "ok"


def check_export(ck, items, cfg):
  """No exported line lost or doubled; every pipeline was run to its end at least once."""
  seen = {json.dumps(it["cfg"], sort_keys=True) for it in items}
  if len(seen) != len(items):
    raise core.MachineryError(f"{cfg} exported a case twice")
  gen_run = [x for x in ck.cov["tlc_runs"] if x["module"] == "Shapes_Gen" and x["cfg"] == cfg][-1]
  steps = {"ds": 7, "tf": 7, "rs": 5}        # states of a complete behaviour (a rejected one has 2)
  expect = sum((steps[it["cfg"]["sys"]] if it["pc"] == "done" else 2) for it in items)
  if expect != gen_run["distinct"]:
    raise core.MachineryError(f"{cfg}: {gen_run['distinct']} distinct states but the exported behaviours "
                              f"account for {expect}: a line was lost")
  for k in {it["cfg"]["sys"] for it in items}:
    if not any(it["cfg"]["sys"] == k and it["pc"] == "done" for it in items):
      raise core.MachineryError(f"vacuous model: no {k} case ran through all actions of its pipeline")


def pick(items, pred):
  for it in items:
    if pred(it):
      return copy.deepcopy(it)
  return None


def selftests(ck, items, done):
  """Corrupt ONE expected value of an exported behaviour: the replay must flag it.
  Returns the names of the self-tests that could be built from `items` (each runs once)."""
  tests = []

  def add(name, it, corrupt):
    if it is not None and name not in done:
      corrupt(it)
      tests.append((name, it))

  def swap_in_block(a):
    d = a["r"]["blocks"][1]["data"]; d[0], d[1] = d[1], d[0]
  add("R: two swapped entries in the expected index map of a block are flagged",
      pick(items, lambda it: it["cfg"]["sys"] == "ds" and it["live"] and len(it["r"]["blocks"]) > 1
           and len(it["r"]["blocks"][1]["data"]) > 1), swap_in_block)

  def swap_blocks(a):
    b = a["r"]["blocks"]; b[0], b[1] = b[1], b[0]
  add("R: two exchanged blocks of equal shape are flagged",
      pick(items, lambda it: it["cfg"]["sys"] == "ds" and it["live"] and len(it["r"]["blocks"]) > 2
           and it["r"]["blocks"][0]["shape"] == it["r"]["blocks"][1]["shape"]), swap_blocks)

  def rotate_slots(a):
    a["r"]["slots"][0] = a["r"]["slots"][0][-1:] + a["r"]["slots"][0][:-1]
  add("R: INPUT slot list padded at the wrong end is flagged",
      pick(items, lambda it: it["cfg"]["sys"] == "ds" and it["cfg"]["ptype"] == "INPUT" and len(it["r"]["should"]) > 1),
      rotate_slots)

  def empty_block(a):
    k = next(i for i, z in enumerate(a["r"]["split_sizes"]) if len(z) > 1)
    a["r"]["split_sizes"][k] = a["r"]["split_sizes"][k] + [0]
  add("R: an extra empty block in the expected split sizes is flagged",
      pick(items, lambda it: it["cfg"]["sys"] == "ds" and any(len(z) > 1 for z in it["r"]["split_sizes"])), empty_block)

  def other_merge(a):
    t = a["r"]["transformed"]
    a["r"]["transformed"] = t[::-1] if t != t[::-1] else t + [1]
  add("R: a different expected merged shape is flagged",
      pick(items, lambda it: it["cfg"]["sys"] == "ds" and it["cfg"]["limit"] > 0 and len(it["r"]["transformed"]) > 1),
      other_merge)

  def swap_blocked(a):
    d = a["r"]["blocked"]["data"]; d[0], d[-1] = d[-1], d[0]
  add("R: corrupted expected blockify index map is flagged",
      pick(items, lambda it: it["cfg"]["sys"] == "tf" and it["live"] and it["r"]["verdict"] == "ok"
           and len(it["r"]["meta"]["large_axes"]) == 2 and it["r"]["meta"]["num_blocks"] > 1), swap_blocked)

  def accept(a):
    a["r"]["verdict"] = "ok"; a["pc"] = "done"
  add("R: an expected acceptance of an indivisible large dim is flagged",
      pick(items, lambda it: it["cfg"]["sys"] == "tf" and it["r"]["verdict"] == "indivisible"), accept)

  def pad_more(a):
    a["r"]["shapes"]["padded_shape"][0] += a["cfg"]["bs"]
  add("R: a different expected padded shape is flagged",
      pick(items, lambda it: it["cfg"]["sys"] == "rs" and it["r"]["verdict"] == "ok"
           and it["r"]["shapes"]["padded_shape"] != it["r"]["shapes"]["merged_shape"]
           and it["r"]["shapes"]["padded_shape"][0] != it["r"]["shapes"]["merged_shape"][0]), pad_more)

  def unpad(a):
    d = a["r"]["merged"]["data"]; i = d.index(-1); d[i], d[0] = d[0], d[i]
  add("R: a pad position that is expected to hold a real entry is flagged",
      pick(items, lambda it: it["cfg"]["sys"] == "rs" and it["live"] and it["r"]["verdict"] == "ok"
           and -1 in it["r"]["merged"]["data"]), unpad)
  if not tests:
    return set()
  # (no second core.Check here: its constructor wipes the work directory the background TLC uses)
  res, _ = run_cases(ck, [t[1] for t in tests], "selftest", report=False)
  for (name, _), r in zip(tests, res):
    ck.selftest(name, bool(r["mism"] or r["err"]))
  return {t[0] for t in tests}


# ---- V: random larger shapes ------------------------------------------------------------------
DIMS = [1, 1, 2, 2, 3, 4, 5, 7, 8, 10, 12, 16, 24, 32, 48, 64, 96, 100, 128, 192, 256, 384, 512, 768, 1000, 1024,
        2048, 4096]
MAX_ELEMS = 1 << 20       # keeps every product inside TLC's 32-bit integers and the real tensors small
MAX_BLOCKS = 400


def random_jobs(ck, n):
  rs = np.random.RandomState(ck.seed + 61)
  # a few fixed cases so that every binding self-test finds a trace of the kind it corrupts
  fixed = [{"sys": "ds", "shape": [64, 48], "limit": 0, "bs": 16, "ptype": "OUTPUT"},
           {"sys": "ds", "shape": [3, 1, 50, 7], "limit": 8, "bs": 4, "ptype": "INPUT"},
           {"sys": "tf", "shape": [8, 3, 12], "limit": 0, "bs": 4, "ptype": "ALL"},
           {"sys": "tf", "shape": [3, 16, 2, 3, 8, 2], "limit": 0, "bs": 8, "ptype": "ALL"},
           {"sys": "tf", "shape": [5, 1], "limit": 0, "bs": 4, "ptype": "ALL"},
           {"sys": "rs", "shape": [10, 3], "limit": 4, "bs": 4, "ptype": "ALL"}]
  jobs = [{"cfg": c, "seed": 1 + i, "nprobe": 6, "max_blocks": MAX_BLOCKS} for i, c in enumerate(fixed)]
  while len(jobs) < n:
    sys_ = ["ds", "ds", "tf", "rs"][rs.randint(4)]
    rank = int(rs.randint(0, 6))
    if sys_ == "tf":
      bs = int([2, 2, 3, 4, 8, 16, 32, 128, 0, 1][rs.randint(10)])
      shape = []
      for _ in range(rank):
        u = rs.rand()
        if u < 0.45 and bs > 2:
          shape.append(int(rs.randint(2, bs)))               # small dim
        elif u < 0.9 and bs >= 2:
          shape.append(bs * int(rs.randint(1, 7)))           # large dim, whole number of blocks
        else:
          shape.append(int(DIMS[rs.randint(len(DIMS))]))     # anything (mostly rejected)
      c = {"sys": "tf", "shape": shape, "limit": 0, "bs": bs, "ptype": "ALL"}
    else:
      shape = [int(DIMS[rs.randint(len(DIMS))]) for _ in range(rank)]
      if sys_ == "ds":
        c = {"sys": "ds", "shape": shape, "limit": int([0, 1, 2, 4, 8, 16, 64, 256, 1024, 4096][rs.randint(10)]),
             "bs": int([1, 2, 3, 4, 8, 16, 32, 64, 128, 256, 1024][rs.randint(11)]),
             "ptype": ["ALL", "INPUT", "OUTPUT"][rs.randint(3)]}
      else:
        c = {"sys": "rs", "shape": shape, "limit": int([1, 2, 4, 8, 16, 64, 256, 1024, 4096][rs.randint(9)]),
             "bs": int([0, 1, 2, 3, 4, 8, 16, 32, 128, 1024][rs.randint(10)]), "ptype": "ALL"}
    if int(np.prod(c["shape"], dtype=np.int64)) > MAX_ELEMS:
      continue
    jobs.append({"cfg": c, "seed": int(rs.randint(1 << 30)), "nprobe": 6, "max_blocks": MAX_BLOCKS})
  return jobs


def validate_traces(ck, traces, label, report=True):
  # TLC validates ~2 traces/s (single worker by convention): several TLC processes side by side
  k = max(1, min(core.NCPU // 2, len(traces) // 12))
  groups = [list(range(g, len(traces), k)) for g in range(k)]
  verdicts, errs = [None] * len(traces), []

  def one(g, idx):
    try:
      time.sleep(0.3 * g)       # core.validate names its scratch files by the millisecond
      vs = ck.validate("Shapes_Trace", "Shapes_Trace",
                       [{"cfg": traces[i]["cfg"], "events": traces[i]["events"]} for i in idx])
      for i, v in zip(idx, vs):
        verdicts[i] = v
    except BaseException as e:  # pylint: disable=broad-except
      errs.append(e)

  th = [threading.Thread(target=one, args=(g, idx)) for g, idx in enumerate(groups)]
  for t in th:
    t.start()
  for t in th:
    t.join()
  if errs:
    raise errs[0]
  for t, v in zip(traces, verdicts):
    c = t["cfg"]
    if report:
      ck.count(len(t["events"]), key=["V", c["sys"], c["shape"], c["limit"], c["bs"], c["ptype"]])
      if v["accepted"]:
        ck.traces_ok(1)
      else:
        ck.violation(vkey(c, v["verdict"]),
                     f"{label}: {describe(c)}: trace rejected at event {v['l']} "
                     f"({t['events'][min(v['l'], len(t['events'])) - 1]['a']}): {v['verdict']}",
                     {"trace": t, "verdict": v})
  return verdicts


def trace_leg(ck, n):
  jobs = random_jobs(ck, n)
  res = core.run_workers("harness.workers.shapes_trace", jobs, x64=True, work=ck.work,
                         chunk=max(4, (len(jobs) + 4 * core.NCPU - 1) // (4 * core.NCPU)))
  traces, skipped = [], 0
  for j, r in zip(jobs, res):
    if r["machinery"]:
      raise core.MachineryError("trace worker: " + r["machinery"])
    if r["err"]:
      ck.violation(vkey(j["cfg"], "internal_error|" + r["err"]["error"].split(":")[0]),
                   f"random shape run: {describe(j['cfg'])} raised {r['err']['error']}", {"job": j, "err": r["err"]})
    elif r["skipped"]:
      skipped += 1
    else:
      traces.append(r["trace"])
  ck.cov["trace_cases_skipped_too_many_blocks"] = skipped
  # (when the code under test crashes on whole families of cases these are violations, reported
  # above; the vacuity guards below must then not turn the verdict into a machinery error)
  failing = bool(ck.violations or ck.known_hits)
  if len(traces) < n // 2 and not failing:
    raise core.MachineryError(f"only {len(traces)} of {n} random cases produced a trace")
  big = [t for t in traces if int(np.prod(t["cfg"]["shape"], dtype=np.int64)) > 2048 and len(t["events"]) > 3]
  if not big:
    if failing:
      return
    raise core.MachineryError("vacuous trace leg: no large accepted case")
  ck.sample({"recorded_trace": {"cfg": big[0]["cfg"],
                                "events": [{k: (v if not isinstance(v, list) or len(json.dumps(v)) < 300 else "...")
                                            for k, v in e.items()} for e in big[0]["events"]]}})
  validate_traces(ck, traces, "random shape run")
  # binding self-tests: one corrupted logged field per trace must be rejected
  def first(pred):
    return copy.deepcopy(next((t for t in traces if pred(t)), None))
  ts = []
  t = first(lambda t: t["cfg"]["sys"] == "ds" and len(t["events"][3]["block_shapes"]) > 1)
  if t is not None:
    t["events"][3]["probes"][-1][2] += 1
    ts.append(("V: a wrong element read from a block is rejected", t))
  t = first(lambda t: t["cfg"]["sys"] == "ds" and any(len(z) > 1 for z in t["events"][1]["split_sizes"]))
  if t is not None:
    k = next(i for i, z in enumerate(t["events"][1]["split_sizes"]) if len(z) > 1)
    t["events"][1]["split_sizes"][k][-1] += 1
    ts.append(("V: a wrong logged split size is rejected", t))
  t = first(lambda t: t["cfg"]["sys"] == "ds" and t["cfg"]["ptype"] == "OUTPUT" and len(t["events"][2]["should"]) > 1)
  if t is not None:
    t["events"][4]["slots"][0] = t["events"][4]["slots"][0][::-1]
    ts.append(("V: an OUTPUT slot list padded at the wrong end is rejected", t))
  t = first(lambda t: t["cfg"]["sys"] == "ds")
  if t is not None:
    t["events"][5]["unchanged"] = False
    ts.append(("V: a gradient changed by identity preconditioners is rejected", t))
  t = first(lambda t: t["cfg"]["sys"] == "tf" and len(t["events"]) > 3 and len(t["events"][1]["large_axes"]) == 2)
  if t is not None:
    t["events"][3]["probes"][1][1] += 1
    ts.append(("V: a wrong element read from the blockified tensor is rejected", t))
  t = first(lambda t: t["cfg"]["sys"] == "tf" and len(t["events"]) == 2)
  if t is not None:
    t["events"][0]["accepted"] = True
    ts.append(("V: acceptance of a shape the specification rejects is rejected", t))
  t = first(lambda t: t["cfg"]["sys"] == "rs" and len(t["events"]) > 3 and t["events"][1]["merged"] != t["events"][1]["padded"])
  if t is not None:
    t["events"][1]["padded"][0] += t["cfg"]["bs"]
    ts.append(("V: a wrong logged padded shape is rejected", t))
  t = first(lambda t: t["cfg"]["sys"] == "rs" and len(t["events"]) > 3)
  if t is not None:
    del t["events"][3]
    ts.append(("V: a trace that skips the unmerge step is rejected", t))
  if len(ts) < 8 and not failing:
    raise core.MachineryError(f"only {len(ts)} of 8 trace self-tests could be built")
  if ts:
    vs = validate_traces(ck, [x[1] for x in ts], "selftest", report=False)
    for (name, _), v in zip(ts, vs):
      ck.selftest(name, not v["accepted"])


def run(ck):
  quick = ck.quick
  if getattr(ck, "replay", None):
    saved = json.load(open(ck.replay))["case"]
    if "trace" in saved:
      # the saved trace is what the code did when the violation was found (re-validated for the
      # record); the verdict of the replay is that of a trace recorded from the code NOW
      old = validate_traces(ck, [saved["trace"]], "saved trace", report=False)[0]
      ck.cov["saved_trace_verdict"] = old["verdict"]
      job = {"cfg": saved["trace"]["cfg"], "seed": 1, "nprobe": 24, "max_blocks": 10 ** 6}
      r = core.run_workers("harness.workers.shapes_trace", [job], x64=True, work=ck.work)[0]
      if r["machinery"]:
        raise core.MachineryError(r["machinery"])
      if r["err"]:
        ck.violation(vkey(job["cfg"], "internal_error|" + r["err"]["error"].split(":")[0]),
                     f"replay: {describe(job['cfg'])} raised {r['err']['error']}", {"job": job, "err": r["err"]})
      else:
        validate_traces(ck, [r["trace"]], "replay of " + ck.replay)
    elif "case" in saved:
      run_cases(ck, [saved["case"]], "replay of " + ck.replay)
    else:
      raise core.MachineryError("replay file holds neither an exported case nor a trace")
    ck.sample({"replayed": (saved.get("trace") or saved["case"])["cfg"]})
    return
  # ---- M runs in the background while the export is replayed ----------------------------------
  # (action coverage, -coverage 1, triples TLC's run time; that every action fires is established
  # from the export instead: pc = "done" is reachable only through all actions of a pipeline)
  mc_err = []

  def model_check():
    try:
      if os.environ.get("VERIF_C06_SKIP_M") == "1":   # development only (mutation runs: the model is unchanged)
        ck.assume("M leg skipped by VERIF_C06_SKIP_M=1")
        return
      ck.mc("Shapes_MC", "Shapes_MC" if quick else "Shapes_MCT",
            workers=max(2, core.NCPU // 2),
            timeout=3 * 3600)
    except BaseException as e:  # pylint: disable=broad-except
      mc_err.append(e)

  th = threading.Thread(target=model_check)
  th.start()
  try:
    # ---- R -------------------------------------------------------------------------------
    batches = ["Shapes_Gen"] if quick else [f"Shapes_GenT{i}" for i in range(1, 6)]
    branches, exported, done_tests, sampled = {}, {"ds": 0, "tf": 0, "rs": 0}, set(), set()
    for g in batches:
      # PrintT writes whole lines, so several TLC workers are fine as long as no line is lost or
      # doubled: check_export compares with the number of distinct states.
      items = ck.gen("Shapes_Gen", g, workers=max(1, core.NCPU // 4), timeout=3 * 3600)
      check_export(ck, items, g)
      for it in items:
        exported[it["cfg"]["sys"]] += 1
      vacuity(items, branches)
      for name, want in (("ds", {"sys": "ds", "shape": [3, 4], "limit": 0, "bs": 2, "ptype": "INPUT"}),
                         ("tf", {"sys": "tf", "shape": [4, 6], "limit": 0, "bs": 2, "ptype": "ALL"}),
                         ("rs", {"sys": "rs", "shape": [3, 2], "limit": 2, "bs": 2, "ptype": "ALL"})):
        ex = next((it for it in items if it["cfg"] == want), None)
        if ex is not None and name not in sampled:
          sampled.add(name)
          ck.sample({"spec_behaviour_" + name: ex})
      run_cases(ck, items, g + " replay", nproc=(max(2, core.NCPU // 2) if th.is_alive() else None))
      done_tests |= selftests(ck, items, done_tests)
      del items
    ck.cov["exported_cases"] = exported
    ck.cov["branches_replayed"] = {k: int(v) for k, v in branches.items()}
    never = [k for k, v in branches.items() if v == 0 and k != "shape_only_cases"]
    if never:
      raise core.MachineryError(f"vacuous replay: branches never exercised: {never}")
    if len(done_tests) < 9:
      raise core.MachineryError(f"only {len(done_tests)} of 9 replay self-tests could be built")
    for k, v in exported.items():
      if v == 0:
        raise core.MachineryError(f"no {k} case exported")
    # ---- V ---------------------------------------------------------------------------------
    trace_leg(ck, 160 if quick else 1500)
    ck.calib("elementwise_index_comparison_abs", 0.0, 0.0)   # integers below 2^53 in float64: exact, no tolerance
    ck.assume("tensors are index-valued (element k holds k+1, float64 under x64): every comparison is exact")
    ck.assume("Tearfree rejections: a rejection predicted by the specification and raised by an explicit "
              "ValueError of the code is agreement; the reason text is not compared")
    ck.assume("identity / diagonal tag matrices: products of integers below 2^53, exact in float64")
  finally:
    th.join()
  if mc_err:
    raise mc_err[0]
