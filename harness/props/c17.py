"""C17 - Sketchy memory reallocation respects the memory budget.

M: spec/Realloc (the per-group loop of tearfree/reallocation.py:create_redist_dict, one action per source
   step, float ties explicit) exhaustively with TLC: 1 <= rank <= dim, sum(rank) <= n*base at termination,
   the three source asserts unreachable, resource / leftover conservation.
R: every complete behaviour exported by Realloc_Gen; the instances are driven through the REAL
   create_redist_dict on synthetic in-memory states (every scoring rule that can realise the integer scores,
   running_average on/off, 'dim' entry or eigvecs shape, several groups per call, scores scaled by
   non-dyadic constants so that float ties really go both ways).  The real allocation must be one of the
   allocations the specification allows for the instance; allowed allocations the real function never
   produced are reported in evidence as unused_spec_branches.
V: random multi-layer instances with float scores (moderate, tied, zero, scale-disparate), the repository's
   own recorded checkpoint; the per-group integer results are validated by TLC against Realloc_Trace.
"""
import copy
import itertools

import numpy as np

from harness import core

LEVEL = "model_checking"
WORKER = "harness.workers.realloc_run"

# realisations of integer scores that are exact in float32 (the spec's ExactInputs = TRUE model applies)
EXACT_VARIANTS = [
    {"rule": "tail_rho", "avg": False, "dimfield": False},
    {"rule": "sketch_trace", "avg": False, "dimfield": True},
    {"rule": "ggt_trace", "avg": False, "dimfield": False},
    {"rule": "sketch_intrinsic_rank", "avg": False, "dimfield": True},
    {"rule": "tail_rho", "avg": True, "dimfield": True},
    {"rule": "sketch_trace", "avg": True, "dimfield": False},
]
# scores = float32(c * s): proportional to the integers, every sum/product rounded (ExactInputs = FALSE)
SCALES = [0.1, 1.0 / 3.0, 0.7, 3.3, 7e-9, 1.1e8, 0.0031415927, 49.0 / 81.0]


def pack_jobs(instances, variant_of, rs, keep=lambda i: True):
  """Pack instances (dicts n, dim, base, score) into calls: one call = one base rank, groups of distinct
  dims; the axes are scattered over layers with 1..3 axes each."""
  by = {}
  for idx, inst in enumerate(instances):
    if not keep(idx):
      continue
    by.setdefault((inst["base"], variant_of(idx)), {}).setdefault(inst["dim"], []).append(idx)
  jobs = []
  for (base, vkey), per_dim in sorted(by.items()):
    cols = [per_dim[d] for d in sorted(per_dim)]
    for row in itertools.zip_longest(*cols):
      idxs = [i for i in row if i is not None]
      jobs.append({"base": base, "vkey": vkey, "idxs": idxs})
  for j in jobs:
    slots = []
    for i in j["idxs"]:
      slots += [instances[i]["dim"]] * instances[i]["n"]
    perm = rs.permutation(len(slots))
    slots = [slots[p] for p in perm]
    layers, k, li = [], 0, 0
    while k < len(slots):
      m = int(rs.randint(1, 4))
      dims = slots[k:k + m]
      k += m
      path = [f"L{li}/kernel", f"enc/L{li}/kernel", f"w{li}", f"net/blk/L{li}/attn/kernel"][int(rs.randint(4))]
      if path.startswith("enc/") or path.startswith("net/"):
        path = path  # shared top-level prefixes are fine: create_redist uses setdefault
      layers.append({"path": path, "dims": dims})
      li += 1
    j["layers"] = layers
  return jobs


def judge(inst, ranks, allowed):
  """-> None if `ranks` is an allocation the specification allows for `inst`, else the failing clause."""
  n, dim, base = inst["n"], inst["dim"], inst["base"]
  if len(ranks) != n:
    return "group_size_mismatch"
  if any(r < 1 for r in ranks):
    return "rank_below_one"
  if any(r > dim for r in ranks):
    return "rank_above_dim"
  if sum(ranks) > n * base:
    return "group_over_budget"
  if tuple(ranks) not in allowed:
    return "allocation_not_allowed_by_spec"
  return None


def replay(ck, behaviours, quick, label="main", witness=False):
  # ---- group the exported behaviours by instance -------------------------------------------------
  inst_of, allowed_any, allowed_exact, tags_of = {}, {}, {}, {}
  for b in behaviours:
    key = (b["n"], b["dim"], b["base"], tuple(b["score"]))
    inst_of.setdefault(key, {"n": b["n"], "dim": b["dim"], "base": b["base"], "score": list(b["score"])})
    r = tuple(b["rank"])
    allowed_any.setdefault(key, set()).add(r)
    if "lowX" not in b["ties"]:
      allowed_exact.setdefault(key, set()).add(r)
    tags_of.setdefault((key, r), []).append(b["ties"])
  keys = sorted(inst_of)
  instances = [inst_of[k] for k in keys]
  ck.cov[f"replay_instances_{label}"] = len(instances)
  ck.cov[f"replay_spec_behaviours_{label}"] = len(behaviours)
  rs = np.random.RandomState(ck.seed + 17)

  # ---- which variants does each instance get -------------------------------------------------------
  # a round = (float model, instance filter, instance index -> variant key)
  has_choice = [len(allowed_any[k]) > 1 for k in keys]
  rounds = []
  if witness:
    for v in range(len(EXACT_VARIANTS)):
      rounds.append(("exact", lambda i: True, lambda i, v=v: ("exact", v)))
  elif quick:
    rounds.append(("exact", lambda i: True, lambda i: ("exact", (i + ck.seed) % len(EXACT_VARIANTS))))
    # scaled inputs: every instance where the spec has a choice twice, a quarter of the others once
    rounds.append(("scaled", lambda i: has_choice[i] or (i + ck.seed) % 4 == 0,
                   lambda i: ("scaled", (i + ck.seed) % len(SCALES), i % 2)))
    rounds.append(("scaled", lambda i: has_choice[i],
                   lambda i: ("scaled", (i // 3 + 3 + ck.seed) % len(SCALES), (i + 1) % 2)))
  else:
    for v in range(len(EXACT_VARIANTS)):
      rounds.append(("exact", lambda i: True, lambda i, v=v: ("exact", v)))
    for c in range(len(SCALES)):
      rounds.append(("scaled", lambda i, c=c: has_choice[i] or (i + c) % 4 == 0,
                     lambda i, c=c: ("scaled", c, (i + c) % 2)))
  jobs, meta = [], []
  for cls, flt, vof in rounds:
    for j in pack_jobs(instances, vof, rs, flt):
      vk = j["vkey"]
      if vk[0] == "exact":
        var = dict(EXACT_VARIANTS[vk[1]])
        scale = 1.0
      else:
        var = {"rule": ["tail_rho", "sketch_trace"][vk[2]], "avg": False, "dimfield": bool(vk[2])}
        scale = SCALES[vk[1]]
      by_group = {}
      for i in j["idxs"]:
        inst = instances[i]
        by_group[str(inst["dim"])] = [float(np.float32(scale) * np.float32(s)) if scale != 1.0 else float(s)
                                      for s in inst["score"]]
      jobs.append({"base": j["base"], "layers": j["layers"], "scores": {"by_group": by_group},
                   "want_scores": len(jobs) % 8 == 0, **var})
      meta.append({"cls": cls, "idxs": j["idxs"], "scale": scale, "var": var})
  ck.cov[f"replay_calls_{label}"] = len(jobs)
  res = core.run_workers(WORKER, jobs, work=ck.work)

  # ---- compare ---------------------------------------------------------------------------------------
  observed = {k: set() for k in keys}
  observed_exact = {k: set() for k in keys}
  nviol = 0
  for j, m, r in zip(jobs, meta, res):
    if r["error"]:
      e = r["error"]
      clause = "code_assertion_failed" if e["type"] == "AssertionError" else f"code_raised_{e['type']}"
      ck.violation(f"realloc|replay|{m['cls']}|{clause}",
                   f"create_redist_dict raised {e['type']}({e['msg']}) at `{e['where']}` on spec instance(s) "
                   f"{[instances[i] for i in m['idxs']]} rule={j['rule']} scale={m['scale']}",
                   {"job": j, "error": e})
      nviol += 1
      continue
    gd = {g["dim"]: g for g in r["groups"]}
    for i in m["idxs"]:
      inst, key = instances[i], keys[i]
      g = gd[inst["dim"]]
      # binding: the real scores are exactly the intended floats, in the group order
      want = [float(np.float32(np.float32(m["scale"]) * np.float32(s))) if m["scale"] != 1.0 else float(s)
              for s in inst["score"]]
      if j["want_scores"] and g["scores"] != want:
        raise core.MachineryError(f"score realisation failed: wanted {want} got {g['scores']} job={j}")
      allowed = allowed_exact[key] if m["cls"] == "exact" else allowed_any[key]
      clause = judge(inst, g["ranks"], allowed)
      ck.count(1, key=["R", key, m["cls"], j["rule"], m["scale"], j["avg"]])
      if clause:
        nviol += 1
        ck.violation(f"realloc|replay|{m['cls']}|{clause}",
                     f"instance n={inst['n']} dim={inst['dim']} base={inst['base']} scores={inst['score']} "
                     f"(rule {j['rule']}, scale {m['scale']}, avg {j['avg']}): real allocation {g['ranks']} "
                     f"(sum {sum(g['ranks'])}, budget {inst['n'] * inst['base']}); spec allows {sorted(allowed)}",
                     {"instance": inst, "job": j, "real": g, "allowed": sorted(allowed)})
      else:
        ck.traces_ok(1)
        observed[key].add(tuple(g["ranks"]))
        if m["cls"] == "exact":
          observed_exact[key].add(tuple(g["ranks"]))
  # ---- which allowed outcomes were never produced by the real function --------------------------------
  un_any, un_exact, choice = [], [], 0
  tagc = {"low_taken": 0, "high_taken": 0}
  for k in keys:
    if len(allowed_any[k]) > 1:
      choice += 1
    for r in sorted(allowed_any[k] - observed[k]):
      un_any.append({"n": k[0], "dim": k[1], "base": k[2], "score": list(k[3]), "rank": list(r),
                     "ties": tags_of[(k, r)][0]})
    for r in sorted(allowed_exact[k] - observed_exact[k]):
      un_exact.append({"n": k[0], "dim": k[1], "base": k[2], "score": list(k[3]), "rank": list(r),
                       "ties": tags_of[(k, r)][0]})
    for r in observed[k]:
      if all(any(t in ("lowX", "lowU") for t in ts) for ts in tags_of[(k, r)]):
        tagc["low_taken"] += 1
      else:
        tagc["high_taken"] += 1
  low_exact = sum(1 for k in keys for r in observed_exact[k]
                  if all(any(t == "lowU" for t in ts) for ts in tags_of[(k, r)] if "lowX" not in ts))
  ck.cov["unused_spec_branches" if label == "main" else f"unused_spec_branches_{label}"] = {
      "exact_inputs_model_observed_allocations_needing_a_low_tie": low_exact,
      "instances_with_more_than_one_allowed_allocation": choice,
      "allowed_allocations": sum(len(v) for v in allowed_any.values()),
      "never_observed_any_variant": len(un_any),
      "never_observed_exact_inputs_model": len(un_exact),
      "observed_allocations_needing_a_low_tie": tagc["low_taken"],
      "observed_allocations_without_low_tie": tagc["high_taken"],
      "examples_any": un_any[:5], "examples_exact": un_exact[:5]}
  return instances, keys, allowed_any, jobs, meta, res, nviol, low_exact


# ------------------------------------------------------------------------------------------------------
# V: float scores
# ------------------------------------------------------------------------------------------------------
DIM_POOL = [1, 2, 3, 4, 5, 8, 16, 64, 256, 1024]
BASE_POOL = [1, 2, 3, 4, 8, 16, 64, 256]


def absorption_class(scores, n, base):
  """'absorbing' if float32 accumulation of total_score can lose a remaining score relative to the rows
  still to hand out (max/min_positive * n*base >= 2^16), else 'plain'."""
  pos = [s for s in scores if s > 0]
  if not pos:
    return "plain"
  return "absorbing" if (max(pos) / min(pos)) * n * base >= 2.0 ** 16 else "plain"


def random_instance(rs, kind):
  nl = int(rs.randint(1, 7))
  shared = rs.rand() < 0.6
  pool = list(rs.choice(DIM_POOL, size=int(rs.randint(1, 4)), replace=False)) if shared else DIM_POOL
  layers = []
  for li in range(nl):
    na = int(rs.randint(1, 4))
    layers.append({"path": [f"Dense_{li}/kernel", f"enc/L{li}/kernel", f"w{li}"][int(rs.randint(3))],
                   "dims": [int(pool[rs.randint(len(pool))]) for _ in range(na)]})
  base = int(BASE_POOL[rs.randint(len(BASE_POOL))])
  by_axis = []
  tiedv = float(np.float32(10.0 ** rs.uniform(-3, 3)))
  for li, L in enumerate(layers):
    for a in range(len(L["dims"])):
      u = rs.rand()
      if kind == "moderate":
        v = 10.0 ** rs.uniform(-2, 2)
      elif kind == "tied_zero":
        v = 0.0 if u < 0.3 else (tiedv if u < 0.7 else 10.0 ** rs.uniform(-3, 3))
      elif kind == "disparate":
        v = 0.0 if u < 0.1 else 10.0 ** rs.uniform(-8, 8)
      elif kind == "integer":
        v = float(rs.randint(0, 7))
      else:
        raise ValueError(kind)
      by_axis.append([li, a, float(np.float32(v))])
  rule = ["tail_rho", "sketch_trace", "ggt_trace"][int(rs.randint(3))]
  if rule == "ggt_trace" and max(d for L in layers for d in L["dims"]) > 64:
    rule = "sketch_trace"
  return {"base": base, "rule": rule, "avg": bool(rs.rand() < 0.25), "dimfield": bool(rs.rand() < 0.5),
          "layers": layers, "scores": {"by_axis": by_axis}, "kind": kind}


CRAFTED = [  # float32 absorption in the running total (found by this leg; kept as deterministic probes)
    {"base": 5, "rule": "tail_rho", "avg": False, "dimfield": False, "kind": "disparate",
     "layers": [{"path": f"w{i}", "dims": [10]} for i in range(4)],
     "scores": {"by_axis": [[0, 0, 1e8], [1, 0, 7.0], [2, 0, 3.0], [3, 0, 3.0]]}},
    {"base": 256, "rule": "sketch_trace", "avg": False, "dimfield": True, "kind": "disparate",
     "layers": [{"path": f"Dense_{i}/kernel", "dims": [300]} for i in range(4)],
     "scores": {"by_axis": [[0, 0, 1e6], [1, 0, 7.3], [2, 0, 3.1], [3, 0, 3.3]]}},
]


def to_trace(job, r):
  if r["error"]:
    ev = [{"err": r["error"]["type"], "dim": 0, "n": 0, "ranks": []}]
  else:
    ev = [{"err": "none", "dim": g["dim"], "n": len(g["names"]), "ranks": g["ranks"]} for g in r["groups"]]
  pipe = bool(job.get("pipeline"))
  for e, g in zip(ev, r["groups"] if not r["error"] else []):
    e["used"] = g.get("used", []) if pipe else []
  for e in ev:
    e.setdefault("used", [])
  return {"cfg": {"base": job["base"], "pipeline": pipe}, "events": ev}


def job_class(job, r):
  """absorbing if any group of the call is absorbing (scores as the code saw them when available)."""
  dims = {}
  for li, a, v in job["scores"].get("by_axis", []):
    dims.setdefault(job["layers"][li]["dims"][a], []).append(v)
  cls = "plain"
  for d, sc in dims.items():
    if absorption_class(sc, len(sc), job["base"]) == "absorbing":
      cls = "absorbing"
  return cls


def validate(ck, jobs, res, label):
  traces = [to_trace(j, r) for j, r in zip(jobs, res)]
  verdicts = ck.validate("Realloc_Trace", "Realloc_Trace", traces)
  nacc = 0
  for j, r, t, v in zip(jobs, res, traces, verdicts):
    ck.count(1, key=["V", label, j.get("kind"), j["base"], j["rule"], str(j.get("layers"))[:200],
                     str(j.get("scores"))[:300]])
    if v["accepted"]:
      ck.traces_ok(1)
      nacc += 1
      continue
    cls = job_class(j, r) if not j.get("checkpoint") else "checkpoint"
    what = (f"{label}: create_redist_dict(rule={j['rule']}, sketchy_rank={j['base']}) on float scores: "
            f"{v['verdict']} at group {v['l']}")
    if r["error"]:
      what += f"; raised {r['error']['type']}{r['error']['msg']} at `{r['error']['where']}`"
    else:
      g = r["groups"][v["l"] - 1]
      what += f"; dim {g['dim']} scores {g['scores']} -> ranks {g['ranks']} (budget {len(g['names']) * j['base']})"
    ck.violation(f"realloc|float_scores|{cls}|{v['verdict']}", what, {"job": j, "result": r, "verdict": v})
  return traces, verdicts, nacc


TREES = [[[6, 5], [6, 4], [5, 4], [6, 6]], [[8, 3], [8, 8], [3, 8], [4, 4], [8, 4]], [[5, 5], [5, 5], [7, 5]],
         [[9, 2], [2, 9], [9, 9]]]


def pipeline(ck, quick):
  """Real Sketchy state -> create_redist_dict -> Sketchy(memory_alloc): see harness/workers/realloc_consume.py."""
  rs = np.random.RandomState(ck.seed + 1717)
  rules = ["sketch_trace", "tail_rho", "sketch_intrinsic_rank", "ggt_trace", "ggt_intrinsic_rank"]
  jobs = []
  for i in range(8 if quick else 48):
    tree = TREES[i % len(TREES)]
    jobs.append({"shapes": tree, "base": [2, 1, 3][i % 3], "T": 4, "T2": 3, "seed": int(rs.randint(1 << 30)),
                 "rule": rules[i % len(rules)], "avg": bool((i // 2) % 2),
                 # the ggt rules score the moving Gram matrix, which with decay 1 stays exactly 0 (weight 1 - decay):
                 # ggt_intrinsic_rank is then 0/0 = NaN, not a "non-negative score" C17 speaks about
                 "decay": 0.75 if rules[i % len(rules)].startswith("ggt") else [1.0, 0.75][(i // 3) % 2],
                 "scales": [float(10.0 ** rs.uniform(-2, 2)) for _ in tree], "pipeline": True,
                 "kind": "pipeline", "layers": tree, "scores": {}})
  res = core.run_workers("harness.workers.realloc_consume", jobs, work=ck.work, chunk=1)
  ok_jobs, ok_res = [], []
  for j, r in zip(jobs, res):
    for k, v in r["worst"].items():
      ck.calib(f"pipeline.{k}", v, {"twin_sketch": 1e-4, "twin_root": 1e-3, "update_direction": 1e-3}[k])
    if r["error"]:
      ck.violation(f"realloc|pipeline|{r['error']['where'].replace(' ', '_')}|code_raised_{r['error']['type']}",
                   f"pipeline {j['shapes']} base {j['base']} rule {j['rule']} avg {j['avg']}: {r['error']['where']} "
                   f"raised {r['error']['type']}: {r['error']['msg']}", {"job": j, "err": r["error"]})
      continue
    if r["mismatches"]:
      m = r["mismatches"][0]
      ck.violation(f"realloc|pipeline|{m['clause']}",
                   f"pipeline {j['shapes']} base {j['base']} rule {j['rule']} avg {j['avg']}: {m}",
                   {"job": j, "mismatches": r["mismatches"][:10], "groups": r["groups"]})
    ok_jobs.append(j); ok_res.append(r)
  hetero = sum(1 for r in ok_res for g in r["groups"] if len(set(g["ranks"])) > 1)
  ck.cov["pipeline_groups_with_unequal_ranks"] = hetero
  if ok_res and hetero == 0 and not ck.violations:
    raise core.MachineryError("vacuous pipeline leg: every group was given uniform ranks")
  if ok_jobs:
    validate(ck, ok_jobs, ok_res, "pipeline (real Sketchy state -> reallocation -> Sketchy)")
    ck.sample({"pipeline_groups": ok_res[0]["groups"], "pipeline_job": {k: ok_jobs[0][k] for k in ("shapes", "base", "rule", "avg")}})


def run(ck):
  quick = ck.quick
  # ---- M ------------------------------------------------------------------------------------------
  acts = ["Start", "Outlier", "Share", "EndMain", "Assert1", "Assert2", "LeftStep", "LeftEnd"]
  ck.mc("Realloc_MC", "Realloc_MC" if quick else "Realloc_MCT", required_actions=acts)
  ck.mc("Realloc_MC", "Realloc_MCE", required_actions=acts)      # the exact-input float model
  # ---- R ------------------------------------------------------------------------------------------
  beh = ck.gen("Realloc_Gen", "Realloc_Gen" if quick else "Realloc_GenT", timeout=2400)
  ck.sample({"spec_behaviour": beh[len(beh) // 2]})
  instances, keys, allowed_any, jobs, meta, res, nviol, _ = replay(ck, beh, quick)
  # tie witnesses: small integers beyond the exhaustive bound for which float32 s*(r/t) lands below the exact
  # integer quotient; they justify the "lowU" branch of the exact-input model on the real function
  wit = ck.gen("Realloc_Gen", "Realloc_GenW")
  low_exact = replay(ck, wit, quick, label="tie_witnesses", witness=True)[-1]
  if nviol == 0 and low_exact == 0:
    raise core.MachineryError("the exact-input model's low tie branch was never taken by the real function: "
                              "the model is over-permissive (or the witnesses no longer are witnesses)")
  # binding self-tests (R)
  k0 = next(k for k in keys if len(allowed_any[k]) == 1 and k[0] == 3 and sum(k[3]) > 0)
  good = next(iter(allowed_any[k0]))
  inst0 = {"n": k0[0], "dim": k0[1], "base": k0[2], "score": list(k0[3])}
  bumped = list(good)
  j = min(range(len(bumped)), key=lambda q: bumped[q])
  bumped[j] += 1
  ck.selftest("R: the allowed allocation itself passes and an allocation with one rank raised by one is "
              "flagged", judge(inst0, list(good), allowed_any[k0]) is None
              and judge(inst0, bumped, allowed_any[k0]) is not None)
  ks = next(k for k in keys if len(allowed_any[k]) == 1 and
            tuple(reversed(next(iter(allowed_any[k])))) != next(iter(allowed_any[k])))
  gs = next(iter(allowed_any[ks]))
  ck.selftest("R: a within-budget allocation given to the wrong axes (reversed) is flagged",
              judge({"n": ks[0], "dim": ks[1], "base": ks[2], "score": list(ks[3])}, list(reversed(gs)),
                    allowed_any[ks]) == "allocation_not_allowed_by_spec")
  # ---- V ------------------------------------------------------------------------------------------
  rs = np.random.RandomState(ck.seed + 1700)
  nrand = 600 if quick else 6000
  kinds = ["moderate", "tied_zero", "disparate", "integer"]
  vjobs = [random_instance(rs, kinds[i % 4]) for i in range(nrand)]
  vjobs += copy.deepcopy(CRAFTED)
  bases = [1, 2, 7, 64, 128, 256, 300, 512] if quick else list(range(1, 40)) + [64, 100, 128, 200, 256, 300, 512, 1024]
  vjobs += [{"checkpoint": True, "base": b, "rule": "sketch_trace", "avg": False, "kind": "checkpoint"}
            for b in bases]
  vres = core.run_workers(WORKER, vjobs, work=ck.work)
  traces, verdicts, nacc = validate(ck, vjobs, vres, "random float scores")
  ck.sample({"recorded_trace": traces[0], "scores": vjobs[0]["scores"], "layers": vjobs[0]["layers"]})
  ck.cov["float_score_calls"] = {"total": len(vjobs), "accepted": nacc,
                                 "absorbing": sum(1 for j, r in zip(vjobs, vres)
                                                  if not j.get("checkpoint") and job_class(j, r) == "absorbing")}
  if nacc == 0 and not ck.violations:
    raise core.MachineryError("vacuous V leg: no float-score call was accepted")
  pipeline(ck, quick)
  # binding self-tests (V): a synthetic well-formed trace is accepted; each corrupted logged field is rejected
  base = {"cfg": {"base": 2, "pipeline": True},
          "events": [{"err": "none", "dim": 3, "n": 3, "ranks": [3, 2, 1], "used": [3, 2, 1]},
                     {"err": "none", "dim": 7, "n": 1, "ranks": [2], "used": [2]}]}
  def mod(i, **kw):
    t = copy.deepcopy(base)
    t["events"][i].update(kw)
    return t
  synth = [copy.deepcopy(base), mod(0, ranks=[3, 2, 2]), mod(1, ranks=[0]), mod(0, ranks=[4, 1, 1]),
           mod(0, ranks=[3, 2]), mod(1, err="AssertionError", dim=0, n=0, ranks=[]), mod(0, used=[3, 2, 2])]
  sub = core.Check(ck.pid, ck.level, ck.tier, ck.seed); sub.work = ck.work
  vs = sub.validate("Realloc_Trace", "Realloc_Trace", synth)
  ck.selftest("V: a well-formed synthetic trace is accepted", vs[0]["accepted"])
  ck.selftest("V: a group one row over its budget is rejected", vs[1]["verdict"] == "group_over_budget")
  ck.selftest("V: an unassigned axis (rank 0) is rejected", vs[2]["verdict"] == "rank_below_one")
  ck.selftest("V: a rank above the axis dimension is rejected", vs[3]["verdict"] == "rank_above_dim")
  ck.selftest("V: an axis missing from its group is rejected", vs[4]["verdict"] == "group_size_mismatch")
  ck.selftest("V: an assertion failure of the code is rejected", vs[5]["verdict"] == "code_assertion_failed")
  ck.selftest("V: an axis whose Sketchy state holds another rank than allocated is rejected",
              vs[6]["verdict"] == "allocation_not_honoured_by_sketchy")
  ck.assume("scores in the replay leg are integers 0..5 (times a positive float constant): the rational "
            "model's tie rule covers float32 rounding only for such proportional inputs; arbitrary float "
            "scores are covered by the trace leg, which checks the budget, not the exact allocation")
  ck.assume("the group order is read from the code's own layers_and_axes/create_groups (python set order "
            "under PYTHONHASHSEED=0)")
