"""C02 - Distributed Shampoo update equals the documented blocked-Shampoo math.

M: spec/DSTerms (implementation-shaped term machine) refines spec/DSDoc (documented closed
   forms) for every configuration of the bounded option product; exact dyadic coefficients,
   gradients symbolic (i.e. for all gradient values).
R: TLC-exported behaviours (update as linear combination of per-step symbols + the symbols'
   definitions) interpreted in float64 (harness/refds.py, written from the documentation)
   on several parameter geometries and compared with the real optimizer's update,
   statistics and stored roots, float32 trees with jax_enable_x64 on.
"""
import copy

from harness import core

LEVEL = "model_checking"

G0 = {"block": 8, "merge": False, "merge_limit": 4096, "ptype": "ALL", "override": 0}
GEOS = [
    dict(G0, shapes=[[4, 3]]),
    dict(G0, shapes=[[6, 4], [5]], block=3),
    dict(G0, shapes=[[2, 3, 2]], merge=True, merge_limit=6),
    dict(G0, shapes=[[3, 4]], ptype="INPUT"),
    dict(G0, shapes=[[3, 4], [4]], ptype="OUTPUT"),
    dict(G0, shapes=[[4, 4]], override=3),
    dict(G0, shapes=[[2, 2, 2, 2]]),
    dict(G0, shapes=[[1, 3], [2, 1, 2]], merge=True),
    dict(G0, shapes=[[5, 2]], block=2),
    dict(G0, shapes=[[3], [2, 3]], block=2, ptype="INPUT", merge=True, merge_limit=2),
    dict(G0, shapes=[[], [3]]),                                    # rank 0 (no statistics, still grafted)
    dict(G0, shapes=[[2, 1, 3, 1]], merge=True, merge_limit=3),    # rank 4 with unit dims
    dict(G0, shapes=[[4, 3], [5]], memred=True),                   # int8-quantized momentum buffers
    dict(G0, shapes=[[2, 3, 2]], ptype="INPUT"),                   # rank 3, two of three axes preconditioned: p = 4
    dict(G0, shapes=[[2, 2, 3], [3]], ptype="OUTPUT"),             # rank 3, last axis only: p = 2
    dict(G0, shapes=[[4, 3], [3]], rel=False),                     # absolute ridge (relative_matrix_epsilon=False)
    dict(G0, shapes=[[4, 3]], gscale=2.0 ** 20),                   # gradients of scale 1e6 (un-grafted: update O(1))
    dict(G0, shapes=[[6, 5]], crank=2),                            # low-rank packed roots: 2 largest directions kept
    # ... smallest direction kept.  Only shapes whose Gram matrices have a UNIQUE smallest eigenvalue from the
    # first step on (7x6: ranks 6 of 7 and 6 of 6): with a tie at the cut the retained vector, and with it the
    # denoted matrix, is not determined (C10 states the denotation for a spectral gap at the cut)
    dict(G0, shapes=[[7, 6]], crank=-1),
]
TOL = {"update": 2e-3, "update_memred": 3e-2, "stats": 1e-5, "roots": 1e-3}


def replay(ck, beh, label, geos=GEOS):
  jobs = []
  for i, b in enumerate(beh):
    # diagonal_epsilon alternates between the default and a value large enough to tell
    # g/(sqrt(acc)+eps) from g/sqrt(acc+eps)
    geo = dict(geos[i % len(geos)], eigh=bool((i // len(geos)) % 2), diag_eps=[1e-10, 2.0 ** -6][(i // 3) % 2])
    if b["cfg"]["shard"] and [] in geo["shapes"]:
      # sharded mode with an un-skipped rank-0 parameter is the open C07 finding
      # ds|shard|zero_stat_unskipped_param: keep it out of the C02 comparison
      geo["shapes"] = [s if s else [2] for s in geo["shapes"]]
    jobs.append({"cfg": b["cfg"], "geo": geo, "steps": b["steps"], "seed": ck.seed * 10000 + i})
  res = core.run_workers("harness.workers.ds_terms", jobs, x64=True, work=ck.work)
  dev = 0
  for j, r in zip(jobs, res):
    c = j["cfg"]
    sig = f"{c['graft']}|{'shard' if c['shard'] else 'rep'}"
    ck.count(1, key=[c, j["geo"]])
    if r["error"]:
      ck.violation(f"ds|{sig}|{'internal_error' if r['kind'] == 'internal' else 'rejected'}",
                   f"{label}: optimizer raised {r['error']} for cfg={c} geo={j['geo']}", {"job": j, "tb": r["tb"]})
      continue
    dev += bool(r.get("deviated"))
    for k, v in r["worst"].items():
      ck.calib(k, v, TOL[k])
    if r["mismatches"]:
      m = r["mismatches"][0]
      ck.violation(f"ds|{sig}|{m['clause']}",
                   f"{label}: step {m['step']} param {m.get('param')}: {m['clause']} (rel. diff {m.get('detail')}); "
                   f"cfg={c} geo={j['geo']}", {"worker": "harness.workers.ds_terms", "x64": True, "job": j, "mismatches": r["mismatches"][:8]})
    else:
      ck.traces_ok(1)
  ck.cov["env_deviations"] = ck.cov.get("env_deviations", 0) + dev
  newton_dev = sum(1 for j, r in zip(jobs, res) if r.get("deviated") and not j["geo"].get("eigh") and not r["mismatches"])
  if newton_dev > max(2, len(jobs) // 20):
    ck.violation("ds|newton|roots_rejected_systematically",
                 f"{label}: the Newton root was rejected in {newton_dev} of {len(jobs)} well-conditioned runs",
                 {"jobs": [j for j, r in zip(jobs, res) if r.get("deviated")][:5]})
  return jobs, res


def probe_jobs(ck, n):
  import numpy as np
  rs = np.random.RandomState(ck.seed + 202)
  pick = lambda xs: xs[rs.randint(len(xs))]
  jobs = []
  for i in range(n):
    cfg = {"b1": pick([[0, 0], [1, 2], [1, 1], [3, 2]]), "b2": pick([[1, 0], [1, 1], [3, 2]]),
           "nest": bool(rs.randint(2)), "mavg": bool(rs.randint(2)),
           "wd": pick([[0, 0], [1, 3], [1, 2], [3, 3]]), "dwd": bool(rs.randint(2)), "dlr": bool(rs.randint(2)),
           "lr": pick([[1, 2], [1, 1], [1, 0], [3, 2]]), "lrs": pick(["const", "lin8"]), "graft": "SGD",
           "start": pick([0, 2]), "S": pick([1, 2, 3]), "P": pick([1, 2, 3]), "shard": bool(rs.randint(2)),
           "skip": bool(rs.randint(2))}
    jobs.append({"cfg": cfg, "T": 6, "seed": ck.seed * 1000 + i})
  return jobs


def probe_leg(ck, n):
  """V: coefficients of the linear regime measured on the real optimizer, validated by DSTerms_Trace."""
  jobs = probe_jobs(ck, n)
  res = core.run_workers("harness.workers.ds_probe", jobs, work=ck.work)
  traces = []
  for j, r in zip(jobs, res):
    if r["error"]:
      ck.violation(f"ds|probe|{'internal_error' if r['kind'] == 'internal' else 'rejected'}",
                   f"coefficient probe raised {r['error']} cfg={j['cfg']}", {"job": j, "tb": r["tb"]})
      continue
    if not r["structure_ok"]:
      ck.violation("ds|probe|update_not_supported_on_the_probed_entry",
                   f"unit-impulse response is not a multiple of the impulse; cfg={j['cfg']}", {"job": j})
      continue
    traces.append(r["trace"])
  verdicts = ck.validate("DSTerms_Trace", "DSTerms_Trace", traces)
  for t, v in zip(traces, verdicts):
    ck.count(1, key=["probe", t["cfg"]])
    if v["accepted"]:
      ck.traces_ok(1)
    else:
      ck.violation(f"ds|probe|{v['verdict']}",
                   f"coefficient probe: trace rejected at step {v['l'] - 1} ({v['verdict']}); cfg={t['cfg']}",
                   {"trace_module": "DSTerms_Trace", "trace": t, "verdict": v})
  ck.sample({"probe_trace": {"cfg": traces[0]["cfg"], "coef_row_T": traces[0]["coef"][-1], "cx": traces[0]["cx"]}})
  bad = copy.deepcopy(traces[0])
  m, e = bad["coef"][-1][-1]
  bad["coef"][-1][-1] = [m * 3 if m else 1, e]
  sub = core.Check(ck.pid, ck.level, ck.tier, ck.seed, parent=ck)
  ck.selftest("V: a measured coefficient altered by a factor 3 is rejected",
              not sub.validate("DSTerms_Trace", "DSTerms_Trace", [bad])[0]["accepted"])


def run(ck):
  quick = ck.quick
  ck.mc("DSTerms_MC", "DSTerms_MC" if quick else "DSTerms_MCT", required_actions=["Step"])
  # the term machine and the control skeleton (C03/C04's model) in lockstep tell the same story
  ck.mc("DSRefine_MC", "DSRefine_MC", required_actions=["Next"])
  beh = ck.gen("DSTerms_Gen", "DSTerms_Gen", simulate=(120 if quick else 1500), depth=6)
  ck.sample({"spec_behaviour": {"cfg": beh[0]["cfg"], "step1": beh[0]["steps"][0]}})
  replay(ck, beh, "DSTerms_Gen replay")
  # ---- binding self-tests: corrupt the expectation, the comparison must notice ------------
  base = next(b for b in beh if not b["cfg"]["skip"] and b["cfg"]["start"] == 0 and not b["cfg"]["shard"])
  bad1 = copy.deepcopy(base)           # drop the learning-rate factor from the last update
  for s in range(len(bad1["steps"][-1]["upd"]["S"])):
    m, e = bad1["steps"][-1]["upd"]["S"][s]
    bad1["steps"][-1]["upd"]["S"][s] = [m, max(e - 1, 0)] if m else [m, e]
  bad2 = copy.deepcopy(base)           # statistics decay weight wrong at step 2
  bad2["steps"][1]["stat"][1] = [3, 2]
  sub = core.Check(ck.pid, ck.level, ck.tier, ck.seed, parent=ck)
  _, res = replay(sub, [bad1, bad2], "selftest", geos=GEOS[:1])
  ck.selftest("R: wrong update coefficient is flagged", bool(res[0]["mismatches"]))
  ck.selftest("R: wrong statistics coefficient is flagged", bool(res[1]["mismatches"]))
  # ---- V: coefficient probing ------------------------------------------------------------------------
  probe_leg(ck, 64 if quick else 800)
  ck.assume("coefficient probing: in the linear regime (SGD graft, start never reached or parameter skipped) "
            "unit-impulse gradients / a unit parameter give dyadic coefficients that are exact in float32")
  ck.assume("symbols (Gram, inverse root, graft step, norm) are interpreted in float64 numpy from the "
            "documentation; the ridge of a Newton root is eps*lambda_max*10^(retries-1) with the retry "
            "count the optimizer itself reports")
  ck.assume("a root rejected by the acceptance gate on these well-conditioned statistics (condition number <= 2^10 "
            "after the ridge) is a violation on the eigh route (no failure mode there) and, on the Newton route, "
            "an environment deviation unless it happens in more than 5% of the runs (the coupled iteration's "
            "early-stop heuristic can bail out on benign input; 0 of 6000 sampled in this regime)")
  ck.assume("gradients are seeded dense normal tensors; relative ridge 2^-10 keeps the comparison well "
            "conditioned (float32 Gram noise in a null space would otherwise dominate)")
