"""Float64 numpy interpretation of the DSTerms/DSDoc symbols (independent of /repo).

Geometry (merge, blocks, per-axis Gram matrices, application of roots) follows the
documented blocked-Shampoo math; it deliberately re-implements it from the documentation
rather than calling the library.
"""
import itertools

import numpy as np


def dy(x):
  """dyadic [m, e] -> float"""
  return float(x[0]) / float(2 ** x[1])


def merge_dims(shape, limit):
  shape = list(shape)
  if shape and all(d == 1 for d in shape):
    return [1]
  out, prod = [], 1
  for d in shape:
    if prod * d <= limit:
      prod *= d
    else:
      if prod > 1:
        out.append(prod)
      prod = d
  if prod > 1:
    out.append(prod)
  return out


class Geometry:
  """merged shape, blocks (slices in axis-0-major order), preconditioned axes, exponent."""

  def __init__(self, shape, block_size, merge, merge_limit, ptype="ALL", exponent_override=0):
    self.orig = tuple(shape)
    self.shape = tuple(merge_dims(shape, merge_limit)) if merge else tuple(shape)
    rank = len(self.shape)
    cuts = []
    for d in self.shape:
      if 0 < block_size < d:
        edges = list(range(0, d, block_size)) + [d]
      else:
        edges = [0, d]
      cuts.append([(edges[i], edges[i + 1]) for i in range(len(edges) - 1)])
    self.blocks = [tuple(slice(a, b) for (a, b) in combo) for combo in itertools.product(*cuts)]
    if ptype == "ALL" or rank <= 1:
      self.axes = list(range(rank))
    elif ptype == "INPUT":
      self.axes = list(range(rank - 1))
    else:
      self.axes = [rank - 1]
    self.p = exponent_override if exponent_override else 2 * len(self.axes)

  def grams(self, g):
    """list over blocks of list over preconditioned axes of Gram matrices"""
    g = np.asarray(g, np.float64).reshape(self.shape)
    out = []
    for b in self.blocks:
      gb = g[b]
      per = []
      for a in self.axes:
        m = np.moveaxis(gb, a, 0).reshape(gb.shape[a], -1)
        per.append(m @ m.T)
      out.append(per)
    return out

  def apply(self, g, roots):
    """roots: list over blocks of list over preconditioned axes of matrices"""
    g = np.asarray(g, np.float64).reshape(self.shape)
    out = np.zeros_like(g)
    for bi, b in enumerate(self.blocks):
      gb = g[b]
      for k, a in enumerate(self.axes):
        gb = np.moveaxis(np.tensordot(roots[bi][k], gb, axes=[[1], [a]]), 0, a)
      out[b] = gb
    return out.reshape(self.orig)


def inv_root(a, p, eps, relative=True):
  a = np.asarray(a, np.float64)
  a = (a + a.T) / 2
  w, v = np.linalg.eigh(a)
  lam = max(w.max(), 0.0)
  d = eps * max(lam, 1e-25) if relative else eps
  w = np.maximum(w, 0.0) + d
  return (v * w ** (-1.0 / p)) @ v.T


def compressed_root(a, p, eps, r, relative=True):
  """Dense matrix denoted by the documented low-rank root (compression_rank = r): the inverse p-th root of
  a + d I with all but the |r| retained eigen-directions (largest eigenvalues for r > 0, smallest for r < 0)
  replaced by the mean of their root values."""
  a = np.asarray(a, np.float64)
  a = (a + a.T) / 2
  w, v = np.linalg.eigh(a)                      # ascending
  lam = max(w.max(), 0.0)
  d = eps * max(lam, 1e-6) if relative else eps
  inv = (np.maximum(w, 0.0) + d) ** (-1.0 / p)
  n = len(w)
  keep = np.arange(n - r, n) if r > 0 else np.arange(0, -r)
  rest = np.setdiff1d(np.arange(n), keep)
  inv2 = inv.copy()
  inv2[rest] = inv[rest].mean()
  return (v * inv2) @ v.T


def graft_step(kind, g, hist, coefs, diag_eps, clip=None):
  """lr-free graft step for gradient g; hist = list of past grads incl. g (1-based s),
  coefs = accumulator coefficients over steps (floats)."""
  g = np.asarray(g, np.float64)
  if kind in ("SGD", "NONE"):
    return g
  if kind == "SQRT_N":
    return np.sign(g)
  norm = kind.endswith("NORMALIZED")
  def sc(x):
    x = np.asarray(x, np.float64)
    return x / (np.linalg.norm(x) + 1e-25) if norm else x
  acc = sum(c * sc(h) ** 2 for c, h in zip(coefs, hist) if c != 0.0)
  u = sc(g) / (np.sqrt(acc) + diag_eps)
  if clip and kind.startswith("RMSPROP"):
    # clip_by_scaled_gradient_norm: u / max(1, (|u| / sqrt(n)) / clip)   (RMSProp grafts only)
    u = u / max(1.0, (np.linalg.norm(u) / np.sqrt(float(u.size))) / clip)
  return u
