"""./check <ID> [--tier quick|thorough] [--replay path]"""
import argparse
import importlib
import os
import sys
import traceback

from harness import core


def main():
  ap = argparse.ArgumentParser()
  ap.add_argument("pid")
  ap.add_argument("--tier", default=os.environ.get("VERIF_TIER", "quick"),
                  choices=["quick", "thorough"])
  ap.add_argument("--replay", default=None)
  a = ap.parse_args()
  seed = int(os.environ.get("VERIF_SEED", "0"))
  pid = a.pid.upper()
  try:
    mod = importlib.import_module(f"harness.props.{pid.lower()}")
  except ModuleNotFoundError:
    print(f"no check for {pid}", file=sys.stderr)
    return 2
  ck = core.Check(pid, mod.LEVEL, a.tier, seed)
  ck.replay = a.replay
  try:
    if a.replay:
      import inspect
      if "ck.replay" not in inspect.getsource(mod):     # modules that read ck.replay handle it themselves
        return core.replay_case(ck, a.replay)
    mod.run(ck)
    return ck.finish()
  except core.MachineryError as e:
    print(f"MACHINERY-ERROR {pid}: {e}", file=sys.stderr)
    return 2
  except Exception:
    traceback.print_exc()
    print(f"MACHINERY-ERROR {pid}: unexpected exception in harness", file=sys.stderr)
    return 2


if __name__ == "__main__":
  sys.exit(main())
