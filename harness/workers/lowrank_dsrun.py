"""Low-rank preconditioners inside a real Distributed Shampoo run (C10, leg R).

The optimizer runs with compression_rank = +-r (not frequent directions) on seeded dense
gradients.  After every update, for every statistic the stored packed preconditioner must denote
the root of the STORED statistics under the selection rule of spec/LowRank.tla (positive rank:
the r largest eigenvalues' directions, negative: the r smallest; the rest replaced by the mean of
their root values), and from start_preconditioning_step on the emitted update must be parallel
to the gradient multiplied by the dense denotations of the preconditioners stored after that
update (replicated mode preconditions with the roots it has just computed; SGD grafting only
rescales).

job = {o, shape, T, seed, tol, tol_dir}; result = {bad: [[step, stat, clause, detail]], worst}
"""
import traceback

import numpy as np
import jax.numpy as jnp

from harness import core
from harness.workers.fd_common import in_code_under_test as _icut
from harness.workers.lowrank_cases import denote


def expected_root(S, rank, p, eps, rel):
  """float64 reference following the selection rule of LowRank.tla (Selection / Partition)."""
  n = S.shape[0]
  r = abs(rank)
  w, U = np.linalg.eigh(S)
  ridge = eps * (max(w.max(), 1e-6) if rel else 1.0)
  h = np.power(np.maximum(w + ridge, ridge), -1.0 / p)
  keep = list(range(n - r, n)) if rank > 0 else list(range(r))
  rest = [i for i in range(n) if i not in keep]
  hexp = np.full(n, h[rest].mean())
  hexp[keep] = h[keep]
  gap = min(abs(w[k] - w[q]) for k in keep for q in rest) / max(w.max(), 1e-30)
  # float32 eigh resolves eigenvalues to ~1e-6 of the largest: the reference is meaningful only
  # where the smallest regularised eigenvalue is well above that
  cond = (w.min() + ridge) / max(w.max(), 1e-30)
  return (U * hexp[np.newaxis, :]) @ U.T, (gap if cond > 1e-3 else 0.0)


def handle(job):
  from harness import dsrun
  from precondition import distributed_shampoo as ds
  o, shape, T, tol = job["o"], tuple(job["shape"]), job["T"], job["tol"]
  rank = o["compression_rank"]
  r = abs(rank)
  rs = np.random.RandomState(job["seed"])
  bad, worst = [], {}
  try:
    runner = dsrun.Runner(o, [shape], job["seed"])
    ndim = len(shape)
    p = 2 * ndim
    for t in range(T):
      g = rs.standard_normal(shape).astype(np.float32) * np.float32(2.0 ** rs.randint(-2, 3))
      u = runner.host_update(runner.step({"p0": jnp.asarray(g)}))["p0"]
      st = runner.host_state().stats["p0"]
      if len(st.statistics) != ndim:
        raise core.MachineryError("unexpected number of statistics")
      want = g.astype(np.float64)
      for a in range(ndim):
        n = shape[a]
        S = np.asarray(st.statistics[a], np.float64)
        P = np.asarray(st.preconditioners[a])
        if not ds._should_compress(rank, n):
          if P.shape != (n, n):
            bad.append([t, a, "uncompressed_slot_shape", list(P.shape)])
          D = np.asarray(P, np.float64)
        else:
          if P.shape != (n, r + 2):
            bad.append([t, a, "compressed_slot_shape", list(P.shape)])
            continue
          V, e, c, hz = [np.asarray(x, np.float64) for x in ds._low_rank_unpack(jnp.asarray(P), rank)]
          D = denote(V, e, c, n)
          ref, gap = expected_root(S, rank, p, o.get("matrix_epsilon", 2.0 ** -10), o.get("relative_eps", True))
          if gap > 1e-2:               # the retained set is well defined
            dev = np.abs(D - ref).max() / np.abs(ref).max()
            worst["run_root"] = max(worst.get("run_root", 0.0), float(dev))
            worst["n_root"] = worst.get("n_root", 0) + 1
            if not dev <= tol:
              bad.append([t, a, "stored_root_vs_statistics", float(dev)])
          if bool(hz):
            bad.append([t, a, "has_zeros_set", 0])
        want = np.moveaxis(np.tensordot(D, want, axes=[[1], [a]]), 0, a)
      if t + 1 >= o.get("Start", 1) + 1:          # preconditioned steps: update parallel to want
        uu = np.asarray(u, np.float64).ravel()
        ww = want.ravel()
        cos = abs(uu @ ww) / max(np.linalg.norm(uu) * np.linalg.norm(ww), 1e-30)
        worst["run_dir"] = max(worst.get("run_dir", 0.0), float(1.0 - cos))
        worst["n_dir"] = worst.get("n_dir", 0) + 1
        if not 1.0 - cos <= job["tol_dir"]:
          bad.append([t, -1, "update_not_parallel_to_dense_denotation", float(1.0 - cos)])
  except core.MachineryError:
    raise
  except Exception as e:
    if not _icut(e):
      raise
    bad.append([-1, -1, "exception", f"{type(e).__name__}: {str(e)[:300]}"])
    return {"bad": bad, "worst": worst, "tb": traceback.format_exc()[-1500:], "kind": core.classify_exception(e)}
  return {"bad": bad, "worst": worst}


if __name__ == "__main__":
  core.worker_main(handle)
