"""Coefficient probing of the real Distributed Shampoo in its linear regime (code -> spec traces).

job = {cfg: DSTerms configuration record (dyadics as [m,e]), T, seed}
result = {trace: {cfg, T, coef, cx, events}, error}
"""
import traceback
from fractions import Fraction

import numpy as np

from harness import core, dsrun
from harness.refds import dy


def dyadic(x):
  f = Fraction(float(x))
  m, d = f.numerator, f.denominator
  e = d.bit_length() - 1
  if d != 1 << e:
    raise core.MachineryError(f"not dyadic: {x}")
  return [int(m), int(e)]


def handle(job):
  cfg, T, seed = job["cfg"], job["T"], job["seed"]
  shape = (2, 3)
  o = {"mode": "shard" if cfg["shard"] else "rep", "D": 1,
       "beta1": dy(cfg["b1"]), "beta2": dy(cfg["b2"]), "nesterov": cfg["nest"], "mavg": cfg["mavg"],
       "weight_decay": dy(cfg["wd"]), "dwd": cfg["dwd"], "dlr": cfg["dlr"], "lr": dy(cfg["lr"]),
       "lr_sched": "none" if cfg["lrs"] == "const" else "lin8", "graft": "SGD",
       "Start": 10 ** 6 if not cfg["skip"] else cfg["start"], "S": cfg["S"], "P": cfg["P"],
       "skip_rank_lt": 10 if cfg["skip"] else 0, "matrix_epsilon": 2.0 ** -10, "block_size": 8, "merge": False}
  try:
    import jax.numpy as jnp
    E = np.zeros(shape, np.float32); E[0, 1] = 1.0
    Z = np.zeros(shape, np.float32)
    runner = dsrun.Runner(o, [shape], seed, params={"p0": jnp.asarray(Z)})

    def run(grads, param):
      runner.params = {"p0": jnp.asarray(param)}
      runner.reset()
      outs = []
      for g in grads:
        outs.append(np.asarray(runner.host_update(runner.step({"p0": jnp.asarray(g)}))["p0"]))
      return outs

    coef = [[None] * T for _ in range(T)]
    structure_ok = True
    for s in range(T):
      outs = run([E if t == s else Z for t in range(T)], Z)
      for t in range(T):
        u = outs[t]
        c = float(u[0, 1])
        if np.abs(u - c * E).max() != 0.0:
          structure_ok = False
        coef[t][s] = dyadic(c)
    outs = run([Z] * T, E)
    cx = []
    for t in range(T):
      c = float(outs[t][0, 1])
      if np.abs(outs[t] - c * E).max() != 0.0:
        structure_ok = False
      cx.append(dyadic(c))
    big = max(abs(x[0]) for row in coef for x in row)
    if big >= 2 ** 30:
      raise core.MachineryError("coefficient does not fit TLC integers")
  except core.MachineryError:
    raise
  except Exception as e:
    return {"trace": None, "error": f"{type(e).__name__}: {e}", "kind": core.classify_exception(e),
            "tb": traceback.format_exc()[-1500:]}
  tcfg = dict(cfg, graft="SGD", start=(100 if not cfg["skip"] else cfg["start"]))
  return {"trace": {"cfg": tcfg, "T": T, "coef": coef, "cx": cx, "events": [0] * T},
          "structure_ok": structure_ok, "error": None}


if __name__ == "__main__":
  core.worker_main(handle)
