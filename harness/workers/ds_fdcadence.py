"""Replay of DSFDControl_Gen behaviours: which gradients the FD sketch of Distributed Shampoo has
absorbed (gradient averaging windows, reset).  Oracle: the code's own every-step FD optimizer fed
exactly the spec's windows (sum of the window's gradients / S) from a fresh state."""
import traceback

import numpy as np

from harness import core, dsrun


def dense(prec, rank):
  from precondition import distributed_shampoo as ds
  v, e, inv, const, tail, hz = ds._fd_low_rank_unpack(np.asarray(prec), rank)
  v = np.asarray(v, np.float64)
  return (v * np.asarray(e, np.float64)) @ v.T, float(tail)


def handle(job):
  cfg, steps, seed = job["cfg"], job["steps"], job["seed"]
  S, avg, R = cfg["S"], cfg["avg"], cfg["R"]
  rank = 2
  shapes = [(6, 6)]
  T = len(steps)
  # R is the DOCUMENTED period round(1 / (1 - beta2)); 0.62 gives 1 / 0.38 = 2.63 -> 3 (a truncation gives 2)
  beta2 = {0: 0.75, 3: 0.62, 4: 0.75, 6: 1.0 - 1.0 / 6.0}[R]
  o = {"mode": "rep", "fd": True, "compression_rank": rank, "reuse": True, "S": S, "P": S,
       "average_grad": avg, "reset": R != 0, "beta2": beta2, "block_size": 8, "merge": False,
       "matrix_epsilon": 0.0, "Start": 1, "graft": "SGD", "beta1": 0.0}
  mism, worst = [], {"fd_sketch_twin": 0.0, "fd_tail_twin": 0.0, "fd_sketch_mass": 0.0}
  try:
    import jax.numpy as jnp
    grads = dsrun.make_grads(shapes, ["ok"] * T, seed)
    r = dsrun.Runner(o, shapes, seed)
    # effective decay of the run (reset_preconditioner forces beta2 = 1)
    twin_o = dict(o, S=1, P=1, average_grad=False, reset=False, beta2=(1.0 if R != 0 else beta2))
    prev = None
    tw = dsrun.Runner(twin_o, shapes, seed)      # one compiled twin, state reset per comparison
    for t in range(T):
      r.step(grads[t])
      st = r.host_state().stats["p0"]
      precs = [np.asarray(p) for p in st.preconditioners]
      changed = prev is not None and any(a.tobytes() != b.tobytes() for a, b in zip(prev, precs))
      if prev is None:
        changed = True
      exp = steps[t]
      if changed and not exp["changed"]:
        mism.append({"clause": "fd_sketch_changed_off_cadence", "step": t})
      if exp["changed"] and not changed:
        mism.append({"clause": "fd_sketch_not_refreshed", "step": t})
      prev = precs
      # twin: feed the spec's windows
      tw.reset()
      for w in exp["sketch"]:
        g = sum(np.asarray(grads[n]["p0"], np.float32) for n in w)
        if avg:
          g = g / np.float32(S)
        tw.step({"p0": jnp.asarray(g)})
      tprecs = [np.asarray(p) for p in tw.host_state().stats["p0"].preconditioners]
      for k, (a, b) in enumerate(zip(precs, tprecs)):
        da, ta = dense(a, rank); db, tb = dense(b, rank)
        sc = max(np.abs(da).max(), np.abs(db).max(), abs(ta), abs(tb), 1e-30)
        d = float(np.abs(da - db).max() / sc); dt = abs(ta - tb) / sc
        worst["fd_sketch_mass"] = max(worst["fd_sketch_mass"], float(np.abs(da).max()))
        worst["fd_sketch_twin"] = max(worst["fd_sketch_twin"], d)
        worst["fd_tail_twin"] = max(worst["fd_tail_twin"], dt)
        if d > 1e-3 or dt > 1e-3:
          mism.append({"clause": "fd_sketch_does_not_reflect_absorbed_windows", "step": t, "stat": k,
                       "detail": [d, dt]})
  except Exception as e:
    return {"mismatches": [], "worst": worst, "error": f"{type(e).__name__}: {e}",
            "kind": core.classify_exception(e), "tb": traceback.format_exc()[-2000:]}
  return {"mismatches": mism, "worst": worst, "error": None}


if __name__ == "__main__":
  core.worker_main(handle)
