"""Replay of FD_Gen behaviours through the real optimizers (C09, leg R):

  dsrun  Distributed Shampoo with frequent_directions=True (harness/dsrun.Runner); the sketch
         is read from the packed preconditioner slot after every public update
  tfrun  Tearfree with second-order type Sketchy (harness/tfrun.Runner)

Every axis of the parameter tensor sees the SAME spec behaviour in its own random rotation:
the gradient is  sum_i sqrt(g_i) q^0_i (x) q^1_i (x) ...  so that the mode-a Gram matrix is
Q_a diag(g) Q_a'.  Axis a has size shape[a] >= d (untouched coordinates carry no mass).

job    = {impl, o, shape, behs, seed, tol}
result = {results: [{bad: [[step, axis, clause, detail]], worst}], error?}
"""
import traceback

import numpy as np
import jax.numpy as jnp

from harness import core
from harness.workers.fd_common import in_code_under_test as _icut
from harness.workers import fd_common as fc


def tensor_grad(Qs, g):
  shape = tuple(q.shape[0] for q in Qs)
  G = np.zeros(shape)
  for i, gi in enumerate(g):
    if gi > 0:
      t = np.sqrt(gi)
      for q in Qs:
        t = np.multiply.outer(t, q[:, i])
      G += t
  return G


def project_ds(runner, k, ndim, naxes=None):
  naxes = naxes or ndim          # number of preconditioned axes: the root exponent is 2 * naxes
  from precondition import distributed_shampoo as ds
  hs = runner.host_state()
  out = []
  for P in hs.stats["p0"].preconditioners:
    P = np.asarray(P)
    if P.shape[0] == P.shape[1] and P.shape[0] <= k + 2:
      out.append({"dense": True})      # axis too small to sketch: ordinary Shampoo statistics (not judged here)
      continue
    V, lam, inv, const, tail, hz = [np.asarray(x) for x in ds._fd_low_rank_unpack(jnp.asarray(P), k)]
    out.append({"V": V, "lam": lam, "tail": tail, "arg": fc.inv_to_arg(inv, 2 * naxes),
                "targ": fc.inv_to_arg(const, 2 * naxes), "hz": bool(hz),
                "inv": np.asarray(inv, np.float64), "const": float(const)})
  return out


def fd_direction(G, projs):
  """The gradient preconditioned along every axis by the matrix each stored packed FD preconditioner denotes:
  c (I - V V') + V diag(inv) V', the identity when the has-zeros flag is set (C10's reading of the layout)."""
  D = np.asarray(G, np.float64)
  for a, pr in enumerate(projs):
    n = D.shape[a]
    if pr["hz"]:
      continue
    V = np.asarray(pr["V"], np.float64)[:n]
    M = pr["const"] * (np.eye(n) - V @ V.T) + (V * pr["inv"][np.newaxis, :]) @ V.T
    D = np.moveaxis(np.tensordot(M, D, axes=([1], [a])), 0, a)
  return D


def project_tf(runner, ndim):
  ax = runner.project()["params"]["p0"]["axes"]
  out = []
  for a in ax:
    ev = np.asarray(a["eigvals"], np.float64)
    out.append({"V": a["eigvecs"], "lam": ev ** 2, "tail": a["tail"], "ev": ev,
                "arg": fc.inv_to_arg(a["inv_eigvals"], 2 * ndim),
                "targ": fc.inv_to_arg(a["inv_tail"], 2 * ndim)})
  return out


def handle(job):
  from harness import dsrun, tfrun
  impl, o, shape, tol = job["impl"], job["o"], tuple(job["shape"]), job["tol"]
  rs = np.random.RandomState(job["seed"])
  ndim = len(shape)
  try:
    if impl == "dsrun":
      runner = dsrun.Runner(o, [shape], job["seed"])
    else:
      runner = tfrun.Runner(o, [shape], job["seed"])
  except Exception as e:
    if not _icut(e):
      raise
    return {"results": [], "error": f"{type(e).__name__}: {e}", "kind": core.classify_exception(e),
            "tb": traceback.format_exc()[-1500:]}
  out = []
  for b in job["behs"]:
    cfg = b["cfg"]
    k = cfg["k"]
    bad, worst = [], {}
    try:
      if impl == "dsrun":
        runner.reset()
      else:
        runner.state = runner.tx.init(runner.params)
      Qs = [fc.orth(rs, n) for n in shape]
      for si, st in enumerate(b["steps"]):
        G = tensor_grad(Qs, st["g"])
        G32 = G.astype(np.float32)
        u = runner.step({"p0": jnp.asarray(G32)})
        nexp = ndim - 1 if (impl == "dsrun" and o.get("ptype") == "INPUT") else ndim
        projs = project_ds(runner, k, ndim, nexp) if impl == "dsrun" else project_tf(runner, ndim)
        if len(projs) != nexp:
          raise core.MachineryError(f"expected {nexp} sketches, found {len(projs)}")
        # well-posed only where the complement of the sketch has a definite weight: with escaped mass 0 and no
        # ridge the stored complement root is (float residue)^(-1/p) ~ 1e3..1e4 and amplifies the float32
        # rounding of the gradient itself (observed: direction decided by noise)
        e0 = fc.Exp(st, shape[0], cfg["bd"])
        posed = e0.t > 1e-3 * e0.scale
        if (impl == "dsrun" and not job.get("mixed") and o.get("beta1", 0.0) == 0.0 and si >= o["Start"]
            and np.any(G32) and posed and not any(pr.get("dense") for pr in projs) and len(projs) == ndim):
          # the emitted update (no momentum, no weight decay; grafting only rescales) must point along the
          # gradient preconditioned by the roots stored at this very step (P = 1, replicated mode)
          uu = -np.asarray(runner.host_update(u)["p0"], np.float64)
          dd = fd_direction(G32, projs)
          nu, nd = np.linalg.norm(uu), np.linalg.norm(dd)
          if np.isfinite(nu) and np.isfinite(nd) and nd > 0:
            dev = float(np.abs(uu / nu - dd / nd).max()) if nu > 0 else 1.0
            worst["update_direction"] = max(worst.get("update_direction", 0.0), dev)
            if dev > 1e-3:
              bad.append([si, -1, "update_is_not_the_fd_preconditioned_gradient", dev])
        for a, pr in enumerate(projs):
          if pr.get("dense"):
            continue
          e = fc.Exp(st, shape[a], cfg["bd"])
          eps = 0.0
          if impl == "tfrun":
            se = o.get("sk_eps", 1e-7)
            eps = se * e.maxarg if (o.get("sk_rel", True) and se > 0) else se
          w = {}
          for cl, det in fc.compare(pr, e, Qs[a], tol, w, eps=eps):
            bad.append([si, a, cl, det])
          for kk, v in w.items():
            worst[kk] = max(worst.get(kk, 0.0), v)
    except core.MachineryError:
      raise
    except Exception as e:
      if not _icut(e):
        raise
      bad.append([-1, -1, "exception", f"{type(e).__name__}: {e}"])
      out.append({"bad": bad, "worst": worst, "tb": traceback.format_exc()[-1500:],
                  "kind": core.classify_exception(e)})
      continue
    out.append({"bad": bad, "worst": worst})
  return {"results": out}


if __name__ == "__main__":
  core.worker_main(handle)
