"""C13 / R2 + R3b + V: the real Distributed Shampoo optimizer on D forced host devices.

The worker process is started with XLA_FLAGS=--xla_force_host_platform_device_count=max(Ds);
for every D in job["Ds"] (D = 1 first: the single-device reference) the same parameter tree,
options and seeded gradients are run under jax.pmap over the first D devices (modes pmap /
pmapq) or under jit inside a D-device mesh (mode shard).

job = {o, tree, Ds, T, seed, rec: {N, counts, sizes (per tree position), crank}, rows: {D: leading dim}}
result = {error, mismatches: [{clause, D, step, detail}], worst: {...}, traces: [...], nstat, ncompared}
"""
import traceback

import numpy as np

import jax

from harness import core, dsrun
from harness.workers.devices_idx import names_for, numeric_shapes
from harness.workers.ds_trace import spec_cfg

TOL = {"stats_xD": 1e-5, "roots_xD": 1e-3, "upd_xD": 1e-3,
       "stats_shard_vs_unsharded": 1e-4, "roots_shard_vs_unsharded": 5e-3}


# compressed mode: the retained eigen-subspace is computed by a differently fused program for every D;
# measured worst cross-D discrepancy of the dense denotation 4e-5 (thorough sweep) -> 5e-3
ROOTS_XD_COMPRESSED = 5e-3


def _rel(a, b):
  a = np.asarray(a, np.float64); b = np.asarray(b, np.float64)
  if a.shape != b.shape:
    return float("inf")
  fa, fb = np.isfinite(a), np.isfinite(b)
  if not (fa.all() and fb.all()):
    # fault histories: the non-finite entries must agree exactly, the finite ones within tolerance
    if not (np.array_equal(fa, fb) and np.array_equal(a[~fa], b[~fb], equal_nan=True)):
      return float("inf")
    a, b = a[fa], b[fb]
  if a.size == 0:
    return 0.0
  return float(np.abs(a - b).max() / max(np.abs(a).max(), np.abs(b).max(), 1e-30))


def dense(p, size, crank):
  """Dense matrix denoted by a stored preconditioner (packed low-rank layout of
  _low_rank_pack: eigenvectors | inverted eigenvalues, const, flag)."""
  p = np.asarray(p, np.float64)
  pd = crank + 2 if (crank and crank + 2 < size) else size
  p = p[:size, :pd]
  if pd == size:
    return p
  V = p[:, :crank]
  e = p[:crank, -2]
  c = p[0, -1]
  if p[-1, -2] != 0:        # has_zeros flag: the code skips preconditioning
    return np.eye(size)
  return c * (np.eye(size) - V @ V.T) + (V * e) @ V.T


def device_disagreement(tree, D):
  """First leaf (with a leading device axis) on which some device differs bytewise from device 0."""
  for path, x in jax.tree_util.tree_flatten_with_path(tree)[0]:
    a = np.asarray(x)
    if a.shape[:1] != (D,):
      return jax.tree_util.keystr(path), -1
    b0 = np.ascontiguousarray(a[0]).tobytes()
    for d in range(1, D):
      if np.ascontiguousarray(a[d]).tobytes() != b0:
        return jax.tree_util.keystr(path), d
  return None


def handle(job):
  o, tree, Ds, T, seed, rec = job["o"], job["tree"], job["Ds"], job["T"], job["seed"], job["rec"]
  mode, crank = o["mode"], o.get("compression_rank", 0)
  shapes = numeric_shapes(tree)
  names = names_for(len(tree))
  n = len(shapes)
  classes = job.get("classes") or ["ok"] * T      # fault histories: per-step lists of per-parameter classes
  mism, traces = [], []
  worst = {k: 0.0 for k in TOL}
  ref = None
  ncompared = 0
  nstat = None
  assert Ds[0] == 1
  unsh = None
  if mode == "shard":
    # the unsharded optimizer on one device: what every row of the global arrays must denote
    # (statistics and stored roots after each step; the sharded update itself applies the roots one
    # step late, so updates are compared across D only)
    try:
      _, ukept, _ = dsrun.trace_run(dict(o, mode="rep"), shapes, classes, seed, keep=True)
      unsh = ukept
    except Exception as e:
      return {"error": {"D": 0, "error": f"{type(e).__name__}: {e}"[:400], "kind": core.classify_exception(e),
                        "tb": traceback.format_exc()[-1500:]},
              "mismatches": mism, "worst": worst, "traces": [], "nstat": nstat, "ncompared": ncompared}
  for D in Ds:
    oD = dict(o, D=D)
    try:
      events, kept, r = dsrun.trace_run(oD, shapes, classes, seed, keep=True)
      proj = dsrun.project(r.host_state(), r.mode, n)
      # every device must hold what device 0 holds (same program, same inputs): bytewise
      dev_bad = None
      if mode in ("pmap", "pmapq"):
        r.reset()
        for t, g in enumerate(dsrun.make_grads(shapes, classes, seed)):
          u = r.step(g)
          bad = device_disagreement({"updates": u, "state": r.state}, D)
          if bad:
            dev_bad = {"step": t, "leaf": bad[0], "device": bad[1]}
            break
        # and the second pass must reproduce the first one on device 0
        again = dsrun.project(r.host_state(), r.mode, n)
        if dev_bad is None and [dsrun.sha(dsrun._bytes(x)) for x in again["precs"]] != kept[-1]["ph"]:
          dev_bad = {"step": T - 1, "leaf": "rerun differs from first run", "device": 0}
    except Exception as e:  # raised by the code under test
      return {"error": {"D": D, "error": f"{type(e).__name__}: {e}"[:400], "kind": core.classify_exception(e),
                        "tb": traceback.format_exc()[-1500:]},
              "mismatches": mism, "worst": worst, "traces": [], "nstat": nstat, "ncompared": ncompared}
    if dev_bad:
      mism.append({"clause": "devices_disagree", "D": D, "step": dev_bad["step"], "detail": dev_bad})
    # ---- binding of the spec's Collect step: statistics per parameter and their sizes -----------
    owner = proj["owner"]
    sizes = []                      # per statistic in projection order
    for i in range(n):
      k = names.index(f"p{i}")
      cnt = sum(1 for ow in owner if ow == i)
      if cnt != rec["counts"][k]:
        mism.append({"clause": "statistics_per_parameter", "D": D, "step": -1,
                     "detail": [f"p{i}", cnt, rec["counts"][k]]})
      sizes.extend(rec["sizes"][k][:cnt] + [0] * max(0, cnt - len(rec["sizes"][k])))
    nstat = len(owner)
    if mode != "shard":
      got = [int(np.asarray(dsrun._float(x)).shape[0]) for x in proj["stats"]]
      if got != sizes:
        mism.append({"clause": "statistic_sizes", "D": D, "step": -1, "detail": [got, sizes]})
    else:
      want_rows = job["rows"][str(D)]
      if proj["global_rows"] != want_rows:
        mism.append({"clause": "global_rows_after_update", "D": D, "step": T - 1,
                     "detail": [proj["global_rows"], want_rows]})
      M = proj["pad_rows_stats"][0].shape[0] if proj["pad_rows_stats"] else 0
      for q, row in enumerate(proj["pad_rows_stats"]):
        if not np.array_equal(row, np.eye(M, dtype=row.dtype)):
          mism.append({"clause": "padding_row_not_identity_after_update", "D": D, "step": T - 1, "detail": q})
      ex = np.asarray(r.host_state().stats.global_stats.exponents).astype(int).tolist()
      if ex != job["exps"][str(D)]:
        mism.append({"clause": "exponent_rows_after_update", "D": D, "step": T - 1,
                     "detail": [ex, job["exps"][str(D)]]})
    # ---- V: gate / cadence traces of this run -----------------------------------------------------
    cfg = spec_cfg(oD)
    for k, ev in enumerate(events if o.get("metrics", True) else []):   # no error figure without metrics
      traces.append({"cfg": cfg, "events": ev, "meta": {"o": oD, "tree": tree, "seed": seed, "stat": k}})
    # ---- cross-D: equal to the single-device run up to compilation-level rounding -------------------
    cur = {"stats": [[np.asarray(x, np.float64)[:s, :s] for x, s in zip(kp["stats"], sizes)] for kp in kept],
           "roots": [[dense(x, s, crank) for x, s in zip(kp["precs"], sizes)] for kp in kept],
           "upd": [[kp["upd"][f"p{i}"] for i in range(n)] for kp in kept],
           "raw_equal": [kp["sh"] + kp["ph"] for kp in kept]}
    if unsh is not None and D == 1:
      for t in range(T):
        us = {"stats": [np.asarray(x, np.float64) for x in unsh[t]["stats"]],
              "roots": [dense(x, s, crank) for x, s in zip(unsh[t]["precs"], sizes)]}
        for key, what in (("stats", "stats_shard_vs_unsharded"), ("roots", "roots_shard_vs_unsharded")):
          if len(us[key]) != len(cur[key][t]):
            mism.append({"clause": f"{key}_count_differs_from_unsharded", "D": D, "step": t,
                         "detail": [len(cur[key][t]), len(us[key])]})
            continue
          for q, (a, b) in enumerate(zip(cur[key][t], us[key])):
            d = _rel(a, b)
            ncompared += 1
            if d > TOL[what]:
              mism.append({"clause": f"{key}_rows_differ_from_unsharded_optimizer", "D": D, "step": t,
                           "detail": {"index": q, "rel": d}})
            else:
              worst[what] = max(worst[what], d)
    if D == 1:
      ref = cur
      continue
    for t in range(T):
      for key, what in (("stats", "stats_xD"), ("roots", "roots_xD"), ("upd", "upd_xD")):
        if len(cur[key][t]) != len(ref[key][t]):
          mism.append({"clause": f"{key}_count_differs_from_single_device", "D": D, "step": t,
                       "detail": [len(cur[key][t]), len(ref[key][t])]})
          continue
        for q, (a, b) in enumerate(zip(cur[key][t], ref[key][t])):
          d = _rel(a, b)
          ncompared += 1
          if d > (ROOTS_XD_COMPRESSED if (crank and what == "roots_xD") else TOL[what]):
            mism.append({"clause": f"{key}_differ_from_single_device", "D": D, "step": t,
                         "detail": {"index": q, "rel": d}})
          else:
            worst[what] = max(worst[what], d)
  return {"error": None, "mismatches": mism[:40], "worst": worst, "traces": traces, "nstat": nstat,
          "ncompared": ncompared}


if __name__ == "__main__":
  core.worker_main(handle)
