"""Replay of LowRank_Gen cases on the real functions of distributed_shampoo.py (C10, leg R).

  pack   _fd_low_rank_pack/_unpack and _low_rank_pack/_unpack on distinct-valued arrays: every
         value must sit in exactly the cell the spec names, everything else must be 0, unpack of
         an all-distinct matrix must read exactly the spec's cells; _precond_dim/_should_compress
  root   _low_rank_root on blockdiag(Q diag(a) Q', junk) with a prescribed spectrum (gap at the
         cut): the unpacked fields must denote Q diag(root(a_i + ridge) on the spec's retained
         directions, mean of the spec's averaged directions elsewhere) Q'
  apply  Preconditioner.preconditioned_grad / _precondition_block with packed / dense inputs vs
         numpy multiplication by the dense denotations on the axes the spec names

job = {case: <LowRank_Gen record>, seed, tol}; result = {bad: [[clause, detail]], worst: {...}}
Run with x64=True (float64 inputs) and x64=False (float32, production dtype).
"""
import traceback

import numpy as np
import jax
import jax.numpy as jnp

from harness import core
from harness.workers.fd_common import in_code_under_test as _icut
from harness.workers.fd_common import orth


def _dt():
  return jnp.float64 if jax.config.jax_enable_x64 else jnp.float32


# ---------------------------------------------------------------------------------------
def denote(V, e, const, n):
  V = np.asarray(V, np.float64)
  return float(const) * (np.eye(n) - V @ V.T) + (V * np.asarray(e, np.float64)[np.newaxis, :]) @ V.T


def case_pack(c, rs, tol):
  from precondition import distributed_shampoo as ds
  d, r = c["d"], c["r"]
  cells = {f: [tuple(x) for x in v] for f, v in c["cells"].items()}
  bad = []
  vecs = 100.0 + np.arange(d * r, dtype=np.float64).reshape(d, r)
  eig = 1000.0 + np.arange(r)
  inv = 2000.0 + np.arange(r)
  vals = {"eigvecs": vecs.reshape(-1), "eigvals": eig, "inv": inv, "const": [3000.0], "tail": [4000.0],
          "has_zeros": [1.0]}
  for rank in (r, -r):
    M = np.asarray(ds._fd_low_rank_pack(jnp.asarray(vecs, _dt()), jnp.asarray(eig, _dt()), jnp.asarray(inv, _dt()),
                                        3000.0, 4000.0, True, rank))
    if M.shape != (d, r + 2) or M.shape[1] != ds._precond_dim(rank, d):
      bad.append(["packed_shape", [list(M.shape), ds._precond_dim(rank, d)]])
      continue
    want = np.zeros((d, r + 2))
    for f, cs in cells.items():
      for (i, j), v in zip(sorted(cs), vals[f]):
        want[i, j] = v
    if not np.array_equal(M, want):
      where = np.argwhere(M != want)[0].tolist()
      bad.append(["fd_pack_cell_mismatch", {"rank": rank, "cell": where, "got": float(M[tuple(where)]),
                                             "want": float(want[tuple(where)])}])
    got = ds._fd_low_rank_unpack(jnp.asarray(M, _dt()), rank)
    names = ["eigvecs", "eigvals", "inv", "const", "tail", "has_zeros"]
    for nme, g in zip(names, got):
      g = np.asarray(g, np.float64).reshape(-1)
      if not np.array_equal(g, np.asarray(vals[nme], np.float64)):
        bad.append(["fd_unpack_roundtrip_" + nme, {"rank": rank, "got": g.tolist()[:6]}])
    # unpack alone, on a matrix whose cells are all distinct: reads exactly the spec's cells
    A = 1.0 + np.arange(d * (r + 2), dtype=np.float64).reshape(d, r + 2)
    got = ds._fd_low_rank_unpack(jnp.asarray(A, _dt()), rank)
    for nme, g in zip(names, got):
      w = np.array([A[i, j] for (i, j) in sorted(cells[nme])])
      g = np.asarray(g, np.float64).reshape(-1)
      if nme == "has_zeros":
        w = w.astype(bool).astype(np.float64)
      if not np.array_equal(g, w):
        bad.append(["fd_unpack_reads_wrong_cells_" + nme, {"rank": rank, "got": g.tolist()[:6], "want": w.tolist()[:6]}])
    # the non-FD wrappers
    M2 = np.asarray(ds._low_rank_pack(jnp.asarray(vecs, _dt()), jnp.asarray(inv, _dt()), 3000.0, rank))
    want2 = np.zeros((d, r + 2))
    for f in ("eigvecs", "inv", "const"):
      for (i, j), v in zip(sorted(cells[f]), vals[f]):
        want2[i, j] = v
    if not np.array_equal(M2, want2):
      where = np.argwhere(M2 != want2)[0].tolist()
      bad.append(["pack_cell_mismatch", {"rank": rank, "cell": where}])
    v2, e2, c2, s2 = ds._low_rank_unpack(jnp.asarray(M2, _dt()), rank)
    if not (np.array_equal(np.asarray(v2), vecs) and np.array_equal(np.asarray(e2), inv)
            and float(c2) == 3000.0 and not bool(s2)):
      bad.append(["unpack_roundtrip", {"rank": rank}])
    # _precond_dim / _should_compress
    for dim in range(1, d + 4):
      pd, sc = ds._precond_dim(rank, dim), bool(ds._should_compress(rank, dim))
      if sc != (pd < dim) or (sc and pd != r + 2) or pd > dim or (not sc and pd != dim):
        bad.append(["precond_dim_should_compress_disagree", {"rank": rank, "dim": dim, "pd": pd, "sc": sc}])
    if ds._precond_dim(0, d) != d or ds._should_compress(0, d):
      bad.append(["rank0_is_compressed", d])
  return bad, {}


_root_cache = {}


def case_root(c, rs, tol):
  from precondition import distributed_shampoo as ds
  d, rank, ps = c["d"], c["rank"], c["ps"]
  r = abs(rank)
  bad, worst = [], {}
  key = (d, rank)
  for rel in (False, True):
    if (key, rel) not in _root_cache:
      _root_cache[(key, rel)] = jax.jit(
          lambda m, p, eps, pst, _rel=rel: ds._low_rank_root(m, p, compression_rank=rank, ridge_epsilon=eps,
                                                             relative_matrix_epsilon=_rel, padding_start=pst)[0])
    f = _root_cache[(key, rel)]
    p = int([2, 4, 6, 8][rs.randint(4)])
    # spectrum of the real block, ascending, consecutive ratio >= 1.3 (gap at every possible cut)
    a = np.cumprod(1.3 + rs.uniform(0, 0.7, size=ps)) * 10.0 ** rs.uniform(-2, 1)
    # half of the cases are rank deficient: the z smallest eigenvalues are exactly 0 (z <= |r|, so a
    # negative rank still retains whole eigenspaces and the cut keeps its gap).  After the ridge a real
    # null direction has eigenvalue `ridge`, which must not be confused with a padding direction.
    deficient = bool(rs.randint(2)) and ps - r - 1 >= 1
    if deficient:
      z = int(rs.randint(1, min(r, ps - r - 1) + 1))
      a[:z] = 0.0
    # with a relative ridge the root value of a null direction is (eps * lambda_hat)^(-1/p) and inherits
    # the power iteration's stopping slack (lambda_hat in [lambda_max (1 - 1e-4), lambda_max]); the
    # effect of confusing a null direction with padding is of order 1
    # (the same slack reaches every direction whose eigenvalue is not far above the ridge - observed 4.4e-7 on a
    # full-rank spectrum against the 1e-6 of the absolute-ridge cases - so it applies to all relative-ridge cases)
    tol_c = max(tol, 2e-4) if rel else tol
    Q = orth(rs, ps)
    M = np.eye(d) * 7.0 + rs.standard_normal((d, d))     # junk in the padding region
    M = M + M.T
    M[:ps, :ps] = (Q * a[np.newaxis, :]) @ Q.T
    eps = [2.0 ** -10, 2.0 ** -4][rs.randint(2)] if not rel else 1e-6
    ridge = eps * (max(a.max(), 1e-6) if rel else 1.0)
    out = np.asarray(f(jnp.asarray(M, _dt()), jnp.asarray(p, jnp.int32), jnp.asarray(eps, _dt()),
                       jnp.asarray(ps, jnp.int32)), np.float64)
    V, e, const, hz = [np.asarray(x, np.float64) for x in ds._low_rank_unpack(jnp.asarray(out), rank)]
    h = np.power(a + ridge, -1.0 / p)                     # exact root values, by direction
    ids = lambda s: [i - (d - ps) - 1 for i in s]         # spec direction id -> index into a
    keep, avg = ids(c["keep"]), ids(c["avg"])
    if sorted(keep + avg) != list(range(ps)):
      raise core.MachineryError("spec case does not partition the real dimensions")
    cexp = h[avg].sum() / c["divisor"]
    hexp = np.full(ps, cexp)
    hexp[keep] = h[keep]
    want = (Q * hexp[np.newaxis, :]) @ Q.T
    got = denote(V[:ps], e, const, ps)
    sc = np.abs(want).max()
    dev = np.abs(got - want).max() / sc
    nm = "root_rel" if rel else "root_abs"
    worst[nm] = max(worst.get(nm, 0.0), float(dev))
    if not dev <= tol_c:
      bad.append(["root_denotation", {"rel": rel, "p": p, "dev": float(dev),
                                      "const": [float(const), float(cexp)]}])
    pad = float(np.abs(V[ps:]).max(initial=0.0))
    worst["padding_rows"] = max(worst.get("padding_rows", 0.0), pad)
    if pad > 1e-6:
      bad.append(["eigvecs_reach_into_padding", pad])
    if bool(hz):
      bad.append(["has_zeros_set_by_low_rank_root", 0])
    # the retained eigenvalues themselves, as a multiset (selection rule)
    dsel = np.abs(np.sort(e) - np.sort(h[keep])).max() / sc
    worst["selection"] = max(worst.get("selection", 0.0), float(dsel))
    if not dsel <= tol_c:
      bad.append(["retained_root_values", {"got": np.sort(e).tolist(), "want": np.sort(h[keep]).tolist()}])
  return bad, worst


def case_apply(c, rs, tol):
  from precondition import distributed_shampoo as ds
  shape, r, ptype = tuple(c["shape"]), c["r"], c["ptype"]
  bad, worst = [], {}
  for sign in (1, -1):
    rank = sign * r
    pre = ds.Preconditioner(jnp.zeros(shape, _dt()), max(shape) + 1, 4096, False,
                            ds.PreconditionerType[ptype], rank)
    pshapes = pre.shapes_for_preconditioners()
    met = sorted(c["met"], key=lambda m: m["prec"])      # flat list order = statistics axis order
    if len(pshapes) != len(met):
      bad.append(["number_of_preconditioners", [len(pshapes), len(met)]])
      continue
    for flagged in (False, True):
      precs, dense = [], {}
      for m, ps_ in zip(met, pshapes):
        n = shape[m["prec"] - 1]                  # built from the statistics of axis m.prec ...
        comp = list(ps_) == [n, r + 2] and r + 2 < n
        if comp != (m["kind"] == "lowrank") or (not comp and list(ps_) != [n, n]):
          bad.append(["slot_shape_vs_spec_kind", [list(ps_), m]])
        if comp:
          V = orth(rs, n)[:, :r]
          e = rs.uniform(0.5, 2.0, size=r)
          const = float(rs.uniform(0.1, 0.4))
          hz = flagged and (m["axis"] % 2 == 1)
          P = ds._fd_low_rank_pack(jnp.asarray(V, _dt()), jnp.asarray(rs.uniform(1, 2, size=r), _dt()),
                                   jnp.asarray(e, _dt()), const, 0.125, hz, rank) if flagged else \
              ds._low_rank_pack(jnp.asarray(V, _dt()), jnp.asarray(e, _dt()), const, rank)
          # the denotation is built from the SAME stored fields
          v_, e_, c_, s_ = [np.asarray(x, np.float64) for x in ds._low_rank_unpack(P, rank)]
          dense[m["axis"]] = np.eye(n) if bool(s_) else denote(v_, e_, c_, n)   # ... applied to axis m.axis
        else:
          A = rs.standard_normal((n, n))
          A = A @ A.T / n + 0.1 * np.eye(n)
          P = jnp.asarray(A, _dt())
          dense[m["axis"]] = np.asarray(P, np.float64)
        precs.append(P)
      g = rs.standard_normal(shape)
      want = np.asarray(jnp.asarray(g, _dt()), np.float64)
      for ax, D in dense.items():
        want = np.moveaxis(np.tensordot(D, want, axes=[[1], [ax - 1]]), 0, ax - 1)
      try:
        got = np.asarray(pre.preconditioned_grad(jnp.asarray(g, _dt()), list(precs)), np.float64)
        got2 = np.asarray(pre._precondition_block(
            jnp.asarray(g, _dt()), pre.should_precondition_dims(),
            pre._preconds_for_grad(list(precs), len(shape), 0, len(precs))), np.float64)
      except Exception as e:
        if not _icut(e):
          raise
        bad.append(["apply_exception", f"rank={rank} {type(e).__name__}: {str(e)[:200]}"])
        continue
      if list(pre.should_precondition_dims()) != list(c["should"]):
        bad.append(["should_precondition_dims", [list(pre.should_precondition_dims()), c["should"]]])
      for nm, x in (("preconditioned_grad", got), ("precondition_block", got2)):
        if x.shape != want.shape:
          bad.append([nm + "_shape", [list(x.shape), list(want.shape)]])
          continue
        dev = np.abs(x - want).max() / max(np.abs(want).max(), 1e-30)
        worst["apply"] = max(worst.get("apply", 0.0), float(dev))
        if not dev <= tol:
          bad.append([nm + "_vs_dense_denotation", {"rank": rank, "flagged": flagged, "dev": float(dev)}])
  return bad, worst


CASES = {"pack": case_pack, "root": case_root, "apply": case_apply}


def handle(job):
  rs = np.random.RandomState(job["seed"])
  c = job["case"]
  try:
    bad, worst = CASES[c["part"]](c, rs, job["tol"])
    return {"bad": bad, "worst": worst}
  except core.MachineryError:
    raise
  except Exception as e:
    if not _icut(e):
      raise
    return {"bad": [["exception", f"{type(e).__name__}: {str(e)[:300]}"]], "worst": {},
            "tb": traceback.format_exc()[-1500:], "kind": core.classify_exception(e)}


if __name__ == "__main__":
  core.worker_main(handle)
