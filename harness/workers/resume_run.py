"""C14: crash schedules (from spec/Resume_Gen) executed on the real optimizers.

  Save         = flax.serialization.to_bytes(state)
  CrashRestore = a NEW optimizer object built from the same hyper-parameters,
                 template = new.init(params), from_bytes(template, bytes), every leaf -> jnp.asarray
  Step         = update with the seeded gradient of the step being (re)done

Everything is compared BYTEWISE with the uninterrupted run of the same configuration executed
in the same process: the serialised live state after every action with the serialised state of
the uninterrupted run at the same count, every update with the uninterrupted run's update for the
same gradient index, and the treedef (it contains the static fields of QuantizedValue /
LocalShardedParameterStats) of a restored state with the live one.

job kinds
  {kind: "sched", variant, shapes, T, seed, eager, schedules: [[{a, ca}, ...], ...]}
      -> {error, results: [{mismatches: [...], events: [...]}], restores}
  {kind: "xref", variant, shapes, T, seed, ks}     uninterrupted run; checkpoints at counts ks
      -> {error, saves: {k: hex}, upd: [hex per step], state_sha: [per count]}
  {kind: "xresume", variant, shapes, T, seed, k, blob}   a fresh PROCESS resumes from count k
      -> {error, upd: {step: hex}, state_sha: {count: sha}}
"""
import contextlib
import hashlib
import io
import traceback

import numpy as np

import jax
import jax.numpy as jnp
from flax import serialization

from harness import core, dsrun


NP_TOL = 1e-4


def _sha(b):
  return hashlib.sha256(b).hexdigest()[:16]


class Box:
  """One optimizer OBJECT (fresh closure, fresh jit cache entry) with its state."""

  def __init__(self, variant, shapes, seed, eager=False, np_leaves=False):
    kind, o = variant["kind"], variant["o"]
    self.kind = kind
    self.eager = eager
    self.np_leaves = np_leaves
    self.shapes = [tuple(s) for s in shapes]
    if kind == "ds":
      self.r = dsrun.Runner(o, shapes, seed)
      if eager:
        assert self.r.mode == "rep"
        self.r._upd = self.r.opt.update
      self.names = sorted(self.r.params)
    elif kind == "tf":
      from harness import tfrun
      self.r = tfrun.Runner(o, shapes, seed)
      if eager:
        self.r._upd = self.r.tx.update
      self.names = sorted(self.r.params)
    elif kind == "sm3":
      from precondition import sm3
      self.r = None
      self.params = dsrun.make_params(shapes, seed)
      self.opt = sm3.sm3(dsrun.lr_fn(o.get("lr_sched", "lin8"), o.get("lr", 0.25)),
                         beta1=o.get("beta1", 0.5), beta2=o.get("beta2", 0.75),
                         weight_decay=o.get("weight_decay", 0.0),
                         normalize_grads=o.get("normalize_grads", False))
      self._state = self.opt.init(self.params)
      self._upd = self.opt.update if eager else jax.jit(self.opt.update)
      self.names = sorted(self.params)
    else:
      raise ValueError(kind)

  @property
  def state(self):
    return self._state if self.r is None else self.r.state

  @state.setter
  def state(self, s):
    if self.r is None:
      self._state = s
    else:
      self.r.state = s

  def step(self, grads):
    if self.eager and not self.np_leaves:
      # op-by-op: a dry run from the same state object whose result is thrown away - the transformation
      # must not depend on how often it was called (jax leaves are immutable; hidden Python-side state is not)
      with contextlib.redirect_stdout(io.StringIO()):
        if self.r is None:
          self._upd(grads, self._state, self.params)
        else:
          self.r._upd(grads, self.r.state, self.r.params)
    if self.r is None:
      u, self._state = self._upd(grads, self._state, self.params)
    else:
      with contextlib.redirect_stdout(io.StringIO()):
        u = self.r.step(grads)
    return b"".join(np.ascontiguousarray(np.asarray(u[k])).tobytes() for k in self.names)

  def save(self):
    return serialization.to_bytes(self.state)

  def restore(self, blob):
    """self must be a FRESH object: its current state is the template produced by init."""
    template = self.state
    restored = serialization.from_bytes(template, blob)
    if self.np_leaves:
      # what flax hands back: host NumPy leaves, fed to the (op-by-op) update as they are; made writable
      # as pickle / np.load would return them, so that an in-place write is silent rather than an error
      self.state = jax.tree.map(lambda x: np.array(x) if isinstance(x, np.ndarray) else x, restored)
    else:
      self.state = jax.tree.map(jnp.asarray, restored)    # as most checkpoint loaders do
    return jax.tree.structure(self.state)

  def count(self):
    s = self.state
    if self.kind == "tf":
      with contextlib.suppress(Exception):
        return int(self.r.second_order_state().count)
      return None
    return int(np.asarray(s.count).reshape(-1)[0])


def leaf_types(state):
  """abstract type of every leaf: shape, dtype and weak_type (a weakly typed leaf promotes differently
  against 16-bit gradients; flax serialization does not preserve the flag)"""
  return tuple((tuple(np.shape(x)), str(getattr(x, "dtype", type(x).__name__)), bool(getattr(x, "weak_type", False)))
               for x in jax.tree.leaves(state))


def grads_for(box, T, seed):
  if box.kind == "tf":
    from harness import tfrun
    return tfrun.make_grads(box.shapes, ["ok"] * T, seed)
  return dsrun.make_grads(box.shapes, ["ok"] * T, seed)


def uninterrupted(variant, shapes, T, seed, eager):
  box = Box(variant, shapes, seed, eager)
  grads = grads_for(box, T, seed)
  sb = [box.save()]
  td = [(jax.tree.structure(box.state), leaf_types(box.state))]
  ub = []
  for t in range(T):
    ub.append(box.step(grads[t]))
    sb.append(box.save())
    td.append((jax.tree.structure(box.state), leaf_types(box.state)))
  return box, grads, sb, ub, td


def _corrupt(state):
  """Binding self-test helper: perturb one tensor of a restored state by one part in a thousand."""
  leaves, tdef = jax.tree.flatten(state)
  for i, x in enumerate(leaves):
    if x.dtype == jnp.float32 and x.size > 0 and float(jnp.abs(x).max()) > 0:
      leaves[i] = x * jnp.float32(1.001)
      break
  return jax.tree.unflatten(tdef, leaves)


def run_schedule(variant, shapes, T, seed, eager, sched, first, grads, sb, ub, td, stats, corrupt=False,
                 np_leaves=False):
  """first: the optimizer object of the uninterrupted run (its compiled program is reused for the
  segment before the first crash; every CrashRestore builds a new object)."""
  mism, events = [], []
  box = Box(variant, shapes, seed, eager) if eager else first   # op-by-op: no compile to save, fresh object
  # start from a fresh init state of the same object
  if eager:
    pass
  elif box.r is not None and hasattr(box.r, "reset"):
    box.r.reset()
  elif box.r is None:
    box._state = box.opt.init(box.params)
  else:                                 # tfrun.Runner has no reset
    with contextlib.redirect_stdout(io.StringIO()):
      box.r.state = box.r.tx.init(box.r.params)
  disk, disk_count = sb[0], 0           # a job that crashes before its first Save restarts from init
  count = 0
  for i, act in enumerate(sched):
    ev = {"a": act["a"], "cb": count, "sref": True, "uref": True, "tref": True}
    if act["a"] == "step":
      u = box.step(grads[count])
      ev["uref"] = (u == ub[count])
      if not ev["uref"]:
        a = np.frombuffer(u, np.float32); b = np.frombuffer(ub[count], np.float32)
        rel = float(np.abs(a.astype(np.float64) - b).max() / max(np.abs(b).max(), 1e-30)) if a.shape == b.shape else float("inf")
        if np_leaves and rel <= NP_TOL:
          # host NumPy leaves are combined by NumPy, not by XLA (no fused multiply-add): last-bit differences
          # are the environment's, not the optimizer's - this leg looks for O(1) effects of in-place writes
          ev["uref"] = True
          stats["np_leaf_worst"] = max(stats.get("np_leaf_worst", 0.0), rel)
        else:
          mism.append({"clause": "update_differs_from_uninterrupted", "at": i, "count": count, "rel": rel})
      count += 1
    elif act["a"] == "save":
      disk, disk_count = box.save(), count
    elif act["a"] == "crash":
      box = Box(variant, shapes, seed, eager, np_leaves)       # everything outside the state pytree is lost
      tdef = box.restore(disk)
      if corrupt:
        box.state = _corrupt(box.state)
      stats["restores"] += 1
      count = disk_count
      lt = leaf_types(box.state) if not np_leaves else td[count][1]     # NumPy leaves carry no weak_type
      ev["tref"] = (tdef == td[count][0]) and (lt == td[count][1])
      if tdef != td[count][0]:
        mism.append({"clause": "treedef_differs_after_restore", "at": i, "count": count,
                     "detail": [str(tdef)[:300], str(td[count][0])[:300]]})
      elif lt != td[count][1]:
        bad = [(a, b) for a, b in zip(lt, td[count][1]) if a != b][:3]
        mism.append({"clause": "leaf_type_differs_after_restore", "at": i, "count": count,
                     "detail": "restored (shape, dtype, weak_type) vs live: " + str(bad)})
    else:
      raise ValueError(act)
    live = box.save()
    ev["sref"] = (live == sb[count]) or np_leaves        # NumPy-leaf leg: updates are compared with a tolerance
    if not ev["sref"]:
      mism.append({"clause": {"step": "state_differs_from_uninterrupted",
                              "save": "save_changed_live_state",
                              "crash": "restored_state_differs_from_uninterrupted"}[act["a"]],
                   "at": i, "count": count})
    c = box.count()
    ev["ca"] = c if c is not None else count
    if ev["ca"] != act["ca"]:
      mism.append({"clause": "count", "at": i, "detail": [ev["ca"], act["ca"]]})
    events.append(ev)
    if mism:
      break
  return mism, events


def _err(e, where):
  return {"where": where, "error": f"{type(e).__name__}: {e}"[:400], "kind": core.classify_exception(e),
          "tb": traceback.format_exc()[-1500:]}


def handle(job):
  variant, shapes, T, seed = job["variant"], job["shapes"], job["T"], job["seed"]
  kind = job["kind"]
  try:
    if kind == "sched":
      eager = job.get("eager", False)
      first, grads, sb, ub, td = uninterrupted(variant, shapes, T, seed, eager)
      stats = {"restores": 0}
      results = []
      for sched in job["schedules"]:
        mism, events = run_schedule(variant, shapes, T, seed, eager, sched, first, grads, sb, ub, td, stats,
                                    corrupt=job.get("corrupt_restore", False),
                                    np_leaves=job.get("np_leaves", False))
        results.append({"mismatches": mism, "events": events})
      return {"error": None, "results": results, "restores": stats["restores"],
              "np_leaf_worst": stats.get("np_leaf_worst", 0.0),
              "state_bytes": len(sb[-1]), "treedef": str(td[-1][0])[:400]}
    if kind == "xref":
      box, grads, sb, ub, td = uninterrupted(variant, shapes, T, seed, False)
      return {"error": None, "saves": {str(k): sb[k].hex() for k in job["ks"]},
              "upd": [u.hex() for u in ub], "state_sha": [_sha(s) for s in sb]}
    if kind == "xresume":
      box = Box(variant, shapes, seed, False)
      box.restore(bytes.fromhex(job["blob"]))
      grads = grads_for(box, T, seed)
      upd, ssha = {}, {str(job["k"]): _sha(box.save())}
      for t in range(job["k"], T):
        upd[str(t)] = box.step(grads[t]).hex()
        ssha[str(t + 1)] = _sha(box.save())
      return {"error": None, "upd": upd, "state_sha": ssha}
    raise ValueError(kind)
  except Exception as e:       # raised by the code under test (or flax): data, not a crash
    return {"error": _err(e, kind), "results": []}


if __name__ == "__main__":
  core.worker_main(handle)
