"""C07 worker: construct -> init -> T updates (eager / jit / lax.scan carry) for one
configuration of distributed_shampoo / sm3 / tearfree (or tearfree's second-order
transforms used directly) and project what happened to the vocabulary of spec/Layout.tla.

job = {opt: "ds"|"sm3"|"tf"|"tfso", cfg: {...spec option record...}, tree: [[dims],...],
       T: 1..3, exec: "jit"|"eager"|"scan", seed, dtype: "float32"|"float64"}
  exec = "eager": T eager updates; "jit": T calls of the jitted update; "scan": the T updates run as
  ONE jitted lax.scan with the optimizer state as carry (the state must be a valid carry: same
  treedef / shapes / dtypes in and out, enforced by jax at trace time).
result = {
  outcome: "ok" | "explicit" | "internal",      # class of the first exception (if any)
  phase:   "construct" | "init" | "update" | "scan" | "sharded_fns" | "done",   # where it happened
  step:    index of the failing update (phase == "update"),
  error:   {type, msg, where, tb} | None,
  layout:  structural signature of the initial state (JSON mirror of Layout!InitLayout),
  clauses: [{clause, detail}]   self-consistency clauses that failed on a successful run:
           state_layout_changed, updates_layout, scan_carry, sharded_declared, sharded_pspec
  nupd:    number of successful updates
}
Nothing is judged against the specification here; that is the driver's (R) or TLC's (V) job.
"""
from __future__ import annotations

import contextlib
import io
import re
import time
import traceback

import numpy as np

import jax
import jax.numpy as jnp

from harness import core

from precondition import distributed_shampoo as ds
from precondition import sm3 as sm3_lib
from precondition.quantization_utils import QuantizedValue
from precondition.tearfree import grafting as tf_graft
from precondition.tearfree import momentum as tf_mom
from precondition.tearfree import optimizer as tf_opt
from precondition.tearfree import second_order as tf_so
from precondition.tearfree import shampoo as tf_sh
from precondition.tearfree import sketchy as tf_sk


# ---------------------------------------------------------------------------
# builders: spec option record -> real optimizer
# ---------------------------------------------------------------------------
def _lr(cfg):
  lr0 = 0.25
  if cfg.get("sched", "none") == "lin16":
    return lambda c: lr0 * (1.0 - jnp.minimum(c, 16) / 32.0)
  return lr0


def build_ds(c):
  from jax.sharding import PartitionSpec as PS
  kw = dict(
      learning_rate=_lr(c),
      block_size=c["bs"],
      beta1=c.get("beta1_8", 4) / 8.0,
      beta2=c.get("beta2_8", 8) / 8.0,
      matrix_epsilon=2.0 ** -10,
      weight_decay=c.get("wd_8", 0) / 8.0,
      start_preconditioning_step=c.get("Start", 1),
      preconditioning_compute_steps=c["P"],
      statistics_compute_steps=c["S"],
      best_effort_shape_interpretation=c["merge"],
      merge_small_dims_block_size=c["merge_bs"],
      graft_type=ds.GraftingType[c["graft"]],
      nesterov=c.get("nesterov", True),
      exponent_override=c.get("exp_override", 0),
      moving_average_for_momentum=c.get("mavg", False),
      skip_preconditioning_dim_size_gt=c["skip_dim_gt"],
      skip_preconditioning_rank_lt=c["skip_rank_lt"],
      relative_matrix_epsilon=c.get("rel_eps", True),
      precondtioner_type=ds.PreconditionerType[c["ptype"]],
      compression_rank=c["rank"],
      frequent_directions=c["fd"],
      average_grad=c["avg"],
      reset_preconditioner=c["reset"],
      reuse_preconditioner=c["reuse"],
      decoupled_learning_rate=c.get("dlr", True),
      decoupled_weight_decay=c.get("dwd", False),
      generate_training_metrics=c["metrics"],
      generate_fd_metrics=c["fd_metrics"],
      eigh=c["eigh"],
      best_effort_memory_usage_reduction=c["memred"],
      lobpcg_topk_precondition=c.get("lobpcg", 0),
      clip_by_scaled_gradient_norm=(c.get("clip_8", 0) / 8.0) or None,
  )
  if c.get("sched", "none") != "none":
    kw["decay_preconditioning_compute_steps"] = True
    kw["end_preconditioning_compute_steps"] = c.get("End", 20)
  if c["mode"] == "pmap":
    kw["batch_axis_name"] = "batch"
  if c["mode"] == "shard":
    kw["shard_optimizer_states"] = True
    kw["num_devices_for_pjit"] = c["D"]
    kw["statistics_partition_spec"] = PS("x", None, None)
    kw["preconditioner_partition_spec"] = PS("x", None, None)
  return ds.distributed_shampoo(**kw)


def build_sm3(c):
  return sm3_lib.sm3(learning_rate=_lr(c), beta1=c["beta1_8"] / 8.0, beta2=c["beta2_8"] / 8.0,
                     weight_decay=c["wd_8"] / 8.0, normalize_grads=c["normalize"])


def _tf_second_order_options(c):
  sh = tf_sh.Options(block_size=c["bs"], update_preconditioners_freq=c["PF"],
                     update_statistics_freq=c["SF"], second_moment_decay=c["decay_8"] / 8.0)
  sk = tf_sk.Options(rank=c["sk_rank"], second_moment_decay=c["decay_8"] / 8.0,
                     update_freq=c["SF"], add_ggt=c["add_ggt"], ekfac_svd=c["ekfac"],
                     linear_approx_tail=c["lin_tail"], relative_epsilon=c.get("sk_rel", True))
  return sh, sk


def build_tf(c):
  sh, sk = _tf_second_order_options(c)
  go = tf_graft.Options(
      grafting_type=tf_graft.GraftingType[c["graft"]],
      second_moment_decay=c["graft_decay_8"] / 8.0,
      start_preconditioning_step=c["Start"],
      skip_preconditioning_any_dim_gt=c["skip_dim_gt"],
      skip_preconditioning_rank1=c["skip_rank1"],
      min_dim_size_to_factor=c["min_factor"],
      multiply_by_parameter_scale=c["param_scale"],
      clipping_threshold=c["clip_8"] / 8.0,
      epsilon=-1.0 if c["graft_eps_neg"] else 1e-23,
  )
  soo = tf_so.Options(
      merge_dims=c["merge_dims"],
      second_order_type=(tf_so.SecondOrderType.SKETCHY if c["so"] == "sketchy"
                         else tf_so.SecondOrderType.SHAMPOO),
      shampoo_options=sh,
      sketchy_options=sk if c["so"] == "sketchy" and not c.get("sk_none", False) else None)
  mo = tf_mom.Options(ema=c["ema"], nesterov=c["nesterov"], momentum_decay=c["mom_8"] / 8.0,
                      weight_decay=c["wd_8"] / 8.0, weight_decay_after_momentum=c["wd_after"])
  return tf_opt.tearfree(_lr(c), tf_opt.TearfreeOptions(
      grafting_options=go, second_order_options=soo, momentum_options=mo))


def build_tfso(c):
  sh, sk = _tf_second_order_options(c)
  return tf_sk.apply(sk) if c["so"] == "sketchy" else tf_sh.apply(sh)


BUILD = {"ds": build_ds, "sm3": build_sm3, "tf": build_tf, "tfso": build_tfso}


# ---------------------------------------------------------------------------
# structural signature of a state tree (JSON mirror of the spec's layout values)
# ---------------------------------------------------------------------------
def _dt(d):
  try:
    return str(np.dtype(d)) if not hasattr(d, "dtype") or isinstance(d, np.dtype) else str(np.dtype(d.dtype))
  except Exception:
    return str(d)


def _leaf(x, strip):
  shp = list(x.shape)
  if strip is not None:
    if not shp or shp[0] != strip:
      return {"s": shp, "d": _dt(x.dtype), "no_device_axis": True}
    shp = shp[1:]
  return {"s": [int(v) for v in shp], "d": _dt(x.dtype)}


def _is_namedtuple(x):
  return isinstance(x, tuple) and hasattr(x, "_fields")


NIL = {"ty": "nil"}


def _slot(v, strip):
  """A QuantizedValue slot: [] means unused."""
  if isinstance(v, list) and not v:
    return dict(NIL)
  return sig(v, strip)


def sig(x, strip=None):
  """strip: number of devices whose leading axis is removed from every leaf (pmap)."""
  if isinstance(x, QuantizedValue):
    return {"ty": "QV", "q": _slot(x.quantized, strip), "dg": _slot(x.diagonal, strip),
            "b": _slot(x.bucket_size, strip), "qd": _dt(x.quantized_dtype),
            "ex": bool(x.extract_diagonal), "sh": [int(v) for v in x.shape]}
  if isinstance(x, ds.TrainingMetrics):
    leaves = jax.tree.leaves(x)
    has_fd = isinstance(x.fd, ds.FDDiagnostics)
    sigs = [_leaf(l, strip) for l in leaves]
    uniform = bool(sigs) and all(s == sigs[0] for s in sigs) and len(sigs[0]["s"]) == 1
    if uniform:
      return {"ty": "TM", "n": sigs[0]["s"][0], "d": sigs[0]["d"], "fd": has_fd, "nl": len(sigs)}
    return {"ty": "TM", "n": -1, "d": "mixed", "fd": has_fd, "nl": len(sigs),
            "detail": sorted({str(s) for s in sigs})[:6]}
  if hasattr(x, "__dataclass_fields__") and not isinstance(x, type):
    out = {"ty": type(x).__name__}
    for f in x.__dataclass_fields__:
      v = getattr(x, f)
      fld = x.__dataclass_fields__[f]
      if fld.metadata.get("pytree_node", True) is False:
        out[f] = _static(v)
      else:
        out[f] = sig(v, strip)
    return out
  if _is_namedtuple(x):
    out = {"ty": type(x).__name__}
    for f in x._fields:
      out[f] = sig(getattr(x, f), strip)
    return out
  if isinstance(x, dict):
    return {"ty": "dict", "v": [sig(x[k], strip) for k in sorted(x)]}
  if isinstance(x, tuple):
    return {"ty": "tuple", "v": [sig(v, strip) for v in x]}
  if isinstance(x, list):
    return [sig(v, strip) for v in x]
  if x is None:
    return {"ty": "None"}
  if hasattr(x, "shape") and hasattr(x, "dtype"):
    return _leaf(x, strip)
  return {"s": [], "d": "py_" + type(x).__name__}


def _static(v):
  if isinstance(v, (list, tuple)):
    return [_static(u) for u in v]
  if isinstance(v, (int, np.integer)):
    return int(v)
  if isinstance(v, (bool, str)):
    return v
  return _dt(v)


def _dslot(v):
  if isinstance(v, list) and not v:
    return dict(NIL)
  return sig_declared(v)


def sig_declared(x):
  """Signature of the tree returned by sharded_init_shape_and_dtype_fn: a leaf is
  [shape_list, dtype]; [] is "no leaf" (as in QuantizedValue's unused slots)."""
  if isinstance(x, list) and len(x) == 2 and isinstance(x[0], (list, tuple)) and \
      all(isinstance(v, (int, np.integer)) for v in x[0]) and not isinstance(x[1], (list, tuple, dict)):
    return {"s": [int(v) for v in x[0]], "d": _dt(x[1])}
  if isinstance(x, QuantizedValue):
    return {"ty": "QV", "q": _dslot(x.quantized), "dg": _dslot(x.diagonal),
            "b": _dslot(x.bucket_size), "qd": _dt(x.quantized_dtype),
            "ex": bool(x.extract_diagonal), "sh": [int(v) for v in x.shape]}
  if isinstance(x, ds.TrainingMetrics):
    leaves = jax.tree.leaves(x, is_leaf=lambda v: isinstance(v, list) and len(v) == 2 and isinstance(v[0], list))
    sigs = [sig_declared(l) for l in leaves]
    has_fd = isinstance(x.fd, ds.FDDiagnostics)
    uniform = bool(sigs) and all(s == sigs[0] for s in sigs) and len(sigs[0].get("s", [])) == 1
    if uniform:
      return {"ty": "TM", "n": sigs[0]["s"][0], "d": sigs[0]["d"], "fd": has_fd, "nl": len(sigs)}
    return {"ty": "TM", "n": -1, "d": "mixed", "fd": has_fd, "nl": len(sigs)}
  if hasattr(x, "__dataclass_fields__") and not isinstance(x, type):
    out = {"ty": type(x).__name__}
    for f in x.__dataclass_fields__:
      v = getattr(x, f)
      if x.__dataclass_fields__[f].metadata.get("pytree_node", True) is False:
        out[f] = _static(v)
      else:
        out[f] = sig_declared(v)
    return out
  if _is_namedtuple(x):
    out = {"ty": type(x).__name__}
    for f in x._fields:
      out[f] = sig_declared(getattr(x, f))
    return out
  if isinstance(x, dict):
    return {"ty": "dict", "v": [sig_declared(x[k]) for k in sorted(x)]}
  if isinstance(x, tuple):
    return {"ty": "tuple", "v": [sig_declared(v) for v in x]}
  if isinstance(x, list):
    return [sig_declared(v) for v in x]
  return {"s": [], "d": "unknown_" + type(x).__name__}


def skeleton(x, is_spec=False):
  """Which leaves exist (shapes / dtypes dropped): used to compare the partition-spec tree.
  A PartitionSpec counts as a leaf, [] and None as "no leaf"."""
  from jax.sharding import PartitionSpec
  if is_spec and isinstance(x, PartitionSpec):
    return "L"
  if isinstance(x, QuantizedValue):
    sl = lambda v: dict(NIL) if (v is None or (isinstance(v, list) and not v)) else skeleton(v, is_spec)
    return {"ty": "QV", "q": sl(x.quantized), "dg": sl(x.diagonal), "b": sl(x.bucket_size)}
  if isinstance(x, ds.TrainingMetrics):
    n = len(jax.tree.leaves(x, is_leaf=(lambda v: isinstance(v, PartitionSpec)) if is_spec else None))
    return {"ty": "TM", "nl": n, "fd": isinstance(x.fd, ds.FDDiagnostics)}
  if hasattr(x, "__dataclass_fields__") and not isinstance(x, type):
    out = {"ty": type(x).__name__}
    for f in x.__dataclass_fields__:
      v = getattr(x, f)
      if x.__dataclass_fields__[f].metadata.get("pytree_node", True) is False:
        out[f] = _static(v)
      else:
        out[f] = skeleton(v, is_spec)
    return out
  if _is_namedtuple(x):
    out = {"ty": type(x).__name__}
    for f in x._fields:
      out[f] = skeleton(getattr(x, f), is_spec)
    return out
  if isinstance(x, dict):
    return {"ty": "dict", "v": [skeleton(x[k], is_spec) for k in sorted(x)]}
  if isinstance(x, tuple):
    return {"ty": "tuple", "v": [skeleton(v, is_spec) for v in x]}
  if isinstance(x, list):
    return [skeleton(v, is_spec) for v in x]
  if x is None:
    return []          # None == "no leaf" for partition specs
  if hasattr(x, "shape") and hasattr(x, "dtype"):
    return "L"
  return "?" + type(x).__name__


def first_diff(a, b, path=""):
  """Path and values of the first difference between two JSON-like structures."""
  if type(a) != type(b):
    return path, a, b
  if isinstance(a, dict):
    for k in sorted(set(a) | set(b)):
      if k not in a or k not in b:
        return f"{path}.{k}", a.get(k, "<absent>"), b.get(k, "<absent>")
      d = first_diff(a[k], b[k], f"{path}.{k}")
      if d:
        return d
    return None
  if isinstance(a, list):
    if len(a) != len(b):
      return f"{path}[len]", len(a), len(b)
    for i, (u, v) in enumerate(zip(a, b)):
      d = first_diff(u, v, f"{path}[{i}]")
      if d:
        return d
    return None
  return None if a == b else (path, a, b)


def norm_path(p):
  """Path with indices removed: stable part of a violation key."""
  return re.sub(r"\[\d+\]", "[]", p or "")


def _short(v, n=160):
  s = str(v)
  return s if len(s) <= n else s[:n] + "..."


# ---------------------------------------------------------------------------
# running
# ---------------------------------------------------------------------------
class Failure(Exception):
  def __init__(self, phase, exc, step=None):
    super().__init__(phase)
    self.phase, self.exc, self.step = phase, exc, step


def _err(e):
  tb = traceback.extract_tb(e.__traceback__)
  last = tb[-1] if tb else None
  repo_frames = [f for f in tb if "/precondition/" in f.filename and "site-packages" not in f.filename]
  at = repo_frames[-1] if repo_frames else None
  return {"type": type(e).__name__, "msg": _short(e, 300),
          "where": f"{last.filename.split('/')[-1]}:{last.lineno} {last.name}" if last else "",
          "repo_frame": f"{at.filename.split('/')[-1]}:{at.name}" if at else "",
          "tb": "".join(traceback.format_exception(type(e), e, e.__traceback__))[-1800:]}


def _leafsig(tree):
  return [(tuple(l.shape), _dt(l.dtype)) for l in jax.tree.leaves(tree)]


def _same_layout(a, b):
  if jax.tree.structure(a) != jax.tree.structure(b):
    return False
  return _leafsig(a) == _leafsig(b)


def _quiet():
  return contextlib.redirect_stdout(io.StringIO())


def run(job, res):
  opt_kind, cfg, tree, T = job["opt"], job["cfg"], job["tree"], job["T"]
  dtype = np.dtype(job.get("dtype", "float32"))
  seed = job.get("seed", 0)
  rs = np.random.RandomState(seed)
  names = [f"p{i}" for i in range(len(tree))]
  mode = cfg.get("mode", "plain") if opt_kind == "ds" else "plain"
  D = cfg.get("D", 1) if mode in ("pmap", "shard") else 1
  clauses = res["clauses"]

  # ---- Construct ----------------------------------------------------------------
  try:
    with _quiet():
      tx = BUILD[opt_kind](cfg)
  except Exception as e:       # pylint: disable=broad-except
    raise Failure("construct", e)

  params = {n: jnp.asarray(rs.standard_normal(tuple(s)).astype(dtype)) for n, s in zip(names, tree)}
  grads = [{n: jnp.asarray(rs.standard_normal(tuple(s)).astype(dtype)) for n, s in zip(names, tree)}
           for _ in range(T)]
  mesh = None
  strip = None
  if mode == "pmap":
    devs = jax.devices()[:D]
    if len(devs) != D:
      raise core.MachineryError(f"need {D} devices, have {len(jax.devices())}")
    rep = lambda t: jax.tree.map(lambda x: jnp.stack([x] * D), t)
    rparams = rep(params)
    rgrads = [rep(g) for g in grads]
    strip = D
    init = lambda: jax.pmap(tx.init, axis_name="batch", devices=devs)(rparams)
    upd = jax.pmap(tx.update, axis_name="batch", devices=devs)
    step = lambda g, s: upd(g, s, rparams)
    the_params, the_grads = rparams, rgrads
  elif mode == "shard":
    from jax.sharding import Mesh
    devs = jax.devices()[:D]
    if len(devs) != D:
      raise core.MachineryError(f"need {D} devices, have {len(jax.devices())}")
    mesh = Mesh(np.array(devs), ("x",))
    try:
      fns = tx.init(None)
    except Exception as e:     # pylint: disable=broad-except
      raise Failure("init", e)
    def init():
      with mesh:
        return fns.init_fn(params)
    jupd = jax.jit(tx.update) if job["exec"] != "eager" else tx.update
    def step(g, s):
      with mesh:
        return jupd(g, s, params)
    the_params, the_grads = params, grads
  else:
    init = lambda: tx.init(params)
    jupd = jax.jit(tx.update) if job["exec"] != "eager" else tx.update
    step = lambda g, s: jupd(g, s, params)
    the_params, the_grads = params, grads

  # ---- InitState ------------------------------------------------------------------
  t0 = time.time()
  try:
    with _quiet():
      state0 = init()
  except core.MachineryError:
    raise
  except Exception as e:       # pylint: disable=broad-except
    raise Failure("init", e)
  res["layout"] = sig(state0, strip)
  res["secs"]["init"] = round(time.time() - t0, 2)

  # ---- sharded: the three descriptions ------------------------------------------------
  if mode == "shard":
    from jax.sharding import PartitionSpec as PS
    try:
      decl = fns.shape_and_dtype_fn(params)
      ppspec = {n: PS(*([None] * len(s))) for n, s in zip(names, tree)}
      pspec = fns.pspec_fn(params, ppspec, PS("x", None, None))
    except Exception as e:     # pylint: disable=broad-except
      raise Failure("sharded_fns", e)
    d = first_diff(_drop_static_shape(res["layout"]), _drop_static_shape(sig_declared(decl)))
    if d:
      clauses.append({"clause": "sharded_declared", "path": norm_path(d[0]),
                      "detail": f"at {d[0]}: init_fn has {_short(d[1])}, "
                      f"shape_and_dtype_fn declares {_short(d[2])}"})
    d = first_diff(skeleton(state0), skeleton(pspec, True))
    if d:
      clauses.append({"clause": "sharded_pspec", "path": norm_path(d[0]),
                      "detail": f"at {d[0]}: init_fn has {_short(d[1])}, "
                      f"pspec_fn has {_short(d[2])}"})
    # ranks of the partition specs must not exceed the ranks of the leaves they annotate
    bad = _pspec_rank_mismatch(state0, pspec)
    if bad:
      clauses.append({"clause": "sharded_pspec", "path": "rank", "detail": bad})

  # ---- tearfree second-order transforms: the praxis partition-spec description -----------------
  # (a second description of the same state: WeightHParams with shapes; it must describe the tree that
  #  init actually builds - the same multiset of leaf shapes)
  if opt_kind == "tfso":
    from precondition.tearfree import praxis_shim
    try:
      hp = {n: praxis_shim.WeightHParams(shape=list(sh_), init=None, dtype=jnp.float32, collections=None,
                                         tensor_split_dims_mapping=[-1] * len(sh_))
            for n, sh_ in zip(names, tree)}
      with _quiet():
        ps = tx.init_partition_spec(hp)
    except Exception as e:     # pylint: disable=broad-except
      raise Failure("pspec", e)
    is_w = lambda v: isinstance(v, praxis_shim.WeightHParams)
    # the partition-spec tree uses dicts where the state uses NamedTuples, so flattening orders differ
    # by construction: compare the multisets of leaf shapes
    decl_shapes = sorted(tuple(v.shape) for v in jax.tree.leaves(ps, is_leaf=is_w) if is_w(v))
    real_shapes = sorted(tuple(x.shape) for x in jax.tree.leaves(state0))
    if decl_shapes != real_shapes:
      k = next((i for i, (a, b) in enumerate(zip(decl_shapes, real_shapes)) if a != b),
               min(len(decl_shapes), len(real_shapes)))
      clauses.append({"clause": "tearfree_pspec", "path": f"leaf{k}",
                      "detail": f"init_partition_spec declares {len(decl_shapes)} leaves, init builds "
                                f"{len(real_shapes)}; first difference at leaf {k}: "
                                f"{decl_shapes[k:k + 1]} vs {real_shapes[k:k + 1]}"})
    res["tf_pspec_checked"] = True

  # ---- Update x T -----------------------------------------------------------------------
  t0 = time.time()
  state = state0
  do_scan = job["exec"] == "scan"
  for t in range(0 if do_scan else T):
    try:
      with _quiet():
        u, new_state = step(the_grads[t], state)
        jax.block_until_ready(u)
    except Exception as e:     # pylint: disable=broad-except
      raise Failure("update", e, t)
    if not _same_layout(new_state, state0):
      d = first_diff(sig(state0, strip), sig(new_state, strip))
      clauses.append({"clause": "state_layout_changed", "path": norm_path(d[0]) if d else "treedef",
                      "detail": f"after update {t + 1}: " + (f"at {d[0]}: {_short(d[1])} -> {_short(d[2])}" if d
                                                             else "tree structure differs (container types)")})
      state = new_state
      res["nupd"] = t + 1
      break
    if not _same_layout(u, the_params):
      d = first_diff(sig(the_params), sig(u))
      clauses.append({"clause": "updates_layout", "path": norm_path(d[0]) if d else "treedef",
                      "detail": f"update {t + 1}: " + (f"at {d[0]}: params {_short(d[1])} vs updates {_short(d[2])}"
                                                       if d else "tree structure differs")})
    state = new_state
    res["nupd"] = t + 1

  res["secs"]["updates"] = round(time.time() - t0, 2)
  # ---- the state as a lax.scan carry --------------------------------------------------------
  t0 = time.time()
  if do_scan and not clauses:
    stacked = jax.tree.map(lambda *xs: jnp.stack(xs), *grads)
    try:
      with _quiet():
        if mode == "pmap":
          def run_scan(gs, s, p):
            def body(c, g):
              uu, c2 = tx.update(g, c, p)
              return c2, uu
            return jax.lax.scan(body, s, gs)
          rstacked = jax.tree.map(lambda x: jnp.stack([x] * D), stacked)
          sT, us = jax.pmap(run_scan, axis_name="batch", devices=devs)(rstacked, init(), rparams)
        else:
          def body(c, g):
            uu, c2 = tx.update(g, c, params)
            return c2, uu
          if mesh is not None:
            with mesh:
              sT, us = jax.jit(lambda s, gs: jax.lax.scan(body, s, gs))(init(), stacked)
          else:
            sT, us = jax.jit(lambda s, gs: jax.lax.scan(body, s, gs))(init(), stacked)
        jax.block_until_ready(us)
    except Exception as e:     # pylint: disable=broad-except
      raise Failure("scan", e)
    res["secs"]["scan"] = round(time.time() - t0, 2)
    res["nupd"] = T
    if not _same_layout(sT, state0):
      d = first_diff(sig(state0, strip), sig(sT, strip))
      clauses.append({"clause": "scan_carry", "path": norm_path(d[0]) if d else "treedef",
                      "detail": "final carry layout differs from the initial state" +
                                (f" at {d[0]}: {_short(d[1])} -> {_short(d[2])}" if d else "")})
    want = jax.tree.map(lambda x: jnp.stack([x] * T, axis=1 if mode == "pmap" else 0), the_params)
    if not _same_layout(us, want):
      d = first_diff(sig(want), sig(us))
      clauses.append({"clause": "updates_layout", "path": norm_path(d[0]) if d else "treedef",
                      "detail": "stacked updates of the scan: " +
                                (f"at {d[0]}: params {_short(d[1])} vs updates {_short(d[2])}" if d
                                 else "tree structure differs")})
  return res


def _drop_static_shape(s):
  """QuantizedValue.shape is bookkeeping (list(quantized.shape) vs list(param.shape)); compare
  it separately from the leaves."""
  return s


def _pspec_rank_mismatch(state, pspec):
  from jax.sharding import PartitionSpec
  try:
    leaves = jax.tree.leaves(state)
    specs = jax.tree.leaves(pspec, is_leaf=lambda v: isinstance(v, PartitionSpec))
    specs = [s for s in specs if isinstance(s, PartitionSpec)]
  except Exception as e:   # pylint: disable=broad-except
    return f"cannot flatten: {e}"
  if len(leaves) != len(specs):
    return f"{len(leaves)} state leaves but {len(specs)} partition specs"
  for l, s in zip(leaves, specs):
    if len(s) > l.ndim:
      return f"partition spec {s} longer than rank of leaf {l.shape}"
  return None


def handle(job):
  if job.get("selftest_crash"):
    # binding self-test of the driver: a case that kills its worker process (as jaxlib's CPU
    # backend does when a pmap program over several devices computes on zero-size operands)
    import os
    import signal
    os.kill(os.getpid(), signal.SIGSEGV)
  res = {"outcome": "ok", "phase": "done", "step": None, "error": None, "layout": None,
         "clauses": [], "nupd": 0, "secs": {}}
  t00 = time.time()
  try:
    run(job, res)
  except Failure as f:
    e = f.exc
    res.update(outcome=core.classify_exception(e), phase=f.phase, step=f.step, error=_err(e))
  jax.clear_caches()
  res["secs"]["total"] = round(time.time() - t00, 2)
  return res


if __name__ == "__main__":
  core.worker_main(handle)
