"""Replay of FD_Gen behaviours into the three frequent-directions step functions, called
directly (C09, leg R):

  ds   distributed_shampoo.frequent_directions_update + _fd_update_root, packed previous sketch
       fed back through _fd_low_rank_unpack/_pack, padding_start == size and < size
  tf   tearfree.sketchy._update_axis on a tensor of rank 1..3, any axis
  oco  oco.algorithms._fd_update_fn (S_ADA / ADA_FD), effective rank sketch_size - 1

job    = {impl, behs: [{cfg, steps}], seed, var: {...}, tol}
result = {results: [{bad: [[step, clause, detail]], worst: {...}}]}

The three `*Direct` classes are also used by fd_measure (leg V).
"""
import traceback

import numpy as np
import jax
import jax.numpy as jnp

from harness import core
from harness.workers.fd_common import in_code_under_test as _icut
from harness.workers import fd_common as fc

_cache = {}


class DsDirect:
  """One statistic of size D inside a batch padded to `size` rows."""

  def __init__(self, D, size, k, p, rel, ridge, decay):
    from precondition import distributed_shampoo as ds
    self.ds, self.D, self.size, self.k, self.p = ds, D, size, k, p
    self.rel, self.ridge, self.decay = rel, ridge, decay
    self.dt = jnp.float64 if jax.config.jax_enable_x64 else jnp.float32
    key = ("ds", k, rel)
    if key not in _cache:
      def f(new_grad, p, ridge, decay, padding_start, prev):
        return ds._fd_update_root(new_grad, p, rank=k, ridge_epsilon=ridge,
                                  relative_matrix_epsilon=rel, decay=decay,
                                  padding_start=padding_start, prev=prev)[0]
      _cache[key] = jax.jit(f)
    self.f = _cache[key]
    self.prev = jnp.zeros((size, k + 2), self.dt)   # what init_fn stores for a compressed slot

  def ridge_now(self):
    """The ridge the next step will add to every kept eigenvalue (the code's own formula)."""
    lam = np.asarray(self.ds._fd_low_rank_unpack(self.prev, self.k)[1], np.float64)
    return self.ridge * (max(lam[0], 1e-6) if self.rel else 1.0)

  def step(self, g, axis):
    ds = self.ds
    R = ds.frequent_directions_update(None, jnp.asarray(g, self.dt), axis, 0.0, 0.0)
    R = ds.pad_square_matrix(R, self.size)
    out = self.f(R, jnp.asarray(self.p, jnp.int32), jnp.asarray(self.ridge, self.dt),
                 jnp.asarray(self.decay, self.dt), jnp.asarray(self.D, jnp.int32), self.prev)
    self.prev = out
    V, lam, inv, const, tail, hz = [np.asarray(x) for x in ds._fd_low_rank_unpack(out, self.k)]
    return {"V": V[:self.D], "Vpad": V[self.D:], "lam": lam, "tail": tail, "hz": bool(hz),
            "arg": fc.inv_to_arg(inv, self.p), "targ": fc.inv_to_arg(const, self.p)}


class TfDirect:
  def __init__(self, D, k, axis, others, decay, eps, rel):
    from precondition.tearfree import sketchy
    others = tuple(others)
    self.axis, self.others, self.p = axis, others, 2 * (len(others) + 1)
    self.eps, self.rel = eps, rel
    key = ("tf", D, k, axis, others, decay, eps, rel)
    if key not in _cache:
      opts = sketchy.Options(epsilon=eps, rank=k, relative_epsilon=rel,
                             second_moment_decay=decay, update_freq=1)
      shape = others[:axis] + (D,) + others[axis:]
      st0 = sketchy._init(opts, {"p": jnp.zeros(shape)}).sketches["p"].axes[axis]
      _cache[key] = (jax.jit(lambda u, s: sketchy._update_axis(opts, axis, (), u, s, True)), st0)
    self.f, self.state = _cache[key]

  def step(self, g, axis=None):
    self.state = self.f(jnp.asarray(g, self.state.eigvecs.dtype), self.state)
    V, ev, inv, tail, itail = [np.asarray(getattr(self.state, n), np.float64) for n in
                               ("eigvecs", "eigvals", "inv_eigvals", "tail", "inv_tail")]
    return {"V": V, "lam": ev ** 2, "ev": ev, "tail": tail, "arg": fc.inv_to_arg(inv, self.p),
            "targ": fc.inv_to_arg(itail, self.p)}


class OcoDirect:
  def __init__(self, wshape, k, alg, delta, lr):
    from precondition.oco import algorithms as A
    wshape = tuple(wshape)
    self.wshape, self.alg, self.delta, self.lr = wshape, alg, delta, lr
    key = ("oco", wshape, k, alg, delta, lr)
    if key not in _cache:
      hp = A.HParams(delta=delta, lr=lr, sketch_size=k + 1, algorithm=A.Algorithm[alg])
      _cache[key] = (jax.jit(lambda s, g: A._fd_update_fn(dict(s), None, g, hp)),
                     lambda: A._fd_init_fn(wshape, hp))
    self.f, init = _cache[key]
    self.state = init()

  def step(self, gvec, axis=None):
    w0 = np.asarray(self.state["w"], np.float64)
    self.state = self.f(self.state, jnp.asarray(np.asarray(gvec).reshape(self.wshape)))
    P, ee, alpha = [np.asarray(self.state[x], np.float64) for x in ("P", "e", "alpha")]
    return {"V": P.T, "lam": ee ** 2, "ev": ee, "alpha": float(alpha),
            "tail": float(alpha) - self.delta,
            "dw": (w0 - np.asarray(self.state["w"], np.float64)).ravel() / self.lr}


# ---------------------------------------------------------------------------------------
def run_ds(beh, var, rs, tol):
  cfg = beh["cfg"]
  d, k = cfg["d"], cfg["k"]
  D = max(d, k + 3) + var.get("extra", 0)          # rank + 2 < size of the real statistic
  size = D + var.get("pad", 0)                      # batched statistics are padded to max_size
  rel = bool(var.get("rel", False)) and cfg["ridge"] == 0
  impl = DsDirect(D, size, k, var.get("p", 4), rel, float(cfg["ridge"]), cfg["bn"] / cfg["bd"])
  Q = fc.orth(rs, D)
  axis, others = var.get("axis", 0), tuple(var["others"])
  m = int(np.prod(others)) if others else 1
  bad, worst = [], {}
  for si, st in enumerate(beh["steps"]):
    e = fc.Exp(st, D, cfg["bd"])
    if int((e.g > 0).sum()) > m:
      raise core.MachineryError("tensor too small for this gradient")
    G = fc.factor(Q, e.g, rs, m=m)
    pr = impl.step(fc.tensor_with_axis(G, axis, others), axis)
    if np.abs(pr["Vpad"]).max(initial=0.0) != 0.0:
      bad.append([si, "padding_rows_of_eigvecs_not_zero", float(np.abs(pr["Vpad"]).max())])
    for cl, det in fc.compare(pr, e, Q, tol, worst):
      bad.append([si, cl, det])
    own = bool((pr["lam"] <= 0).any() or pr["tail"] <= 0)
    if pr["hz"] != own:
      bad.append([si, "has_zeros_inconsistent_with_stored_fields",
                  [pr["hz"], pr["lam"].tolist(), float(pr["tail"])]])
    if not (e.tie or e.slack) and e.t > 1e-4 * e.scale:
      worst["flag_checked"] = worst.get("flag_checked", 0) + 1
      if pr["hz"]:
        bad.append([si, "has_zeros_flagged_on_full_sketch", 0.0])
  return bad, worst


def run_tf(beh, var, rs, tol):
  cfg = beh["cfg"]
  d, k = cfg["d"], cfg["k"]
  D = d + var.get("extra", 0)
  axis, others = var.get("axis", 0), tuple(var["others"])
  eps_opt, rel = var.get("eps", 1e-7), bool(var.get("rel", True))
  impl = TfDirect(D, k, axis, others, cfg["bn"] / cfg["bd"], eps_opt, rel)
  Q = fc.orth(rs, D)
  m = int(np.prod(others)) if others else 1
  bad, worst = [], {}
  for si, st in enumerate(beh["steps"]):
    e = fc.Exp(st, D, cfg["bd"])
    if int((e.g > 0).sum()) > m:
      raise core.MachineryError("tensor too small for this gradient")
    G = fc.factor(Q, e.g, rs, m=m)
    pr = impl.step(fc.tensor_with_axis(G, axis, others))
    eps = eps_opt * e.maxarg if (rel and eps_opt > 0) else eps_opt
    if (pr["ev"] < 0).any():
      bad.append([si, "negative_root_eigenvalue", float(pr["ev"].min())])
    for cl, det in fc.compare(pr, e, Q, tol, worst, eps=eps, tol_inv=var.get("tol_inv")):
      bad.append([si, cl, det])
  return bad, worst


def run_oco(beh, var, rs, tol):
  cfg = beh["cfg"]
  k = cfg["k"]
  wshape = tuple(var["wshape"])
  n = int(np.prod(wshape))
  alg, delta, lr = var.get("alg", "S_ADA"), var.get("delta", 0.25), var.get("lr", 0.5)
  impl = OcoDirect(wshape, k, alg, delta, lr)
  Q = fc.orth(rs, n)
  bad, worst = [], {}
  for si, st in enumerate(beh["steps"]):
    e = fc.Exp(st, n, cfg["bd"])
    gvec = fc.factor(Q, e.g, rs, m=1)[:, 0] * (1.0 if rs.randint(2) else -1.0)
    pr = impl.step(gvec)
    if pr["ev"][-1] != 0.0:
      bad.append([si, "last_sketch_row_not_zero", float(pr["ev"][-1])])
    if alg != "S_ADA":
      if pr["alpha"] != delta:
        bad.append([si, "alpha_changed_without_dynamic_diagonal", pr["alpha"]])
      pr["tail"] = e.t                 # Ada-FD does not track the escaped mass
    for cl, det in fc.compare(pr, e, Q, tol, worst, check_inv=False):
      bad.append([si, cl, det])
    if alg == "S_ADA":
      # the applied preconditioner: (delta + t + l)^(-1/2) along every direction
      want = Q @ ((Q.T @ gvec) / np.sqrt(delta + e.t + e.l))
      dev = np.abs(pr["dw"] - want).max() / max(np.abs(want).max(), 1e-30)
      worst["applied"] = max(worst.get("applied", 0.0), float(dev))
      if not dev <= 100 * tol:
        bad.append([si, "applied_inverse_root", float(dev)])
  return bad, worst


RUN = {"ds": run_ds, "tf": run_tf, "oco": run_oco}


def handle(job):
  rs = np.random.RandomState(job["seed"])
  out = []
  for b in job["behs"]:
    try:
      bad, worst = RUN[job["impl"]](b, job["var"], rs, job["tol"])
      out.append({"bad": bad, "worst": worst})
    except core.MachineryError:
      raise
    except Exception as e:     # the code under test raised: data, not a crash
      if not _icut(e):
        raise
      out.append({"bad": [[-1, "exception", f"{type(e).__name__}: {e}"]], "worst": {},
                  "tb": traceback.format_exc()[-1500:], "kind": core.classify_exception(e)})
  return {"results": out}


if __name__ == "__main__":
  core.worker_main(handle)
