"""C05 replay for Tearfree: TFControl_Gen says per step whether the update is the graft step
("graft": before start / skipped parameter) or the preconditioned direction carrying the graft
norm ("precond").  Direction = the same configuration with grafting NONE; graft step = the same
configuration that never starts preconditioning."""
import traceback

import numpy as np

from harness import core, tfrun


def handle(job):
  o, shapes, steps, target, seed = job["o"], job["shapes"], job["steps"], job["target"], job["seed"]
  T = len(steps)
  mism, worst = [], {"tf_norm": 0.0, "tf_cosine": 0.0, "tf_graft_step": 0.0}
  try:
    import jax.numpy as jnp
    grads = tfrun.make_grads(shapes, ["ok"] * T, seed)
    if job.get("sparse"):
      rs = np.random.RandomState(seed)
      grads = [{k: jnp.asarray(np.where(rs.rand(*v.shape) < 0.3, 0.0, np.asarray(v)).astype(np.float32))
                for k, v in g.items()} for g in grads]
    if job.get("late"):
      # an "unused layer": zero gradients at step 0, so with roots refreshed less often than every
      # step its inverse roots (pseudo-inverse of a zero covariance) stay exactly zero until the next
      # refresh while its gradients and graft steps are already non-zero
      nm = f"p{target}"
      grads[0] = dict(grads[0]); grads[0][nm] = jnp.zeros_like(grads[0][nm])
    main = tfrun.Runner(o, shapes, seed)
    # the twins that serve as oracles are fresh objects that never saw another tree
    none = tfrun.Runner(dict(o, graft="NONE", warm_shapes=None), shapes, seed)
    warm = tfrun.Runner(dict(o, Start=10 ** 6, warm_shapes=None), shapes, seed)
    name = f"p{target}"
    for t in range(T):
      u = np.asarray(main.step(grads[t])[name], np.float64)
      d = np.asarray(none.step(grads[t])[name], np.float64)
      w = np.asarray(warm.step(grads[t])[name], np.float64)
      if steps[t]["kind"] == "graft":
        dd = float(np.linalg.norm(u - w) / max(np.linalg.norm(w), 1e-30))
        worst["tf_graft_step"] = max(worst["tf_graft_step"], dd)
        if dd > 1e-6:
          mism.append({"clause": "update_is_not_the_graft_step", "step": t, "detail": dd})
        continue
      nd, nu, nw = np.linalg.norm(d), np.linalg.norm(u), np.linalg.norm(w)
      if nd == 0.0:
        if nw > 0.0:
          worst["zero_direction_steps"] = worst.get("zero_direction_steps", 0) + 1
        if nu != 0.0:
          mism.append({"clause": "zero_direction_nonzero_update", "step": t, "detail": float(nu)})
        continue
      dn = abs(nu - nw) / max(nw, 1e-30)
      worst["tf_norm"] = max(worst["tf_norm"], float(dn))
      if dn > 1e-5:
        mism.append({"clause": "update_norm_is_not_graft_norm", "step": t, "detail": float(dn)})
      if nu > 0:
        c = 1.0 - float(np.vdot(u, d) / (nu * nd))
        worst["tf_cosine"] = max(worst["tf_cosine"], c)
        if c > 1e-5:
          mism.append({"clause": "update_direction_is_not_preconditioned_gradient", "step": t, "detail": c})
  except Exception as e:
    return {"mismatches": [], "worst": worst, "error": f"{type(e).__name__}: {e}",
            "kind": core.classify_exception(e), "tb": traceback.format_exc()[-2000:]}
  return {"mismatches": mism, "worst": worst, "error": None}


if __name__ == "__main__":
  core.worker_main(handle)
