"""C17 pipeline leg: real Sketchy state -> reallocation -> Sketchy(memory_alloc=...) actually built and run.

  1. the real Tearfree optimizer (second order = Sketchy, uniform rank `base`) runs T steps on a tree of
     matrices whose gradients live on different scales; its state is serialised as a checkpoint would be
     (flax state dict under 'inner_state');
  2. precondition.tearfree.reallocation.create_redist_dict turns the checkpoints into the allocation;
  3. a NEW optimizer is built with sketchy.Options(memory_alloc=allocation): the rank every axis of every
     parameter really gets (`used`, read off the initial state) must be min(dim, allocated rank) - this is what
     "the reallocated optimizer never needs more sketch memory" is about;
  4. the new optimizer runs T2 steps; after every step each axis state must equal the state of a twin
     optimizer with the UNIFORM rank that axis was given, fed the same gradients (an axis sketch depends on its
     own rank only), and the emitted update must point along the gradient preconditioned, axis by axis, with the
     matrices the stored axis states denote:  V diag(inv_eigvals) V' + inv_tail (I - V V').

job    = {shapes, base, T, T2, seed, rule, avg, scales, decay}
result = {error, groups:[{dim, names, ranks, used, scores}], mismatches:[{clause, ...}], worst:{}}
"""
import traceback

import numpy as np

from harness import core

PFX = ("inner_state", "0", "direction", "1", "sketches")


def _den(ax, n):
  V = np.asarray(ax["eigvecs"], np.float64)[:n]
  return (V * np.asarray(ax["inv_eigvals"], np.float64)[None, :]) @ V.T + float(ax["inv_tail"]) * (np.eye(n) - V @ V.T)


def _cov(ax):
  V = np.asarray(ax["eigvecs"], np.float64)
  return (V * (np.asarray(ax["eigvals"], np.float64) ** 2)[None, :]) @ V.T


def _rel(a, b):
  a, b = np.asarray(a, np.float64), np.asarray(b, np.float64)
  if a.shape != b.shape:
    return float("inf")
  if not (np.isfinite(a).all() and np.isfinite(b).all()):
    return float("inf")
  s = max(np.abs(a).max() if a.size else 0.0, np.abs(b).max() if b.size else 0.0, 1e-30)
  return float(np.abs(a - b).max() / s) if a.size else 0.0


def handle(job):
  import jax.numpy as jnp
  from flax import serialization
  from harness import tfrun
  from precondition.tearfree import reallocation as R          # code under test
  shapes = [tuple(s) for s in job["shapes"]]
  base, T, T2, seed = int(job["base"]), int(job["T"]), int(job["T2"]), int(job["seed"])
  out = {"error": None, "groups": [], "mismatches": [], "worst": {}}
  o = {"so": "sketchy", "rank": base, "SF": 1, "Start": 0, "decay": job.get("decay", 1.0), "graft": "RMSPROP",
       "momentum_decay": 0.0, "merge_dims": 2, "lr": 0.25, "sk_eps": 1e-3, "sk_rel": True,
       "add_ggt": job["rule"].startswith("ggt")}
  where = "uniform run"
  try:
    grads = tfrun.make_grads(shapes, ["ok"] * max(T, T2), seed, scales=job["scales"])
    # the Options object of the uniform run is kept: the reallocated optimizer is built from an Options DERIVED
    # from it (dataclasses.replace), as a second reallocation round or a rank sweep would do
    import dataclasses
    from precondition.tearfree import sketchy as SK
    sk0 = SK.Options(epsilon=o["sk_eps"], rank=base, relative_epsilon=o["sk_rel"], second_moment_decay=o["decay"],
                     update_freq=o["SF"], add_ggt=o["add_ggt"])
    r0 = tfrun.Runner(dict(o, _sk_obj=sk0), shapes, seed)
    states = []
    for t in range(T):
      r0.step(grads[t])
      states.append({"inner_state": serialization.to_state_dict(r0.state)})
    where = "reallocation"
    sk = states[-1]
    for p in PFX:
      sk = sk[p]
    layer_names, _ = R.layers_and_axes(sk)
    group_dict = R.create_groups(sk, layer_names)
    use = states if job["avg"] else states[-1:]
    res = R.create_redist_dict(None, None, job["rule"], bool(job["avg"]), base, states=use)
    scores = R.score_fn(use, job["rule"], layer_names, bool(job["avg"]))
    where = "Sketchy with memory_alloc"
    # an earlier derivation from the same base with ANOTHER allocation (all ranks 1), initialised and dropped:
    # what one derived Options object located must not reach the next one
    alt = {k: [1] * len(v) for k, v in res.items()}
    tfrun.Runner(dict(o, _sk_obj=dataclasses.replace(sk0, memory_alloc=alt)), shapes, seed, params=r0.params)
    r2 = tfrun.Runner(dict(o, _sk_obj=dataclasses.replace(sk0, memory_alloc=res)), shapes, seed, params=r0.params)
    proj = r2.project()["params"]
    used = {}
    for i, s in enumerate(shapes):
      for a in range(len(s)):
        used[f"p{i}/axes/{a}"] = int(np.asarray(proj[f"p{i}"]["axes"][a]["eigvecs"]).shape[1])
    for dim, names in group_dict.items():
      g = {"dim": int(dim), "names": list(names), "ranks": [], "used": [], "scores": []}
      for nm in names:
        parts = nm.split("/")
        true_dim = shapes[int(parts[0][1:])][int(parts[-1])]
        if true_dim != int(dim):
          out["mismatches"].append({"clause": "axis_grouped_under_wrong_dimension", "axis": nm, "dim": int(dim),
                                    "true_dim": true_dim})
        try:
          g["ranks"].append(int(res[parts[0]][int(parts[-1])]))
        except (KeyError, IndexError, TypeError):
          g["ranks"].append(0)
        g["used"].append(used.get(nm, -1))
        g["scores"].append(float(scores[nm]))
      out["groups"].append(g)
    if sorted(n for ns in group_dict.values() for n in ns) != sorted(used):
      out["mismatches"].append({"clause": "axes_missing_from_groups",
                                "detail": [sorted(used), sorted(n for ns in group_dict.values() for n in ns)]})
    # ---- twins: one uniform-rank optimizer per (parameter, rank its axes were given) ----------------------
    where = "twin runs"
    twins = {}
    for i, s in enumerate(shapes):
      for a in range(len(s)):
        k = used[f"p{i}/axes/{a}"]
        if (i, k) not in twins:
          twins[(i, k)] = tfrun.Runner(dict(o, rank=k), [s], seed, params={"p0": r0.params[f"p{i}"]})
    for t in range(T2):
      u2 = r2.step(grads[t])
      p2 = r2.project()["params"]
      tw = {}
      for (i, k), rt in twins.items():
        rt.step({"p0": grads[t][f"p{i}"]})
        tw[(i, k)] = rt.project()["params"]["p0"]["axes"]
      for i, s in enumerate(shapes):
        G = np.asarray(grads[t][f"p{i}"], np.float64)
        D = G
        for a, n in enumerate(s):
          ax = p2[f"p{i}"]["axes"][a]
          k = used[f"p{i}/axes/{a}"]
          ta = tw[(i, k)][a]
          sc = max(np.abs(_cov(ta)).max(), float(ta["tail"]), 1e-30)
          d1 = max(float(np.abs(_cov(ax) - _cov(ta)).max()) / sc, abs(float(ax["tail"]) - float(ta["tail"])) / sc)
          d2 = _rel(_den(ax, n), _den(ta, n))
          for name, d, tol in (("sketch", d1, 1e-4), ("root", d2, 1e-3)):
            out["worst"][f"twin_{name}"] = max(out["worst"].get(f"twin_{name}", 0.0), d if np.isfinite(d) else 0.0)
            if not d <= tol:
              out["mismatches"].append({"clause": f"axis_{name}_differs_from_uniform_rank_twin", "step": t,
                                        "param": i, "axis": a, "rank": k, "detail": d})
          D = np.moveaxis(np.tensordot(_den(ax, n), D, axes=([1], [a])), 0, a)
        uu = -np.asarray(u2[f"p{i}"], np.float64)
        nu, nd = np.linalg.norm(uu), np.linalg.norm(D)
        if nd > 0 and np.isfinite(nd):
          d = float(np.abs(uu / nu - D / nd).max()) if (nu > 0 and np.isfinite(nu)) else float("inf")
          out["worst"]["update_direction"] = max(out["worst"].get("update_direction", 0.0), d if np.isfinite(d) else 0.0)
          if not d <= 1e-3:
            out["mismatches"].append({"clause": "update_is_not_the_sketch_preconditioned_gradient", "step": t,
                                      "param": i, "detail": d})
  except core.MachineryError:
    raise
  except Exception as e:
    out["error"] = {"type": type(e).__name__, "msg": str(e)[:300], "kind": core.classify_exception(e),
                    "where": where, "tb": traceback.format_exc()[-1500:]}
  out["mismatches"] = out["mismatches"][:30]
  return out


if __name__ == "__main__":
  core.worker_main(handle)
