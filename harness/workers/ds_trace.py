"""Record DSControl traces from real optimizer runs (code -> spec).

job = {o, shapes, classes, seed}; result = {traces: [{cfg, events, meta}], error: str|None}
"""
import traceback

from harness import core, dsrun


def spec_cfg(o):
  return {"S": o.get("S", 1), "P": o.get("P", 1), "Start": o.get("Start", 1),
          "sched": o.get("sched", "none") if o.get("End", 0) else "none",
          "End": o.get("End", 0) if o.get("sched", "none") != "none" else 0,
          "mode": "rep" if o.get("mode", "rep") == "pmap" else o.get("mode", "rep"),
          "thr": "zero" if o.get("thr", 0.1) == 0 else "pos"}


def handle(job):
  o = job["o"]
  try:
    events, _, r = dsrun.trace_run(o, job["shapes"], job["classes"], job["seed"])
  except Exception as e:  # the code under test raised: report as data
    return {"traces": [], "error": f"{type(e).__name__}: {e}", "kind": core.classify_exception(e),
            "tb": traceback.format_exc()[-1500:]}
  cfg = spec_cfg(o)
  return {"traces": [{"cfg": cfg, "events": ev, "meta": {"o": o, "shapes": job["shapes"],
                                                          "classes": job["classes"],
                                                          "seed": job["seed"], "stat": k}}
                     for k, ev in enumerate(events)], "error": None}


if __name__ == "__main__":
  core.worker_main(handle)
