"""Fault schedules (from DSControl_Faults) driven through the real optimizer; returns traces.

job = {o, shapes, schedules: [[class,...],...], seed}
result = {traces:[{cfg, events, meta}], errors:[...]}
"""
import traceback

from harness import core, dsrun
from harness.workers.ds_trace import spec_cfg


def handle(job):
  o, shapes = job["o"], job["shapes"]
  out, errors = [], []
  try:
    runner = dsrun.Runner(o, shapes, job["seed"])
  except Exception as e:
    return {"traces": [], "errors": [{"where": "construct/init", "error": f"{type(e).__name__}: {e}",
                                      "kind": core.classify_exception(e), "tb": traceback.format_exc()[-1500:]}]}
  cfg = spec_cfg(o)
  for si, sched in enumerate(job["schedules"]):
    try:
      events, _, _ = dsrun.trace_run(o, shapes, sched, job["seed"] + si, runner=runner)
    except Exception as e:
      errors.append({"where": sched, "error": f"{type(e).__name__}: {e}", "kind": core.classify_exception(e),
                     "tb": traceback.format_exc()[-1500:]})
      continue
    for k, ev in enumerate(events):
      out.append({"cfg": cfg, "events": ev,
                  "meta": {"o": o, "shapes": shapes, "classes": sched, "seed": job["seed"] + si, "stat": k}})
  return {"traces": out, "errors": errors}


if __name__ == "__main__":
  core.worker_main(handle)
