"""Replay of TFControl_Gen behaviours into the real Tearfree optimizer."""
import numpy as np

from harness import core, tfrun
from harness.workers.ds_cadence import _rel


def _stat_bytes(p):
  if p is None:
    return [], []
  if "stats" in p:
    return [x.tobytes() for x in p["stats"]], [x.tobytes() for x in p["roots"]]
  s = [b"".join(a[k].tobytes() for k in ("eigvecs", "eigvals", "tail")) for a in p["axes"]]
  r = [b"".join(a[k].tobytes() for k in ("inv_eigvals", "inv_tail")) for a in p["axes"]]
  return s, r


def _stat_vals(p):
  """projector-invariant numeric view: statistics and roots per axis."""
  if "stats" in p:
    return [x for x in p["stats"]], [x for x in p["roots"]]
  s, r = [], []
  for a in p["axes"]:
    v = a["eigvecs"].astype(np.float64)
    s.append(np.concatenate([(v * a["eigvals"].astype(np.float64) ** 2) @ v.T, np.full((1, v.shape[0]), float(a["tail"]))]))
    r.append(np.concatenate([(v * a["inv_eigvals"].astype(np.float64)) @ v.T, np.full((1, v.shape[0]), float(a["inv_tail"]))]))
  return s, r


def handle(job):
  o, shapes, T, seed, steps, target = job["o"], job["shapes"], job["T"], job["seed"], job["steps"], job["target"]
  mism = []
  worst = {"tf_stats_twin": 0.0, "tf_roots_twin": 0.0, "tf_warmup_twin": 0.0}
  classes = ["ok"] * T
  grads = tfrun.make_grads(shapes, classes, seed)
  r = tfrun.Runner(o, shapes, seed)
  name = f"p{target}"
  init = r.project()
  # twin 1: every-step refresh fed only the absorbed gradients
  absorbed = steps[-1]["stats"]
  tw = tfrun.Runner(dict(o, SF=1, PF=1), shapes, seed)
  tw_init = tw.project()["params"][name]
  tw_s, tw_r = [], []
  for t in absorbed:
    tw.step(grads[t])
    p = tw.project()["params"][name]
    s, rr = _stat_vals(p)
    tw_s.append(s); tw_r.append(rr)
  # twin 2: never starts preconditioning (only meaningful with grafting)
  tw2 = tfrun.Runner(dict(o, Start=10 ** 6), shapes, seed) if o.get("graft", "RMSPROP") != "NONE" else None
  prev = init
  for t in range(T):
    exp = steps[t]
    u = np.asarray(r.step(grads[t])[name])
    cur = r.project()
    if cur["count"] != exp["ca"] or prev["count"] != exp["ca"] - 1:
      mism.append({"clause": "count", "step": t, "detail": [prev["count"], cur["count"], exp["ca"]]})
    gc = r.graft_count()
    if gc is not None and gc != exp["ca"]:
      mism.append({"clause": "graft_count", "step": t, "detail": [gc, exp["ca"]]})
    ps, pr = _stat_bytes(prev["params"][name]); cs, cr = _stat_bytes(cur["params"][name])
    for k in range(len(cs)):
      sc, rc = ps[k] != cs[k], pr[k] != cr[k]
      if sc and not exp["sc"]:
        mism.append({"clause": "statistics_changed_off_cadence", "step": t, "stat": k})
      if rc and not exp["rc"]:
        mism.append({"clause": "roots_changed_off_cadence", "step": t, "stat": k})
      if exp["sc"] and not sc:
        mism.append({"clause": "statistics_not_refreshed", "step": t, "stat": k})
      if exp["rc"] and not rc:
        mism.append({"clause": "roots_not_refreshed", "step": t, "stat": k})
    # add_ggt: the moving Gram matrices stored next to the sketch are statistics too - same cadence
    if cur["params"][name] is not None and cur["params"][name].get("ggt") and o.get("add_ggt"):
      for k, (a, b) in enumerate(zip(prev["params"][name]["ggt"], cur["params"][name]["ggt"])):
        if a is None or b is None:
          mism.append({"clause": "add_ggt_state_missing", "step": t, "stat": k})
        elif a != b and not exp["sc"]:
          mism.append({"clause": "moving_ggt_changed_off_cadence", "step": t, "stat": k})
    # ekfac_svd: the SVD factors used for preconditioning are rewritten on every step (and only then)
    if cur["params"][name] is not None and "svd" in cur["params"][name]:
      for k, (a, b) in enumerate(zip(prev["params"][name]["svd"], cur["params"][name]["svd"])):
        ch = a != b
        if ch and not exp.get("svd", False):
          mism.append({"clause": "svd_factors_changed_without_ekfac", "step": t, "stat": k})
        if exp.get("svd", False) and not ch:
          mism.append({"clause": "ekfac_svd_factors_not_rewritten", "step": t, "stat": k})
    if cur["params"][name] is not None:
      s, rr = _stat_vals(cur["params"][name])
      L = len(exp["stats"])
      for k in range(len(s)):
        d = _rel(s[k], tw_s[L - 1][k]) if L else 0.0
        worst["tf_stats_twin"] = max(worst["tf_stats_twin"], d)
        if d > 1e-5:
          mism.append({"clause": "statistics_do_not_reflect_absorbed_gradients", "step": t, "stat": k, "detail": d})
        rp = exp["roots"]
        want = _stat_vals(tw_init)[1][k] if rp == [-1] else tw_r[len(rp) - 1][k]
        d = _rel(rr[k], want)
        worst["tf_roots_twin"] = max(worst["tf_roots_twin"], d)
        if d > 1e-3:
          mism.append({"clause": "roots_do_not_reflect_statistics_at_refresh", "step": t, "stat": k, "detail": d})
    elif exp["stats"] or exp["roots"] != [-1]:
      mism.append({"clause": "skipped_parameter_expected_state", "step": t})
    if tw2 is not None:
      g = np.asarray(tw2.step(grads[t])[name])
      d = _rel(u, g)
      if exp["kind"] == "graft":
        worst["tf_warmup_twin"] = max(worst["tf_warmup_twin"], d)
        if d > 1e-6:
          mism.append({"clause": "warmup_update_is_not_graft_update", "step": t, "detail": d})
      elif d < 1e-4 and len(shapes[target]) >= 2 and (np.abs(u).max() > 0 or np.abs(g).max() > 0):
        mism.append({"clause": "update_after_start_is_still_graft_update", "step": t, "detail": d})
    prev = cur
  return {"mismatches": mism, "worst": worst}


if __name__ == "__main__":
  core.worker_main(handle)
