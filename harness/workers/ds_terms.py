"""Numeric replay of DSTerms_Gen behaviours (C02): the spec's emitted update terms are
interpreted in float64 and compared with the real optimizer's update, statistics, roots."""
import traceback

import numpy as np

from harness import core, dsrun, refds
from harness.refds import dy


def options(cfg, geo, eps):
  return {"mode": "shard" if cfg["shard"] else "rep", "D": 1,
          "beta1": dy(cfg["b1"]), "beta2": dy(cfg["b2"]), "nesterov": cfg["nest"], "mavg": cfg["mavg"],
          "weight_decay": dy(cfg["wd"]), "dwd": cfg["dwd"], "dlr": cfg["dlr"], "lr": dy(cfg["lr"]),
          "lr_sched": "none" if cfg["lrs"] == "const" else "lin8", "graft": cfg["graft"],
          "Start": cfg["start"], "S": cfg["S"], "P": cfg["P"],
          "skip_rank_lt": 10 if cfg["skip"] else 0,
          "matrix_epsilon": eps, "block_size": geo["block"], "merge": geo["merge"],
          "merge_block": geo["merge_limit"], "ptype": geo["ptype"],
          "exponent_override": geo["override"], "thr": 0.1, "diagonal_epsilon": geo.get("diag_eps", 1e-10),
          "eigh": geo.get("eigh", False), "memred": geo.get("memred", False), "clip": (0.5 if cfg.get("clip") else None), "compression_rank": geo.get("crank", 0),
          "relative_eps": geo.get("rel", True)}


def dense_packed(p, size, crank):
  """Dense matrix denoted by a packed low-rank preconditioner (eigenvectors | inverted eigenvalues, const,
  flag): c (I - V V') + V diag(e) V', or the identity when the has-zeros flag tells the code to skip it."""
  p = np.asarray(p, np.float64)
  r = abs(crank)
  p = p[:size, :r + 2]
  V, e, c = p[:, :r], p[:r, -2], p[0, -1]
  if p[-1, -2] != 0:
    return np.eye(size)
  return c * (np.eye(size) - V @ V.T) + (V * e) @ V.T


def rel(a, b):
  a = np.asarray(a, np.float64); b = np.asarray(b, np.float64)
  s = max(np.abs(a).max() if a.size else 0.0, np.abs(b).max() if b.size else 0.0, 1e-30)
  return float(np.abs(a - b).max() / s) if a.size else 0.0


def handle(job):
  cfg, geo, steps, seed = job["cfg"], job["geo"], job["steps"], job["seed"]
  eps = 2.0 ** -10
  shapes = [tuple(s) for s in geo["shapes"]]
  o = options(cfg, geo, eps)
  # options the documented update does not depend on, varied per job: the failure threshold (healthy runs
  # never come near it), reuse_preconditioner (only the FD root reads the previous preconditioner) and - on
  # the eigh route, which has no ridge escalation to report - whether training metrics are kept in the state
  o["thr"] = [0.1, 0.5][seed % 2]
  o["reuse"] = bool((seed // 2) % 2)
  if geo.get("eigh"):
    o["metrics"] = bool((seed // 4) % 2)
  if not cfg["shard"] and seed % 6 == 5 and not geo.get("crank"):
    # a sixth of the replicated jobs: the optimizer object has served a sibling tree before (reversed leaf shapes)
    o["warm_shapes"] = [list(reversed(s_)) if len(s_) > 1 else [s_[0] + 2] if s_ else [] for s_ in shapes]
  crank = geo.get("crank", 0)        # compression_rank: roots are stored packed, compared by their denotation
  mism, worst = [], {"update": 0.0, "stats": 0.0, "roots": 0.0}
  try:
    r = dsrun.Runner(o, shapes, seed)
    T = len(steps)
    n = len(shapes)
    # a third of the jobs: now and then a parameter receives an exactly-zero gradient (the statistics are
    # still discounted, the graft accumulators still decay, the momentum still moves)
    classes = [["zero" if (seed % 3 == 0 and (seed // 3 + t + 2 * i) % 4 == 1) else "ok" for i in range(n)]
               for t in range(T)]
    grads = dsrun.make_grads(shapes, classes, seed, scales=[geo.get("gscale", 1.0)] * n)
    geos = [refds.Geometry(s, geo["block"], geo["merge"], geo["merge_limit"], geo["ptype"], geo["override"])
            for s in shapes]
    params = [np.asarray(r.params[f"p{i}"], np.float64) for i in range(n)]
    G = [[np.asarray(g[f"p{i}"], np.float64) for g in grads] for i in range(n)]
    gram = [[geos[i].grams(G[i][t]) for t in range(T)] for i in range(n)]
    S_sym = [dict() for _ in range(n)]
    F_sym = [dict() for _ in range(n)]

    nstat_of = [len(geos[i].blocks) * len(geos[i].axes) for i in range(n)]
    off = [sum(nstat_of[:i]) for i in range(n)]
    # ridge multiplier 10^(retries-1) of the root currently stored / stored one step earlier
    # (the coupled Newton iteration escalates the ridge tenfold per retry and reports the count)
    mult_now = [1.0] * sum(nstat_of)
    mult_prev = [1.0] * sum(nstat_of)
    deviated = False

    def roots_of(i, coefs, mult):
      st_ = stat_of(i, coefs)
      out = []
      for bi in range(len(geos[i].blocks)):
        if crank:
          out.append([refds.compressed_root(st_[bi][k], geos[i].p, eps, crank, relative=geo.get("rel", True))
                      for k in range(len(geos[i].axes))])
        else:
          out.append([refds.inv_root(st_[bi][k], geos[i].p, eps * mult[off[i] + bi * len(geos[i].axes) + k],
                                     relative=geo.get("rel", True))
                      for k in range(len(geos[i].axes))])
      return out

    def stat_of(i, coefs):
      """list over blocks / axes of sum_k coef_k Gram_k + coef_0 eps I"""
      out = []
      for bi in range(len(geos[i].blocks)):
        per = []
        for k in range(len(geos[i].axes)):
          m = dy(coefs[0]) * eps * np.eye(gram[i][0][bi][k].shape[0])
          for s in range(1, T + 1):
            c = dy(coefs[s])
            if c != 0.0:
              m = m + c * gram[i][s - 1][bi][k]
          per.append(m)
        out.append(per)
      return out

    for t in range(T):
      st = steps[t]
      u = r.host_update(r.step(grads[t]))
      proj = dsrun.project(r.host_state(), r.mode, n)
      mult_prev = mult_now
      if not cfg["skip"]:
        mult_now = [10.0 ** (max(x, 1.0) - 1.0) if (x is not None and not o["eigh"]) else 1.0
                    for x in proj["retries"]]
        if any(dsrun.err_class(e, o["thr"]) not in ("below", "unknown") for e in proj["errs"]):
          deviated = True     # a kernel rejected a root: the closed form no longer applies
          if o["eigh"]:
            # the eigendecomposition route has no failure mode on these PSD, well-conditioned statistics
            mism.append({"clause": "root_rejected_on_well_conditioned_statistics", "step": t, "param": None,
                         "detail": [e for e in proj["errs"]]})
          # the coupled Newton iteration can bail out through its early-stop heuristic even on
          # well-conditioned input (observed by C01: ~1% of cond-100 2x2 orientations with an absolute
          # ridge; 0 of 6000 in this regime): a single such case is an environment deviation, many are not
      if deviated:
        break
      for i in range(n):
        s = t + 1
        gacc = [dy(x) for x in st["gacc"]]
        F = refds.graft_step(cfg["graft"], G[i][t], G[i][:s], gacc[:s], geo.get("diag_eps", 1e-10), clip=(0.5 if cfg.get("clip") else None))
        F_sym[i][s] = F
        if not cfg["skip"]:
          used = st["used"]
          if all(x[0] == 0 for x in used):
            roots = [[np.eye(m.shape[0]) for m in per] for per in gram[i][0]]
          else:
            roots = roots_of(i, used, mult_prev if cfg["shard"] else mult_now)
          d = geos[i].apply(G[i][t], roots)
          if cfg["graft"] != "NONE":
            d = d * (np.linalg.norm(F) / (np.linalg.norm(d) + 1e-25))
          S_sym[i][s] = d
        ref = dy(st["upd"]["X"]) * params[i]
        for s2 in range(1, T + 1):
          cS, cF = dy(st["upd"]["S"][s2 - 1]), dy(st["upd"]["F"][s2 - 1])
          if cS != 0.0:
            ref = ref + cS * S_sym[i][s2]
          if cF != 0.0:
            ref = ref + cF * F_sym[i][s2]
        scale = max(np.abs(ref).max(), np.abs(u[f"p{i}"]).max(), 1e-30)
        d = float(np.abs(ref - np.asarray(u[f"p{i}"], np.float64)).max() / scale)
        # int8-quantized momentum buffers (best_effort_memory_usage_reduction): the closed form is exact
        # arithmetic, the buffers are rounded to 1/254 of their column max every step (C11's bound), which
        # accumulates to <= (1/254)/(1-beta1) of the buffer's max: compare at 3e-2 there
        utol = 3e-2 if geo.get("memred") else 2e-3
        worst["update_memred" if geo.get("memred") else "update"] = max(
            worst.get("update_memred" if geo.get("memred") else "update", 0.0), d)
        if not np.isfinite(d) or d > utol:
          mism.append({"clause": "update_differs_from_documented_form", "step": t, "param": i, "detail": d})
      # state leaves: statistics and stored roots
      if not cfg["skip"]:
        k = 0
        for i in range(n):
          want_s = stat_of(i, st["stat"])
          idr = all(x[0] == 0 for x in st["root"])
          want_r = None if idr else roots_of(i, st["root"], mult_now)
          for bi in range(len(geos[i].blocks)):
            for a in range(len(geos[i].axes)):
              got = dsrun._float(proj["stats"][k]); sz = want_s[bi][a].shape[0]
              d = rel(got[:sz, :sz], want_s[bi][a])
              worst["stats"] = max(worst["stats"], d)
              if d > 1e-5:
                mism.append({"clause": "statistics_differ_from_documented_form", "step": t, "param": i,
                             "stat": k, "detail": d})
              gotp = (dense_packed(dsrun._float(proj["precs"][k]), sz, crank) if crank
                      else dsrun._float(proj["precs"][k])[:sz, :sz])
              wr = np.eye(sz) if idr else want_r[bi][a]
              d = rel(gotp, wr)
              worst["roots"] = max(worst["roots"], d)
              if d > 1e-3:
                mism.append({"clause": "roots_differ_from_documented_form", "step": t, "param": i,
                             "stat": k, "detail": d})
              k += 1
        if k != len(proj["stats"]):
          mism.append({"clause": "number_of_statistics", "step": t, "detail": [k, len(proj["stats"])]})
  except Exception as e:
    return {"mismatches": [], "worst": worst, "error": f"{type(e).__name__}: {e}",
            "kind": core.classify_exception(e), "tb": traceback.format_exc()[-2000:]}
  return {"mismatches": mism, "worst": worst, "error": None, "deviated": deviated}


if __name__ == "__main__":
  core.worker_main(handle)
