"""Recording of QuantizedValue round trips as traces for Quant_Trace (code -> spec).

job = {dtype: "int8"|"int16", seed, n, jit}
result = {traces: [{x, ed, events, meta}], error}

Random float32 tensors of rank 1..3 on a k*2^e grid (|k| <= 2048 * 2^s, s <= 4, so every
product the trace spec forms stays below 2^31), one exponent per column, mixed signs,
constant columns, zero columns, single-entry columns, exact-tie columns; rank-2 square
tensors also with extract_diagonal.  The tensor is flattened to Rows x Cols exactly like
Quant does (axis 0 x the rest).  See spec/Quant_Trace.tla for the event format.
"""
import traceback

import numpy as np

from harness import core
from harness.workers.quant_replay import NB, REL, _get_fns, _ldexp32

BIG = 99999999      # "not on the grid" marker (rejected by the trace spec)


def _tensor(rs, N):
  rank = int(rs.randint(1, 4))
  R = int(rs.randint(1, 9))
  rest = [(), (int(rs.randint(1, 7)),), (int(rs.randint(1, 4)), int(rs.randint(1, 4)))][rank - 1]
  ed = False
  if rank == 2 and rs.randint(2):
    rest = (R,)
    ed = bool(rs.randint(4) > 0)
  C = int(np.prod(rest)) if rest else 1
  k = rs.randint(-2048, 2049, size=(R, C)).astype(np.int64)
  for c in range(C):
    kind = rs.randint(10)
    s = int(rs.randint(0, 5))
    if kind == 0:
      k[:, c] = 0                                             # zero column
    elif kind == 1:
      k[:, c] = int(rs.randint(1, 2049)) * (1 if rs.randint(2) else -1)   # constant column
    elif kind == 2:
      k[:, c] = 0
      k[rs.randint(R), c] = int(rs.randint(-2048, 2049))       # single entry
    elif kind == 3:
      # exact ties: max = 2N (or 2N * 2^j), odd entries give ratios at half-integers
      m = 2 * N if 2 * N <= 32768 else 9362
      k[:, c] = rs.randint(-m, m + 1, size=R)
      k[rs.randint(R), c] = m
      s = 0
    elif kind == 4:
      k[:, c] = rs.randint(-3, 4, size=R)                      # tiny integers
    k[:, c] = k[:, c] * (1 << s)
  e = rs.randint(-100, 101, size=C)
  return (R,) + tuple(rest), k, e, ed


def handle(job):
  dt = job["dtype"]
  N = NB[dt]
  rs = np.random.RandomState(job["seed"])
  out = {"traces": [], "error": None}
  try:
    run = _get_fns()
    for i in range(job["n"]):
      shape, k, e, ed = _tensor(rs, N)
      R, C = k.shape
      t = _ldexp32(k, e[None, :])
      q, b, d, f, q2 = run(t.reshape(shape), dt, ed, job["jit"])
      ev = []
      # extract: the stored diagonal as grid integers
      if d is None:
        dg = []
      else:
        dd = np.asarray(d, np.float64).reshape(-1)
        ee = e[:dd.size] if dd.size <= C else np.resize(e, dd.size)
        g = np.ldexp(dd, -ee)
        dg = [int(v) if np.isfinite(v) and v == np.round(v) and abs(v) < BIG else BIG for v in g]
      ev.append({"a": "extract", "diag": dg})
      # scale: bucket_size * N / 2^e as grid integer
      bb = np.asarray(b, np.float64).reshape(-1)
      if bb.size == C:
        g = np.ldexp(bb * N, -e)
        mxg = [int(np.round(v)) if np.isfinite(v) and abs(v) < BIG else BIG for v in g]
        # the rounding above must not hide a wrong bucket: require |bucket N / 2^e - integer| small
        mxg = [m if abs(v - m) <= 1e-3 * max(1.0, m) else BIG for v, m in zip(g, mxg)]
      else:
        mxg = [BIG] * bb.size
      ev.append({"a": "scale", "mx": mxg})
      qi = np.asarray(q).astype(np.int64)
      okshape = qi.size == R * C and np.asarray(f).size == R * C and np.asarray(q2).size == R * C
      if okshape and tuple(np.asarray(q).shape) != shape:
        okshape = False
      if not okshape:
        ev.append({"a": "round", "q": [[BIG]]})
      else:
        qi = qi.reshape(R, C)
        ev.append({"a": "round", "q": qi.tolist()})
        f64 = np.asarray(f, np.float64).reshape(R, C)
        mg = np.asarray([m if m != BIG else 0 for m in mxg], np.float64) if len(mxg) == C else np.zeros(C)
        mx64 = np.ldexp(mg, e)[None, :]
        want = qi.astype(np.float64) * mx64 / N
        eye = np.eye(R, C, dtype=bool) if ed else np.zeros((R, C), bool)
        dev = np.abs(f64 - want) > REL * mx64
        dev = dev | ~np.isfinite(f64)
        off = int((dev & ~eye).sum())
        diagoff = 0
        if ed:
          fd = np.diagonal(np.asarray(f, np.float32).reshape(R, C)).copy()
          td = np.diagonal(t).copy()
          diagoff = int((fd.view(np.uint32) != td.view(np.uint32)).sum())
        zerooff = int(((k == 0) & ~eye & (f64 != 0)).sum())
        ev.append({"a": "tofloat", "off": off, "diagoff": diagoff, "zerooff": zerooff})
        ev.append({"a": "requant", "q2": np.asarray(q2).astype(np.int64).reshape(R, C).tolist()})
      out["traces"].append({"x": k.tolist(), "ed": ed, "events": ev,
                            "meta": {"dtype": dt, "seed": job["seed"], "i": i, "shape": list(shape),
                                     "e": e.tolist(), "jit": job["jit"]}})
  except Exception as e_:
    out["error"] = f"{type(e_).__name__}: {e_}"[:500]
    out["kind"] = core.classify_exception(e_)
    out["tb"] = traceback.format_exc()[-2000:]
  return out


if __name__ == "__main__":
  core.worker_main(handle)
