"""Records what the real shape-transformation functions do on one (large) parameter as an
integer trace for spec/Shapes_Trace.tla (C06, leg V).

job    = {cfg:{sys,shape,limit,bs,ptype}, seed, nprobe, max_blocks}
result = {trace:{cfg, events}|None, skipped: str|None, err: {...}|None, machinery: str|None}

One event per code-level step (see Shapes_Trace.tla).  Tensors are index-valued (element with
linear index k holds k+1, padding holds 0), `probes` are elements read back from the real
tensors at seeded random positions: [q, p, label] / [p, label] with label = value - 1.
Axis numbers are converted to the spec's 1-based convention here.
"""
import traceback

import numpy as np

from harness import core
from harness.workers.shapes_replay import Machinery, const, ints, mods, need, param_of, rejected_explicitly


def probes_of(arr, rs, k):
  flat = np.asarray(arr).reshape(-1)
  if flat.size == 0:
    return []
  pos = sorted(set([0, flat.size - 1] + [int(p) for p in rs.randint(0, flat.size, size=k)]))
  return [[p, int(flat[p]) - 1] for p in pos]


def ds_trace(c, rs, nprobe, max_blocks):
  m = mods(); ds = m["ds"]; jnp = m["jnp"]
  shape, limit, bs = tuple(c["shape"]), c["limit"], c["bs"]
  ptype = getattr(need(ds, "PreconditionerType"), c["ptype"])
  x = jnp.asarray(param_of(shape))
  ev = []
  prec = need(ds, "Preconditioner")(x, bs, limit if limit > 0 else 4096, limit > 0, ptype)
  ev.append({"a": "DSMerge", "transformed": ints(need(prec, "_transformed_shape"))})
  part = need(prec, "_partitioner")
  ss = [ints(s) for s in part.split_sizes()]
  if int(np.prod([len(s) for s in ss])) > max_blocks:
    return None, "too many blocks"
  ev.append({"a": "DSPlan", "split_sizes": ss,
             "splits": [{"axis": int(i) + 1, "indices": ints(ix)} for (i, ix) in need(part, "_splits")]})
  should = [bool(b) for b in prec.should_precondition_dims()]
  pshapes = [ints(s) for s in prec.shapes_for_preconditioners()]
  ev.append({"a": "DSAnnounce", "should": should, "prec_shapes": [s[0] for s in pshapes],
             "square": all(len(s) == 2 and s[0] == s[1] for s in pshapes),
             "exponent": int(prec.exponent_for_preconditioner())})
  blocks = part.partition(jnp.reshape(x, prec._transformed_shape))
  pr = []
  for q in sorted(set([0, len(blocks) - 1] + [int(v) for v in rs.randint(0, len(blocks), size=nprobe)])):
    pr.extend([[q] + p for p in probes_of(blocks[q], rs, 3)])
  ev.append({"a": "DSPartition", "block_shapes": [ints(b.shape) for b in blocks], "probes": pr})
  nprec, npre = sum(should), len(pshapes)
  slots = []
  for i in range(len(blocks)):
    sl = need(prec, "_preconds_for_grad")(list(range(npre)), rank=len(should), start=i * nprec, end=(i + 1) * nprec)
    slots.append([-1 if v is None else int(v) for v in sl])
  ev.append({"a": "DSPrecondition", "slots": slots})
  out = prec.preconditioned_grad(x, [const("eye", s[0]) for s in pshapes])
  ev.append({"a": "DSMergeBack", "out_shape": ints(out.shape),
             "unchanged": bool(out.shape == x.shape and np.array_equal(np.asarray(out), np.asarray(x)))})
  ev.append({"a": "End"})
  return ev, None


def tf_trace(c, rs, nprobe):
  m = mods(); sh = m["shampoo"]; jnp = m["jnp"]
  shape, bs = tuple(c["shape"]), c["bs"]
  x = jnp.asarray(param_of(shape))
  opts = need(sh, "Options")(block_size=bs)
  acc, state, err = rejected_explicitly(lambda: sh.apply(opts).init({"w": x}))
  if not acc and err["kind"] != "explicit":
    raise RuntimeError("tearfree.shampoo init: " + err["error"] + "\n" + err["tb"])
  ev = [{"a": "TFValidate", "accepted": acc}]
  if acc:
    meta = need(sh, "_blocks_metadata")(opts, shape, "w")
    ev.append({"a": "TFMeta", "block_sizes": ints(meta.block_sizes), "num_blocks": int(meta.num_blocks),
               "large_axes": [int(a) + 1 for a in meta.large_axes],
               "blocks_per_large_axis": ints(meta.blocks_per_large_axis), "blocks_axis": int(meta.blocks_axis) + 1})
    blk = state.blocks["w"]
    ev.append({"a": "TFInit", "stat_shapes": [ints(s.shape) for s in blk.stats]})
    blocked = need(sh, "_blockify")(x, meta)
    ev.append({"a": "TFBlockify", "shape": ints(blocked.shape), "probes": probes_of(blocked, rs, nprobe)})
    ident = need(sh, "_precondition_blocks")(blocked, blk, meta)
    ev.append({"a": "TFPrecondition", "shape": ints(ident.shape),
               "unchanged": bool(ident.shape == blocked.shape and np.array_equal(np.asarray(ident), np.asarray(blocked)))})
    out = need(sh, "_deblockify")(ident, meta)
    ev.append({"a": "TFDeblockify", "shape": ints(out.shape),
               "unchanged": bool(out.shape == x.shape and np.array_equal(np.asarray(out), np.asarray(x)))})
  ev.append({"a": "End"})
  return ev, None


def rs_trace(c, rs_, nprobe):
  m = mods(); rs = m["reshaper"]; sh = m["shampoo"]; jnp = m["jnp"]
  shape, limit, bs = tuple(c["shape"]), c["limit"], c["bs"]
  x = jnp.asarray(param_of(shape))
  opts = need(rs, "Options")(merge_dims=limit, block_size=bs)
  acc, txs, err = rejected_explicitly(lambda: (rs.merge(opts), rs.unmerge(opts)))
  if not acc and err["kind"] != "explicit":
    raise RuntimeError("reshaper.merge: " + err["error"] + "\n" + err["tb"])
  ev = [{"a": "RSValidate", "accepted": acc}]
  if acc:
    mtx, utx = txs
    params = {"w": jnp.zeros(shape, x.dtype)}
    merged, _ = mtx.update({"w": x}, mtx.init(params), params)
    s = need(rs, "_derive_shapes")(opts, x)
    tf_acc = True
    if bs >= 2:
      tf_acc, _, err2 = rejected_explicitly(lambda: sh.apply(sh.Options(block_size=bs)).init({"w": merged["w"]}))
      if not tf_acc and err2["kind"] != "explicit":
        raise RuntimeError("tearfree.shampoo init on reshaper output: " + err2["error"] + "\n" + err2["tb"])
    ev.append({"a": "RSDerive", "merged": ints(s.merged_shape), "padded": ints(s.padded_shape), "tf_accepts": tf_acc})
    ev.append({"a": "RSMerge", "shape": ints(merged["w"].shape), "probes": probes_of(merged["w"], rs_, nprobe)})
    un, _ = utx.update(merged, utx.init(params), params)
    ev.append({"a": "RSUnmerge", "shape": ints(un["w"].shape),
               "unchanged": bool(un["w"].shape == x.shape and np.array_equal(np.asarray(un["w"]), np.asarray(x)))})
  ev.append({"a": "End"})
  return ev, None


def handle(job):
  c = job["cfg"]
  rs = np.random.RandomState(job["seed"])
  try:
    if c["sys"] == "ds":
      ev, skipped = ds_trace(c, rs, job["nprobe"], job["max_blocks"])
    elif c["sys"] == "tf":
      ev, skipped = tf_trace(c, rs, job["nprobe"])
    else:
      ev, skipped = rs_trace(c, rs, job["nprobe"])
  except Machinery as e:
    return {"trace": None, "skipped": None, "err": None, "machinery": str(e)}
  except Exception as e:  # pylint: disable=broad-except
    if not any("/precondition/" in f.filename for f in traceback.extract_tb(e.__traceback__)) \
        and not isinstance(e, RuntimeError):
      raise
    return {"trace": None, "skipped": None, "machinery": None,
            "err": {"error": f"{type(e).__name__}: {e}"[:300], "kind": core.classify_exception(e),
                    "tb": traceback.format_exc()[-1500:]}}
  return {"trace": {"cfg": c, "events": ev} if ev else None, "skipped": skipped, "err": None, "machinery": None}


if __name__ == "__main__":
  core.worker_main(handle)
