"""C05 replay for Distributed Shampoo: the spec says which symbol the update of each step is
(GraftShapeOK): -lr * S(s) [direction of the preconditioned gradient, norm of the graft step] or
-lr * F(s) [the graft step itself].  Direction and norm are taken from the code's own twin
configurations (graft NONE -> direction; never-start -> graft step), so the check is independent of
the preconditioner representation (full, sharded, int16-quantized, low-rank compressed, FD)."""
import traceback

import numpy as np

from harness import core, dsrun, refds
from harness.refds import dy


def sparse(g, rs):
  g = np.array(g)
  g[rs.rand(*g.shape) < 0.35] = 0.0
  return g


def handle(job):
  cfg, rep, steps, seed = job["cfg"], job["rep"], job["steps"], job["seed"]
  shapes = [tuple(s) for s in rep["shapes"]]
  T = len(steps)
  base = {"mode": rep["mode"], "D": 1, "beta1": 0.0, "beta2": dy(cfg["b2"]), "nesterov": False,
          "weight_decay": 0.0, "dlr": cfg["dlr"], "lr": dy(cfg["lr"]),
          "lr_sched": "none" if cfg["lrs"] == "const" else "lin8", "graft": cfg["graft"],
          "Start": cfg["start"], "S": cfg["S"], "P": cfg["P"], "skip_rank_lt": 10 if cfg["skip"] else 0,
          "matrix_epsilon": 2.0 ** -10, "block_size": rep.get("block", 8), "merge": False,
          "compression_rank": rep.get("rank", 0), "fd": rep.get("fd", False), "reuse": rep.get("fd", False),
          "eigh": rep.get("eigh", False), "diagonal_epsilon": job.get("diag_eps", 1e-10), "clip": (0.5 if cfg.get("clip") else None)}
  if rep.get("fd"):
    base["P"] = base["S"]
  if rep.get("reset"):
    # the behaviour was exported for beta2 = 1; the optimizer gets another value plus reset_preconditioner
    if refds.dy(cfg["b2"]) != 1.0:
      raise core.MachineryError("reset representation is only meant for beta2 = 1 behaviours")
    base["reset"] = True
    base["beta2"] = 0.75
  mism, worst = [], {"norm": 0.0, "cosine": 0.0, "graft_step": 0.0, "graft_closed_form": 0.0}
  try:
    import jax.numpy as jnp
    rs = np.random.RandomState(seed)
    grads = dsrun.make_grads(shapes, ["ok"] * T, seed)
    if job.get("sparse"):
      grads = [{k: jnp.asarray(sparse(v, rs)) for k, v in g.items()} for g in grads]
    main = dsrun.Runner(base, shapes, seed)
    none = dsrun.Runner(dict(base, graft="NONE", Start=0, dlr=True, lr=1.0, lr_sched="none"), shapes, seed)
    warm = dsrun.Runner(dict(base, Start=10 ** 6), shapes, seed)
    n = len(shapes)
    hist = [[] for _ in range(n)]
    for t in range(T):
      u = main.host_update(main.step(grads[t]))
      d = none.host_update(none.step(grads[t]))
      w = warm.host_update(warm.step(grads[t]))
      st = steps[t]
      lr = dy(st["lr"])
      for i in range(n):
        name = f"p{i}"
        ui = np.asarray(u[name], np.float64); di = np.asarray(d[name], np.float64)
        wi = np.asarray(w[name], np.float64)
        g = np.asarray(grads[t][name], np.float64)
        hist[i].append(g)
        # the graft step itself against its closed form (lr-free F, times the rate)
        gacc = [dy(x) for x in st["gacc"]]
        F = refds.graft_step(cfg["graft"], g, hist[i], gacc[:t + 1], job.get("diag_eps", 1e-10), clip=(0.5 if cfg.get("clip") else None))
        nf = max(np.linalg.norm(F), 1e-30)
        dcf = float(np.linalg.norm(wi + lr * F) / (lr * nf)) if lr > 0 else 0.0
        worst["graft_closed_form"] = max(worst["graft_closed_form"], dcf)
        if dcf > 1e-5:
          mism.append({"clause": "graft_step_differs_from_closed_form", "step": t, "param": i, "detail": dcf})
        is_S = dy(st["upd"]["S"][t]) != 0.0
        if not is_S:
          dd = float(np.linalg.norm(ui - wi) / max(np.linalg.norm(wi), 1e-30))
          worst["graft_step"] = max(worst["graft_step"], dd)
          if dd > 1e-6:
            mism.append({"clause": "update_is_not_the_graft_step", "step": t, "param": i, "detail": dd})
          continue
        nd = np.linalg.norm(di)
        if nd == 0.0:
          if np.abs(ui).max() != 0.0:
            mism.append({"clause": "zero_direction_nonzero_update", "step": t, "param": i})
          continue
        nw, nu = np.linalg.norm(wi), np.linalg.norm(ui)
        dn = abs(nu - nw) / max(nw, 1e-30)
        worst["norm"] = max(worst["norm"], float(dn))
        if dn > 1e-5:
          mism.append({"clause": "update_norm_is_not_graft_norm", "step": t, "param": i, "detail": float(dn)})
        if nu > 0:
          c = 1.0 - float(np.vdot(ui, di) / (nu * nd))
          worst["cosine"] = max(worst["cosine"], c)
          if c > 1e-5:
            mism.append({"clause": "update_direction_is_not_preconditioned_gradient", "step": t, "param": i, "detail": c})
  except Exception as e:
    return {"mismatches": [], "worst": worst, "error": f"{type(e).__name__}: {e}",
            "kind": core.classify_exception(e), "tb": traceback.format_exc()[-2000:]}
  return {"mismatches": mism, "worst": worst, "error": None}


if __name__ == "__main__":
  core.worker_main(handle)
