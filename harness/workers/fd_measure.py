"""Measured FD traces on dense, NON-COMMUTING histories (C09, leg V).

The implementations run on seeded random dense gradients (full-rank, low-rank, rank-one, with
zero steps, scale-varying).  After every step this worker computes in float64 numpy
  * the exact discounted covariance  C' = b (C + rho V V') + G G'   (rho V V' = the ridge the
    configuration added to the kept directions before the step; 0 for Tearfree / OCO),
  * r = the (k+1)-th eigenvalue of the matrix the step decomposed, b (S + rho V V') + G G',
and logs, as integers in units of tr(C')/SCALE rounded AGAINST acceptance:
  lo   floor  lambda_min(C' - S')            hi   floor  lambda_min(S' + t' I - C')
  fdg  floor  tr C' - tr S' - (k+1) t'       orth ceil   || V'V - I_or_0 ||   (absolute * SCALE)
  told, tnew, r  (nearest)                    lneg/tneg  exact sign tests
TLC (spec/FD_Trace.tla) compares; numpy only measures.

job    = {impl: ds|tf|oco|dsrun|tfrun, var, k, d, bn, bd, kind, T, seed}
result = {traces: [{cfg, events, meta}], error?}
"""
import math
import traceback

import numpy as np
import jax.numpy as jnp

from harness import core
from harness.workers.fd_common import in_code_under_test as _icut
from harness.workers import fd_common as fc
from harness.workers import fd_direct as fdd

SCALE = 10 ** 6
CAP = 2 * SCALE


def _i(x, mode):
  if not np.isfinite(x):
    return -CAP if mode == "floor" else CAP
  v = math.floor(x) if mode == "floor" else math.ceil(x) if mode == "ceil" else int(round(x))
  return int(max(-CAP, min(CAP, v)))


def event(old, new, C, M, k, nan=False):
  """old/new: projections (V, lam, tail) before / after the step; C: exact covariance after it;
  M: the matrix whose eigen-decomposition the step performed."""
  V, lam, t = np.asarray(new["V"], np.float64), np.asarray(new["lam"], np.float64), float(new["tail"])
  if not (np.isfinite(V).all() and np.isfinite(lam).all() and np.isfinite(t)):
    return {"lo": -CAP, "hi": -CAP, "fdg": -CAP, "orth": CAP, "told": 0, "tnew": 0, "r": 0,
            "lneg": True, "tneg": True, "fin": False}
  S = (V * lam[np.newaxis, :]) @ V.T
  tr = float(np.trace(C))
  u = SCALE / (tr if tr > 0 else 1.0)
  ev = np.linalg.eigvalsh(M)[::-1]
  r = float(ev[k]) if k < len(ev) else 0.0
  gram = V.T @ V
  nrm = np.diag(gram)
  colerr = np.minimum(np.abs(nrm - 1.0), np.abs(nrm)).max() if nrm.size else 0.0
  off = np.abs(gram - np.diag(nrm)).max() if nrm.size else 0.0
  return {
      "lo": _i(np.linalg.eigvalsh(C - S)[0] * u, "floor"),
      "hi": _i(np.linalg.eigvalsh(S + t * np.eye(len(S)) - C)[0] * u, "floor"),
      "fdg": _i((tr - np.trace(S) - (k + 1) * t) * u, "floor"),
      "orth": _i(max(colerr, off) * SCALE, "ceil"),
      "told": _i(float(old["tail"]) * u, "near"), "tnew": _i(t * u, "near"), "r": _i(r * u, "near"),
      "lneg": bool((lam < 0).any()), "tneg": bool(t < 0), "fin": True}


def dense_factor(kind, D, m, k, t, rs, basis):
  """D x m gradient factor of the requested kind at step t."""
  if kind == "zero_mix" and t % 3 == 1:
    return np.zeros((D, m))
  if kind == "lowrank":                      # all gradients inside one k-dimensional subspace
    kk = min(k, D)
    return basis[:, :kk] @ rs.standard_normal((kk, m))
  if kind == "rank1":
    return np.outer(rs.standard_normal(D), rs.standard_normal(m)) / np.sqrt(m)
  G = rs.standard_normal((D, m))
  if kind == "scale":
    G *= 10.0 ** rs.uniform(-3, 3)
  if kind == "aniso":
    G = (basis * (2.0 ** -np.arange(D))[np.newaxis, :]) @ rs.standard_normal((D, m))
  return G


def trace_direct(job, rs):
  impl, var, k, D, T = job["impl"], job["var"], job["k"], job["d"], job["T"]
  b = job["bn"] / job["bd"]
  basis = fc.orth(rs, D)
  if impl == "ds":
    others = tuple(var["others"]); axis = var.get("axis", 0)
    obj = fdd.DsDirect(D, D + var.get("pad", 0), k, var.get("p", 4), bool(var.get("rel", True)),
                       float(var.get("ridge", 1e-6)), b)
  elif impl == "tf":
    others = tuple(var["others"]); axis = var.get("axis", 0)
    obj = fdd.TfDirect(D, k, axis, others, b, var.get("eps", 1e-7), bool(var.get("rel", True)))
  else:
    others = (); axis = 0
    obj = fdd.OcoDirect(var["wshape"], k, var.get("alg", "S_ADA"), var.get("delta", 0.25), 0.5)
  m = int(np.prod(others)) if others else 1
  C = np.zeros((D, D))
  old = {"V": np.zeros((D, k)), "lam": np.zeros(k), "tail": 0.0}
  events = []
  for t in range(T):
    G = dense_factor(job["kind"], D, m, k, t, rs, basis)
    if impl in ("ds", "tf"):
      G = np.asarray(G, np.float32).astype(np.float64) if not var.get("x64") else G
    rho = obj.ridge_now() if impl == "ds" else 0.0
    if impl == "oco":
      new = obj.step(G[:, 0])
    else:
      new = obj.step(fc.tensor_with_axis(G, axis, others), axis)
    Vo, lo = np.asarray(old["V"], np.float64), np.asarray(old["lam"], np.float64)
    Sold = (Vo * lo[np.newaxis, :]) @ Vo.T
    RV = rho * (Vo @ Vo.T)
    GG = G[:, :m] @ G[:, :m].T
    C = b * (C + RV) + GG
    M = b * (Sold + RV) + GG
    keff = k if impl != "tf" else min(D, k)
    events.append(event(old, new, C, M, keff))
    old = new
  return [{"cfg": {"impl": impl, "k": keff, "d": D, "bn": job["bn"], "bd": job["bd"], "kind": job["kind"]},
           "events": events, "meta": {"var": var, "seed": job["seed"], "axis": axis}}]


def trace_optrun(job, rs):
  from harness import dsrun, tfrun
  from harness.workers import fd_optrun
  impl, o, shape, k, T = job["impl"], job["var"]["o"], tuple(job["var"]["shape"]), job["k"], job["T"]
  b = job["bn"] / job["bd"]
  ndim = len(shape)
  runner = (dsrun if impl == "dsrun" else tfrun).Runner(o, [shape], job["seed"])
  Cs = [np.zeros((n, n)) for n in shape]
  olds = [{"V": np.zeros((n, min(n, k))), "lam": np.zeros(min(n, k)), "tail": 0.0} for n in shape]
  events = [[] for _ in shape]
  bases = [fc.orth(rs, n) for n in shape]
  for t in range(T):
    G = dense_factor(job["kind"], shape[0], int(np.prod(shape[1:])), k, t, rs, bases[0]).reshape(shape)
    G = G.astype(np.float32)
    runner.step({"p0": jnp.asarray(G)})
    projs = fd_optrun.project_ds(runner, k, ndim) if impl == "dsrun" else fd_optrun.project_tf(runner, ndim)
    G = G.astype(np.float64)
    for a in range(ndim):
      U = np.moveaxis(G, a, 0).reshape(shape[a], -1)
      Vo, lo = np.asarray(olds[a]["V"], np.float64), np.asarray(olds[a]["lam"], np.float64)
      rho = 0.0
      if impl == "dsrun":
        me = o.get("matrix_epsilon", 2.0 ** -10)
        rho = me * (max(lo[0], 1e-6) if o.get("relative_eps", True) else 1.0)
      Sold = (Vo * lo[np.newaxis, :]) @ Vo.T
      RV = rho * (Vo @ Vo.T)
      Cs[a] = b * (Cs[a] + RV) + U @ U.T
      M = b * (Sold + RV) + U @ U.T
      events[a].append(event(olds[a], projs[a], Cs[a], M, min(k, shape[a])))
      olds[a] = projs[a]
  return [{"cfg": {"impl": impl, "k": min(k, shape[a]), "d": shape[a], "bn": job["bn"], "bd": job["bd"],
                   "kind": job["kind"]},
           "events": events[a],
           "meta": {"var": job["var"], "seed": job["seed"], "axis": a,
                    "smaller_than_max": shape[a] < max(shape)}} for a in range(ndim)]


def handle(job):
  rs = np.random.RandomState(job["seed"])
  try:
    if job["impl"] in ("dsrun", "tfrun"):
      return {"traces": trace_optrun(job, rs)}
    return {"traces": trace_direct(job, rs)}
  except core.MachineryError:
    raise
  except Exception as e:
    if not _icut(e):
      raise
    return {"traces": [], "error": f"{type(e).__name__}: {e}", "kind": core.classify_exception(e),
            "tb": traceback.format_exc()[-1500:]}


if __name__ == "__main__":
  core.worker_main(handle)
