"""Replay of DSControl_Gen behaviours into the real Distributed Shampoo optimizer.

job = {o: options, shapes, T, seed, steps: [spec observations per step]}
result = {mismatches: [{clause, step, stat, detail}], worst: {...}, env_dev: n, nstat}
"""
import numpy as np

from harness import core, dsrun


def _rel(a, b):
  a = np.asarray(a, np.float64); b = np.asarray(b, np.float64)
  if a.shape != b.shape:
    return float("inf")
  if not (np.isfinite(a).all() and np.isfinite(b).all()):
    return float("inf") if not np.array_equal(a, b, equal_nan=True) else 0.0
  d = np.abs(a - b).max() if a.size else 0.0
  s = max(np.abs(a).max() if a.size else 0.0, np.abs(b).max() if b.size else 0.0, 1e-30)
  return float(d / s)


def handle(job):
  o, shapes, T, seed, steps = job["o"], job["shapes"], job["T"], job["seed"], job["steps"]
  mism = []
  worst = {"stats_twin": 0.0, "precs_twin": 0.0, "warmup_twin": 0.0}
  classes = ["ok"] * T
  events, kept, r = dsrun.trace_run(o, shapes, classes, seed, keep=True)
  nstat = len(events)
  n = len(shapes)
  init_precs = None
  # ---- twin 1: every-step optimizer fed only the absorbed gradients ----------
  absorbed = steps[-1]["stats"]
  twin_o = dict(o, S=1, P=1, sched="none", End=0)
  grads_all = dsrun.make_grads(shapes, classes, seed)
  tw = dsrun.Runner(twin_o, shapes, seed)
  init = dsrun.project(tw.host_state(), tw.mode, n)
  init_precs = [dsrun._float(x).copy() for x in init["precs"]]
  tw_stats, tw_precs = [], []
  for t in absorbed:
    tw.step(grads_all[t])
    p = dsrun.project(tw.host_state(), tw.mode, n)
    tw_stats.append([dsrun._float(x).copy() for x in p["stats"]])
    tw_precs.append([dsrun._float(x).copy() for x in p["precs"]])
  # ---- twin 2: same configuration that never starts preconditioning ----------
  tw2 = dsrun.Runner(dict(o, Start=10 ** 6), shapes, seed)
  tw2_upd = []
  for t in range(T):
    tw2_upd.append(tw2.host_update(tw2.step(grads_all[t])))
  env_dev = 0
  for t in range(T):
    exp = steps[t]
    for k in range(nstat):
      ev = events[k][t]
      if ev["ca"] != exp["ca"] or ev["cb"] != exp["ca"] - 1:
        mism.append({"clause": "count", "step": t, "stat": k, "detail": [ev["cb"], ev["ca"], exp["ca"]]})
      # unchanged in the spec => bytewise unchanged in the code (always sound)
      if ev["sc"] and not exp["sc"]:
        mism.append({"clause": "statistics_changed_off_cadence", "step": t, "stat": k})
      if ev["pc"] and not exp["pc"]:
        mism.append({"clause": "preconditioner_changed_off_cadence", "step": t, "stat": k})
      if ev["mc"] and not exp["mc"]:
        mism.append({"clause": "metrics_changed_off_cadence", "step": t, "stat": k})
      # changed in the spec => changed in the code (generic gradients)
      if exp["sc"] and not ev["sc"]:
        mism.append({"clause": "statistics_not_refreshed", "step": t, "stat": k})
      deviated = False
      if exp["pc"] and not ev["pc"]:
        if ev["err"] not in ("below", "unknown"):
          env_dev += 1       # the kernel rejected this root: judged by the trace leg
          deviated = True
        else:
          mism.append({"clause": "preconditioner_not_refreshed", "step": t, "stat": k})
      # provenance: statistics equal the twin's after the same absorbed gradients
      L = len(exp["stats"])
      d = _rel(kept[t]["stats"][k], tw_stats[L - 1][k])
      # int16-quantized statistics (pmapq) are re-quantized at every statistics step: half a bucket, 1.5e-5 of the
      # column maximum, each time - the run and its twin do not round alike.  A gradient absorbed at the wrong
      # step moves the statistics by O(1/T), far above either tolerance.
      stol = 1e-3 if r.mode == "pmapq" else 1e-5
      worst["stats_twin_int16" if r.mode == "pmapq" else "stats_twin"] = max(
          worst.get("stats_twin_int16" if r.mode == "pmapq" else "stats_twin", 0.0), d)
      if d > stol:
        mism.append({"clause": "statistics_do_not_reflect_absorbed_gradients", "step": t, "stat": k, "detail": d})
      if not deviated:
        sp = exp["stored"]
        want = init_precs[k] if sp == [-1] else tw_precs[len(sp) - 1][k]
        d = _rel(kept[t]["precs"][k], want)
        # roots of int16 statistics, themselves stored as int16: the quantisation noise of the statistics is
        # amplified by the root's conditioning (observed up to 1e-3); a root computed from the statistics of
        # another step differs by O(1/T)
        pk = "precs_twin_int16" if r.mode == "pmapq" else "precs_twin"
        worst[pk] = max(worst.get(pk, 0.0), d)
        if d > (3e-2 if r.mode == "pmapq" else 1e-3):
          mism.append({"clause": "preconditioner_does_not_reflect_statistics_at_refresh", "step": t,
                       "stat": k, "detail": d})
    # warm-up: before Start the update is the graft twin's, from Start on it is not
    for i in range(n):
      name = f"p{i}"
      u = kept[t]["upd"][name]; g = tw2_upd[t][name]
      d = _rel(u, g)
      if exp["kind"] == "graft":
        worst["warmup_twin"] = max(worst["warmup_twin"], d)
        if d > 1e-6:
          mism.append({"clause": "warmup_update_is_not_graft_update", "step": t, "stat": i, "detail": d})
      else:
        precond = any(ow == i for ow in dsrun.project(r.host_state(), r.mode, n)["owner"])
        # a preconditioned parameter whose applied root is not the identity must differ
        used_identity = exp["used"] == [-1]
        nonzero = np.abs(u).max() > 0 or np.abs(g).max() > 0
        # only 2-D+ parameters that are not merged into a vector: for a vector the
        # preconditioned direction of a rank-one history is parallel to the gradient
        generic = len(shapes[i]) >= 2 and not o.get("merge", True)
        if precond and generic and nonzero and not used_identity and d < 1e-4:
          mism.append({"clause": "update_after_start_is_still_graft_update", "step": t, "stat": i, "detail": d})
  return {"mismatches": mism, "worst": worst, "env_dev": env_dev, "nstat": nstat,
          "events": events if job.get("want_events") else None}


if __name__ == "__main__":
  core.worker_main(handle)
