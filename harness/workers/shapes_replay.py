"""Replay of Shapes_Gen cases into the real shape-transformation functions (C06, leg R).

job    = one line exported by TLC: {cfg:{sys,shape,limit,bs,ptype}, live, pc, r:{...expected...}}
         (+ optional "deep": run the tagged-preconditioner / statistics checks too)
result = {mism:[{clause, detail}], err:[{where, error, kind, tb}], machinery: str|None, n: #comparisons}

Everything is compared EXACTLY.  Tensors are index-valued: the element whose row-major linear
index in the parameter is k holds k+1 (float64 under x64, exact), padding holds 0, so the spec's
label k corresponds to the value k+1 and PAD (-1) to 0.  Axis numbers: spec 1-based, code 0-based.
"""
import math
import os
import time
import traceback

import numpy as np

from harness import core

_mods = {}


def mods():
  if not _mods:
    import jax
    import jax.numpy as jnp
    # Every eager jnp call on a new shape compiles a tiny XLA program (~25 ms, thousands of them
    # here, more than the work itself).  The persistent compilation cache is keyed by the HLO, so
    # it is indifferent to the Python code under test; VERIF_JAXCACHE=0 turns it off.
    cache = os.environ.get("VERIF_JAXCACHE", str(core.ROOT / ".work" / "jaxcache"))
    if cache != "0":
      try:
        os.makedirs(cache, exist_ok=True)
        jax.config.update("jax_compilation_cache_dir", cache)
        jax.config.update("jax_persistent_cache_min_compile_time_secs", 0.0)
        jax.config.update("jax_persistent_cache_min_entry_size_bytes", -1)
      except Exception:  # pylint: disable=broad-except
        pass
    from precondition import distributed_shampoo as ds
    from precondition.tearfree import reshaper, shampoo
    _mods.update(jax=jax, jnp=jnp, ds=ds, reshaper=reshaper, shampoo=shampoo)
  return _mods


_consts = {}


def const(kind, d, c=0):
  """Cached identity / tagged diagonal / zero matrices (creating them dominates small cases)."""
  k = (kind, d, c)
  if k not in _consts:
    jnp = mods()["jnp"]
    if kind == "eye":
      _consts[k] = jnp.eye(d, dtype=jnp.float64)
    elif kind == "tag":
      _consts[k] = jnp.diag(jnp.arange(d, dtype=jnp.float64) + c)
    else:
      _consts[k] = jnp.zeros((d, d), jnp.float64)
  return _consts[k]


class Machinery(Exception):
  pass


def need(obj, name):
  if not hasattr(obj, name):
    raise Machinery(f"{type(obj).__name__ if not isinstance(obj, type(math)) else obj.__name__} "
                    f"has no attribute {name} (refactored?)")
  return getattr(obj, name)


def ints(xs):
  return [int(v) for v in xs]


def values_of(labels):
  """spec labels (0-based linear index or -1 = PAD) -> the values the code must hold."""
  return np.asarray(labels, np.float64) + 1.0


class Cmp:
  def __init__(self):
    self.mism = []
    self.n = 0

  def eq(self, clause, got, exp):
    self.n += 1
    if got != exp:
      self.mism.append({"clause": clause, "detail": {"code": got, "spec": exp}})
      return False
    return True

  def tensor(self, clause, arr, exp, live=True):
    """shape always; data elementwise when the spec exported the index map."""
    arr = np.asarray(arr)
    ok = self.eq(clause + "_shape", ints(arr.shape), ints(exp["shape"]))
    if ok and live and exp.get("live"):
      self.n += 1
      got = arr.astype(np.float64).reshape(-1)
      want = values_of(exp["data"])
      if got.shape != want.shape or not np.array_equal(got, want):
        bad = int(np.argmax(got != want)) if got.shape == want.shape else -1
        self.mism.append({"clause": clause + "_elements",
                          "detail": {"first_bad_position": bad,
                                     "code": got[:64].tolist(), "spec": want[:64].tolist()}})
        return False
    return ok


def param_of(shape):
  n = int(np.prod(shape)) if len(shape) else 1
  return np.arange(1, n + 1, dtype=np.float64).reshape(tuple(shape))


# ------------------------------------------------------------------------------------------
def ds_case(c, r, live, deep, cmp):
  m = mods(); ds = m["ds"]; jnp = m["jnp"]
  shape, limit, bs = tuple(c["shape"]), c["limit"], c["bs"]
  ptype = getattr(need(ds, "PreconditionerType"), c["ptype"])
  x = jnp.asarray(param_of(shape))
  # -- DSMerge ---------------------------------------------------------------------------
  if limit > 0:
    cmp.eq("merge_small_dims", ints(need(ds, "merge_small_dims")(shape, limit)), r["transformed"])
  prec = need(ds, "Preconditioner")(x, bs, limit if limit > 0 else 4096, limit > 0, ptype)
  # A sibling object is built while `prec` is alive and before it is queried: every axis with the same number
  # of blocks but another remainder (a model builds one Preconditioner per parameter up front).  What one
  # object announces must not depend on which other objects exist.
  sib = tuple((d + 1 if (d // bs == (d - 1) // bs) else d - 1) if d > bs + 1 else d for d in shape)
  if sib != shape and all(d >= 1 for d in sib):
    need(ds, "Preconditioner")(jnp.zeros(sib), bs, limit if limit > 0 else 4096, limit > 0, ptype)
  cmp.eq("transformed_shape", ints(need(prec, "_transformed_shape")), r["transformed"])
  # -- DSPlan ----------------------------------------------------------------------------
  part = need(prec, "_partitioner")
  cmp.eq("split_sizes", [ints(s) for s in part.split_sizes()], r["split_sizes"])
  cmp.eq("splits", [{"axis": int(i) + 1, "indices": ints(ix)} for (i, ix) in need(part, "_splits")],
         [{"axis": s["axis"], "indices": s["indices"]} for s in r["splits"]])
  # -- DSAnnounce ------------------------------------------------------------------------
  should = [bool(b) for b in prec.should_precondition_dims()]
  cmp.eq("should_precondition_dims", should, r["should"])
  pshapes = [ints(s) for s in prec.shapes_for_preconditioners()]
  cmp.eq("shapes_for_preconditioners", pshapes, [[d, d] for d in r["prec_shapes"]])
  cmp.eq("exponent_for_preconditioner", int(prec.exponent_for_preconditioner()), r["exponent"])
  # -- DSPartition -----------------------------------------------------------------------
  g = jnp.reshape(x, need(prec, "_transformed_shape"))
  blocks = [np.asarray(b) for b in part.partition(g)]
  if cmp.eq("number_of_blocks", len(blocks), len(r["blocks"])):
    for q, (b, e) in enumerate(zip(blocks, r["blocks"])):
      if not cmp.tensor(f"block", b, e, live):
        cmp.mism[-1]["detail"]["block"] = q
        break
  # merge_partitions o partition = id
  back = np.asarray(part.merge_partitions([jnp.asarray(b) for b in blocks]))
  cmp.n += 1
  if back.shape != tuple(g.shape) or not np.array_equal(back, np.asarray(g)):
    cmp.mism.append({"clause": "merge_partitions_of_partition", "detail": {"shape": ints(back.shape)}})
  # -- DSPrecondition: slot lists --------------------------------------------------------
  nprec = sum(should)
  npre = len(pshapes)
  slots = []
  for i in range(len(blocks)):
    sl = need(prec, "_preconds_for_grad")(list(range(npre)), rank=len(should),
                                          start=i * nprec, end=(i + 1) * nprec)
    slots.append([-1 if v is None else int(v) for v in sl])
  cmp.eq("preconds_for_grad_slots", slots, r["slots"])
  # -- identity preconditioners return the gradient unchanged -----------------------------
  eyes = [const("eye", s[0]) for s in pshapes]
  out = np.asarray(prec.preconditioned_grad(x, eyes))
  cmp.n += 1
  if out.shape != tuple(shape) or not np.array_equal(out, np.asarray(x)):
    cmp.mism.append({"clause": "identity_preconditioning_changes_gradient",
                     "detail": {"shape": ints(out.shape), "code": out.reshape(-1)[:64].tolist()}})
  cmp.tensor("preconditioned_grad_out", out, r["out"], live)
  if not (deep and live) or cmp.mism:
    return
  # -- tagged diagonal preconditioners: which matrix touches which axis of which block ----
  # P_k = diag(k % 5 + 2 + i); an element at block-local coordinates o of block q must come
  # back multiplied by prod_j P_{slot[q][j]}[o[j], o[j]] over the preconditioned axes j.
  tags = [const("tag", s[0], k % 5 + 2) for k, s in enumerate(pshapes)]
  out = np.asarray(prec.preconditioned_grad(x, tags)).reshape(-1)
  exp = np.zeros_like(out)
  for q, e in enumerate(r["blocks"]):
    lab = np.asarray(e["data"], np.int64)
    co = np.unravel_index(np.arange(lab.size), tuple(e["shape"])) if e["shape"] else ()
    f = np.ones(lab.size)
    for j, k in enumerate(r["slots"][q]):
      if k >= 0:
        f = f * (co[j] + (k % 5 + 2))
    exp[lab] = (lab + 1.0) * f
  cmp.n += 1
  if not np.array_equal(out, exp):
    bad = int(np.argmax(out != exp))
    cmp.mism.append({"clause": "tagged_preconditioners_misapplied",
                     "detail": {"first_bad_position": bad, "code": out[:64].tolist(), "spec": exp[:64].tolist()}})
  # -- statistics are produced in the announced order -------------------------------------
  stats0 = [const("zero", s[0]) for s in pshapes]
  stats = prec.updated_statistics_from_grad(stats0, x, 0.0, 1.0, precision=m["jax"].lax.Precision.HIGHEST)
  want = []
  for q, e in enumerate(r["blocks"]):
    b = values_of(e["data"]).reshape(tuple(e["shape"]))
    for j, k in enumerate(r["slots"][q]):
      if k >= 0:
        ax = [a for a in range(b.ndim) if a != j]
        want.append(np.tensordot(b, b, axes=(ax, ax)))
  cmp.n += 1
  if len(stats) != len(want) or any(np.asarray(s).shape != w.shape or not np.array_equal(np.asarray(s), w)
                                    for s, w in zip(stats, want)):
    cmp.mism.append({"clause": "statistics_not_in_announced_order", "detail": {"n": len(stats), "spec_n": len(want)}})


# ------------------------------------------------------------------------------------------
def rejected_explicitly(fn):
  """(accepted?, result, error record)"""
  try:
    return True, fn(), None
  except Exception as e:  # pylint: disable=broad-except
    return False, None, {"error": f"{type(e).__name__}: {e}"[:300], "kind": core.classify_exception(e),
                         "tb": traceback.format_exc()[-1200:]}


def tf_case(c, r, live, deep, cmp, errs):
  m = mods(); sh = m["shampoo"]; jnp = m["jnp"]
  shape, bs = tuple(c["shape"]), c["bs"]
  x = jnp.asarray(param_of(shape))
  opts = need(sh, "Options")(block_size=bs)
  acc, state, err = rejected_explicitly(lambda: sh.apply(opts).init({"w": x}))
  if not acc and err["kind"] != "explicit":
    errs.append(dict(err, where="tearfree.shampoo init"))
    return
  cmp.eq("shampoo_accepts", acc, r["verdict"] == "ok")
  if not acc or r["verdict"] != "ok":
    return
  meta = need(sh, "_blocks_metadata")(opts, shape, "w")
  em = r["meta"]
  cmp.eq("meta_block_sizes", ints(meta.block_sizes), em["block_sizes"])
  cmp.eq("meta_num_blocks", int(meta.num_blocks), em["num_blocks"])
  cmp.eq("meta_large_axes", [int(a) + 1 for a in meta.large_axes], em["large_axes"])
  cmp.eq("meta_blocks_per_large_axis", ints(meta.blocks_per_large_axis), em["blocks_per_large_axis"])
  cmp.eq("meta_blocks_axis", int(meta.blocks_axis) + 1, em["blocks_axis"])
  blk = state.blocks["w"]
  cmp.eq("stats_shapes", [ints(s.shape) for s in blk.stats], r["stat_shapes"])
  cmp.eq("roots_shapes", [ints(s.shape) for s in blk.roots], r["stat_shapes"])
  blocked = need(sh, "_blockify")(x, meta)
  cmp.tensor("blockify", blocked, r["blocked"], live)
  ident = need(sh, "_precondition_blocks")(blocked, blk, meta)
  cmp.n += 1
  if ident.shape != blocked.shape or not np.array_equal(np.asarray(ident), np.asarray(blocked)):
    cmp.mism.append({"clause": "identity_preconditioning_changes_gradient", "detail": {"shape": ints(ident.shape)}})
  out = need(sh, "_deblockify")(blocked, meta)
  cmp.n += 1
  if out.shape != tuple(shape) or not np.array_equal(np.asarray(out), np.asarray(x)):
    cmp.mism.append({"clause": "deblockify_of_blockify", "detail": {"shape": ints(out.shape),
                                                                   "code": np.asarray(out).reshape(-1)[:64].tolist()}})
  cmp.tensor("deblockify_out", out, r["out"], live)
  if not deep or cmp.mism:
    return
  # tagged diagonal roots: root of axis a, block n = diag(a + 2 + n + i); the element at blocked
  # coordinates o must be multiplied by prod_a (a + 2 + o[blocks_axis] + o[root_pos[a]]).
  nb = em["num_blocks"]
  roots = [jnp.stack([jnp.diag(jnp.arange(d, dtype=x.dtype) + (a + 2 + n)) for n in range(nb)])
           for a, d in enumerate(em["block_sizes"])]
  tagged = np.asarray(sh._precondition_blocks(blocked, blk._replace(roots=roots), meta))
  bshape = tuple(r["blocked"]["shape"])
  co = np.unravel_index(np.arange(int(np.prod(bshape))), bshape)
  f = np.ones(int(np.prod(bshape)))
  for a, pos in enumerate(r["root_pos"]):
    f = f * (a + 2 + co[em["blocks_axis"] - 1] + co[pos - 1])
  exp = np.asarray(blocked).reshape(-1) * f
  cmp.n += 1
  if tagged.shape != bshape or not np.array_equal(tagged.reshape(-1), exp):
    cmp.mism.append({"clause": "tagged_roots_misapplied", "detail": {"code": tagged.reshape(-1)[:64].tolist(),
                                                                     "spec": exp[:64].tolist()}})


def rs_case(c, r, live, deep, cmp, errs):
  m = mods(); rs = m["reshaper"]; sh = m["shampoo"]; jnp = m["jnp"]
  shape, limit, bs = tuple(c["shape"]), c["limit"], c["bs"]
  x = jnp.asarray(param_of(shape))
  opts = need(rs, "Options")(merge_dims=limit, block_size=bs)
  acc, txs, err = rejected_explicitly(lambda: (rs.merge(opts), rs.unmerge(opts)))
  if not acc and err["kind"] != "explicit":
    errs.append(dict(err, where="reshaper.merge options"))
    return
  cmp.eq("reshaper_accepts", acc, r["verdict"] == "ok")
  if not acc or r["verdict"] != "ok":
    return
  mtx, utx = txs
  es = r["shapes"]
  s = need(rs, "_derive_shapes")(opts, x)
  cmp.eq("original_shape", ints(s.original_shape), es["original_shape"])
  cmp.eq("merged_shape", ints(s.merged_shape), es["merged_shape"])
  cmp.eq("padded_shape", ints(s.padded_shape), es["padded_shape"])
  params = {"w": jnp.zeros(shape, x.dtype)}
  merged, _ = mtx.update({"w": x}, mtx.init(params), params)
  cmp.tensor("merge", merged["w"], r["merged"], live)
  mw = np.asarray(merged["w"])
  cmp.n += 1
  if int((mw != 0).sum()) != int(np.prod(shape)) or not np.array_equal(mw[mw != 0], np.asarray(x).reshape(-1)):
    cmp.mism.append({"clause": "merge_loses_or_reorders_entries", "detail": {"shape": ints(mw.shape)}})
  un, _ = utx.update(merged, utx.init(params), params)
  out = np.asarray(un["w"])
  cmp.n += 1
  if out.shape != tuple(shape) or not np.array_equal(out, np.asarray(x)):
    cmp.mism.append({"clause": "unmerge_of_merge", "detail": {"shape": ints(out.shape),
                                                             "code": out.reshape(-1)[:64].tolist()}})
  cmp.tensor("unmerge_out", out, r["out"], live)
  # the same round trip with parameters kept in a NARROWER dtype than the updates (bfloat16 weights, float32
  # gradients): what merge/pad/unmerge deliver are the update's values, bit for bit, in the update's dtype
  g32 = jnp.asarray(np.asarray(x, np.float32) * np.float32(1.0 + 2.0 ** -12))
  pbf = {"w": jnp.zeros(shape, jnp.bfloat16)}
  m2, _ = mtx.update({"w": g32}, mtx.init(pbf), pbf)
  u2, _ = utx.update(m2, utx.init(pbf), pbf)
  cmp.n += 1
  if (str(m2["w"].dtype) != "float32" or str(u2["w"].dtype) != "float32"
      or not np.array_equal(np.asarray(u2["w"]), np.asarray(g32))):
    cmp.mism.append({"clause": "unmerge_of_merge_with_narrower_parameter_dtype",
                     "detail": {"dtypes": [str(m2["w"].dtype), str(u2["w"].dtype)]}})
  if bs >= 2:
    acc2, _, err2 = rejected_explicitly(lambda: sh.apply(sh.Options(block_size=bs)).init({"w": merged["w"]}))
    if not acc2 and err2["kind"] != "explicit":
      errs.append(dict(err2, where="tearfree.shampoo init on reshaper output"))
    else:
      cmp.eq("shampoo_accepts_reshaper_output", acc2, r["tf_verdict"] == "ok")


def handle(job):
  c, r = job["cfg"], job["r"]
  cmp, errs, mach = Cmp(), [], None
  live = bool(job["live"])
  t0 = time.time()
  try:
    if c["sys"] == "ds":
      ds_case(c, r, live, job.get("deep", True), cmp)
    elif c["sys"] == "tf":
      tf_case(c, r, live, job.get("deep", True), cmp, errs)
    else:
      rs_case(c, r, live, job.get("deep", True), cmp, errs)
  except Machinery as e:
    mach = str(e)
  except Exception as e:  # pylint: disable=broad-except
    if not any("/precondition/" in f.filename for f in traceback.extract_tb(e.__traceback__)):
      raise   # a bug of this harness, not of the code under test: worker crash = machinery error
    errs.append({"where": c["sys"], "error": f"{type(e).__name__}: {e}"[:300],
                 "kind": core.classify_exception(e), "tb": traceback.format_exc()[-1500:]})
  return {"mism": cmp.mism[:4], "err": errs, "machinery": mach, "n": cmp.n, "t": round(time.time() - t0, 4)}


if __name__ == "__main__":
  core.worker_main(handle)
