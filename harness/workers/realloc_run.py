"""Drive the real precondition.tearfree.reallocation.create_redist_dict on a synthetic in-memory state.

job = {
  "base": int,                      # sketchy_rank
  "rule": "tail_rho"|"sketch_trace"|"ggt_trace"|"sketch_intrinsic_rank"|"ggt_intrinsic_rank",
  "avg": bool,                      # running_average (two states whose mean is the wanted score)
  "want_scores": bool (default true) # also return the float32 scores score_fn computes
  "dimfield": bool,                 # axis carries a 'dim' entry (as in the repo's recorded checkpoint)
  "layers": [{"path": "blk0/attn/kernel", "dims": [5, 3]}, ...],     # axis ids 0..len(dims)-1
  ["checkpoint": true  -> use the repository's recorded test checkpoint instead of layers/scores]
  "scores": {"by_group": {"<dim>": [v, ...]}}       # values in the order of group_dict[dim]  (R leg)
          | {"by_axis": [[layer_index, axis, v], ...]}                 # (V leg)
}
result = {"error": None | {"type", "msg", "kind", "where"},
          "num_axes": int,
          "groups": [{"dim", "names": [...], "scores": [float32 values as python floats], "ranks": [...]}]}
The group order is the one the code under test computes itself (layers_and_axes -> create_groups, a python
set iteration; deterministic under PYTHONHASHSEED=0): score k of a spec instance is given to the k-th name of
group_dict[dim], so "ties keep the group order" is bound to the real sort.
"""
import traceback

import numpy as np

from harness import core

PFX = ("inner_state", "0", "direction", "1", "sketches")


def _leaf(sketches, name):
  c = sketches
  for d in name.split("/"):
    c = c[d]
  return c


def _skeleton(job):
  sk = {}
  for L in job["layers"]:
    parts = L["path"].split("/")
    cur = sk
    for p in parts:
      cur = cur.setdefault(p, {})
    axes = cur.setdefault("axes", {})
    for a, dim in enumerate(L["dims"]):
      ax = {}
      if job["dimfield"]:
        ax["dim"] = int(dim)
        if a % 2 == 0:
          ax["eigvecs"] = np.zeros((int(dim), 2), np.float32)
      else:
        ax["eigvecs"] = np.zeros((int(dim), 2), np.float32)
      ax["eigvals"] = np.zeros((2,), np.float32)
      ax["tail"] = np.float32(0.0)
      if job["rule"].startswith("ggt"):
        ax["ema_ggt"] = np.zeros((int(dim), int(dim)), np.float32)
      axes[str(a)] = ax
  return sk


def _is_small_int(v):
  return float(v) == int(v) and 0 <= v < (1 << 20)


def _realise(ax, rule, v, dim):
  """Write leaf values so that score_fn(rule) evaluates to float32(v)."""
  v32 = np.float32(v)
  if rule == "tail_rho":
    ax["tail"] = v32
  elif rule == "sketch_trace":
    if _is_small_int(v):
      s = int(v)
      ax["eigvals"] = np.array([s - s // 2, s // 2, 0.0], np.float32)
    else:
      ax["eigvals"] = np.array([v32, 0.0, 0.0], np.float32)
  elif rule == "ggt_trace":
    m = np.full((dim, dim), 7.0, np.float32)     # off-diagonal junk: only the trace may matter
    np.fill_diagonal(m, 0.0)
    if _is_small_int(v) and dim >= 2:
      s = int(v)
      m[0, 0], m[dim - 1, dim - 1] = s - s // 2, s // 2
    else:
      m[0, 0] = v32
    ax["ema_ggt"] = m
  elif rule == "sketch_intrinsic_rank":
    s = int(v)
    assert s == v and s >= 0
    ax["eigvals"] = np.array([2.0] * s + [0.0], np.float32)
  elif rule == "ggt_intrinsic_rank":
    s = int(v)
    assert s == v and 1 <= s <= dim
    m = np.zeros((dim, dim), np.float32)
    for i in range(s):
      m[i, i] = 2.0
    ax["ema_ggt"] = m
  else:
    raise core.MachineryError(f"unknown rule {rule}")


class AxesGroupedUnderWrongDimension(Exception):
  """create_groups put an axis into a group whose key is not that axis's dimension (C17 speaks about
  groups of EQUAL-DIMENSION axes; the dimension is the axis's 'dim' entry or eigvecs.shape[0])."""


def _check_groups(sk, group_dict):
  for key, names in group_dict.items():
    for nm in names:
      ax = _leaf(sk, nm)
      true_dim = int(ax["dim"]) if "dim" in ax else int(ax["eigvecs"].shape[0])
      if int(key) != true_dim:
        raise AxesGroupedUnderWrongDimension(f"axis {nm} of dimension {true_dim} grouped under {key}")


def _synthetic(R, job):
  """-> (states, layer_names, num_axes, group_dict)"""
  import copy
  rule = job["rule"]
  sk = _skeleton(job)
  layer_names, num_axes = R.layers_and_axes(sk)
  group_dict = R.create_groups(sk, layer_names)
  _check_groups(sk, group_dict)
  # name -> wanted score
  want = {}
  sc = job["scores"]
  if "by_group" in sc:
    for dim_s, vals in sc["by_group"].items():
      names = group_dict.get(int(dim_s))
      if names is None or len(names) != len(vals):
        raise core.MachineryError(f"group for dim {dim_s}: {names} vs {len(vals)} scores")
      for nm, v in zip(names, vals):
        want[nm] = v
  else:
    for li, a, v in sc["by_axis"]:
      want[f"{job['layers'][li]['path']}/axes/{a}"] = v
  if set(want) != set(layer_names):
    raise core.MachineryError(f"names {sorted(layer_names)} vs scores for {sorted(want)}")
  sk2 = copy.deepcopy(sk) if job["avg"] else None
  for nm, v in want.items():
    ax = _leaf(sk, nm)
    dim = ax["dim"] if "dim" in ax else ax["eigvecs"].shape[0]
    if job["avg"]:
      # two checkpoints whose mean is v (exactly, for small integers)
      if _is_small_int(v) and v >= 1 and not rule.endswith("intrinsic_rank"):
        v1, v2 = v + 1, v - 1
      else:
        v1 = v2 = v
      _realise(_leaf(sk2, nm), rule, v1, dim)
      _realise(ax, rule, v2, dim)
    else:
      _realise(ax, rule, v, dim)

  def wrap(s):
    st = s
    for p in reversed(PFX):
      st = {p: st}
    return st
  states = [wrap(sk2), wrap(sk)] if job["avg"] else [wrap(sk)]
  return states, layer_names, num_axes, group_dict


def _checkpoint(R, job):
  """The checkpoint recorded in the repository's own test data (only eigvals and dim are present)."""
  import json
  import os
  import jax.numpy as jnp
  path = os.path.join(os.path.dirname(R.__file__), "reallocation_test_data", "states.json")
  states = json.load(open(path))
  sk = states[-1]
  for p in PFX:
    sk = sk[p]
  for layer in sk:
    for ax in sk[layer]["kernel"]["axes"].values():
      ax["eigvals"] = jnp.array(ax["eigvals"], dtype=jnp.float32)
  layer_names, num_axes = R.layers_and_axes(sk)
  return states, layer_names, num_axes, R.create_groups(sk, layer_names)


def handle(job):
  from precondition.tearfree import reallocation as R   # code under test
  rule, base = job["rule"], int(job["base"])
  try:
    states, layer_names, num_axes, group_dict = (_checkpoint if job.get("checkpoint") else _synthetic)(R, job)
  except core.MachineryError:
    raise
  except Exception as e:  # the helpers of the code under test
    return {"error": {"type": type(e).__name__, "msg": str(e)[:300], "kind": core.classify_exception(e),
                      "where": "layers_and_axes/create_groups", "tb": traceback.format_exc()[-1500:]},
            "groups": [], "num_axes": 0}
  out = {"error": None, "num_axes": int(num_axes), "groups": []}
  try:
    res = R.create_redist_dict(None, None, rule, bool(job["avg"]), base, states=states)
    scores = (R.score_fn(states, rule, layer_names, bool(job["avg"]))
              if job.get("want_scores", True) else None)
  except Exception as e:
    tb = traceback.extract_tb(e.__traceback__)
    line = (tb[-1].line or "") if tb else ""
    out["error"] = {"type": type(e).__name__, "msg": str(e)[:300], "kind": core.classify_exception(e),
                    "where": line.strip()[:120], "tb": traceback.format_exc()[-1500:]}
    res, scores = None, None
  for dim, names in group_dict.items():
    g = {"dim": int(dim), "names": list(names), "scores": [], "ranks": []}
    for nm in names:
      if res is not None:
        parts = nm.split("/")
        c = res
        try:
          for p in parts[:-2]:
            c = c[p]
          g["ranks"].append(int(c[int(parts[-1])]))
        except (KeyError, IndexError, TypeError):
          g["ranks"].append(0)           # axis missing from the answer: reported as rank 0
        if scores is not None:
          g["scores"].append(float(scores[nm]))
    out["groups"].append(g)
  return out


if __name__ == "__main__":
  core.worker_main(handle)
