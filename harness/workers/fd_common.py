"""Shared by the frequent-directions workers (C09): spec-behaviour -> dense inputs, projection
of implementation sketches, comparison with the spec's exact rationals.

Conventions
  * a spec behaviour (FD_Gen) lives on coordinates 1..d; the implementation's axis has size
    D >= d; Q is a seeded random orthogonal D x D matrix; spec coordinate i is the direction
    Q[:, i-1]; coordinates d+1..D never receive mass (the spec behaviour extended by zero
    coordinates is again a spec behaviour as long as k < d, or k >= D).
  * every comparison is made in MASS space (eigenvalues of the covariance) and normalised by
    the trace of the exact discounted covariance of the history (sum of c), as DESIGN.md says.
"""
import traceback

import numpy as np


def in_code_under_test(e):
  """True iff the exception passed through a frame of the library under test (then it is data
  about the code); an exception raised purely inside the harness is a machinery error."""
  for fr in traceback.extract_tb(e.__traceback__):
    if "/precondition/" in fr.filename and "/harness/" not in fr.filename:
      return True
  return False


def orth(rs, n):
  q, r = np.linalg.qr(rs.standard_normal((n, n)))
  return q * np.sign(np.diag(r))


class Exp:
  """Expected abstract state after one step, as float64."""

  def __init__(self, step, D, bd=1):
    den = float(step["den"])
    d = len(step["l"])
    pad = [0.0] * (D - d)
    self.g = np.array(step["g"] + pad, np.float64)
    self.l = np.array(step["l"] + pad, np.float64) / den
    self.c = np.array(step["c"] + pad, np.float64) / den
    self.ia = np.array(step["ia"] + pad, np.float64) / den
    self.t = step["t"] / den
    self.told = step["told"] * float(bd) / den      # told is over bd^(n-1)
    self.r = step["r"] / den
    self.maxarg = step["maxarg"] / den
    self.tie = bool(step["tie"])
    self.slack = bool(step["slack"])
    self.trace = float(self.c.sum())
    self.scale = self.trace if self.trace > 0 else 1.0


def diag_in(Q, v):
  return (Q * v[np.newaxis, :]) @ Q.T


def factor(Q, g, rs, m=None):
  """Dense D x m matrix G with G G' = Q diag(g) Q' (g = squared entries, len D)."""
  D = Q.shape[0]
  nz = [i for i in range(D) if g[i] > 0]
  if m is None:
    m = max(1, len(nz)) + int(rs.randint(0, 3))
  m = max(m, len(nz), 1)
  W = orth(rs, m)[:len(nz), :] if nz else np.zeros((0, m))
  G = np.zeros((D, m))
  for a, i in enumerate(nz):
    G += np.sqrt(g[i]) * np.outer(Q[:, i], W[a])
  return G


def tensor_with_axis(G, dim, others):
  """Tensor of shape others[:dim] + (D,) + others[dim:] whose mode-`dim` unfolding is G."""
  D = G.shape[0]
  t = G.reshape((D,) + tuple(others))
  return np.moveaxis(t, 0, dim)


def split_others(m, ndim, rs):
  """A shape of ndim-1 factors (each >= 2) with product >= m."""
  if ndim == 1:
    return ()
  dims = [2] * (ndim - 1)
  while int(np.prod(dims)) < m:
    dims[int(rs.randint(len(dims)))] += 1
  return tuple(dims)


# ---------------------------------------------------------------------------------------
# comparison of a projected implementation sketch with the spec
# ---------------------------------------------------------------------------------------
def compare(proj, e, Q, tol, worst, eps=0.0, check_inv=True, tol_inv=None):
  """proj: dict(V (D x k), lam (k,), tail, arg (k,) or None, targ or None)
       lam  eigenvalues of the covariance sketch per slot
       arg  argument the slot's stored inverse root denotes (inv^(-p)); np.inf if inv == 0
       targ same for the complement
  Returns list of (clause, detail).  `worst` collects the normalised discrepancies."""
  bad = []
  V = np.asarray(proj["V"], np.float64)
  lam = np.asarray(proj["lam"], np.float64)
  tail = float(proj["tail"])
  sc = e.scale

  def rec(name, val, limit=tol):
    worst[name] = max(worst.get(name, 0.0), float(val))
    if not val <= limit:
      bad.append((name, float(val)))

  if not (np.isfinite(V).all() and np.isfinite(lam).all() and np.isfinite(tail)):
    return [("sketch_not_finite", 0.0)]
  rec("nonneg", max(0.0, -lam.min() if lam.size else 0.0, -tail) / sc, 0.0)
  S = (V * lam[np.newaxis, :]) @ V.T
  rec("sketch", np.abs(S - diag_in(Q, e.l)).max() / sc)
  rec("tail", abs(tail - e.t) / sc)
  # orthonormal-or-zero columns
  gram = V.T @ V
  nrm = np.diag(gram)
  colerr = np.minimum(np.abs(nrm - 1.0), np.abs(nrm)).max() if nrm.size else 0.0
  off = np.abs(gram - np.diag(nrm)).max() if nrm.size else 0.0
  rec("orth", max(colerr, off), 1e-4)
  # bracket against the exact covariance of the spec (what the property states)
  C = diag_in(Q, e.c)
  rec("bracket_lo", max(0.0, -np.linalg.eigvalsh(C - S)[0]) / sc)
  rec("bracket_hi", max(0.0, -np.linalg.eigvalsh(S + tail * np.eye(len(S)) - C)[0]) / sc)
  if check_inv and proj.get("arg") is not None:
    arg = np.asarray(proj["arg"], np.float64)
    keep = lam > 1e-5 * sc          # float garbage slots exist only under tie / slack
    if not np.isfinite(arg[keep]).all():
      bad.append(("inverse_root_missing_on_kept_direction", 0.0))
    else:
      A = (V[:, keep] * (arg[keep] - eps)[np.newaxis, :]) @ V[:, keep].T
      rec("inv_arg", np.abs(A - diag_in(Q, e.ia)).max() / sc, tol_inv or tol)
  if check_inv and proj.get("targ") is not None:
    targ = float(proj["targ"])
    if np.isfinite(targ):
      rec("inv_tail_arg", abs(targ - eps - e.t) / sc, tol_inv or tol)
    else:                            # stored complement root is 0: escaped mass must be 0
      rec("inv_tail_arg", e.t / sc, tol_inv or tol)
  return bad


def inv_to_arg(inv, p):
  inv = np.asarray(inv, np.float64)
  with np.errstate(divide="ignore", over="ignore"):
    return np.where(inv > 0, np.power(np.where(inv > 0, inv, 1.0), -float(p)), np.inf)
