"""Replay of Quant_Gen exports into QuantizedValue.from_float_value / to_float (spec -> code).

Every job builds float32 tensors  t[r, c] = k[r, c] * 2^e[c]  from integer mantissas k and
per-column exponents e, runs

    qv = QuantizedValue.from_float_value(t, dtype, extract_diagonal)
    f  = qv.to_float()
    q2 = QuantizedValue.from_float_value(f, dtype, extract_diagonal).quantized

(eagerly or under jax.jit) and judges the payload by EXACT membership in the set exported by
the spec (lo[r, c] .. lo[r, c] + amb[r, c]), the bucket and the dequantised float against the
exact rational q*m/N*2^e, the re-quantised payload against q.

job kinds
  cols : {dtype, jit, layout, L, cols: [{m, e, lo: [...], amb: [...]}]}   lattice columns -m..m
         layout "vec" (rank 1, one call per column), "mat" (rank 2, [L, C]), "cube" (rank 3),
         "square" / "square_diag" (L x L, the lattice zero on the diagonal; with
         extract_diagonal the diagonal is replaced by arbitrary floats)
  mats : {dtype, jit, seed, items: [{ed, x, diag, mx, lo, hi}]}          small matrices (Quant_Gen mat)
  full : {dtype, jit, seed, n, edge}      full 24-bit mantissas (beyond TLC's 32-bit integers), judged
         by allowed_np - the numpy transcription of Quant!Allowed that the driver compares with
         TLC's export on every lattice entry; edge: columns whose max-abs is FLT_MAX or next to it
  pass : {seed, n}                         bfloat16 / float32 modes

Column classes (exact integer comparisons, N = number of buckets):
  normal     m*2^e/N >= 2^-126 and every non-zero entry normal: all checks are strict
  subnormal_entry  bucket normal but some entries |k|*2^e < 2^-126  -> judged per entry, key
             quant|subnormal_entry_flushed when the half-bucket bound fails on such an entry
  underflow  m*2^e < N*2^-126 (bucket subnormal)                   -> key quant|bucket_underflow
  max_float  column max-abs == FLT_MAX and dequantised max not finite -> quant|max_float|dequant_overflow
result = {viol: [{key, clause, detail}], entries, near_ties_up, cols: {class: n}, worst: {...}, error}
"""
import traceback

import numpy as np

from harness import core

NB = {"int8": 127, "int16": 32767}
FLT_MAX = float(np.finfo(np.float32).max)
REL = 2.0 ** -22          # analytic: <= 3 roundings of 2^-24 each in bucket and product


def allowed_np(k, m, N, exact=True, window=True):
  """numpy transcription of Quant!Allowed: returns (lo, amb) with allowed = {lo, lo+amb}.

  k: int64 array of mantissas, m: int64 (broadcastable) column max-abs, 0 <= N*|k| < 2^62.
  """
  k = np.asarray(k, np.int64)
  m = np.broadcast_to(np.asarray(m, np.int64), k.shape)
  num = N * np.abs(k)
  ms = np.where(m == 0, 1, m)
  lo = num // ms
  fr2 = 2 * (num - lo * ms)
  dn = (fr2 - ms <= 0) | (num >= (fr2 - ms) * 1048576)
  up = (ms - fr2 <= 0) | (num >= (ms - fr2) * 1048576)
  sg = np.where(k < 0, -1, 1)
  a = sg * lo
  b = sg * (lo + 1)
  both = dn & up
  mn = np.where(both, np.minimum(a, b), np.where(dn, a, b))
  mn = np.where(m == 0, 0, mn)
  amb = np.where(m == 0, 0, both.astype(np.int64))
  # exact bucket (N divides m): exactly round-half-even, no window
  rhe = sg * (lo + (fr2 > ms) + ((fr2 == ms) & (lo % 2 == 1)))
  ex = (m > 0) & ((ms % N == 0) if exact else False)
  if not window:                      # (self-tests only) plain round-half-even everywhere
    ex = m > 0
  mn = np.where(ex, rhe, mn)
  amb = np.where(ex, 0, amb)
  return mn, amb


def _get_fns():
  import jax
  import jax.numpy as jnp
  from precondition.quantization_utils import QuantizedValue
  dts = {"int8": jnp.int8, "int16": jnp.int16, "bfloat16": jnp.bfloat16, "float32": jnp.float32}
  cache = {}

  # the same target type in the spellings callers use: the jnp scalar type, a numpy dtype instance, and - as
  # the optimizer itself does when it re-quantizes a preconditioner - the dtype of an existing payload
  dts_np = {"int8": np.dtype("int8"), "int16": np.dtype("int16")}

  def rt(t, dt, ed, np_form=False):
    qv = QuantizedValue.from_float_value(t, dts_np.get(dt, dts[dt]) if np_form else dts[dt], ed)
    f = qv.to_float()
    qv2 = QuantizedValue.from_float_value(f, qv.quantized.dtype if dt in dts_np else dts[dt], ed)
    return qv.quantized, qv.bucket_size, qv.diagonal, f, qv2.quantized

  def run(t, dt, ed, jit):
    t = jnp.asarray(t)
    if jit:
      key = (dt, ed)
      if key not in cache:
        cache[key] = jax.jit(lambda v, _dt=dt, _ed=ed: rt(v, _dt, _ed))
      out = cache[key](t)
    else:
      out = rt(t, dt, ed, np_form=True)
    q, b, d, f, q2 = out
    return (np.asarray(q), np.asarray(b), (np.asarray(d) if not isinstance(d, list) else None),
            np.asarray(f), np.asarray(q2))
  return run


def _ldexp32(k, e):
  """k * 2^e as float32 (exact: callers keep it representable)."""
  return np.ldexp(np.asarray(k, np.float64), np.asarray(e, np.int64)).astype(np.float32)


def judge(res, dt, k, e, lo, amb, out, *, ed=False, dvals=None, tag=""):
  """k: [R, C] int64 mantissas of the OFF-DIAGONAL part, e: [C] exponents, lo/amb: [R, C]."""
  q, b, d, f, q2 = out
  N = NB[dt]
  R, C = k.shape
  viol = res["viol"]

  def add(key, clause, detail):
    # at most 3 reports per key: the known-finding classes must never crowd out another key
    if sum(1 for v in viol if v["key"] == key) < 3:
      viol.append({"key": key, "clause": clause, "detail": detail, "tag": tag})

  if q.shape != k.shape or f.shape != k.shape or q2.shape != k.shape or b.shape != (C,):
    add(f"quant|{dt}|shape", "shape", {"q": list(q.shape), "f": list(f.shape), "b": list(b.shape),
                                        "want": [R, C]})
    return
  if str(q.dtype) != dt:
    add(f"quant|{dt}|payload_dtype", "payload_dtype", str(q.dtype))
  q = q.astype(np.int64)
  q2 = q2.astype(np.int64)
  m = np.abs(k).max(axis=0)                                   # [C]
  e = np.asarray(e, np.int64)
  # ---- column classes (exact) -----------------------------------------------------------
  # bucket normal  <=>  m * 2^(e+126) >= N
  sh = e + 126
  under = np.array([(int(mm) << int(s) if s >= 0 else int(mm) / float(1 << int(-s))) < N
                    for mm, s in zip(m, sh)]) & (m > 0)
  x64 = np.ldexp(k.astype(np.float64), e[None, :])
  subn_entry = (k != 0) & (np.abs(x64) < 2.0 ** -126) & ~under[None, :]
  f64 = f.astype(np.float64)
  mx64 = np.ldexp(m.astype(np.float64), e)[None, :]
  is_maxfloat = (mx64 == FLT_MAX)
  res["entries"] += int(k.size)
  res["cols"]["underflow"] += int(under.sum())
  res["cols"]["subnormal_entry"] += int(subn_entry.any(axis=0).sum())
  res["cols"]["normal"] += int((~under & ~subn_entry.any(axis=0)).sum())
  strict = ~under[None, :] & ~subn_entry                       # entries judged strictly
  # ---- the property itself, in float64 (values are exact, bound has 1e-16 relative slack) ---
  with np.errstate(divide="ignore", invalid="ignore"):
    r_abs = np.where(mx64 > 0, N * np.abs(x64) / mx64, 0.0)
  bound = (mx64 / N) * (0.5 + r_abs * 2.0 ** -21) + REL * mx64
  err = np.abs(f64 - x64)
  finite = np.isfinite(f64)
  over = ~finite | (err > bound * (1 + 1e-12))
  if ed:   # the diagonal is judged separately (exactly)
    over = over & ~np.eye(R, C, dtype=bool)
  if over.any():
    U = np.broadcast_to(under[None, :], over.shape)
    MF = np.broadcast_to(is_maxfloat, over.shape)
    c_mf = over & ~finite & MF
    c_un = over & ~c_mf & U
    c_sn = over & ~c_mf & ~U & subn_entry
    c_nf = over & ~c_mf & ~U & ~subn_entry & ~finite
    c_hb = over & ~c_mf & ~U & ~subn_entry & finite
    for mask, key, clause in ((c_mf, "quant|max_float|dequant_overflow|" + dt, "dequantised_not_finite"),
                              (c_un, "quant|bucket_underflow|" + dt, "half_bucket_exceeded"),
                              (c_sn, "quant|subnormal_entry_flushed|" + dt, "half_bucket_exceeded"),
                              (c_nf, f"quant|{dt}|dequantised_not_finite", "dequantised_not_finite"),
                              (c_hb, f"quant|{dt}|half_bucket_exceeded", "half_bucket_exceeded")):
      for (r, c) in np.argwhere(mask)[:2]:
        add(key, clause,
            {"k": int(k[r, c]), "m": int(m[c]), "e": int(e[c]), "q": int(q[r, c]), "f": float(f64[r, c]),
             "x": float(x64[r, c]), "n_bad": int(mask.sum()),
             "err_in_buckets": float(err[r, c] / (mx64[0, c] / N)) if np.isfinite(err[r, c]) else "inf"})
  # ---- no wrap (all classes) --------------------------------------------------------------
  wrap = (q < -N) | (q > N)
  if wrap.any():
    r, c = np.argwhere(wrap)[0]
    add(f"quant|{dt}|payload_wraps", "payload_wraps", {"k": int(k[r, c]), "m": int(m[c]), "e": int(e[c]), "q": int(q[r, c])})
  # ---- exact membership (strict entries) ----------------------------------------------------
  notin = strict & ((q < lo) | (q > lo + amb))
  if notin.any():
    r, c = np.argwhere(notin)[0]
    add(f"quant|{dt}|payload_not_allowed", "payload_not_allowed",
        {"k": int(k[r, c]), "m": int(m[c]), "e": int(e[c]), "q": int(q[r, c]),
         "allowed": [int(lo[r, c]), int(lo[r, c] + amb[r, c])], "n_bad": int(notin.sum())})
  res["near_ties"] += int((strict & (amb > 0)).sum())
  res["near_ties_up"] += int((strict & (amb > 0) & (q == lo + 1)).sum())
  sc = ~under & ~subn_entry.any(axis=0) & ~is_maxfloat[0]      # strictly judged columns
  if sc.any():
    # bucket_size = m 2^e / N
    bw = np.ldexp(m.astype(np.float64), e) / N
    with np.errstate(divide="ignore", invalid="ignore"):
      brel = np.where(bw > 0, np.abs(b.astype(np.float64) - bw) / np.where(bw > 0, bw, 1), np.abs(b))
    res["worst"]["bucket_rel_2^-24"] = max(res["worst"]["bucket_rel_2^-24"], float(brel[sc].max() / 2.0 ** -24))
    if (brel[sc] > REL).any():
      c = int(np.argwhere(sc & (brel > REL))[0][0])
      add(f"quant|{dt}|bucket_is_not_maxabs_over_N", "bucket_size_wrong",
          {"m": int(m[c]), "e": int(e[c]), "bucket": float(b[c]), "want": float(bw[c])})
    # dequantised float = q m / N 2^e (+ diagonal, judged below)
    want = q.astype(np.float64) * mx64 / N
    dd = np.abs(f64 - want) / np.where(mx64 > 0, mx64, 1.0)
    dd = np.where(np.isfinite(dd), dd, np.inf)
    if ed:
      dd = np.where(np.eye(R, C, dtype=bool), 0.0, dd)
    dsel = dd[:, sc]
    res["worst"]["dequant_rel_2^-24"] = max(res["worst"]["dequant_rel_2^-24"], float(dsel.max() / 2.0 ** -24))
    if (dsel > REL).any():
      r, c = np.argwhere((dd > REL) & sc[None, :])[0]
      add(f"quant|{dt}|dequantised_value_is_not_payload_times_bucket", "dequantised_value_off",
          {"k": int(k[r, c]), "m": int(m[c]), "e": int(e[c]), "q": int(q[r, c]), "f": float(f64[r, c]), "want": float(want[r, c])})
    z = (k == 0) & sc[None, :]
    if ed:
      z = z & ~np.eye(R, C, dtype=bool)
    if (z & (f64 != 0)).any():
      r, c = np.argwhere(z & (f64 != 0))[0]
      add(f"quant|{dt}|zero_not_exact", "zero_not_exact", {"m": int(m[c]), "e": int(e[c]), "f": float(f64[r, c])})
    drift = (q2 != q) & sc[None, :]
    if drift.any():
      r, c = np.argwhere(drift)[0]
      add(f"quant|{dt}|requantisation_drifts", "requantisation_drifts",
          {"k": int(k[r, c]), "m": int(m[c]), "e": int(e[c]), "q": int(q[r, c]), "q2": int(q2[r, c]), "n_bad": int(drift.sum())})
  # ---- diagonal ---------------------------------------------------------------------------
  if ed:
    dv = np.asarray(dvals, np.float32)
    if d is None or d.shape != dv.shape or not np.array_equal(d.view(np.uint32), dv.view(np.uint32)):
      add(f"quant|{dt}|diagonal_not_stored_exactly", "diagonal_not_stored_exactly",
          {"got": None if d is None else d[:6].tolist(), "want": dv[:6].tolist()})
    fd = np.diagonal(f).astype(np.float32)
    if not np.array_equal(fd.view(np.uint32), dv.view(np.uint32)):
      i = int(np.argwhere(fd.view(np.uint32) != dv.view(np.uint32))[0][0])
      add(f"quant|{dt}|diagonal_not_reproduced_exactly", "diagonal_not_reproduced_exactly",
          {"i": i, "got": float(fd[i]), "want": float(dv[i])})
    if (np.diagonal(q) != 0).any():
      add(f"quant|{dt}|diagonal_payload_nonzero", "diagonal_payload_nonzero", np.diagonal(q)[:8].tolist())
  elif d is not None:
    add(f"quant|{dt}|diagonal_present_without_extract", "diagonal_present", None)


def _lattice(col, L, shift=0):
  """lattice column -m..m as (k, lo, amb) of length L; shift > 0 rotates so that 0 sits at row `shift`."""
  m = col["m"]
  n = 2 * m + 1
  k = np.zeros(L, np.int64)
  lo = np.zeros(L, np.int64)
  amb = np.zeros(L, np.int64)
  vals = np.arange(-m, m + 1, dtype=np.int64)
  lo_v = np.asarray(col["lo"], np.int64)
  amb_v = np.isin(vals, np.asarray(col["amb"], np.int64)).astype(np.int64)
  if shift is None:
    k[:n], lo[:n], amb[:n] = vals, lo_v, amb_v
  else:
    # value 0 at row `shift`, then 1..m, then -m..-1, cyclically
    order = np.concatenate([np.arange(m, n), np.arange(0, m)])
    rows = (shift + np.arange(n)) % L
    k[rows], lo[rows], amb[rows] = vals[order], lo_v[order], amb_v[order]
  return k, lo, amb


def do_cols(job, run, res):
  dt, jit, layout, L = job["dtype"], job["jit"], job["layout"], job["L"]
  cols = job["cols"]
  if layout == "vec":
    for c in cols:
      k, lo, amb = _lattice(c, L, None)
      for e in c["es"]:
        t = _ldexp32(k, e)
        out = run(t, dt, False, jit)
        q, b, d, f, q2 = out
        out = (q.reshape(-1, 1) if q.ndim == 1 else q, np.reshape(b, (1,)), d,
               f.reshape(-1, 1) if f.ndim == 1 else f, q2.reshape(-1, 1) if q2.ndim == 1 else q2)
        judge(res, dt, k[:, None], np.array([e]), lo[:, None], amb[:, None], out, tag=f"vec m={c['m']} e={e}")
    return
  square = layout.startswith("square")
  C = L if square else len(cols)
  K = np.zeros((L, C), np.int64)
  LO = np.zeros((L, C), np.int64)
  AMB = np.zeros((L, C), np.int64)
  E = np.zeros(C, np.int64)
  for j in range(C):
    c = cols[j % len(cols)]
    K[:, j], LO[:, j], AMB[:, j] = _lattice(c, L, j if square else None)
    E[j] = c["es"][(j // len(cols)) % len(c["es"])]
  t = _ldexp32(K, E[None, :])
  ed = layout == "square_diag"
  dv = None
  if ed:
    rs = np.random.RandomState(job["seed"])
    # arbitrary float32 diagonal, unrelated to the column scale (tiny .. huge), incl. 0 and negative
    dv = (rs.standard_normal(L) * np.exp(rs.uniform(-30, 30, size=L))).astype(np.float32)
    dv[rs.randint(L)] = 0.0
    t = t.copy()
    t[np.arange(L), np.arange(L)] = dv
  if layout == "cube":
    c1 = job["c1"]
    t3 = t.reshape(L, c1, C // c1)
    q, b, d, f, q2 = run(t3, dt, False, jit)
    out = (q.reshape(L, C), np.reshape(b, (C,)), d, f.reshape(L, C), q2.reshape(L, C))
  else:
    out = run(t, dt, ed, jit)
  judge(res, dt, K, E, LO, AMB, out, ed=ed, dvals=dv, tag=f"{layout} L={L} C={C} jit={jit}")


def do_mats(job, run, res):
  dt, jit = job["dtype"], job["jit"]
  rs = np.random.RandomState(job["seed"])
  N = NB[dt]
  for it in job["items"]:
    x = np.asarray(it["x"], np.int64)
    R, C = x.shape
    off = np.asarray(it["off"], np.int64)
    lo = np.asarray(it["lo"], np.int64)
    hi = np.asarray(it["hi"], np.int64)
    # exponents: mostly moderate, sometimes near the ends of the normal range
    e = rs.randint(-20, 21, size=C)
    mode = rs.randint(8)
    if mode == 0:
      e = rs.randint(60, 110, size=C)
    elif mode == 1:
      e = rs.randint(-100, -60, size=C)
    t = _ldexp32(x, e[None, :])
    out = run(t, dt, bool(it["ed"]), jit)
    # expected diagonal: the spec's exported diag (grid integers, exponent of the entry's column)
    dv = _ldexp32(np.asarray(it["diag"], np.int64), e) if it["ed"] else None
    if not np.array_equal(np.abs(off).max(axis=0), np.asarray(it["mx"], np.int64)):
      raise AssertionError("exported mx is not the column max of exported off")
    judge(res, dt, off, e, lo, hi - lo, out, ed=bool(it["ed"]), dvals=dv,
          tag=f"mat {it['x']} ed={it['ed']} e={e.tolist()}")


def do_full(job, run, res):
  """full 24-bit mantissas; oracle allowed_np (transcription of Quant!Allowed)."""
  dt, jit = job["dtype"], job["jit"]
  N = NB[dt]
  rs = np.random.RandomState(job["seed"])
  for i in range(job["n"]):
    R = int(rs.randint(2, 40))
    C = int(rs.randint(1, 6))
    k = rs.randint(-(1 << 24) + 1, 1 << 24, size=(R, C)).astype(np.int64)
    k[rs.rand(R, C) < 0.15] = 0
    small = rs.rand(R, C) < 0.3
    k[small] = k[small] >> rs.randint(1, 20)
    e = rs.randint(-120, 80, size=C)
    if job["edge"]:
      e[:] = 104                                        # (2^24 - 1) * 2^104 = FLT_MAX
      top = [(1 << 24) - 1, (1 << 24) - 2, (1 << 24) - 3, 1 << 23, (1 << 24) - 1][i % 5]
      for c in range(C):
        k[rs.randint(R), c] = top if (c + i) % 2 == 0 else -top
      if i % 7 == 3:                                    # smallest normal bucket, full mantissas
        e[:] = -126 - 23 + int(np.ceil(np.log2(N))) + 1
    m = np.abs(k).max(axis=0)
    lo, amb = allowed_np(k, m[None, :], N)
    t = _ldexp32(k, e[None, :])
    if C == 1 and i % 2 == 0:
      q, b, d, f, q2 = run(t[:, 0], dt, False, jit)
      out = (q.reshape(-1, 1), np.reshape(b, (1,)), d, f.reshape(-1, 1), q2.reshape(-1, 1))
    else:
      out = run(t, dt, False, jit)
    judge(res, dt, k, e, lo, amb, out, tag=f"full seed={job['seed']} i={i} edge={job['edge']}")


def do_pass(job, run, res):
  """bfloat16 / float32 modes: pass-through properties."""
  import ml_dtypes
  rs = np.random.RandomState(job["seed"])
  viol = res["viol"]
  for i in range(job["n"]):
    shape = [(7,), (5, 5), (3, 4, 2), (6, 6)][i % 4]
    t = (rs.standard_normal(shape) * np.exp(rs.uniform(-80, 80, size=shape))).astype(np.float32)
    t.reshape(-1)[rs.randint(t.size)] = 0.0
    if i % 5 == 0:
      t.reshape(-1)[0] = np.float32(2.0 ** -130)          # subnormal passes through float32 mode
    for dt in ("float32", "bfloat16"):
      for ed in ([False, True] if (len(shape) == 2 and shape[0] == shape[1]) else [False]):
        q, b, d, f, q2 = run(t, dt, ed, bool(i % 2))
        res["entries"] += int(t.size)
        if d is not None or np.size(b) != 0:
          viol.append({"key": f"quant|{dt}|unexpected_diagonal_or_bucket", "clause": "passthrough", "detail": None, "tag": ""})
        if dt == "float32":
          same = np.array_equal(np.asarray(q).view(np.uint32), t.view(np.uint32)) and \
                 np.array_equal(f.view(np.uint32), t.view(np.uint32))
          if not same:
            viol.append({"key": "quant|float32|not_identity", "clause": "passthrough",
                         "detail": {"t": t.reshape(-1)[:4].tolist(), "f": f.reshape(-1)[:4].tolist()}, "tag": ""})
        else:
          want = t.astype(ml_dtypes.bfloat16).astype(np.float32)
          nz = np.abs(t) >= 2.0 ** -126                     # XLA CPU flushes subnormal inputs
          ok = np.array_equal(f[nz].view(np.uint32), want[nz].view(np.uint32))
          ok = ok and f.dtype == np.float32 and str(np.asarray(q).dtype) == "bfloat16"
          ok = ok and np.array_equal(np.asarray(q2).astype(np.float32).view(np.uint32), f.view(np.uint32))
          ok = ok and bool(np.all(f[t == 0] == 0))
          fin = np.isfinite(want)
          rel = np.abs(f.astype(np.float64) - t)[fin & nz] / np.abs(t.astype(np.float64))[fin & nz]
          ok = ok and (rel.size == 0 or rel.max() <= 2.0 ** -8)
          if not ok:
            viol.append({"key": "quant|bfloat16|not_round_to_nearest_bfloat16", "clause": "passthrough",
                         "detail": {"t": t.reshape(-1)[:4].tolist(), "f": f.reshape(-1)[:4].tolist()}, "tag": ""})


def handle(job):
  res = {"viol": [], "entries": 0, "near_ties": 0, "near_ties_up": 0,
         "cols": {"normal": 0, "underflow": 0, "subnormal_entry": 0},
         "worst": {"bucket_rel_2^-24": 0.0, "dequant_rel_2^-24": 0.0}, "error": None}
  try:
    run = _get_fns()
    {"cols": do_cols, "mats": do_mats, "full": do_full, "pass": do_pass}[job["kind"]](job, run, res)
  except AssertionError:
    raise
  except Exception as e:
    res["error"] = f"{type(e).__name__}: {e}"[:500]
    res["kind"] = core.classify_exception(e)
    res["tb"] = traceback.format_exc()[-2000:]
  return res


if __name__ == "__main__":
  core.worker_main(handle)
