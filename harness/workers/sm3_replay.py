"""Replay of SM3_Gen behaviours into the real precondition.sm3.sm3 (spec -> code).

job = {cfg: {shape, bn, bd, T}, lr, eps, eager: bool, behaviours: [[step, ...], ...]}
      step = {g, nu, ex, acc, den}  (SM3_Gen: flat row-major integers, numerators over den)
result = {mismatches: [{clause, beh, step, detail}], worst_upd: float, n_steps, min_mattered,
          sketch_lossy, error}

beta1 = 0 and weight_decay = 0, so the returned update is the pre-momentum step
-lr * g / sqrt(nu + eps) with nu the spec's new_diagonal_statistics.  Accumulators are
compared with `==`: integers over a power of two are exact in float32.
"""
import traceback

import numpy as np

from harness import core

UPD_TOL = 2e-5


def handle(job):
  import jax
  import jax.numpy as jnp
  from precondition import sm3 as sm3_lib

  cfg = job["cfg"]
  shape = tuple(cfg["shape"])
  beta2 = cfg["bn"] / cfg["bd"]
  lr, eps = job["lr"], job["eps"]
  res = {"mismatches": [], "worst_upd": 0.0, "n_steps": 0, "min_mattered": 0,
         "sketch_lossy": 0, "error": None}
  try:
    opt = sm3_lib.sm3(lr, beta1=0.0, beta2=beta2, diagonal_epsilon=eps, weight_decay=0.0)
    params = {"w": jnp.zeros(shape, jnp.float32)}
    state0 = opt.init(params)
    upd = opt.update if job.get("eager") else jax.jit(opt.update)
    for bi, steps in enumerate(job["behaviours"]):
      state = state0
      for si, st in enumerate(steps):
        g = np.asarray(st["g"], np.float32).reshape(shape)
        u, state = upd({"w": jnp.asarray(g)}, state, params)
        res["n_steps"] += 1
        mm = []
        cnt = int(np.asarray(state.count))
        if cnt != si + 1:
          mm.append({"clause": "count", "detail": [cnt, si + 1]})
        accs = state.stats["w"].diagonal_statistics
        if len(accs) != len(shape):
          mm.append({"clause": "accumulator_count", "detail": [len(accs), len(shape)]})
        else:
          for a, (got, exp) in enumerate(zip(accs, st["acc"])):
            got = np.asarray(got, np.float64)
            expf = np.asarray(exp, np.float64) / st["den"]
            if got.shape != expf.shape or not np.array_equal(got, expf):
              mm.append({"clause": "accumulator_differs_from_model",
                         "detail": {"axis": a, "got": got.tolist(), "expected": expf.tolist()}})
              break
        nu = np.asarray(st["nu"], np.float64).reshape(shape) / st["den"]
        want = -lr * g.astype(np.float64) / np.sqrt(nu + eps)
        got = np.asarray(u["w"], np.float64)
        if got.shape != want.shape:
          mm.append({"clause": "update_shape", "detail": [list(got.shape), list(want.shape)]})
        else:
          zero = want == 0
          if zero.any() and np.abs(got[zero]).max() != 0:
            mm.append({"clause": "update_nonzero_for_zero_gradient", "detail": got.tolist()})
          if (~zero).any():
            rel = float((np.abs(got - want)[~zero] / np.abs(want[~zero])).max())
            if not np.isfinite(rel):
              rel = float("inf")
            if rel <= UPD_TOL:
              res["worst_upd"] = max(res["worst_upd"], rel)
            if rel > UPD_TOL:
              mm.append({"clause": "update_is_not_lr_g_over_sqrt_nu",
                         "detail": {"rel": rel, "got": got.tolist(), "want": want.tolist()}})
        # how often the interesting branches were exercised (vacuity control)
        if len(shape) > 1 and si > 0:
          prev = steps[si - 1]["acc"]
          if any(len(set(a)) > 1 for a in prev):
            res["min_mattered"] += 1
        if any(n_ > e_ for n_, e_ in zip(st["nu"], st["ex"])):
          res["sketch_lossy"] += 1
        for m in mm:
          m.update({"beh": bi, "step": si})
        res["mismatches"].extend(mm)
        if mm:
          break
  except Exception as e:  # exception of the code under test: data, not a crash
    res["error"] = f"{type(e).__name__}: {e}"[:500]
    res["kind"] = core.classify_exception(e)
    res["tb"] = traceback.format_exc()[-1500:]
  return res


if __name__ == "__main__":
  core.worker_main(handle)
