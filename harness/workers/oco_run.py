"""Run the real precondition.oco.algorithms init/update pair on a prescribed gradient sequence (x64).

job = {"alg": "OGD"|"ADA"|"S_ADA"|"ADA_FD"|"FD_SON"|"RFD_SON", "shape": [..] (w_shape), "k": sketch_size,
       "delta": float, "lr": float, "grads": [[flat gradient] per step], "jit": bool}
result = {"error": None | {...}, "x64": bool,
          "steps": [{"w": [...flat], "t": float|None, "alpha": float|None, "P": [[..]..]|None, "e": [..]|None,
                     "diag_h": [..]|None}]}     # state after every update call
The driver prescribes the gradients (rotated lattice histories, dense random sequences) and evaluates the
specification's closed forms; this worker only drives the code under test.
"""
import traceback

import numpy as np

from harness import core


def handle(job):
  import jax
  import jax.numpy as jnp
  from precondition.oco import algorithms as A   # code under test
  if not jax.config.jax_enable_x64:
    raise core.MachineryError("oco_run needs JAX_ENABLE_X64=1 (run_workers(..., x64=True))")
  out = {"error": None, "x64": True, "steps": []}
  try:
    hp = A.HParams(delta=job["delta"], lr=job["lr"], sketch_size=int(job["k"]), algorithm=A.Algorithm[job["alg"]])
    shape = tuple(int(x) for x in job["shape"])
    init, update = A.generate_init_update(shape, hp)
    upd = jax.jit(update) if job.get("jit") else update
    # An earlier sequence through the SAME bound pair (state passed on as a caller does, not copied): the
    # property speaks about every gradient sequence, so init() must hand out a fresh state every time
    state = init()
    for g in job["grads"][:2]:
      state = upd(state, jnp.asarray(0.0), jnp.asarray(np.asarray(g, np.float64).reshape(shape)) * 3.0)
    state = init()
    for g in job["grads"]:
      grad = jnp.asarray(np.asarray(g, np.float64).reshape(shape))
      state = upd(state, jnp.asarray(0.0), grad)
      st = {k: np.asarray(v) for k, v in state.items()}
      out["steps"].append({
          "w": st["w"].ravel().tolist(),
          "wdtype": str(st["w"].dtype),
          "t": float(st["t"]) if "t" in st else None,
          "alpha": float(st["alpha"]) if "alpha" in st else None,
          "P": st["P"].tolist() if "P" in st else None,
          "e": st["e"].tolist() if "e" in st else None,
          "diag_h": st["diag_h"].ravel().tolist() if "diag_h" in st else None})
  except Exception as e:  # exception of the code under test
    out["error"] = {"type": type(e).__name__, "msg": str(e)[:300], "kind": core.classify_exception(e),
                    "at_step": len(out["steps"]) + 1, "tb": traceback.format_exc()[-1500:]}
  return out


if __name__ == "__main__":
  core.worker_main(handle)
