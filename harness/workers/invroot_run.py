"""One real call of matrix_inverse_pth_root / matrix_inverse_pth_root_eigh per case exported
by spec/InvRoot_Gen; returns the trace for spec/InvRoot_Trace plus raw observations.

job    = {"case": {...}, "derived": {...}, "seed": int}          (one @@GEN line + seed)
result = {"error": None | str, "kind", "tb", "events": [...], "obs": {...}}

The matrix is A = Q diag(a) Q^T (seeded orthogonal Q, float64) on the unpadded block with
a_i = 10^(c - exps[i]), zero or junk in the padding rows.  p, ridge_epsilon and
padding_start are passed as traced arrays (that is how the optimizer passes p and
padding_start; it also keeps the number of XLA compilations per process small).

Numbers for TLC are decimals [m, e] = m * 10^e with nine digits, rounded one-sidedly by
exact rational arithmetic ([-1, 0] = not finite): measured residuals and the eigenvalue
estimate UP, the reported figure DOWN - logging can only make a trace harder to accept.
"""
import math
import os
import traceback
from fractions import Fraction

import numpy as np

from harness import core

X64 = os.environ.get("JAX_ENABLE_X64", "0") == "1"
_JIT = {}
THR = np.float32(0.1)      # inverse_failure_threshold default, compared in float32 by the gate
RETRY = np.float32(0.05)   # retry_loop_error_threshold, compared with the float32 error


# ---------------------------------------------------------------------------------------
# one-sided decimals
# ---------------------------------------------------------------------------------------
def dec(x, up):
  x = float(x)
  if not math.isfinite(x) or x < 0:
    return [-1, 0]
  if x == 0.0:
    return [0, 0]
  f = Fraction(x)
  e = int(math.floor(math.log10(x))) - 8
  while True:
    q = f / (Fraction(10) ** e)
    m = math.ceil(q) if up else math.floor(q)
    if m >= 10 ** 9:
      if up and m == 10 ** 9 and q <= 10 ** 9:
        return [10 ** 8, e + 1]
      e += 1
    elif m < 10 ** 8:
      e -= 1
    else:
      return [int(m), int(e)]


def undec(d):
  return d[0] * 10.0 ** d[1]


# ---------------------------------------------------------------------------------------
# the matrix of a case
# ---------------------------------------------------------------------------------------
def build(case, derived, seed):
  n, m = case["n"], derived["m"]
  rs = np.random.RandomState(seed)
  A = np.zeros((n, n))
  a = np.zeros(m)
  if m > 0:
    Q, _ = np.linalg.qr(rs.randn(m, m))
    a[:len(case["exps"])] = [10.0 ** (case["c"] - e) for e in case["exps"]]
    B = (Q * a) @ Q.T
    A[:m, :m] = (B + B.T) / 2
  if case["fill"] == "junk":
    J = rs.randn(n, n) * 10.0 ** case["c"]
    J = (J + J.T) / 2
    A[m:, :] = J[m:, :]
    A[:, m:] = J[:, m:]
  return A, a


def routine(case, num_iters=100):
  import jax
  import jax.numpy as jnp
  from precondition import distributed_shampoo as ds
  key = (case["method"], case["rel"], case["k"], case["ps"] >= 0, case["n"], num_iters)
  if key not in _JIT:
    if len(_JIT) >= 250:
      _JIT.clear()
      jax.clear_caches()
    method, rel, k, hasps, _, _ = key

    def f(A, p, eps, ps):
      X, mt = ds.matrix_inverse_pth_root(
          A, p, ridge_epsilon=eps, relative_matrix_epsilon=rel, lobpcg_topk_precondition=k,
          padding_start=ps if hasps else None, eigh=(method == "eigh"), num_iters=num_iters)
      return X, (mt.inverse_pth_root_errors, mt.max_eigen_value, mt.total_retries,
                 mt.inverse_pth_root_iters, mt.final_error_ratio)
    _JIT[key] = jax.jit(f)
  return _JIT[key]


def pi_premise(case, derived, A):
  """Premise PI of InvRoot_Trace for the eigh route (which hides its estimate): the library's own
  power_iteration, called as the routine calls it, lands in [lambda_max (1 - 1e-4), lambda_max]."""
  import jax
  import jax.numpy as jnp
  from precondition import distributed_shampoo as ds
  key = ("pi", case["ps"] >= 0, case["n"])
  if key not in _JIT:
    hasps = key[1]
    _JIT[key] = jax.jit(lambda M, ps: ds.power_iteration(
        M, num_iters=100, error_tolerance=1e-6, padding_start=ps if hasps else None)[1])
  m = derived["m"]
  M = np.array(A)
  if case["ps"] >= 0:
    M[m:, :] = 0
    M[:, m:] = 0
  lam = float(_JIT[key](jnp.asarray(M), jnp.asarray(max(case["ps"], 0), jnp.int32)))
  lmax = 10.0 ** case["c"]
  return bool(lmax * (1 - 1e-4) <= lam <= lmax * (1 + 1e-9)), lam


# ---------------------------------------------------------------------------------------
# measured residual  max | X^p (A + d I) - I |  on the unpadded block, minimised over an
# interval of d (convex in d: maximum of absolute values of affine functions)
# ---------------------------------------------------------------------------------------
def residual_min(M0, XP, I, lo, hi):
  def r(d):
    with np.errstate(all="ignore"):
      v = np.max(np.abs(M0 + d * XP - I))
    return float(v) if np.isfinite(v) else float("inf")
  best = min(r(lo), r(hi))
  if hi > lo and math.isfinite(best):
    a, b = lo, hi
    g = (math.sqrt(5) - 1) / 2
    c1, c2 = b - g * (b - a), a + g * (b - a)
    f1, f2 = r(c1), r(c2)
    for _ in range(60):
      if f1 <= f2:
        b, c2, f2 = c2, c1, f1
        c1 = b - g * (b - a)
        f1 = r(c1)
      else:
        a, c1, f1 = c1, c2, f2
        c2 = a + g * (b - a)
        f2 = r(c2)
    best = min(best, f1, f2)
  return best


def measure(case, derived, A, X, lam_rep):
  m, p = derived["m"], case["p"]
  eps = 10.0 ** -case["eexp"]
  Xb = np.asarray(X[:m, :m], np.float64)
  Ab = np.asarray(A[:m, :m], np.float64)
  with np.errstate(all="ignore"):
    XP = np.linalg.matrix_power(Xb, p)
    M0 = XP @ Ab
  I = np.eye(m)
  K = derived["maxTries"] if derived["branch"] == "loop" else 1
  lmax = 10.0 ** case["c"]
  if derived["lamSource"] == "hidden":              # eigh: assumption PI of InvRoot_Trace
    lam_iv = (lmax * (1 - 1e-4), lmax)
  elif lam_rep is not None and math.isfinite(lam_rep):
    lam_iv = (lam_rep * (1 - 2.0 ** -23), lam_rep * (1 + 2.0 ** -23))   # float32 report
  else:
    lam_iv = None
  fl = 10.0 ** -derived["floorExp"]
  bases = {"abs": (1.0, 1.0), "rel_floor": (fl, fl), "rel_lam": lam_iv}
  out, raw = {}, {}
  for b, iv in bases.items():
    col, rcol = [], []
    for k in range(K):
      if iv is None or not np.isfinite(M0).all():
        col.append([-1, 0]); rcol.append(float("inf"))
        continue
      esc = float(derived["escalation"]) ** k
      v = residual_min(M0, XP, I, eps * iv[0] * esc, eps * iv[1] * esc)
      col.append(dec(v, up=True)); rcol.append(v)
    out[b], raw[b] = col, rcol
  return out, raw


def handle(job):
  case, derived = job["case"], job["derived"]
  import jax.numpy as jnp
  n, m = case["n"], derived["m"]
  A, a = build(case, derived, job["seed"])
  fdt = np.float64 if (case["dt"] == "f64") else np.float32
  if (case["dt"] == "f64") != X64:
    raise RuntimeError("case dtype does not match the worker's x64 setting")
  A = A.astype(fdt)
  try:
    f = routine(case, int(job.get("num_iters", 100)))
    X, mt = f(jnp.asarray(A), jnp.asarray(case["p"], jnp.int32),
              jnp.asarray(10.0 ** -case["eexp"], fdt), jnp.asarray(max(case["ps"], 0), jnp.int32))
    X = np.asarray(X)
    err, lam, retries, iters, ratio = [np.asarray(v) for v in mt]
  except Exception as e:  # exception of the code under test: data, not a crash
    return {"error": f"{type(e).__name__}: {e}", "kind": core.classify_exception(e),
            "tb": traceback.format_exc()[-1500:], "events": [], "obs": {}}

  obs = {"dtype": str(X.dtype), "shape": list(X.shape), "err": float(err), "lam": float(lam),
         "retries": float(retries), "iters": float(iters), "ratio": float(ratio)}
  finite = bool(np.isfinite(X).all())
  xmax = float(np.max(np.abs(X))) if finite else float("nan")
  asym = float(np.max(np.abs(X - X.T))) / xmax if (finite and xmax > 0) else 0.0
  outside = np.ones((n, n), bool)
  outside[:m, :m] = False
  padnz = int(np.count_nonzero(X[outside])) if case["ps"] >= 0 else 0
  xzero = not bool(np.any(X != 0))
  f32 = np.float32(err)
  if np.isnan(f32):
    fc, c05 = "nan", "nan"
  else:
    fc = "inf" if np.isinf(f32) else ("below" if f32 < THR else "atabove")
    c05 = "big" if f32 > RETRY else "small"
  accepted = bool(f32 < THR)
  fig = dec(float(f32), up=False) if fc in ("below", "atabove") else [0, 0]
  r_int = int(retries) if np.isfinite(retries) else -1
  obs.update(finite=finite, asym=asym, padnz=padnz, xzero=xzero, fc=fc, c05=c05, accepted=accepted)

  # ---- the events, laid out along the code path the spec derived for this case ----------
  ev = [{"a": "Mask"}]
  if case["method"] == "lobpcg":
    ev.append({"a": "Deflate"})
  lamf = float(np.float32(lam))
  if derived["lamSource"] == "hidden":
    ev.append({"a": "Estimate", "lk": "hidden", "lam": [0, 0]})
    lam_rep = None
  elif math.isfinite(lamf) and lamf >= 0:
    ev.append({"a": "Estimate", "lk": "num", "lam": dec(lamf, up=True)})
    lam_rep = lamf
  else:
    ev.append({"a": "Estimate", "lk": "nan" if math.isnan(lamf) else "inf", "lam": [0, 0]})
    lam_rep = None
  if derived["branch"] == "size1":
    ev.append({"a": "Size1"})
  elif derived["branch"] == "eigh":
    ev.append({"a": "Decompose"})
  else:
    R = max(0, min(r_int, derived["maxTries"] + 2))
    for i in range(R):
      last = (i == R - 1)
      # only the last attempt's error is visible (and only on the Newton route)
      cls = c05 if (last and derived["figure"] == "tracked_error" and not derived["allpad"]) else "unobserved"
      ev.append({"a": "Attempt", "cls": cls})
    ev.append({"a": "ExitLoop"})
    if case["method"] == "lobpcg":
      ev.append({"a": "Redeflate"})
  ev.append({"a": "Report", "fc": fc, "fig": fig, "c05": c05, "retries": r_int})
  ev.append({"a": "Return", "finite": finite, "asym": dec(asym, up=True), "padnz": padnz, "xzero": xzero,
             "figzero": bool(f32 == 0)})
  gate = {"a": "Gate", "accepted": accepted, "pi": True, "meas": {"abs": [], "rel_lam": [], "rel_floor": [], "nan": []}}
  if case["dt"] == "f64" and finite and m > 0:
    gate["meas"], raw = measure(case, derived, A, X, lam_rep)
    gate["meas"]["nan"] = []
    obs["meas_raw"] = raw
    if case["method"] == "eigh" and case["rel"] and not derived["lamBelowFloor"]:
      gate["pi"], obs["pi_lam"] = pi_premise(case, derived, A)
  ev.append(gate)
  return {"error": None, "events": ev, "obs": obs}


if __name__ == "__main__":
  core.worker_main(handle)
