"""C08 replay: blocked tensor vs its blocks as separate leaves; with vs without companions."""
import traceback

import numpy as np

from harness import core


def scale_of(ch, quick):
  return {"1": 1.0, "s": 1e-4 if quick else 1e-6, "b": 1e4 if quick else 1e6}[ch]


def layout(opt, nblocks, b, middle=False):
  """-> target shape, list of (slice tuple) per block in the optimizer's block order"""
  if nblocks == 4 and middle:
    # two blocked axes separated by a small unblocked one
    shape = (2 * b, 2, 2 * b)
    return shape, [(slice(r0, r0 + b), slice(0, 2), slice(c0, c0 + b)) for r0 in (0, b) for c0 in (0, b)]
  if nblocks == 2:
    shape = (2 * b, b); cuts = [[(0, b), (b, 2 * b)], [(0, b)]]
  elif nblocks == 3:
    if opt == "ds":
      shape = (3 * b - 1, b); cuts = [[(0, b), (b, 2 * b), (2 * b, 3 * b - 1)], [(0, b)]]
    else:
      shape = (3 * b, b); cuts = [[(0, b), (b, 2 * b), (2 * b, 3 * b)], [(0, b)]]
  else:
    shape = (2 * b, 2 * b); cuts = [[(0, b), (b, 2 * b)], [(0, b), (b, 2 * b)]]
  blocks = [(slice(*r), slice(*c)) for r in cuts[0] for c in cuts[1]]
  return shape, blocks


def make_runner(opt, o, shapes, seed, params):
  if opt == "ds":
    from harness import dsrun
    return dsrun.Runner(o, shapes, seed, params=params)
  from harness import tfrun
  return tfrun.Runner(o, shapes, seed, params=params)


def upd(opt, r, u):
  if opt == "ds":
    return {k: np.asarray(v, np.float64) for k, v in r.host_update(u).items()}
  return {k: np.asarray(v, np.float64) for k, v in u.items()}


def relb(a, b):
  s = max(np.abs(a).max(), np.abs(b).max(), 1e-30)
  return float(np.abs(a - b).max() / s)


def handle(job):
  import jax.numpy as jnp
  opt, case, seed, quick, graft = job["opt"], job["case"], job["seed"], job["quick"], job["graft"]
  b = 3
  T = job.get("T", 4)
  mism, worst = [], {"blocked_vs_leaves": 0.0, "common_factor": 0.0, "companion": 0.0}
  try:
    shape, blocks = layout(opt, case["blocks"], b, bool(job.get("middle")))
    rs = np.random.RandomState(seed)
    sc = [scale_of(case["scales"][i % len(case["scales"])], quick) for i in range(len(blocks))]
    grads_t = []
    for t in range(T):
      g = rs.standard_normal(shape).astype(np.float32)
      for bl, s in zip(blocks, sc):
        g[bl] *= np.float32(s)
      grads_t.append(g)
    p_t = rs.standard_normal(shape).astype(np.float32)
    if opt == "ds":
      o = {"mode": "rep", "block_size": b, "merge": False, "graft": graft, "beta1": 0.0, "beta2": 1.0,
           "lr": 1.0, "Start": 0, "S": 1, "P": 1, "matrix_epsilon": 2.0 ** -10, "eigh": bool(job.get("eigh", False))}
      o_none = dict(o, graft="NONE")
    else:
      o = {"so": "shampoo", "block_size": b, "merge_dims": 3, "graft": graft, "graft_decay": 0.75 if graft == "RMSPROP" else 0.0,
           "Start": 0, "SF": 1, "PF": 1, "decay": 1.0, "momentum_decay": 0.0, "lr": 1.0, "graft_eps": 1e-10}
      o_none = dict(o, graft="NONE")
    # ---- blocked run, un-grafted: direction per block -------------------------------------------
    r_bl = make_runner(opt, o_none, [shape], seed, {"p0": jnp.asarray(p_t)})
    # ---- the blocks as separate leaves -----------------------------------------------------------
    leaf_shapes = [tuple(p_t[bl].shape) for bl in blocks]
    r_lv = make_runner(opt, o_none, leaf_shapes, seed, {f"p{i}": jnp.asarray(p_t[bl]) for i, bl in enumerate(blocks)})
    # ---- blocked run with grafting: one common factor ----------------------------------------------
    r_gr = make_runner(opt, o, [shape], seed, {"p0": jnp.asarray(p_t)})
    # ---- blocked run with a companion parameter ----------------------------------------------------
    comp = {"none": None, "vector": (5,), "matrix": (7, 6), "huge": (3, 3)}[case["companion"]]
    r_cp = None
    if comp is not None:
      cp = rs.standard_normal(comp).astype(np.float32)
      r_cp = make_runner(opt, o_none, [shape, comp], seed, {"p0": jnp.asarray(p_t), "p1": jnp.asarray(cp)})
      # ... and with the companion BEFORE the target in flattening order (per-parameter quantities computed in
      # a loop over the tree must not be carried over from an earlier parameter of another rank)
      r_cb = make_runner(opt, o_none, [comp, shape], seed, {"p0": jnp.asarray(cp), "p1": jnp.asarray(p_t)})
    # ---- a SMALLER parameter alone vs next to the blocked target (its statistics get padded to the
    #      target's size in Distributed Shampoo's stacked root computation) --------------------------------
    small = (2, 2)
    p_s = rs.standard_normal(small).astype(np.float32)
    r_s1 = make_runner(opt, o_none, [small], seed, {"p0": jnp.asarray(p_s)})
    r_s2 = make_runner(opt, o_none, [small, shape], seed, {"p0": jnp.asarray(p_s), "p1": jnp.asarray(p_t)})
    # ---- the same in sharded mode with low-rank compressed roots (every statistic is padded to the largest
    #      one in the stacked global array; the padding must never reach the root of a smaller statistic) ----
    sh_runs = None
    if opt == "ds" and job.get("shard_leg"):
      o_sh = dict(o_none, mode="shard", D=1, compression_rank=[1, -1][seed % 2], block_size=16)
      s4, c8 = (4, 4), (8, 8)
      p4 = rs.standard_normal(s4).astype(np.float32); p8 = rs.standard_normal(c8).astype(np.float32)
      # ... nor may a parameter that is EXCLUDED from preconditioning (rank below skip_preconditioning_rank_lt)
      # but sits in front of the target shift the rows the target reads in the stacked global arrays
      o_sk = dict(o_sh, skip_rank_lt=2, compression_rank=0)
      pv = rs.standard_normal((6,)).astype(np.float32)
      sk_runs = (make_runner(opt, o_sk, [s4], seed, {"p0": jnp.asarray(p4)}),
                 make_runner(opt, o_sk, [(6,), s4], seed, {"p0": jnp.asarray(pv), "p1": jnp.asarray(p4)}))
      sh_runs = (make_runner(opt, o_sh, [s4], seed, {"p0": jnp.asarray(p4)}),
                 make_runner(opt, o_sh, [s4, c8], seed, {"p0": jnp.asarray(p4), "p1": jnp.asarray(p8)}), s4, c8)
    for t in range(T):
      g = grads_t[t]
      if sh_runs is not None:
        ra, rb, s4, c8 = sh_runs
        g4 = rs.standard_normal(s4).astype(np.float32); g8 = rs.standard_normal(c8).astype(np.float32)
        ua = upd(opt, ra, ra.step({"p0": jnp.asarray(g4)}))["p0"]
        ub = upd(opt, rb, rb.step({"p0": jnp.asarray(g4), "p1": jnp.asarray(g8)}))["p0"]
        gv = rs.standard_normal((6,)).astype(np.float32)
        uc = upd(opt, sk_runs[0], sk_runs[0].step({"p0": jnp.asarray(g4)}))["p0"]
        ud = upd(opt, sk_runs[1], sk_runs[1].step({"p0": jnp.asarray(gv), "p1": jnp.asarray(g4)}))["p1"]
        dsk = relb(uc, ud)
        worst["companion_sharded_compressed"] = max(worst.get("companion_sharded_compressed", 0.0), dsk)
        if not np.isfinite(dsk) or dsk > 1e-3:
          mism.append({"clause": "sharded_parameter_depends_on_skipped_parameter_before_it", "step": t, "block": 0,
                       "detail": dsk})
        d = relb(ua, ub)
        worst["companion_sharded_compressed"] = max(worst.get("companion_sharded_compressed", 0.0), d)
        if not np.isfinite(d) or d > 1e-3:
          mism.append({"clause": "sharded_compressed_parameter_depends_on_larger_companion", "step": t, "block": 0,
                       "detail": d})
      gs = rs.standard_normal(small).astype(np.float32)
      u_s1 = upd(opt, r_s1, r_s1.step({"p0": jnp.asarray(gs)}))["p0"]
      u_s2 = upd(opt, r_s2, r_s2.step({"p0": jnp.asarray(gs), "p1": jnp.asarray(g)}))["p0"]
      d = relb(u_s1, u_s2)
      worst["companion"] = max(worst["companion"], d)
      if not np.isfinite(d) or d > 1e-4:
        mism.append({"clause": "small_parameter_depends_on_larger_companion", "step": t, "block": 0, "detail": d})
      u_bl = upd(opt, r_bl, r_bl.step({"p0": jnp.asarray(g)}))["p0"]
      u_lv = upd(opt, r_lv, r_lv.step({f"p{i}": jnp.asarray(g[bl]) for i, bl in enumerate(blocks)}))
      u_gr = upd(opt, r_gr, r_gr.step({"p0": jnp.asarray(g)}))["p0"]
      for i, bl in enumerate(blocks):
        d = relb(u_bl[bl], u_lv[f"p{i}"])
        worst["blocked_vs_leaves"] = max(worst["blocked_vs_leaves"], d)
        if not np.isfinite(d) or d > 1e-4:
          mism.append({"clause": "block_update_differs_from_separate_leaf", "step": t, "block": i, "detail": d,
                       "scale": sc[i]})
      # grafted = c * un-grafted with ONE scalar c for the whole parameter
      den = float(np.vdot(u_bl, u_bl))
      if den > 0:
        c = float(np.vdot(u_gr, u_bl)) / den
        for i, bl in enumerate(blocks):
          d = relb(u_gr[bl], c * u_bl[bl])
          worst["common_factor"] = max(worst["common_factor"], d)
          if not np.isfinite(d) or d > 1e-4:
            mism.append({"clause": "graft_factor_not_common_to_blocks", "step": t, "block": i, "detail": d})
      if r_cp is not None:
        gc = rs.standard_normal(comp).astype(np.float32) * np.float32(1e6 if case["companion"] == "huge" else 1.0)
        u_cp = upd(opt, r_cp, r_cp.step({"p0": jnp.asarray(g), "p1": jnp.asarray(gc)}))["p0"]
        u_cb = upd(opt, r_cb, r_cb.step({"p0": jnp.asarray(gc), "p1": jnp.asarray(g)}))["p1"]
        for i, bl in enumerate(blocks):
          for u_c, where in ((u_cp, "after"), (u_cb, "before")):
            d = relb(u_c[bl], u_bl[bl])
            worst["companion"] = max(worst["companion"], d)
            if not np.isfinite(d) or d > 1e-4:
              mism.append({"clause": f"update_depends_on_companion_parameter_{where}_it", "step": t, "block": i,
                           "detail": d})
  except Exception as e:
    return {"mismatches": [], "worst": worst, "error": f"{type(e).__name__}: {e}",
            "kind": core.classify_exception(e), "tb": traceback.format_exc()[-2000:]}
  return {"mismatches": mism, "worst": worst, "error": None}


if __name__ == "__main__":
  core.worker_main(handle)
