"""C13 / R1 + R3a: the real batch / unbatch helpers and the real sharded init functions against the
index maps exported by spec/Devices_Gen.

job = {kind: "idx", rec}        real distributed_shampoo.batch / unbatch on id-valued arrays
      {kind: "probe"}           which unbatch variant of the spec the code implements
      {kind: "shardinit", rec}  sharded_init_fn / sharded_init_shape_and_dtype_fn: leading dimension,
                                exponent rows, index_start / sizes, identity padding rows
result = {mismatches: [{clause, detail}], error: None | {...}}  (exceptions of the code are data)
"""
import traceback

import numpy as np

import jax
import jax.numpy as jnp

from harness import core, dsrun
from precondition import distributed_shampoo as ds


def _err(e):
  return {"error": f"{type(e).__name__}: {e}"[:400], "kind": core.classify_exception(e),
          "tb": traceback.format_exc()[-1500:]}


def names_for(n):
  """Parameter names such that the pytree (sorted-key) order is the spec's tree order."""
  return sorted(f"p{i}" for i in range(n))


def numeric_shapes(tree):
  """shapes[i] for name p<i> such that flattening {p<i>: ...} visits the tree in spec order."""
  names = names_for(len(tree))
  return [tuple(tree[names.index(f"p{i}")]) for i in range(len(tree))]


def idx(rec):
  mism = []
  c = rec["cfg"]
  D, n = c["D"], rec["N"] + rec["pad"]
  m, pd = 2, 3                                   # rectangular elements: a transposition is visible
  base = np.arange(m * pd, dtype=np.float32).reshape(m, pd)
  elems = [jnp.asarray(np.float32(1000 * i) + base) for i in rec["packS"]]
  # give every padding entry its own content as well (position-coded) so that order is checked there too
  tagged = [jnp.asarray(np.float32(1000 * (q + 1)) + base) for q in range(n)]
  b = ds.batch(elems, D)
  bt = ds.batch(tagged, D)
  want_shape = (D, n // D, m, pd)
  if tuple(b.shape) != want_shape:
    mism.append({"clause": "batch_shape", "detail": [list(b.shape), list(want_shape)]})
    return mism
  rows = (np.asarray(b)[:, :, 0, 0] // 1000).astype(int).tolist()
  if rows != rec["rowsS"]:
    mism.append({"clause": "batch_rows", "detail": [rows, rec["rowsS"]]})
  if not all(np.array_equal(np.asarray(b)[r, j], np.asarray(elems[r * (n // D) + j]))
             for r in range(D) for j in range(n // D)):
    mism.append({"clause": "batch_content", "detail": None})
  # the parallel scalar lists (exponents, padding starts) are batched by the same function
  for name, lst in (("rowsE", rec["packE"]), ("rowsP", rec["packP"])):
    got = np.asarray(ds.batch(list(lst), D)).astype(int).tolist()
    if got != rec[name]:
      mism.append({"clause": "batch_" + name, "detail": [got, rec[name]]})
  # unbatch: flat row-major order, elements intact
  u = ds.unbatch(bt)
  if len(u) != n:
    mism.append({"clause": "unbatch_length", "detail": [len(u), n]})
  else:
    order = []
    for q, v in enumerate(u):
      v = np.asarray(v)
      if v.shape != (m, pd):
        mism.append({"clause": "unbatch_element_shape", "detail": [list(v.shape), [m, pd]]})
        break
      order.append(int(v[0, 0] // 1000))
      if not np.array_equal(v, np.asarray(tagged[order[-1] - 1]) if 1 <= order[-1] <= n else None):
        mism.append({"clause": "unbatch_content", "detail": q})
        break
    else:
      if order != list(range(1, n + 1)):
        mism.append({"clause": "unbatch_order", "detail": order})
      ids = [rec["packS"][q - 1] for q in order]
      if ids != rec["flat"]:
        mism.append({"clause": "unbatch_ids", "detail": [ids, rec["flat"]]})
  # metrics leaves are [D, b] arrays of scalars: same function, no trailing axes
  sc = ds.unbatch(jnp.asarray(np.arange(1, n + 1, dtype=np.float32).reshape(D, n // D)))
  got = [float(np.asarray(x)) if np.asarray(x).shape == () else None for x in sc]
  if got != [float(q) for q in range(1, n + 1)]:
    mism.append({"clause": "unbatch_scalars", "detail": got})
  return mism


def probe():
  """Element shapes coming out of the real unbatch for 1x1 elements (spec: cfg.unbatch)."""
  out = {}
  for (D, b) in ((1, 1), (1, 3), (2, 1), (2, 2)):
    x = [jnp.full((1, 1), float(i)) for i in range(D * b)]
    u = ds.unbatch(ds.batch(x, D))
    out[f"{D}x{b}"] = [list(np.asarray(v).shape) for v in u]
  return out


def shardinit(rec):
  mism = []
  c = rec["cfg"]
  D, N = c["D"], rec["N"]
  tree = c["tree"]
  shapes = numeric_shapes(tree)
  names = names_for(len(tree))
  o = {"mode": "shard", "D": D, "block_size": c["B"], "merge": False, "compression_rank": c["crank"]}
  opt, _ = dsrun.make_optimizer(o)
  params = {f"p{i}": jnp.zeros(s, jnp.float32) for i, s in enumerate(shapes)}
  fns = opt.init(None)
  st = fns.init_fn(params)
  gs = st.stats.global_stats
  rows = N + rec["pad"]
  got_rows = [int(gs.statistics.shape[0]), int(gs.preconditioners.shape[0]), int(gs.exponents.shape[0])]
  if got_rows != [rows] * 3:
    mism.append({"clause": "global_rows", "detail": [got_rows, rows]})
    return mism
  if np.asarray(gs.exponents).astype(int).tolist() != rec["packE"]:
    mism.append({"clause": "exponent_rows", "detail": [np.asarray(gs.exponents).tolist(), rec["packE"]]})
  M = int(gs.statistics.shape[1])
  if N > 0 and M != rec["maxsize"]:
    mism.append({"clause": "max_size", "detail": [M, rec["maxsize"]]})
  for k, name in enumerate(names):
    ls = st.stats.local_stats[name]
    if int(ls.index_start) != rec["starts"][k] or [int(s) for s in ls.sizes] != [
        r["ps"] for r in rec["per"][k]]:
      mism.append({"clause": "index_start_sizes", "detail": [name, int(ls.index_start), list(ls.sizes),
                                                             rec["starts"][k], rec["per"][k]]})
  eye = np.eye(M, dtype=np.float32)
  for r in range(N, rows):
    if not np.array_equal(np.asarray(gs.statistics[r]), eye):
      mism.append({"clause": "padding_row_not_identity", "detail": r})
  # the declared shapes must describe the same arrays
  decl = fns.shape_and_dtype_fn(params)
  dg = decl.stats.global_stats
  if [dg.statistics[0][0], dg.preconditioners[0][0], dg.exponents[0][0]] != [rows] * 3:
    mism.append({"clause": "declared_rows", "detail": [dg.statistics[0], dg.preconditioners[0],
                                                      dg.exponents[0], rows]})
  if list(dg.statistics[0]) != list(gs.statistics.shape) or list(dg.preconditioners[0]) != list(
      gs.preconditioners.shape):
    mism.append({"clause": "declared_shape", "detail": [dg.statistics[0], list(gs.statistics.shape),
                                                       dg.preconditioners[0], list(gs.preconditioners.shape)]})
  return mism


def handle(job):
  try:
    if job["kind"] == "probe":
      return {"mismatches": [], "error": None, "probe": probe()}
    fn = idx if job["kind"] == "idx" else shardinit
    return {"mismatches": fn(job["rec"]), "error": None}
  except Exception as e:  # raised by the code under test: data, not a crash
    return {"mismatches": [], "error": _err(e)}


if __name__ == "__main__":
  core.worker_main(handle)
