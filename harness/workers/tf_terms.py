"""Numeric replay of TFTerms_Gen behaviours (C15)."""
import traceback

import numpy as np

from harness import core, tfrun, reftf
from harness.refds import dy


def handle(job):
  cfg, geo, steps, seed = job["cfg"], job["geo"], job["steps"], job["seed"]
  x64 = job.get("x64", True)
  dtype = np.float64 if x64 else np.float32
  so = geo["so"]
  shapes = [tuple(s) for s in geo["shapes"]]
  target = geo.get("target", 0)
  T = len(steps)
  o = {"so": so, "graft": cfg["graft"], "graft_decay": dy(cfg["gd"]) if cfg["graft"] == "RMSPROP" else (0.75 if cfg["graft"] == "ADAFACTOR" else 0.0),
       "Start": cfg["start"], "ema": cfg["ema"], "nesterov": cfg["nest"], "momentum_decay": dy(cfg["md"]),
       "weight_decay": dy(cfg["wd"]), "wd_after": cfg["wdafter"], "lr": dy(cfg["lr"]),
       "lr_sched": "none" if cfg["lrs"] == "const" else "lin8", "SF": cfg["SF"], "PF": cfg["PF"] if so == "shampoo" else cfg["SF"],
       "decay": dy(cfg["b2"]), "block_size": geo["block"], "merge_dims": geo["merge"], "rank": geo.get("rank", 2),
       "graft_eps": 1e-10, "sk_eps": geo.get("sk_eps", 1e-7), "sk_rel": geo.get("sk_rel", True),
       "skip_rank1": True, "skip_dim_gt": geo.get("skip_dim_gt", 4096), "add_ggt": geo.get("add_ggt", False),
       "multiply_by_parameter_scale": bool(geo.get("mbps", False))}
  mism, worst = [], {"update": 0.0, "lr_linearity_ulps": 0.0}
  tol = 1e-9 if x64 else 1e-4
  try:
    import jax.numpy as jnp
    params0 = None
    if geo.get("param_scale"):        # e.g. freshly (near-)zero initialised parameters: RMS far below 1e-3
      rsp = np.random.RandomState(seed + 977)
      params0 = {f"p{i}": jnp.asarray((rsp.standard_normal(s_) * geo["param_scale"]).astype(dtype))
                 for i, s_ in enumerate(shapes)}
    r = tfrun.Runner(o, shapes, seed, dtype=dtype, params=params0)
    r2 = tfrun.Runner(dict(o, lr=2 * o["lr"]), shapes, seed, dtype=dtype, params=params0)
    grads = tfrun.make_grads(shapes, ["ok"] * T, seed, dtype=dtype)
    if geo.get("tie_first") and len(shapes[target]) == 2:
      # embedding-like first gradient: orthogonal one-hot columns of equal magnitude, so the singular
      # values are exactly tied at the sketch cut-off (directions deflated to exactly zero)
      nm = f"p{target}"
      a = np.zeros(shapes[target], dtype)
      for i in range(min(shapes[target])):
        a[i, i] = 1.0
      grads[0] = dict(grads[0]); grads[0][nm] = jnp.asarray(a)
    if geo.get("row_scale"):      # per-block gradient scale disparity (rows a..b of the target times f)
      nm = f"p{target}"
      for g in grads:
        a = np.array(g[nm])
        for (lo, hi, f) in geo["row_scale"]:
          a[lo:hi] = a[lo:hi] * dtype(f)
        g[nm] = jnp.asarray(a)
    if geo.get("zero_rows_first"):      # a block that sees no gradient during the first steps: its covariance is
      nm = f"p{target}"                 # exactly zero at the first refresh, so is its (pseudo-inverse) root
      lo, hi, nsteps = geo["zero_rows_first"]
      for g in grads[:nsteps]:
        a = np.array(g[nm]); a[lo:hi] = 0
        g[nm] = jnp.asarray(a)
    name = f"p{target}"
    shape = shapes[target]
    param = np.asarray(r.params[name], np.float64)
    G = [np.asarray(g[name], np.float64) for g in grads]
    S_sym, F_sym = {}, {}
    if so == "shampoo":
      ref = reftf.Shampoo(shape, geo["merge"], geo["block"])
      gram = [ref.grams(g) for g in G]
    else:
      m = reftf.merge_dims(shape, geo["merge"])
      mshape = tuple() if m == [1] else tuple(m)
      p = 2 * len(mshape)
      axes = [reftf.SketchyAxis(d, o["rank"], dy(cfg["b2"]), o["sk_eps"], o["sk_rel"], p) for d in mshape]
    adaf = None
    if cfg["graft"] == "ADAFACTOR":
      import optax
      adaf = optax.adafactor(min_dim_size_to_factor=128, decay_rate=0.75,
                             multiply_by_parameter_scale=bool(geo.get("mbps", False)),
                             eps=1e-10, clipping_threshold=1.0)
      adaf_state = adaf.init(r.params[name])
    for t in range(T):
      st = steps[t]
      s = t + 1
      u = np.asarray(r.step(grads[t])[name], np.float64)
      u2 = np.asarray(r2.step(grads[t])[name], np.float64)
      # ---- graft step F(s) -----------------------------------------------------------------
      g = G[t]
      if cfg["graft"] in ("SGD", "NONE"):
        F = g
      elif cfg["graft"] == "RMSPROP":
        F = reftf.rmsprop_step(g, G[:s], [dy(x) for x in st["gacc"]][:s], 1e-10)
      else:
        upd_af, adaf_state = adaf.update(grads[t][name], adaf_state, r.params[name])
        F = -np.asarray(upd_af, np.float64)
      F_sym[s] = F
      # ---- second-order direction --------------------------------------------------------------
      if not (cfg["skipped"] and cfg["graft"] != "NONE"):
        if so == "shampoo":
          coefs = [dy(x) for x in st["root"]]
          roots = []
          for bi in range(len(ref.blocks)):
            per = []
            for a in range(len(ref.shape)):
              c = sum(coefs[k] * gram[k][bi][a] for k in range(T) if coefs[k] != 0.0)
              c = c if not isinstance(c, int) else np.zeros_like(gram[0][bi][a])
              per.append(reftf.pinv_root(c, ref.p) if np.any(c) else (np.eye(gram[0][bi][a].shape[0]) if all(x == 0 for x in coefs) else np.zeros_like(gram[0][bi][a])))
            roots.append(per)
          d = ref.apply(g, roots) if len(ref.shape) else g
        else:
          gm = g.reshape(mshape)
          if (s - 1) % cfg["SF"] == 0:
            for a, ax in enumerate(axes):
              ax.update(np.moveaxis(gm, a, 0).reshape(mshape[a], -1))
          d = gm
          for a, ax in enumerate(axes):
            d = np.moveaxis(np.tensordot(ax.matrix(), d, axes=[[1], [a]]), 0, a)
          d = d.reshape(shape)
        if cfg["graft"] != "NONE":
          nd = np.linalg.norm(d)
          d = d * (np.linalg.norm(F) / nd) if nd > 0 else np.zeros_like(d)
        S_sym[s] = d
      refu = dy(st["upd"]["X"]) * param
      for s2 in range(1, T + 1):
        cS, cF = dy(st["upd"]["S"][s2 - 1]), dy(st["upd"]["F"][s2 - 1])
        if cS != 0.0:
          refu = refu + cS * S_sym[s2]
        if cF != 0.0:
          refu = refu + cF * F_sym[s2]
      scale = max(np.abs(refu).max(), np.abs(u).max(), 1e-30)
      dd = float(np.abs(refu - u).max() / scale)
      worst["update"] = max(worst["update"], dd)
      if not np.isfinite(dd) or dd > tol:
        mism.append({"clause": "update_differs_from_documented_composition", "step": t, "detail": dd})
      # exact linearity in the learning rate (2x is exact in binary floating point)
      ulp = np.spacing(np.abs(u2).astype(dtype)).astype(np.float64)
      lin = float(np.max(np.abs(u2 - 2.0 * u) / np.maximum(ulp, 1e-300))) if u.size else 0.0
      worst["lr_linearity_ulps"] = max(worst["lr_linearity_ulps"], lin)
      if lin > 2.0:
        mism.append({"clause": "update_not_linear_in_learning_rate", "step": t, "detail": lin})
  except Exception as e:
    return {"mismatches": [], "worst": worst, "error": f"{type(e).__name__}: {e}",
            "kind": core.classify_exception(e), "tb": traceback.format_exc()[-2000:]}
  return {"mismatches": mism, "worst": worst, "error": None}


if __name__ == "__main__":
  core.worker_main(handle)
