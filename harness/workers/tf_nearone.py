"""C15, numeric leg for a decay very close to (but not) 1: Tearfree Shampoo without grafting vs float64 closed form."""
import traceback

import numpy as np

from harness import core, reftf, tfrun


def handle(job):
  d, shape, T, seed = job["d"], tuple(job["shape"]), job["T"], job["seed"]
  out = {"error": None, "worst": 0.0, "step": -1}
  try:
    o = {"so": "shampoo", "graft": "NONE", "Start": 0, "SF": 1, "PF": 1, "decay": d, "block_size": 1024,
         "merge_dims": 2, "momentum_decay": 0.0, "lr": 0.5}
    r = tfrun.Runner(o, [shape], seed, dtype=np.float64)
    grads = tfrun.make_grads([shape], ["ok"] * T, seed, dtype=np.float64)
    C = [np.zeros((n, n)) for n in shape]
    p = 2 * len(shape)
    for t in range(T):
      g = np.asarray(grads[t]["p0"], np.float64)
      u = np.asarray(r.step(grads[t])["p0"], np.float64)
      ref = g
      for a, n in enumerate(shape):
        m = np.moveaxis(g, a, 0).reshape(n, -1)
        C[a] = d * C[a] + (1.0 - d) * (m @ m.T)
      for a, n in enumerate(shape):
        ref = np.moveaxis(np.tensordot(reftf.pinv_root(C[a], p), ref, axes=[[1], [a]]), 0, a)
      ref = -0.5 * ref
      dev = float(np.abs(u - ref).max() / max(np.abs(ref).max(), 1e-300))
      if dev > out["worst"]:
        out["worst"], out["step"] = dev, t
  except Exception as e:
    out["error"] = f"{type(e).__name__}: {e}"[:300]
    out["tb"] = traceback.format_exc()[-1500:]
  return out


if __name__ == "__main__":
  core.worker_main(handle)
