"""Coefficient probing of the real Tearfree optimizer in its linear regime (code -> spec traces)."""
import contextlib
import io
import traceback

import numpy as np

from harness import core, tfrun
from harness.refds import dy
from harness.workers.ds_probe import dyadic


def handle(job):
  cfg, T, seed = job["cfg"], job["T"], job["seed"]
  masked = cfg["skipped"]
  shape = (5,) if masked else (2, 3)        # a rank-1 parameter is masked out of preconditioning
  o = {"so": job.get("so", "shampoo"), "graft": "SGD", "Start": cfg["start"] if masked else 10 ** 6,
       "ema": cfg["ema"], "nesterov": cfg["nest"], "momentum_decay": dy(cfg["md"]),
       "weight_decay": dy(cfg["wd"]), "wd_after": cfg["wdafter"], "lr": dy(cfg["lr"]),
       "lr_sched": "none" if cfg["lrs"] == "const" else "lin8", "SF": cfg["SF"], "PF": cfg["PF"],
       "decay": dy(cfg["b2"]), "block_size": 1024, "merge_dims": 3, "rank": 2, "skip_rank1": True}
  if o["so"] == "sketchy":
    o["PF"] = o["SF"]
  try:
    import jax.numpy as jnp
    E = np.zeros(shape, np.float32); E.reshape(-1)[1] = 1.0
    Z = np.zeros(shape, np.float32)
    r = tfrun.Runner(o, [shape], seed, params={"p0": jnp.asarray(Z)})

    def run(grads, param):
      r.params = {"p0": jnp.asarray(param)}
      with contextlib.redirect_stdout(io.StringIO()):
        r.state = r.tx.init(r.params)
      return [np.asarray(r.step({"p0": jnp.asarray(g)})["p0"]) for g in grads]

    coef = [[None] * T for _ in range(T)]
    ok = True
    for s in range(T):
      outs = run([E if t == s else Z for t in range(T)], Z)
      for t in range(T):
        c = float(outs[t].reshape(-1)[1])
        ok = ok and float(np.abs(outs[t] - c * E).max()) == 0.0
        coef[t][s] = dyadic(c)
    outs = run([Z] * T, E)
    cx = []
    for t in range(T):
      c = float(outs[t].reshape(-1)[1])
      ok = ok and float(np.abs(outs[t] - c * E).max()) == 0.0
      cx.append(dyadic(c))
  except core.MachineryError:
    raise
  except Exception as e:
    return {"trace": None, "error": f"{type(e).__name__}: {e}", "kind": core.classify_exception(e),
            "tb": traceback.format_exc()[-1500:]}
  tcfg = dict(cfg, graft="SGD", start=(cfg["start"] if masked else 100))
  return {"trace": {"cfg": tcfg, "T": T, "coef": coef, "cx": cx, "events": [0] * T}, "structure_ok": ok,
          "error": None}


if __name__ == "__main__":
  core.worker_main(handle)
