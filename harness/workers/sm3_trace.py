"""Recording of real precondition.sm3.sm3 runs as traces for SM3_Trace (code -> spec).

job = {kind: "grid"|"float", shape, T, seed, lr, beta1, wd, normalize, eps,
       grid: bn, bd, lo, hi           (integer gradients in lo..hi, beta2 = bn/bd)
       float: beta2, scale}
result = {trace: {cfg, events, meta}, worst: {...}, error}

grid traces log gradients and accumulators (times bd^count: exact integers); float traces
log, per update, how many coordinates contradict the C12 inequalities against an exact
float64 recursion, with a one-sided margin: a comparison counts as violated only if it
fails by more than MARGIN (relative), so rounding of the float32 implementation can never
cause a rejection, and a genuine min/max confusion (an O(1) relative effect) always does.
"""
import traceback

import numpy as np

from harness import core

MARGIN = 1e-4
TINY = 1e-30


def _grads(job, rs, shape, t):
  if job["kind"] == "grid":
    return rs.randint(job["lo"], job["hi"] + 1, size=shape).astype(np.float32)
  if job.get("pow2"):
    # long low-precision histories: every gradient and its square are exact in bfloat16 / float16
    return rs.choice([0.0, 1.0, -1.0, 2.0, -2.0, 0.5, -0.5], size=shape).astype(np.float32)
  g = rs.standard_normal(shape) * job["scale"]
  mode = rs.randint(6)
  if mode == 0:                       # sparse
    g = g * (rs.rand(*shape) < 0.3)
  elif mode == 1:                     # one dominant slice
    a = rs.randint(len(shape))
    sl = [slice(None)] * len(shape)
    sl[a] = rs.randint(shape[a])
    g[tuple(sl)] *= 50.0
  elif mode == 2:                     # wide dynamic range
    g = g * np.exp(rs.uniform(-6, 6, size=shape))
  return g.astype(np.float32)


def handle(job):
  import jax
  import jax.numpy as jnp
  from precondition import sm3 as sm3_lib

  shape = tuple(job["shape"])
  rank = len(shape)
  rs = np.random.RandomState(job["seed"])
  grid = job["kind"] == "grid"
  beta2 = (job["bn"] / job["bd"]) if grid else job["beta2"]
  w2 = (1.0 - beta2) if beta2 != 1.0 else 1.0
  lr, eps = job["lr"], job["eps"]
  out = {"trace": None, "worst": {"cover": -1.0, "rank1": 0.0, "step": -1.0}, "error": None}
  try:
    opt = sm3_lib.sm3(lr, beta1=job["beta1"], beta2=beta2, diagonal_epsilon=eps,
                      weight_decay=job["wd"], normalize_grads=job["normalize"])
    p = rs.standard_normal(shape).astype(np.float32)
    pdt = jnp.dtype(job.get("pdtype", "float32"))       # parameter (and gradient) dtype
    params = {"w": jnp.asarray(p).astype(pdt)}
    # a companion tensor in the same tree (its gradients live on another, changing scale): everything the
    # property says is per tensor - normalisation included - so "w" must behave as if it were alone
    comp = bool(job.get("companion"))
    if comp:
      params["z"] = jnp.asarray(rs.standard_normal((3, 2)).astype(np.float32)).astype(pdt)
    def tree(gw, t):
      if not comp:
        return {"w": gw}
      gz = (np.random.RandomState(job["seed"] + 31 * t).standard_normal((3, 2)) * 10.0 ** ((t % 5) - 2)).astype(np.float32)
      return {"w": gw, "z": jnp.asarray(gz).astype(pdt)}
    state = opt.init(params)
    # eager jobs call the transformation op by op and throw one result away first (a dry run / look-ahead
    # from the same state object): update must not write into the state it is given
    eager = bool(job.get("eager"))
    upd = opt.update if eager else jax.jit(opt.update)
    exact = np.zeros(shape, np.float64)
    prev = [np.zeros(s, np.float64) for s in shape]
    events = []
    for t in range(job["T"]):
      g = _grads(job, rs, shape, t)
      cb = int(np.asarray(state.count))
      gj = jnp.asarray(g).astype(pdt)
      g = np.asarray(gj.astype(jnp.float32))            # what the optimizer was given, exactly
      if eager:
        upd(tree(gj, t), state, params)
      u, state = upd(tree(gj, t), state, params)
      ca = int(np.asarray(state.count))
      accs = [np.asarray(a, np.float64) for a in state.stats["w"].diagonal_statistics]
      if grid:
        den = float(job["bd"]) ** ca
        scaled = [a * den for a in accs]
        exactint = all(np.all(s == np.round(s)) and np.all(np.abs(s) < 2 ** 30) for s in scaled)
        events.append({"a": "update", "cb": cb, "ca": ca, "g": [int(v) for v in g.reshape(-1)],
                       "acc": [[int(round(v)) if np.isfinite(v) and abs(v) < 2 ** 30 else -1
                                for v in s] for s in scaled],
                       "exactint": bool(exactint)})
      else:
        g64 = g.astype(np.float64)
        if job["normalize"]:
          g64 = g64 / (np.linalg.norm(g64) + 1e-16)
        exact = beta2 * exact + w2 * g64 * g64
        ok_shapes = len(accs) == rank and all(a.shape == (s,) for a, s in zip(accs, shape))
        if not ok_shapes:
          events.append({"a": "fupdate", "cb": cb, "ca": ca, "cover": exact.size, "mono": 0,
                         "decay": 0, "r1": 0, "step": 0})
          continue
        mn = None
        for a in range(rank):
          sh = [1] * rank
          sh[a] = shape[a]
          b = np.broadcast_to(accs[a].reshape(sh), shape)
          mn = b if mn is None else np.minimum(mn, b)
        slack = (exact - mn) / np.maximum(exact, TINY)       # > 0: accumulators below exact
        cover = int(np.sum(mn < exact * (1 - MARGIN) - TINY))
        out["worst"]["cover"] = max(out["worst"]["cover"], float(slack.max()))
        mono = int(sum(np.sum(a < b) for a, b in zip(accs, prev)))
        decay = int(sum(np.sum(a < beta2 * b * (1 - MARGIN) - TINY) for a, b in zip(accs, prev)))
        r1 = 0
        if rank == 1:
          d = np.abs(accs[0] - exact) / np.maximum(exact, TINY)
          d = np.where(exact > 1e-25, d, 0.0)
          out["worst"]["rank1"] = max(out["worst"]["rank1"], float(d.max()))
          r1 = int(np.sum(d > MARGIN))
        step = 0
        if job["beta1"] == 0.0 and job["wd"] == 0.0:
          lim = lr * np.abs(g64) / np.sqrt(exact + eps)
          got = np.abs(np.asarray(u["w"], np.float64))
          ex = (got - lim) / np.maximum(lim, TINY)
          ex = np.where(lim > 1e-25, ex, np.where(got > 1e-25, 1.0, 0.0))
          out["worst"]["step"] = max(out["worst"]["step"], float(ex.max()))
          step = int(np.sum(ex > MARGIN))
        prev = accs
        events.append({"a": "fupdate", "cb": cb, "ca": ca, "cover": cover, "mono": mono,
                       "decay": decay, "r1": r1, "step": step})
    cfg = {"shape": list(shape), "bn": job.get("bn", 1), "bd": job.get("bd", 1),
           "b2one": bool(beta2 == 1.0)}
    out["trace"] = {"cfg": cfg, "events": events,
                    "meta": {k: job[k] for k in job if k not in ("shape",)}}
  except Exception as e:
    out["error"] = f"{type(e).__name__}: {e}"[:500]
    out["kind"] = core.classify_exception(e)
    out["tb"] = traceback.format_exc()[-1500:]
  return out


if __name__ == "__main__":
  core.worker_main(handle)
